import json, re, sys, os
sys.path.insert(0, '/verif/docs'); sys.path.insert(0, '/verif/bin')
from notes import NOTES
src = open('/verif/bin/mkmanifest.py').read()
# evaluate the table T from mkmanifest without running the rest
head = src[:src.index("props = [json.loads")]
ns = {'__file__': '/verif/bin/mkmanifest.py'}
exec(head, ns)
T = ns['T']
props = {json.loads(l)['id']: json.loads(l) for l in open('/verif/properties.jsonl')}
mat = json.load(open('/verif/seeded/MATRIX.json'))
def thms(pid):
    txt = open('/verif/coq/theories/Props_%s.v' % pid).read()
    txt = re.sub(r"\(\*.*?\*\)", "", txt, flags=re.S)
    return re.findall(r"^\s*(?:Theorem|Corollary)\s+([A-Za-z0-9_']+)", txt, flags=re.M)
out = []
out.append("## 7. Per property\n")
out.append("Each subsection: **Model** · **Theorems** (names as in `Props_Cxx.v`; \"∀\" always means an unbounded Coq quantifier) · **Tie** (regenerated facts and correspondence) · **Seeded change** and what fired · **Modelled, not verified** · remarks.\n")
out.append("### 7.0 Which check catches which seeded change\n")
out.append("A hundred and twenty breaking changes were produced in six rounds (`-a` … `-f`) by fresh sub-agents that were given only the property text and a scratch worktree (nothing from /verif; later rounds were also told the one-line ideas already used, to force a different mechanism; the fifth and sixth rounds were in addition asked to prefer changes of a value, an expression, an argument or a constant over changes of branch / lock / goroutine structure — aimed at what the code skeletons of section 4.12 leave out); each compiles, passes the 68 tests, and fails a demo test that passes on the unchanged tree (`seeded/<id>/meta.json` records the confirmation). `bin/seed_matrix` applies each to /repo's working tree, runs the *quick* check of its property, records what fired, and undoes it (`seeded/MATRIX.json`). \"obligation\" = a regenerated-fact theorem in `Props_Cxx.v` no longer compiles; \"model\" = the implementation's observations are not an execution of the model (trace rejected / outputs differ); \"oracle\" = the property stated directly on the observations fails (this is what supplies the concrete replay).\n")
out.append("| change | what it does | obligation | model | oracle | first violation reported |")
out.append("|---|---|---|---|---|---|")
SUM = {
 "C01-a": "`UseNumber()` on the server's parameter decoder: numbers in `interface{}` positions reach the method as `json.Number`",
 "C02-a": "request id counter moved into the per-method descriptor: ids unique per method only",
 "C03-a": "fail-fast check hoisted to notifications too; an internal cancel request is dropped and a call then waits for ever at close",
 "C04-a": "HTTP client re-sends the request itself when a reused keep-alive connection reports EOF",
 "C05-a": "a normal-closure close frame no longer records the connection error: the loop exits instead of reconnecting",
 "C06-a": "cancellation of an established subscription sends the channel id instead of the request id",
 "C07-a": "forwarder removes a closed channel order-preservingly from `cases` but by swap from `caseToID`",
 "C08-a": "the mirror image: swap-remove from `cases`, order-preserving from `caseToID`",
 "C09-a": "params not decoded for zero-parameter methods: wrong arity runs the method",
 "C10-a": "size limit compared with the trimmed body: an oversize body padded with whitespace is served",
 "C11-a": "client tries marshalable before codec for a type that is both",
 "C12-a": "arity and array checks skipped for zero-parameter methods",
 "C13-a": "recover handler re-panics on `http.ErrAbortHandler`",
 "C14-a": "ping handler answers with `WriteMessage` (not `WriteControl`) from the reader goroutine, outside `writeLk`",
 "C15-a": "`stopPings` waits for the pinger goroutine, which may be blocked in a write: teardown (and the cancellation of handlers) hangs",
 "C16-a": "a failed write removes the request from `inflight` without failing it: the reverse caller hangs when the client is gone",
 "C17-a": "`resetReadDeadline` moved after `NextReader` returns: a fresh connection has no deadline armed",
 "C18-a": "shutdown check moved before the backoff sleep: the redial goroutine dials after the closer returned",
 "C19-a": "`WithPerm(nil)` no longer attaches: a caller with an explicitly empty (nil) set falls back to the defaults",
 "C20-a": "one `*url.URL` shared by all reader-parameter uploads: concurrent uploads go to each other's stream",
}
SUM.update({
 "C01-b": "the server reuses one decode target for consecutive parameters of the same type: maps, slices, pointers and omitted fields of the second are merged with the first",
 "C02-b": "the frame executor reuses one frame (and its result buffer) for every message: a result still queued for one caller is overwritten by the next response",
 "C03-b": "`c.exiting` points at the closer's channel instead of the loop's: when the loop ends on its own (no-reconnect client after a fault, constructor context cancelled) later calls block until the closer is called",
 "C04-b": "one reflect argument slice per method, shared by concurrent calls: two overlapping calls run with each other's arguments (one token runs twice, the other never)",
 "C05-b": "backoff sleep only after a *failed* dial: a peer that accepts and drops at once is redialled in a tight loop",
 "C06-b": "small `xrpc.cancel` frames are served straight from the reader goroutine: a cancel sent right behind its request overtakes it and is lost",
 "C07-b": "the client decodes every stream element into one reused value: non-scalar elements arrive merged with earlier ones",
 "C08-b": "the client's buffering goroutine `continue`s past the close check: a channel closed while values are still buffered is never closed for the caller",
 "C09-b": "`bytes.TrimSpace` replaced by a cutset without `\\r`: a CRLF-padded batch is answered with a single parse error",
 "C10-b": "the client's handler variable becomes a typed nil: a call frame sent to a client without reverse handlers dereferences nil and kills the process",
 "C11-b": "`createError` looks for a registered code along the `Unwrap` chain: a wrapped registered error is no longer transported as the unregistered error it is",
 "C12-b": "`AliasMethod` copies the target's entry under the alias when the target exists: an alias spelled like a direct method overwrites it",
 "C13-b": "the recover handler calls `reflect.Value.IsNil` on the panic value: runtime errors (string / struct kinds) make the recovery itself panic",
 "C14-b": "the close handshake no longer takes `writeLk` (`WriteControl` + `Close`): a message being written in fragments is torn",
 "C15-b": "teardown waits for all handler goroutines before the connection context is cancelled: a notification handler waiting for its context is never released",
 "C16-b": "the request channel gets a 16-slot buffer: requests handed over while the loop is busy are orphaned when the loop ends",
 "C17-b": "the read deadline is renewed at the top of the main loop, i.e. also by the client's own sends: a silent peer is never detected while the client keeps calling",
 "C18-b": "the close check of the client's buffering goroutine uses a stale `front`: a channel with values still buffered at client close is never closed",
 "C19-b": "the verifier is skipped when the token after `Bearer ` is empty: `Authorization: Bearer ` is treated as no token at all",
 "C20-b": "`waitReadCloser` counts down `ContentLength` and reports EOF at zero: chunked uploads (length -1) end after their first read",
})
SUM.update({
 "C01-c": "a 'fast path' in `param.MarshalJSON` writes int / uint / bool *kinds* with strconv: named scalar types with their own `MarshalJSON` are sent as the bare scalar",
 "C02-c": "error responses are exempted from the response-id check of the HTTP and custom clients: a call handed another call's error returns it as its own",
 "C03-c": "`tryReconnect` no longer records the connection error itself (a disguised revert of the F-C03 repair)",
 "C04-c": "untagged methods without an error result are re-sent after the temporary connection error",
 "C05-c": "`eTempWSError` renumbered to -32099 while `NewErrors` keeps the literal -1111111: the connection error no longer maps to `*RPCConnectionError`",
 "C06-c": "a subscribing call stops watching its context while it is in flight: cancelling it before the channel response sends no cancel request",
 "C07-c": "the client's buffering goroutine stops accepting values once 8192 are undelivered: a stalled subscriber blocks the whole connection",
 "C08-c": "`closeChans` detaches all handlers and calls their sinks without the per-handler mutex: a close can overlap a value in delivery (send on closed channel)",
 "C09-c": "batch elements whose id has an invalid type are skipped like notifications instead of being answered with an id-null error",
 "C10-c": "`xrpc.ch.val` loses its own length check in a refactoring: `[chid]` for a registered channel indexes an empty slice and kills the process",
 "C11-c": "`JSONRPCError.UnmarshalJSON` keeps `data` as raw JSON: codec errors that read their data back as the type they sent fail to convert",
 "C12-c": "method lookup follows alias chains (up to 8 hops): an alias of an alias runs a method where not-found is due",
 "C13-c": "the recovered panic value is attached as error `data`: a value encoding/json cannot marshal makes the whole error reply unencodable (no reply over ws)",
 "C14-c": "`sendRequest` encodes into a pooled buffer that is returned to the pool before the bytes are written: concurrent senders overwrite each other's message",
 "C15-c": "`handleOutChans` drains its channels after the connection ended instead of returning: a producer that stops without closing leaves the goroutine behind",
 "C16-c": "the reverse client's formatter is captured when `WithReverseClient` is applied: listed before the formatter option it uses the default one",
 "C17-c": "`setupPings` runs before the redialled connection is installed: its pong / ping handlers stay on the dead connection, the new link is dropped every timeout",
 "C18-c": "client-side value delivery no longer takes the handler mutex: closing the client during a delivery panics with send on closed channel",
 "C19-c": "the HTTP handler attaches a (nil) permission set to token-less requests too: the proxy's defaults no longer apply to anonymous callers",
 "C20-c": "a read that returns data together with EOF is split into (n, nil) and a later error: after the upload completed the later read reports a closed body instead of EOF",
})
SUM.update({
 "C01-d": "a zero-valued result is not boxed and goes out as `null` (`IsZero`): `-0.0`, empty-but-non-nil values and zero values with their own marshaler arrive changed",
 "C02-d": "'back-pressure': the connection loop stops taking requests while 256 are in flight; with more concurrent callers whose handlers wait for one another nothing ever returns",
 "C03-d": "the retry back-off becomes `select { time.After / ctx.Done() }`: for a retry-tagged method without a context parameter `ctx` is nil and the call panics instead of returning",
 "C04-d": "requests after which no frame arrived are kept at a reconnect and written again on the new connection: an untagged call runs twice",
 "C05-d": "`sleepCtx` between retry attempts returns at once for a nil context: retry-tagged methods without a context parameter surface the connection error although the link heals",
 "C06-d": "a 'leak fix' releases the handler context when an output channel closes, through a request-id slice that is not truncated: closing a later subscription cancels an older, open one",
 "C07-d": "once the server has closed a stream the client drops what is still buffered after 5 s without a read: a consumer that comes back later loses values",
 "C08-d": "`handleCtxAsync` deletes `chanHandlers[chid]` when its context ends: after a reconnect the id belongs to a new subscription, which then never receives nor closes",
 "C09-d": "the empty-body check moved before the trimming: a body of white space only is answered -32700 / 500 instead of -32600 / 400",
 "C10-d": "blank frames are dropped in `readFrame` before the reader is re-armed: one blank frame and the connection reads nothing any more",
 "C11-d": "`createError` returns the generic error early for types that are not in the server's table: codec-style errors lose the code, message and data they supply themselves",
 "C12-d": "the client trims a leading `.` from the method name when its namespace is empty: it asks for `Foo` where the server registered `.Foo`",
 "C13-d": "the recover handler logs the stack once per method name, remembered in an unlocked package-level map: handlers panicking together under different names kill the process",
 "C14-d": "notifications and cancel messages are written by the loop without `writeLk`",
 "C15-d": "`handleChanOut` checks `exiting` once and then blocks on `registerCh`: a handler handing over its channel while the forwarder is busy is retained when the connection ends",
 "C16-d": "the reverse client struct is built once per option instead of per connection: every connection's reverse calls go out on the latest connection",
 "C17-d": "`WithTimeout` raises values below 2 x (current ping interval) + 1 s: listed before `WithPingInterval` a 300 ms timeout becomes 11 s",
 "C18-d": "`handleResponse` removes the in-flight entry at lookup: a response that cannot be used (a subscribing call answered with a non-number) leaves a call that no close releases",
 "C19-d": "the `token` query parameter takes precedence over the Authorization header",
 "C20-d": "the rendezvous lookup under `RLock`, the creation under `Lock` without looking again: upload and request arriving within a few hundred ns of one another never meet",
})
SUM.update({
 "C01-e": "the `params` member of `request` gets `omitempty`: a raw-params method called with nil / empty raw params has `params` dropped from the wire instead of sent as `null`",
 "C02-e": "the HTTP client assigns the shared request header map instead of a clone and then `Set`s Content-Type on it: concurrent callers on one HTTP client crash the process",
 "C03-e": "`resetReadDeadline` arms the deadline only when pings are on: a client with pings disabled and a timeout never notices a blackholed link",
 "C04-e": "the `retry` / `notify` tags count as set unless their value is `false`: `retry:\"no\"` or `retry:\"0\"` makes an untagged-by-intent method re-send",
 "C05-e": "`WithReconnectBackoff` also sets `noReconnect = false`: listed after `WithNoReconnect` it makes a no-reconnect client redial",
 "C06-e": "notifications run inline on the frame executor: while a notification handler runs, cancel frames queued behind it are not processed",
 "C07-e": "the forwarder marshals `reflect.ValueOf(val.Interface())`: an untyped nil element of a `chan interface{}` fails to marshal and is dropped",
 "C08-e": "`closeChans` returns at once when `connFactory == nil` ('server side'): channels of no-reconnect clients are never closed",
 "C09-e": "responses of calls that reach a handler echo the request's `jsonrpc` member instead of saying `2.0`",
 "C10-e": "`meta.SpanContext` is base64-decoded into a fixed 32-byte buffer: a longer value panics outside the recover, killing the process over WebSocket",
 "C11-e": "`createError` fills an empty codec-supplied message with `err.Error()`: a codec error with an empty message arrives with another one",
 "C12-e": "the reverse client reads the method name formatter when the option is applied, not per connection: options in the other order disagree on reverse-call names",
 "C13-e": "a recovered panic whose payload is an error of a registered type is answered under that type's code: the client rebuilds the type and the caller cannot tell the crash from a returned error",
 "C14-e": "the lazy response writer lets go of the connection writer after 5 s: a slow large response is closed under the handler's write",
 "C15-e": "the ping handler answers with `WriteControl(..., time.Time{})` (no deadline): behind a blocked writer it parks the reader for good and a following close is never read",
 "C16-e": "client defaults moved to a package-level `Config` copied shallowly: the alias table and the param encoders are shared by all clients of the process",
 "C17-e": "the pong handler re-arms the read deadline itself instead of signalling the loop: the loop's idle timer is no longer reset by pongs and closes a healthy quiet link",
 "C18-e": "`setupRequestChan` captures `c.exiting` at set-up time, when it is still nil for a forward client: calls made after the close block for ever",
 "C19-e": "`HasPerm` compares with `strings.EqualFold`: a caller holding `Read` passes a method tagged `read`",
 "C20-e": "`waitReadCloser.Read` uses `io.ReadAtLeast(r, p, 1)`: a zero-length read returns ErrShortBuffer, which is latched, and the upload is released",
})
SUM.update({
 "C01-f": "a positional parameter whose JSON is `null` skips the decoder and reaches the method as the zero value: a `json.RawMessage` argument `null` arrives nil, a type whose `UnmarshalJSON` reacts to null is not told",
 "C02-f": "the `xrpc.cancel` request reuses the caller's `ready` channel: the loop's acknowledgement of the id-less request is taken for the call's response (id mismatch error, real response lost)",
 "C03-f": "a failed request write is also pushed into the loop's own one-slot `readError` channel: the second such failure before the loop reads it blocks the loop for good",
 "C04-f": "HTTP notifications are posted from a background goroutine with the caller's context: with the usual `defer cancel()` the request is aborted and the handler never runs",
 "C05-f": "the float-domain clamp of `backoff.next` removed: beyond attempt ~62 the conversion overflows to a negative delay and the redial loop spins",
 "C06-f": "'keep the context for channel methods' is decided at registration as `nOut == 2 && kind == Chan`: a method whose only result is a channel loses its handler context as soon as it returns",
 "C07-f": "the channel-id counter is decremented when an output channel closes: a subscription opened later gets the id of a stream that is still open",
 "C08-f": "decode targets of channel values come from a per-subscription pool and are not zeroed: slices and maps the caller already holds are overwritten by later elements",
 "C09-f": "bodies are parsed with a `Decoder` and trailing data detected with `More()`: a stray closing `}` or `]` after a valid request is accepted",
 "C10-f": "the log line for a response to a request never made dereferences `frame.Error` when there is no result: a frame with neither kills the process",
 "C11-f": "`val` asks whether the type *as registered* implements the codec / marshalable interfaces: value-registered types with a pointer-receiver reading half arrive as zero values",
 "C12-f": "the arity check becomes `len(ps) < nParams`: requests with surplus positional params run the handler",
 "C13-f": "the reply for a recovered panic no longer includes the wrapped error: `fatal error calling 'X'` and nothing about a panic",
 "C14-f": "the ping ticker sets a write deadline of two ping intervals and never clears it: a large response drained slowly is cut off mid-frame",
 "C15-f": "the per-request `ready` channel becomes unbuffered: closeInFlight blocks on a caller that is busy sending its cancel request, and the teardown deadlocks",
 "C16-f": "notifications run inline on the frame executor: a reverse call made from a notification's handler can never be answered",
 "C17-f": "the pong reply's write deadline is `now + c.timeout`, which is `now` on servers: servers never answer pings, and clients with a timeout below the server's ping interval drop healthy links",
 "C18-f": "the request channel gets a buffer of 8: requests queued there when the loop sees `stop` are stranded, their callers wait for ever",
 "C19-f": "`strings.TrimLeft(token, \"Bearer \")` (a cutset) instead of `TrimPrefix`: tokens beginning with B, e, a, r or a space lose their first characters",
 "C20-f": "the upload handler answers 400 when the request has no body (`http.NoBody`, i.e. Content-Length 0): a zero-length reader parameter never reaches its handler",
})
for n in sorted(mat):
    m = mat[n]
    ob = "yes" if m.get("failed_obligations") else "–"
    mo = "yes" if m.get("model_mismatches_shown") else "–"
    orc = "yes (%d)" % m["oracle_violations"] if m.get("oracle_violations") else "–"
    fv = (m.get("first_violation") or "").replace("|", "/")[:110]
    out.append("| %s | %s | %s | %s | %s | %s |" % (n, SUM[n], ob, mo, orc, fv))
out.append("")
out.append("All hundred and twenty are reported as `VIOLATION` by the quick tier of the property's check, all but three or four with a concrete replay (input, scenario or schedule on which the property fails). Two or three are reported with `no-failing-input-found` (C08-c's crash shows in some runs only): C14-b as a broken obligation (`conn_writes_locked`: a connection write outside `writeLk`; the tearing itself needs a 48 MB response written while the client is closed), C08-c and C18-c as a broken obligation (`sink_callbacks_locked`) and / or a trace the stream model rejects (the sink closed while a value was inside its callback) — there the concrete failure is a race between a panic and a blocked goroutine and shows up as a crash only in some runs. This is the state *after* strengthening, and the history matters for judging the checks. Round one: nine changes were at first missed or caught only sometimes (C05 C06 C07 C08 C13 C15 C16 C18 C19). Round two: eight were missed by the checks as they stood (C01-b C03-b C06-b C07-b C10-b C11-b C16-b C18-b), twelve caught unchanged. Round three (run after eleven scenario families had been extended in anticipation, from reading the changes' descriptions): two were still missed (C07-c C18-c), one made a check crash on its time limit (C14-c), five were caught by obligation or model only and got an oracle added (C03-c C08-c C09-c C12-c C20-c), twelve were caught with a replay. Round four (the sub-agents were told the three ideas already used per property and asked for a different mechanism): ten were missed (C02-d C03-d C05-d C07-d C08-d C12-d C13-d C15-d C17-d C20-d), four were caught by model or translator only (C06-d C09-d C11-d C18-d), six were caught with a replay. Round five (value-level changes, aimed at what the skeletons leave out): eight were missed (C01-e C03-e C04-e C05-e C10-e C12-e C15-e C20-e), seven were caught by an obligation, a model mismatch or a dying translator or harness only (C02-e C06-e C07-e C11-e C13-e C14-e C16-e — C07-e through an unrelated flake of the check itself, which was a false alarm in the making and is described in section 8), five with a replay (C08-e C09-e C17-e C18-e C19-e); after strengthening all twenty have a replay. Round six (again value-level): six were missed by the oracles as they stood (C06-f C11-f C14-f C15-f C16-f C19-f; three of them would have been reported through an obligation without a replay), C02-f was caught by scenarios its own check did not run, thirteen were caught with a replay by the checks unchanged — the first round in which a clear majority needed nothing new. The full matrix run at that point also exposed one detection that depends on the schedule (C16-b, 5 runs in 6): it is now backed by a regenerated fact; the last full run found a second one (C20-c, 5 in 6), answered with a deterministic input (remark under C20), and re-running the changes whose detection rests on a race found a third (C02-e, remark under C02). Every miss was answered by a new scenario, input class or oracle clause, named in the remark under the property — never by loosening an oracle (two new oracle clauses that fired on the unchanged tree in round three were wrong and were corrected before use: the batch response count must allow id-null errors for undispatchable notifications, the alias clause must accept any refusal code) — and the matrix was re-run afterwards. Round four also showed what all the misses had in common: each changed the *structure* of a function the model abstracts (a new branch, a select split in two, a table update in a new place, a lock taken differently) without changing any input-output behaviour that a generator happened to reach. That is what the regenerated **code skeletons** answer (section 5: `effects_*` facts, `Skeletons.v`, the `cXX_code_skeletons` theorems): such a change now breaks a proof obligation of every property whose model abstracts the function, whether or not a scenario reaches it; the scenarios then supply the replay. Lessons: a sampled correspondence catches what its generators reach, so the generators are the thing to review (same-typed consecutive parameters, struct-valued streams, clients without handlers, wrapped errors, closing with values buffered, named scalar marshalers, a peer that swaps responses, option order, keepalive after a redial, context-less retry methods, more callers than an internal queue holds, channel ids after a reconnect, the empty client namespace, the tie between two arrivals, nil raw params, tag values other than `true`, ping-less clients with a timeout, option order once more, interface-typed channels, the `meta` member, empty codec messages, zero-length reads were all absent at some point); detections that depend on scheduling have to be made deterministic with gates (C08-a went from 1-in-3 to 4-in-4 that way); a change can make the harness itself hang or die, which must surface as a verdict, not as a machinery error.\n")
for pid in sorted(T):
    t = T[pid]; p = props[pid]; nt = NOTES[pid]
    out.append("### %s — %s\n" % (pid, p['title']))
    out.append("**Model.** " + nt['model'] + "\n")
    names = thms(pid)
    out.append("**Theorems** (%d, all `Closed under the global context`): %s.\n" % (len(names), ", ".join("`%s`" % x for x in names)))
    out.append("**What they say, and the tie.** " + t['text'] + "\n")
    out.append("**Correspondence runs.** " + nt['fam'] + "\n")
    for suf in ("-a", "-b", "-c", "-d", "-e", "-f"):
        m = mat.get(pid + suf)
        if m:
            parts = []
            if m.get("failed_obligations"): parts.append("obligation (%s)" % "; ".join(m["failed_obligations"]))
            if m.get("model_mismatches_shown"): parts.append("model correspondence")
            if m.get("oracle_violations"): parts.append("direct oracle (%d hits): “%s”" % (m["oracle_violations"], (m.get("first_violation") or "")[:200]))
            out.append("**Seeded change %s%s.** %s. Fired: %s.\n" % (pid, suf, SUM[pid + suf], "; ".join(parts) or "nothing"))
    out.append("**Modelled, not verified.** " + t['note'] + "\n")
    out.append("**Remarks.** " + nt['rem'] + "\n")
out.append("---------------------------------------------------------------------------\n")
open('/verif/docs/D2.md', 'w').write("\n".join(out))
print(len("\n".join(out).splitlines()))
