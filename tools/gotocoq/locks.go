package main

import (
	"fmt"
	"go/ast"
	"go/token"
	"sort"
	"strings"
)

// Path-sensitive lock-set analysis of the package's functions (DESIGN.md 4.9).
// An abstract interpreter over Go's structured statements tracks the set of mutexes that are *certainly* held
// (must-hold) at every statement; it records, for every operation of interest, the lock set it runs under:
//   conn-write   a write-side operation on the websocket connection (NextWriter, WriteJSON, WriteMessage, message
//                writer Close/Write, Encoder.Encode into a writer obtained under the lock, conn.Close)
//   conn-swap    assignment to c.conn
//   conn-control WriteControl (gorilla serialises it itself; exempt from writeLk)
//   map:<field>  read / write / delete / range of one of the guarded fields
//   lock:<m>     acquisition of mutex m (for the lock-order graph)
// It fails closed: a statement form it does not understand aborts the translation.

type lockRow struct {
	fn    string
	op    string
	what  string
	locks []string
	line  int
}

type lockAnalysis struct {
	p    *pkg
	rows []lockRow
	// lock set under which a function invokes its callback parameter: fn -> param name -> locks
	cbLocks map[string][]string
	cur     string
}

var guardedFields = map[string]string{"inflight": "c.inflightLk", "handling": "c.handlingLk", "chanHandlers": "c.chanHandlersLk", "incomingErr": "c.errLk"}

type lset map[string]bool

func (s lset) copy() lset {
	o := lset{}
	for k := range s {
		o[k] = true
	}
	return o
}
func (s lset) list() []string {
	var o []string
	for k := range s {
		o = append(o, k)
	}
	sort.Strings(o)
	return o
}
func inter(a, b lset) lset {
	o := lset{}
	for k := range a {
		if b[k] {
			o[k] = true
		}
	}
	return o
}

// result of analysing a block: the lock set on fall-through (nil if the block never falls through)
func (la *lockAnalysis) block(stmts []ast.Stmt, held lset, deferred lset, w map[string]bool) lset {
	cur := held
	for _, st := range stmts {
		if cur == nil {
			return nil // unreachable code after return
		}
		cur = la.stmt(st, cur, deferred, w)
	}
	return cur
}

func isMutexCall(ce *ast.CallExpr) (mutex, method string, ok bool) {
	se, ok2 := ce.Fun.(*ast.SelectorExpr)
	if !ok2 {
		return "", "", false
	}
	if se.Sel.Name != "Lock" && se.Sel.Name != "Unlock" {
		return "", "", false
	}
	m := exprString(se.X)
	if strings.HasSuffix(m, "Lk") || strings.HasSuffix(m, ".lk") || strings.HasSuffix(m, "Lock") {
		return m, se.Sel.Name, true
	}
	return "", "", false
}

func (la *lockAnalysis) record(op, what string, held lset, pos token.Pos) {
	la.rows = append(la.rows, lockRow{fn: la.cur, op: op, what: what, locks: held.list(), line: fset.Position(pos).Line})
}

// expressions: look for operations of interest; function literals are analysed as separate paths
func (la *lockAnalysis) expr(e ast.Node, held lset, w map[string]bool) {
	if e == nil {
		return
	}
	handled := map[*ast.FuncLit]bool{}
	ast.Inspect(e, func(n ast.Node) bool {
		switch v := n.(type) {
		case *ast.FuncLit:
			if !handled[v] {
				// a function value stored or passed around: runs later, on its own, with no lock of ours held
				la.funcLit(v, fmt.Sprintf("%s$lit@%d", la.cur, fset.Position(v.Pos()).Line), lset{}, map[string]bool{})
			}
			return false
		case *ast.CallExpr:
			fs := exprString(v.Fun)
			// callbacks handed to functions that invoke them under a known lock set
			for i, a := range v.Args {
				if fl, ok := a.(*ast.FuncLit); ok {
					handled[fl] = true
					callee := fs[strings.LastIndex(fs, ".")+1:]
					start := lset{}
					if ls, ok := la.cbLocks[callee]; ok {
						for _, l := range ls {
							start[l] = true
						}
					}
					la.funcLit(fl, fmt.Sprintf("%s$cb(%s#%d)", la.cur, callee, i), start, writerParams(fl, start))
				}
			}
			switch {
			case fs == "hnd.cb":
				// the sink callback of a client-side channel handler: delivery of a value and the closing of the sink
				// are serialised by the handler's own mutex
				la.record("sink-callback", fs, held, v.Pos())
			case strings.HasSuffix(fs, ".WriteControl"):
				la.record("conn-control", fs, held, v.Pos())
			case strings.HasSuffix(fs, "conn.WriteJSON"), strings.HasSuffix(fs, "conn.WriteMessage"), strings.HasSuffix(fs, "conn.NextWriter"):
				la.record("conn-write", fs, held, v.Pos())
			case fs == "c.conn.Close":
				la.record("conn-write", fs, held, v.Pos())
			case fs == "delete" && len(v.Args) == 2:
				for f := range guardedFields {
					if strings.HasSuffix(exprString(v.Args[0]), "."+f) {
						la.record("map:"+f, "delete", held, v.Pos())
					}
				}
			default:
				// writes through a message writer / an io.Writer known to be the connection's
				if se, ok := v.Fun.(*ast.SelectorExpr); ok {
					recv := exprString(se.X)
					if w[recv] && (se.Sel.Name == "Close" || se.Sel.Name == "Write") {
						la.record("conn-write", fs, held, v.Pos())
					}
					if se.Sel.Name == "Encode" {
						if ce, ok := se.X.(*ast.CallExpr); ok && exprString(ce.Fun) == "json.NewEncoder" && len(ce.Args) == 1 && w[exprString(ce.Args[0])] {
							la.record("conn-write", "json.NewEncoder("+exprString(ce.Args[0])+").Encode", held, v.Pos())
						}
					}
				}
			}
		case *ast.SelectorExpr:
			for f := range guardedFields {
				if v.Sel.Name == f && exprString(v.X) == "c" {
					la.record("map:"+f, "access", held, v.Pos())
				}
			}
		}
		return true
	})
}

// io.Writer / message-writer parameters of a callback that runs under the write lock are the connection's writer
func writerParams(fl *ast.FuncLit, start lset) map[string]bool {
	w := map[string]bool{}
	if !start["c.writeLk"] {
		return w
	}
	for _, f := range fl.Type.Params.List {
		if exprString(f.Type) == "io.Writer" {
			for _, n := range f.Names {
				w[n.Name] = true
			}
		}
	}
	return w
}

func (la *lockAnalysis) funcLit(fl *ast.FuncLit, name string, start lset, w map[string]bool) {
	saved := la.cur
	la.cur = name
	la.block(fl.Body.List, start.copy(), lset{}, w)
	la.cur = saved
}

func (la *lockAnalysis) stmt(st ast.Stmt, held lset, deferred lset, w map[string]bool) lset {
	switch v := st.(type) {
	case *ast.ExprStmt:
		if ce, ok := v.X.(*ast.CallExpr); ok {
			if m, meth, ok := isMutexCall(ce); ok {
				h := held.copy()
				if meth == "Lock" {
					la.record("lock:"+m, "Lock", held, v.Pos())
					h[m] = true
				} else {
					delete(h, m)
				}
				return h
			}
		}
		la.expr(v.X, held, w)
		return held
	case *ast.DeferStmt:
		if m, meth, ok := isMutexCall(v.Call); ok && meth == "Unlock" {
			deferred[m] = true // stays held until the function returns
			return held
		}
		if fl, ok := v.Call.Fun.(*ast.FuncLit); ok {
			la.funcLit(fl, la.cur+"$defer", held.copy(), w)
			return held
		}
		la.expr(v.Call, held, w)
		return held
	case *ast.GoStmt:
		if fl, ok := v.Call.Fun.(*ast.FuncLit); ok {
			la.funcLit(fl, la.cur+"$go", lset{}, map[string]bool{})
		} else {
			la.expr(v.Call, lset{}, map[string]bool{})
		}
		return held
	case *ast.AssignStmt:
		for _, l := range v.Lhs {
			if exprString(l) == "c.conn" {
				la.record("conn-swap", "c.conn =", held, v.Pos())
			}
			if se, ok := l.(*ast.SelectorExpr); ok {
				for f := range guardedFields {
					if se.Sel.Name == f && exprString(se.X) == "c" {
						la.record("map:"+f, "assign", held, v.Pos())
					}
				}
			}
			if ix, ok := l.(*ast.IndexExpr); ok {
				la.expr(ix, held, w)
			}
		}
		// a message writer obtained from the connection under the lock
		if len(v.Rhs) == 1 {
			if ce, ok := v.Rhs[0].(*ast.CallExpr); ok && strings.HasSuffix(exprString(ce.Fun), "conn.NextWriter") && len(v.Lhs) >= 1 {
				w[exprString(v.Lhs[0])] = true
			}
		}
		for _, r := range v.Rhs {
			la.expr(r, held, w)
		}
		return held
	case *ast.ReturnStmt:
		for _, r := range v.Results {
			la.expr(r, held, w)
		}
		return nil
	case *ast.BranchStmt: // break / continue: leaves the enclosing construct; treated as no fall-through of this block
		return nil
	case *ast.IfStmt:
		if v.Init != nil {
			held = la.stmt(v.Init, held, deferred, w)
		}
		la.expr(v.Cond, held, w)
		t := la.block(v.Body.List, held.copy(), deferred, w)
		var e lset = held
		if v.Else != nil {
			switch el := v.Else.(type) {
			case *ast.BlockStmt:
				e = la.block(el.List, held.copy(), deferred, w)
			case *ast.IfStmt:
				e = la.stmt(el, held.copy(), deferred, w)
			}
		}
		switch {
		case t == nil && e == nil:
			return nil
		case t == nil:
			return e
		case e == nil:
			return t
		default:
			return inter(t, e)
		}
	case *ast.ForStmt:
		if v.Init != nil {
			held = la.stmt(v.Init, held, deferred, w)
		}
		la.expr(v.Cond, held, w)
		la.block(v.Body.List, held.copy(), deferred, w)
		return held
	case *ast.RangeStmt:
		la.expr(v.X, held, w)
		la.block(v.Body.List, held.copy(), deferred, w)
		return held
	case *ast.SwitchStmt:
		if v.Init != nil {
			held = la.stmt(v.Init, held, deferred, w)
		}
		la.expr(v.Tag, held, w)
		return la.cases(v.Body.List, held, deferred, w)
	case *ast.TypeSwitchStmt:
		return la.cases(v.Body.List, held, deferred, w)
	case *ast.SelectStmt:
		return la.cases(v.Body.List, held, deferred, w)
	case *ast.BlockStmt:
		return la.block(v.List, held, deferred, w)
	case *ast.LabeledStmt:
		return la.stmt(v.Stmt, held, deferred, w)
	case *ast.DeclStmt, *ast.IncDecStmt, *ast.EmptyStmt:
		return held
	case *ast.SendStmt:
		la.expr(v.Chan, held, w)
		la.expr(v.Value, held, w)
		return held
	}
	die("lock analysis: unsupported statement %T at %s", st, fset.Position(st.Pos()))
	return nil
}

func (la *lockAnalysis) cases(clauses []ast.Stmt, held lset, deferred lset, w map[string]bool) lset {
	var out lset
	first := true
	hasDefault := false
	for _, c := range clauses {
		var body []ast.Stmt
		switch cc := c.(type) {
		case *ast.CaseClause:
			body = cc.Body
			if cc.List == nil {
				hasDefault = true
			}
			for _, e := range cc.List {
				la.expr(e, held, w)
			}
		case *ast.CommClause:
			body = cc.Body
			if cc.Comm == nil {
				hasDefault = true
			} else {
				la.stmt(cc.Comm, held.copy(), deferred, w)
			}
		}
		r := la.block(body, held.copy(), deferred, w)
		if r != nil {
			if first {
				out = r
				first = false
			} else {
				out = inter(out, r)
			}
		}
	}
	_ = hasDefault
	if first {
		// no clause falls through (all return / break): for loops around selects this means "leave"; keep entry set
		return held
	}
	return inter(out, held)
}

func genLockTableImpl(b *strings.Builder, root *pkg) {
	la := &lockAnalysis{p: root, cbLocks: map[string][]string{}}
	// pass 1: under which lock set does each function invoke its callback parameter named cb?
	for _, fn := range root.sortedFiles() {
		for _, d := range root.files[fn].Decls {
			fd, ok := d.(*ast.FuncDecl)
			if !ok || fd.Body == nil {
				continue
			}
			probe := &lockAnalysis{p: root, cbLocks: map[string][]string{}, cur: fd.Name.Name}
			cbs := map[string]bool{}
			for _, f := range fd.Type.Params.List {
				if _, ok := f.Type.(*ast.FuncType); ok {
					for _, n := range f.Names {
						cbs[n.Name] = true
					}
				}
			}
			if len(cbs) == 0 {
				continue
			}
			probe.findCallbackLocks(fd, cbs, la.cbLocks)
		}
	}
	// pass 2: the table
	for _, fn := range root.sortedFiles() {
		for _, d := range root.files[fn].Decls {
			fd, ok := d.(*ast.FuncDecl)
			if !ok || fd.Body == nil {
				continue
			}
			la.cur = fd.Name.Name
			la.block(fd.Body.List, lset{}, lset{}, map[string]bool{})
		}
	}
	w := func(f string, a ...interface{}) { fmt.Fprintf(b, f+"\n", a...) }
	w("(* GENERATED by tools/gotocoq (lock-set analysis) from /repo's working tree. Do not edit. *)")
	w("From Coq Require Import String List ZArith.")
	w("Import ListNotations.")
	w("Open Scope string_scope.")
	w("")
	w("(* (function or path, operation, detail, mutexes certainly held, source line) *)")
	w("Definition lock_rows : list (string * string * string * list string * Z) := [")
	for i, r := range la.rows {
		sep := ";"
		if i == len(la.rows)-1 {
			sep = ""
		}
		w("  (%s, %s, %s, %s, %d%%Z)%s", coqStr(r.fn), coqStr(r.op), coqStr(r.what), strList(r.locks), r.line, sep)
	}
	w("].")
	w("")
	w("(* lock set under which a function invokes its callback parameter *)")
	var cbn []string
	for k := range la.cbLocks {
		cbn = append(cbn, k)
	}
	sort.Strings(cbn)
	var items []string
	for _, k := range cbn {
		items = append(items, fmt.Sprintf("(%s, %s)", coqStr(k), strList(la.cbLocks[k])))
	}
	w("Definition callback_locks : list (string * list string) := [%s].", strings.Join(items, "; "))
	w("")
	w("(* the delegated (lazy) response writer, handler.go: textual facts the hand-over protocol rests on *)")
	lw1, lw2, lw3 := lazyWriterFacts(root)
	w("Definition lazy_write_after_acquired : bool := %s.", coqBool(lw1))
	w("Definition lazy_callback_waits_done : bool := %s.", coqBool(lw2))
	w("Definition lazy_done_closed_after_cb : bool := %s.", coqBool(lw3))
}

func (la *lockAnalysis) findCallbackLocks(fd *ast.FuncDecl, cbs map[string]bool, out map[string][]string) {
	// run the interpreter and intercept calls cb(...)
	var walk func(stmts []ast.Stmt, held lset) lset
	deferred := lset{}
	walk = func(stmts []ast.Stmt, held lset) lset {
		cur := held
		for _, st := range stmts {
			if cur == nil {
				return nil
			}
			if es, ok := st.(*ast.ExprStmt); ok {
				if ce, ok := es.X.(*ast.CallExpr); ok {
					if id, ok := ce.Fun.(*ast.Ident); ok && cbs[id.Name] {
						out[fd.Name.Name] = cur.list()
					}
				}
			}
			cur = la.stmt(st, cur, deferred, map[string]bool{})
		}
		return cur
	}
	walk(fd.Body.List, lset{})
}

func lazyWriterFacts(p *pkg) (writeAfterAcquired, cbWaitsDone, doneAfterCb bool) {
	fd := p.funcDecl("lazyWriter", "Write")
	if fd == nil {
		die("lazyWriter.Write not found")
	}
	// (1) `return lw.w.Write(p)` is the last statement and the only use of lw.w.Write; the select on <-acquired precedes it
	var selPos, writePos token.Pos
	nWrites := 0
	ast.Inspect(fd.Body, func(n ast.Node) bool {
		switch v := n.(type) {
		case *ast.CommClause:
			if es, ok := v.Comm.(*ast.ExprStmt); ok && exprString2(es.X) == "<-acquired" {
				selPos = v.Pos()
			}
		case *ast.CallExpr:
			if exprString(v.Fun) == "lw.w.Write" {
				nWrites++
				writePos = v.Pos()
			}
		}
		return true
	})
	writeAfterAcquired = nWrites == 1 && selPos != 0 && selPos < writePos
	// (2) the callback handed to withWriterFunc sets lw.w, closes acquired and then waits for <-lw.done
	ast.Inspect(fd.Body, func(n ast.Node) bool {
		ce, ok := n.(*ast.CallExpr)
		if !ok || exprString(ce.Fun) != "lw.withWriterFunc" || len(ce.Args) != 1 {
			return true
		}
		fl, ok := ce.Args[0].(*ast.FuncLit)
		if !ok {
			return true
		}
		var seq []string
		for _, st := range fl.Body.List {
			switch v := st.(type) {
			case *ast.AssignStmt:
				seq = append(seq, exprString(v.Lhs[0])+"=")
			case *ast.ExprStmt:
				seq = append(seq, exprString2(v.X))
			}
		}
		s := strings.Join(seq, ";")
		cbWaitsDone = strings.Contains(s, "lw.w=") && strings.Contains(s, "close(acquired)") && strings.HasSuffix(s, "<-lw.done") &&
			strings.Index(s, "lw.w=") < strings.Index(s, "close(acquired)")
		return true
	})
	// (3) withLazyWriter: `defer close(lw.done)` then `cb(lw)`
	wd := p.anyFunc("withLazyWriter")
	if wd == nil {
		die("withLazyWriter not found")
	}
	var seq []string
	for _, st := range wd.Body.List {
		switch v := st.(type) {
		case *ast.DeferStmt:
			seq = append(seq, "defer "+exprString2(v.Call))
		case *ast.ExprStmt:
			seq = append(seq, exprString2(v.X))
		}
	}
	s := strings.Join(seq, ";")
	doneAfterCb = strings.Contains(s, "defer close(lw.done);cb(lw)")
	return
}
