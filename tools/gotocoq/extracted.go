package main

import (
	"fmt"
	"go/ast"
	"go/token"
	"sort"
	"strconv"
	"strings"
)

// string literals appearing as arguments of calls pkg.fn(...) inside a function, in source order
func callStringArgs(fd *ast.FuncDecl, sel string) []string {
	var out []string
	ast.Inspect(fd, func(n ast.Node) bool {
		ce, ok := n.(*ast.CallExpr)
		if !ok {
			return true
		}
		if exprString(ce.Fun) != sel && !strings.HasSuffix(exprString(ce.Fun), "."+sel) {
			return true
		}
		for _, a := range ce.Args {
			if bl, ok := a.(*ast.BasicLit); ok && bl.Kind == token.STRING {
				s, _ := strconv.Unquote(bl.Value)
				out = append(out, s)
			}
		}
		return true
	})
	return out
}

func callIntArgs(fd *ast.FuncDecl, sel string) []int64 {
	var out []int64
	ast.Inspect(fd, func(n ast.Node) bool {
		ce, ok := n.(*ast.CallExpr)
		if !ok {
			return true
		}
		if !strings.HasSuffix(exprString(ce.Fun), sel) {
			return true
		}
		for _, a := range ce.Args {
			if bl, ok := a.(*ast.BasicLit); ok && bl.Kind == token.INT {
				v, _ := strconv.ParseInt(bl.Value, 0, 64)
				out = append(out, v)
			}
		}
		return true
	})
	return out
}

func fieldsTerm(fs []field) string {
	var items []string
	for _, f := range fs {
		items = append(items, fmt.Sprintf("(%s, %s, %s, %s)", coqStr(f.GoName), coqStr(f.JSONName), coqStr(f.GoType), coqBool(f.OmitEmpty)))
	}
	return "[" + strings.Join(items, "; ") + "]"
}

// keys of the map literal built in response.MarshalJSON and the conditional keys
func marshalKeys(p *pkg) (always []string, onErr []string, onOk []string) {
	fd := p.funcDecl("response", "MarshalJSON")
	if fd == nil {
		die("response.MarshalJSON not found")
	}
	ast.Inspect(fd, func(n ast.Node) bool {
		switch v := n.(type) {
		case *ast.CompositeLit:
			for _, e := range v.Elts {
				if kv, ok := e.(*ast.KeyValueExpr); ok {
					if bl, ok := kv.Key.(*ast.BasicLit); ok {
						s, _ := strconv.Unquote(bl.Value)
						always = append(always, s)
					}
				}
			}
		case *ast.IfStmt:
			// if r.Error != nil { data["error"] = ... } else { data["result"] = ... }
			collect := func(b *ast.BlockStmt) []string {
				var ks []string
				for _, st := range b.List {
					if as, ok := st.(*ast.AssignStmt); ok && len(as.Lhs) == 1 {
						if ix, ok := as.Lhs[0].(*ast.IndexExpr); ok {
							if bl, ok := ix.Index.(*ast.BasicLit); ok {
								s, _ := strconv.Unquote(bl.Value)
								ks = append(ks, s)
							}
						}
					}
				}
				return ks
			}
			cond := exprString2(v.Cond)
			if cond == "r.Error != nil" {
				onErr = collect(v.Body)
				if eb, ok := v.Else.(*ast.BlockStmt); ok {
					onOk = collect(eb)
				}
			} else {
				die("response.MarshalJSON: unexpected condition %q", cond)
			}
		}
		return true
	})
	return
}

func exprString2(e ast.Expr) string {
	switch v := e.(type) {
	case *ast.BinaryExpr:
		return exprString2(v.X) + " " + v.Op.String() + " " + exprString2(v.Y)
	case *ast.Ident:
		return v.Name
	case *ast.SelectorExpr:
		return exprString2(v.X) + "." + v.Sel.Name
	case *ast.BasicLit:
		return v.Value
	case *ast.CallExpr:
		var as []string
		for _, a := range v.Args {
			as = append(as, exprString2(a))
		}
		return exprString2(v.Fun) + "(" + strings.Join(as, ", ") + ")"
	case *ast.UnaryExpr:
		return v.Op.String() + exprString2(v.X)
	case *ast.ParenExpr:
		return "(" + exprString2(v.X) + ")"
	case *ast.IndexExpr:
		return exprString2(v.X) + "[" + exprString2(v.Index) + "]"
	case *ast.StarExpr:
		return "*" + exprString2(v.X)
	case *ast.ArrayType:
		if v.Len == nil {
			return "[]" + exprString2(v.Elt)
		}
		return "[" + exprString2(v.Len) + "]" + exprString2(v.Elt)
	case *ast.ChanType:
		switch v.Dir {
		case ast.SEND:
			return "chan<- " + exprString2(v.Value)
		case ast.RECV:
			return "<-chan " + exprString2(v.Value)
		}
		return "chan " + exprString2(v.Value)
	case *ast.CompositeLit:
		var es []string
		for _, x := range v.Elts {
			es = append(es, exprString2(x))
		}
		t := ""
		if v.Type != nil {
			t = exprString2(v.Type)
		}
		return t + "{" + strings.Join(es, ", ") + "}"
	case *ast.KeyValueExpr:
		return exprString2(v.Key) + ": " + exprString2(v.Value)
	}
	return fmt.Sprintf("<%T>", e)
}

// handleFrame dispatch: list of (case label, callee)
func handleFrameTable(p *pkg) [][2]string {
	fd := p.funcDecl("wsConn", "handleFrame")
	if fd == nil {
		die("wsConn.handleFrame not found")
	}
	var out [][2]string
	found := false
	for _, st := range fd.Body.List {
		sw, ok := st.(*ast.SwitchStmt)
		if !ok {
			continue
		}
		if exprString2(sw.Tag) != "frame.Method" {
			die("handleFrame: switch tag is %s", exprString2(sw.Tag))
		}
		found = true
		for _, c := range sw.Body.List {
			cc := c.(*ast.CaseClause)
			label := "default"
			if len(cc.List) == 1 {
				switch l := cc.List[0].(type) {
				case *ast.BasicLit:
					s, _ := strconv.Unquote(l.Value)
					label = "lit:" + s
				case *ast.Ident:
					label = "const:" + p.constString(l.Name)
				default:
					die("handleFrame: unsupported case label")
				}
			} else if len(cc.List) > 1 {
				die("handleFrame: multi-label case")
			}
			if len(cc.Body) != 1 {
				die("handleFrame: case body is not a single call")
			}
			es, ok := cc.Body[0].(*ast.ExprStmt)
			if !ok {
				die("handleFrame: case body is not a call")
			}
			ce := es.X.(*ast.CallExpr)
			out = append(out, [2]string{label, exprString(ce.Fun)})
		}
	}
	if !found {
		die("handleFrame: no switch")
	}
	return out
}

// normalizeID: type-switch arms -> list of (types, action)
func normalizeIDTable(p *pkg) [][2]string {
	fd := p.funcDecl("", "normalizeID")
	if fd == nil {
		die("normalizeID not found")
	}
	var out [][2]string
	for _, st := range fd.Body.List {
		ts, ok := st.(*ast.TypeSwitchStmt)
		if !ok {
			continue
		}
		for _, c := range ts.Body.List {
			cc := c.(*ast.CaseClause)
			var tys []string
			for _, t := range cc.List {
				tys = append(tys, exprString(t))
			}
			lab := strings.Join(tys, ",")
			if len(cc.List) == 0 {
				lab = "default"
			}
			if len(cc.Body) != 1 {
				die("normalizeID: arm body not a single return")
			}
			rs, ok := cc.Body[0].(*ast.ReturnStmt)
			if !ok || len(rs.Results) != 2 {
				die("normalizeID: arm is not `return a, b`")
			}
			out = append(out, [2]string{lab, exprString2(rs.Results[0]) + " | " + exprString2(rs.Results[1])})
		}
	}
	return out
}

// rpcError: which status for which code
func rpcErrorStatus(p *pkg) (string, string, string) {
	fd := p.funcDecl("", "rpcError")
	if fd == nil {
		die("rpcError not found")
	}
	var cond, thenS, elseS string
	ast.Inspect(fd, func(n ast.Node) bool {
		is, ok := n.(*ast.IfStmt)
		if !ok {
			return true
		}
		c := exprString2(is.Cond)
		if strings.HasPrefix(c, "code ==") {
			cond = c
			if len(is.Body.List) == 1 {
				thenS = exprString2(is.Body.List[0].(*ast.ExprStmt).X)
			}
			if eb, ok := is.Else.(*ast.BlockStmt); ok && len(eb.List) == 1 {
				elseS = exprString2(eb.List[0].(*ast.ExprStmt).X)
			}
		}
		return true
	})
	if cond == "" {
		die("rpcError: status selection not found")
	}
	return cond, thenS, elseS
}

// call sites of a method/function name across the package: list of enclosing function names
func callSites(p *pkg, name string) []string {
	var out []string
	for _, fn := range p.sortedFiles() {
		for _, d := range p.files[fn].Decls {
			fd, ok := d.(*ast.FuncDecl)
			if !ok || fd.Body == nil {
				continue
			}
			ast.Inspect(fd.Body, func(n ast.Node) bool {
				switch v := n.(type) {
				case *ast.CallExpr:
					s := exprString(v.Fun)
					if s == name || strings.HasSuffix(s, "."+name) {
						out = append(out, fd.Name.Name)
					}
				case *ast.KeyValueExpr:
					// reset: c.resetReadDeadline  (method value passed around)
					s := exprString(v.Value)
					if strings.HasSuffix(s, "."+name) {
						out = append(out, fd.Name.Name+"(value)")
					}
				}
				return true
			})
		}
	}
	return out
}

func strList(ss []string) string {
	var q []string
	for _, s := range ss {
		q = append(q, coqStr(s))
	}
	return "[" + strings.Join(q, "; ") + "]"
}

func genExtracted(b *strings.Builder, root, authp, httpio *pkg) {
	w := func(f string, a ...interface{}) { fmt.Fprintf(b, f+"\n", a...) }
	w("(* GENERATED by tools/gotocoq from /repo's working tree. Do not edit. *)")
	w("From Coq Require Import ZArith String List.")
	w("Import ListNotations.")
	w("Open Scope string_scope.")
	w("")
	w("(* protocol-internal method names *)")
	w("Definition wsCancel : string := %s.", coqStr(root.constString("wsCancel")))
	w("Definition chValue : string := %s.", coqStr(root.constString("chValue")))
	w("Definition chClose : string := %s.", coqStr(root.constString("chClose")))
	w("")
	w("(* error codes *)")
	for _, c := range []string{"rpcParseError", "rpcInvalidRequest", "rpcMethodNotFound", "rpcInvalidParams", "eTempWSError", "FirstUserCode"} {
		w("Definition %s : Z := %s.", c, coqZ(root.constInt(c)))
	}
	w("Definition default_max_request_size : Z := %s.", coqZ(root.constInt("DEFAULT_MAX_REQUEST_SIZE")))
	w("Definition maxQueuedFrames : Z := %s.", coqZ(root.constInt("maxQueuedFrames")))
	w("Definition methodMinRetryDelay : Z := %s.", coqZ(root.constInt("methodMinRetryDelay")))
	w("Definition methodMaxRetryDelay : Z := %s.", coqZ(root.constInt("methodMaxRetryDelay")))
	w("")
	w("(* struct fields: (Go name, JSON name, Go type, omitempty) *)")
	for _, s := range []string{"request", "response", "frame", "clientResponse", "JSONRPCError"} {
		w("Definition fields_%s : list (string * string * string * bool) := %s.", s, fieldsTerm(root.structFields(s)))
	}
	a, e, o := marshalKeys(root)
	w("")
	w("(* response.MarshalJSON: keys always present, keys when Error != nil, keys otherwise *)")
	w("Definition response_keys_always : list string := %s.", strList(a))
	w("Definition response_keys_on_error : list string := %s.", strList(e))
	w("Definition response_keys_on_ok : list string := %s.", strList(o))
	w("")
	w("(* wsConn.handleFrame dispatch on frame.Method: (label, callee) *)")
	var items []string
	for _, r := range handleFrameTable(root) {
		items = append(items, fmt.Sprintf("(%s, %s)", coqStr(r[0]), coqStr(r[1])))
	}
	w("Definition handleFrame_table : list (string * string) := [%s].", strings.Join(items, "; "))
	items = nil
	for _, r := range normalizeIDTable(root) {
		items = append(items, fmt.Sprintf("(%s, %s)", coqStr(r[0]), coqStr(r[1])))
	}
	w("")
	w("(* normalizeID type switch: (types, returned) *)")
	w("Definition normalizeID_table : list (string * string) := [%s].", strings.Join(items, "; "))
	c, t, el := rpcErrorStatus(root)
	w("")
	w("(* rpcError HTTP status selection *)")
	w("Definition rpcError_status : string * string * string := (%s, %s, %s).", coqStr(c), coqStr(t), coqStr(el))
	w("")
	w("(* call sites (enclosing functions) *)")
	for _, n := range []string{"resetReadDeadline", "doCall", "Call", "closeInFlight", "closeChans", "tryReconnect", "doRequest", "sendRequest"} {
		w("Definition callsites_%s : list string := %s.", n, strList(callSites(root, n)))
	}
	// doCall must start with a deferred recover
	fd := root.funcDecl("", "doCall")
	rec := false
	if fd != nil && len(fd.Body.List) > 0 {
		if ds, ok := fd.Body.List[0].(*ast.DeferStmt); ok {
			ast.Inspect(ds, func(n ast.Node) bool {
				if ce, ok := n.(*ast.CallExpr); ok && exprString(ce.Fun) == "recover" {
					rec = true
				}
				return true
			})
		}
	}
	w("Definition doCall_first_stmt_is_deferred_recover : bool := %s.", coqBool(rec))
	w("")
	w("(* built-in websocket methods: is every params[i] preceded by an `if len(params) < k { ... return }` with k > i, *)")
	w("(* and is the cancel id passed through normalizeID before it is used as a map key *)")
	w("Definition guard_cancel_len : bool := %s.", coqBool(indexGuarded(root, "cancelCtx", "params")))
	w("Definition guard_cancel_norm : bool := %s.", coqBool(normalizedBeforeIndex(root, "cancelCtx", "handling")))
	w("Definition guard_val_len : bool := %s.", coqBool(indexGuarded(root, "handleChanMessage", "params")))
	w("Definition guard_close_len : bool := %s.", coqBool(indexGuarded(root, "handleChanClose", "params")))
	w("")
	w("(* connection loop facts *)")
	w("(* tryReconnect marks the connection unusable (assigns c.incomingErr) before it calls closeInFlight *)")
	w("Definition tryReconnect_marks_before_cif : bool := %s.", coqBool(assignBeforeCall(root, "tryReconnect", "c.incomingErr", "c.closeInFlight")))
	w("(* handleResponse deletes the in-flight entry only inside an `if` that compares the entry's ready channel *)")
	w("Definition handleResponse_delete_guarded : bool := %s.", coqBool(deleteGuardedByReady(root)))
	w("(* the caller's retry condition in handleRpcCall *)")
	w("Definition retry_condition : string := %s.", coqStr(retryCondition(root)))
	w("(* bodies of the closers returned by the three client constructors *)")
	w("Definition closer_bodies : list (string * string) := [%s].", closerBodies(root))
	w("(* backoff.next compares with maxDelay in the float domain before converting to time.Duration *)")
	w("Definition backoff_clamps_before_convert : bool := %s.", coqBool(backoffClampFirst(root)))
	w("Definition backoff_constants : list string := %s.", strList(backoffConsts(root)))
	w("(* lazyWriter.Write gives up when the acquisition attempt returned without a writer (a `case <-failed` arm) *)")
	w("Definition lazywriter_has_failed_arm : bool := %s.", coqBool(lazyWriterFailedArm(root)))
	w("(* handleCall derives every handler context from the connection context and registers the cancel function only for id-bearing calls *)")
	w("Definition handleCall_ctx_derivation : string := %s.", coqStr(handleCallCtx(root)))
	w("(* reverse client plumbing *)")
	w("Definition reverse_binding : list string := %s.", strList(assignsIn(root, "WithReverseClient", []string{"cl.exiting", "conn.requests"})))
	w("Definition callsites_reverseClientBuilder : list string := %s.", strList(callSites(root, "reverseClientBuilder")))
	w("Definition handleWS_builder_call : string := %s.", coqStr(builderCall(root)))
	w("Definition client_handler_setup : list string := %s.", strList(assignsIn(root, "websocketClient", []string{"sc.methodNameFormatter", "h.aliasedMethods"})))
	w("(* error transport: decision skeletons of createError / JSONRPCError.val / Error, pre-registered client codes *)")
	w("Definition createError_decisions : list string := %s.", strList(decisionOrder(root, "handler", "createError")))
	w("Definition createError_default_code : Z := %s.", coqZ(localInit(root, "handler", "createError", "code")))
	w("Definition val_decisions : list string := %s.", strList(decisionOrder(root, "JSONRPCError", "val")))
	w("Definition error_string_decisions : list string := %s.", strList(decisionOrder(root, "JSONRPCError", "Error")))
	{
		var ks []string
		for _, k := range literalKeys(root, "NewErrors", "byCode") {
			ks = append(ks, coqZ(k))
		}
		w("Definition newErrors_byCode_keys : list Z := [%s].", strings.Join(ks, "; "))
	}
	w("(* typed call path: positional skeletons (index / slice expressions, make sizes, encoding/json and reflect.Zero/New calls) *)")
	w("Definition skeleton_register : list string := %s.", strList(positionalSkeleton(root, "handler", "register", []string{"NumIn", ".In", "json."})))
	w("Definition skeleton_handle : list string := %s.", strList(positionalSkeleton(root, "handler", "handle", []string{"json.", "Decode", "UseNumber", "DisallowUnknownFields", "reflect.Zero", "reflect.New", "reflect.ValueOf"})))
	w("Definition skeleton_handleRpcCall : list string := %s.", strList(positionalSkeleton(root, "rpcFunc", "handleRpcCall", []string{"json.", "Decode", "UseNumber", "reflect.New"})))
	w("Definition skeleton_makeRpcFunc : list string := %s.", strList(positionalSkeleton(root, "client", "makeRpcFunc", []string{"NumIn", "NumOut", ".In", ".Out"})))
	w("Definition decisions_makeRpcFunc : list string := %s.", strList(decisionOrder(root, "client", "makeRpcFunc")))
	w("Definition method_name_assignments : list string := %s.", strList(assignsIn(root, "makeRpcFunc", []string{"name"})))
	w("Definition decisions_register : list string := %s.", strList(decisionOrder(root, "handler", "register")))
	w("Definition skeleton_processResponse : list string := %s.", strList(positionalSkeleton(root, "rpcFunc", "processResponse", []string{"reflect."})))
	w("Definition skeleton_processError : list string := %s.", strList(positionalSkeleton(root, "rpcFunc", "processError", []string{"reflect."})))
	w("Definition skeleton_processFuncOut : list string := %s.", strList(append(decisionOrder(root, "", "processFuncOut"), positionalSkeleton(root, "", "processFuncOut", []string{"Out", "NumOut"})...)))
	w("Definition skeleton_param_marshal : list string := %s.", strList(append(decisionOrder(root, "param", "MarshalJSON"), positionalSkeleton(root, "param", "MarshalJSON", []string{"json."})...)))
	w("(* single-request clients and the generated function: a response is used only if it carries the request's id *)")
	w("Definition response_id_checks : list string := %s.", strList(idChecks(root)))
	w("(* the reverse client reads the server's formatter when a connection is upgraded, not when the option is applied *)")
	w("Definition reverse_formatter_read_per_connection : bool := %s.", coqBool(reverseFormatterReadPerConnection(root)))
	w("(* the redial goroutine installs the keepalive handlers on the connection it has just swapped in *)")
	w("Definition redial_sets_up_pings_after_swap : bool := %s.", coqBool(assignBeforeCallDeep(root, "tryReconnect", "c.conn", "c.setupPings")))
	w("(* package-level variables of the root package, and every place a function changes one: connections and calls share no mutable package state *)")
	{
		pv, pm := packageVars(root)
		w("Definition package_vars : list string := %s.", strList(pv))
		w("Definition package_state_mutations : list string := %s.", strList(pm))
	}
	w("(* control, synchronisation and shared-state skeletons of the functions the state-machine models are written against *)")
	for _, f := range [][2]string{{"wsConn", "handleResponse"}, {"wsConn", "closeInFlight"}, {"wsConn", "closeChans"}, {"wsConn", "handleCall"},
		{"wsConn", "cancelCtx"}, {"wsConn", "handleCtxAsync"}, {"wsConn", "handleChanMessage"}, {"wsConn", "handleChanClose"},
		{"wsConn", "handleOutChans"}, {"wsConn", "handleChanOut"}, {"wsConn", "readFrame"}, {"wsConn", "handleFrame"}, {"wsConn", "sendRequest"},
		{"wsConn", "tryReconnect"}, {"wsConn", "handleWsConn"}, {"wsConn", "setupPings"}, {"wsConn", "nextMessage"}, {"wsConn", "nextWriter"}, {"wsConn", "resetReadDeadline"},
		{"client", "makeOutChan"}, {"client", "setupRequestChan"}, {"handler", "handleReader"}, {"handler", "handle"}, {"", "doCall"}} {
		w("Definition effects_%s : list string := %s.", f[1], strList(effectSkeleton(root, f[0], f[1])))
	}
	w("Definition effects_auth_ServeHTTP : list string := %s.", strList(effectSkeleton(authp, "Handler", "ServeHTTP")))
	w("(* the HTTP client gives every request its own copy of the header object the application passed in *)")
	w("Definition http_header_assignment : list string := %s.", strList(assignsIn(root, "httpClient", []string{"hreq.Header"})))
	w("(* channels of the requester side and their capacities: the hand-over channel is unbuffered (a request handed over is in the loop's hands), the response channel of a request holds one response (nobody ever blocks sending to it) *)")
	w("Definition requester_chan_makes : list string := %s.", strList(chanMakes(root, "setupRequestChan", "sendRequest")))
	w("(* every write of a control frame with its deadline, and every place a write deadline is set on the connection *)")
	w("Definition write_control_calls : list string := %s.", strList(callExprsNamed(root, "setupPings", "WriteControl")))
	{
		var wd []string
		for _, fn := range root.sortedFiles() {
			for _, d := range root.files[fn].Decls {
				if fd, ok := d.(*ast.FuncDecl); ok && fd.Body != nil {
					for _, c := range callExprsNamed(root, fd.Name.Name, "SetWriteDeadline") {
						wd = append(wd, fd.Name.Name+": "+c)
					}
				}
			}
		}
		w("Definition write_deadline_calls : list string := %s.", strList(wd))
	}
	w("(* the retry loop of handleRpcCall: every way out of it (in source order) and what follows the retry decision *)")
	{
		leaves, tail := retryLoop(root)
		w("Definition retry_loop_leaves : list string := %s.", strList(leaves))
		w("Definition retry_loop_tail : list string := %s.", strList(tail))
	}
	w("(* select statements: the communications each one waits on, in source order (a default arm is listed as \"default\") *)")
	w("Definition selects_handleWsConn : list (list string) := %s.", selectComms(root, "handleWsConn"))
	w("Definition selects_handleChanOut : list (list string) := %s.", selectComms(root, "handleChanOut"))
	w("Definition selects_setupRequestChan : list (list string) := %s.", selectComms(root, "setupRequestChan"))
	w("(* the client's sink pump (makeOutChan) waits with reflect.Select on these alternatives *)")
	w("Definition outchan_select_cases : list string := %s.", strList(reflectSelectCases(root, "makeOutChan")))
	w("(* keepalive *)")
	w("(* the options that carry the keepalive parameters: every statement of the closure each one returns *)")
	w("Definition option_bodies : list (string * list string) := [%s].", strings.Join([]string{
		optionBody(root, "WithTimeout"), optionBody(root, "WithPingInterval"), optionBody(root, "WithServerPingInterval")}, "; "))
	w("(* the options that decide about reconnecting *)")
	w("Definition reconnect_option_bodies : list (string * list string) := [%s].", strings.Join([]string{
		optionBody(root, "WithReconnectBackoff"), optionBody(root, "WithNoReconnect")}, "; "))
	w("Definition nextMessage_resets_before_read : bool := %s.", coqBool(callBefore(root, "nextMessage", "c.resetReadDeadline", "c.conn.NextReader")))
	w("Definition ping_handler_answers_pong : bool := %s.", coqBool(pingHandlerPongs(root)))
	w("Definition default_client_ping_timeout : Z * Z := (%s, %s).", coqZ(defaultOf(root, "defaultConfig", "pingInterval")), coqZ(defaultOf(root, "defaultConfig", "timeout")))
	w("Definition default_server_ping : Z := %s.", coqZ(defaultOf(root, "defaultServerConfig", "pingInterval")))
	w("")
	w("(* package auth *)")
	sh := authp.funcDecl("Handler", "ServeHTTP")
	if sh == nil {
		die("auth.Handler.ServeHTTP not found")
	}
	w("Definition auth_header_names : list string := %s.", strList(callStringArgs(sh, "Get")))
	w("Definition auth_query_names : list string := %s.", strList(callStringArgs(sh, "FormValue")))
	w("Definition auth_has_prefix_args : list string := %s.", strList(callStringArgs(sh, "HasPrefix")))
	w("Definition auth_trim_prefix_args : list string := %s.", strList(callStringArgs(sh, "TrimPrefix")))
	var codes []string
	for _, v := range callIntArgs(sh, "WriteHeader") {
		codes = append(codes, coqZ(v))
	}
	w("Definition auth_status_codes : list Z := [%s].", strings.Join(codes, "; "))
	pp := authp.funcDecl("", "PermissionedProxy")
	if pp == nil {
		die("auth.PermissionedProxy not found")
	}
	w("Definition auth_tag_names : list string := %s.", strList(callStringArgs(pp, "Get")))
	w("")
	w("(* package httpio: every close(w.wait) site, with whether it sits inside a sync.Once.Do callback *)")
	var sites []string
	for _, fn := range httpio.sortedFiles() {
		for _, d := range httpio.files[fn].Decls {
			fd, ok := d.(*ast.FuncDecl)
			if !ok || fd.Body == nil {
				continue
			}
			var walk func(n ast.Node, guarded bool)
			walk = func(n ast.Node, guarded bool) {
				ast.Inspect(n, func(m ast.Node) bool {
					ce, ok := m.(*ast.CallExpr)
					if !ok {
						return true
					}
					fs := exprString(ce.Fun)
					if fs == "close" && len(ce.Args) == 1 && strings.HasSuffix(exprString(ce.Args[0]), ".wait") {
						sites = append(sites, fmt.Sprintf("(%s, %s)", coqStr(fd.Name.Name), coqBool(guarded)))
						return false
					}
					if strings.HasSuffix(fs, "Once.Do") || strings.HasSuffix(fs, "once.Do") {
						for _, a := range ce.Args {
							walk(a, true)
						}
						return false
					}
					return true
				})
			}
			walk(fd.Body, false)
		}
	}
	w("Definition reader_wait_closes : list (string * bool) := [%s].", strings.Join(sites, "; "))
	w("(* package httpio: the rendezvous table: what happens inside each critical section of readersLk, and stores to the table outside of any *)")
	secs, outside := lockSections(httpio, "ReaderParamDecoder", "readersLk", "readers")
	var ss []string
	for _, sc := range secs {
		ss = append(ss, strList(sc))
	}
	w("Definition reader_rendezvous_sections : list (list string) := [%s].", strings.Join(ss, "; "))
	w("Definition reader_table_stores_outside_lock : Z := %s.", coqZ(int64(outside)))
}

// lockSections: in function fn, for every <lk>.Lock()/RLock() ... <lk>.Unlock()/RUnlock() stretch inside one statement
// list, the statements in between (ifs with their bodies); and the number of stores <table>[..] = .. outside any stretch
func lockSections(p *pkg, fn, lk, table string) ([][]string, int) {
	fd := p.anyFunc(fn)
	if fd == nil {
		die("%s not found", fn)
	}
	var full func(st ast.Stmt) string
	full = func(st ast.Stmt) string {
		if is, ok := st.(*ast.IfStmt); ok {
			var in []string
			for _, b := range is.Body.List {
				in = append(in, full(b))
			}
			s := "if " + exprString2(is.Cond) + " { " + strings.Join(in, "; ") + " }"
			if is.Else != nil {
				s += " else ..."
			}
			return s
		}
		return stmtString(st)
	}
	isCall := func(st ast.Stmt, names ...string) bool {
		es, ok := st.(*ast.ExprStmt)
		if !ok {
			return false
		}
		ce, ok := es.X.(*ast.CallExpr)
		if !ok {
			return false
		}
		f := exprString(ce.Fun)
		for _, n := range names {
			if f == lk+"."+n {
				return true
			}
		}
		return false
	}
	var secs [][]string
	inside := map[ast.Stmt]bool{}
	ast.Inspect(fd.Body, func(n ast.Node) bool {
		bs, ok := n.(*ast.BlockStmt)
		if !ok {
			return true
		}
		var cur []string
		in := false
		for _, st := range bs.List {
			switch {
			case isCall(st, "Lock", "RLock"):
				in, cur = true, []string{}
			case isCall(st, "Unlock", "RUnlock"):
				if in {
					secs = append(secs, cur)
				}
				in = false
			case in:
				cur = append(cur, full(st))
				ast.Inspect(st, func(m ast.Node) bool {
					if s2, ok := m.(ast.Stmt); ok {
						inside[s2] = true
					}
					return true
				})
			}
		}
		return true
	})
	outside := 0
	ast.Inspect(fd.Body, func(n ast.Node) bool {
		as, ok := n.(*ast.AssignStmt)
		if !ok {
			return true
		}
		for _, l := range as.Lhs {
			if ix, ok := l.(*ast.IndexExpr); ok && exprString(ix.X) == table && !inside[as] {
				outside++
			}
		}
		return true
	})
	return secs, outside
}

// indexGuarded: in wsConn.<fn>, every constant index expression <v>[i] occurs (in source order) after a top-level
// `if len(<v>) < k { ...; return }` with k > i. No index expression at all also counts as guarded.
func indexGuarded(p *pkg, fn, v string) bool {
	fd := p.funcDecl("wsConn", fn)
	if fd == nil {
		die("wsConn.%s not found", fn)
	}
	type guard struct {
		pos token.Pos
		k   int64
	}
	var guards []guard
	for _, st := range fd.Body.List {
		is, ok := st.(*ast.IfStmt)
		if !ok || is.Init != nil {
			continue
		}
		be, ok := is.Cond.(*ast.BinaryExpr)
		if !ok || be.Op != token.LSS {
			continue
		}
		if exprString2(be.X) != "len("+v+")" {
			continue
		}
		bl, ok := be.Y.(*ast.BasicLit)
		if !ok {
			continue
		}
		k, _ := strconv.ParseInt(bl.Value, 0, 64)
		// body must end in return
		if n := len(is.Body.List); n == 0 {
			continue
		} else if _, ok := is.Body.List[n-1].(*ast.ReturnStmt); !ok {
			continue
		}
		guards = append(guards, guard{is.End(), k})
	}
	okAll := true
	ast.Inspect(fd.Body, func(n ast.Node) bool {
		ix, ok := n.(*ast.IndexExpr)
		if !ok || exprString(ix.X) != v {
			return true
		}
		bl, ok := ix.Index.(*ast.BasicLit)
		if !ok {
			okAll = false
			return true
		}
		i, _ := strconv.ParseInt(bl.Value, 0, 64)
		covered := false
		for _, g := range guards {
			if g.pos < ix.Pos() && g.k > i {
				covered = true
			}
		}
		if !covered {
			okAll = false
		}
		return true
	})
	return okAll
}

// normalizedBeforeIndex: in wsConn.<fn>, the key variable of every index into c.<mapField> was assigned from
// normalizeID(...) earlier in the function (with an error check that returns).
func normalizedBeforeIndex(p *pkg, fn, mapField string) bool {
	fd := p.funcDecl("wsConn", fn)
	if fd == nil {
		die("wsConn.%s not found", fn)
	}
	normalized := map[string]token.Pos{}
	for _, st := range fd.Body.List {
		as, ok := st.(*ast.AssignStmt)
		if !ok || len(as.Rhs) != 1 {
			continue
		}
		ce, ok := as.Rhs[0].(*ast.CallExpr)
		if !ok || exprString(ce.Fun) != "normalizeID" {
			continue
		}
		if id, ok := as.Lhs[0].(*ast.Ident); ok {
			normalized[id.Name] = as.End()
		}
	}
	okAll := true
	found := false
	ast.Inspect(fd.Body, func(n ast.Node) bool {
		ix, ok := n.(*ast.IndexExpr)
		if !ok || !strings.HasSuffix(exprString(ix.X), "."+mapField) {
			return true
		}
		found = true
		id, ok := ix.Index.(*ast.Ident)
		if !ok {
			okAll = false
			return true
		}
		if pos, ok := normalized[id.Name]; !ok || pos > ix.Pos() {
			okAll = false
		}
		return true
	})
	return okAll && found
}

func (p *pkg) anyFunc(name string) *ast.FuncDecl {
	for _, fn := range p.sortedFiles() {
		for _, d := range p.files[fn].Decls {
			if fd, ok := d.(*ast.FuncDecl); ok && fd.Name.Name == name {
				return fd
			}
		}
	}
	return nil
}

// first assignment to lhs occurs (source order) before the first call of callee, both inside fn (not inside func literals)
func assignBeforeCall(p *pkg, fn, lhs, callee string) bool {
	fd := p.anyFunc(fn)
	if fd == nil {
		die("%s not found", fn)
	}
	var apos, cpos token.Pos
	var walk func(n ast.Node) bool
	walk = func(n ast.Node) bool {
		switch v := n.(type) {
		case *ast.FuncLit:
			return false
		case *ast.AssignStmt:
			for _, l := range v.Lhs {
				if exprString(l) == lhs && apos == 0 {
					apos = v.Pos()
				}
			}
		case *ast.CallExpr:
			if exprString(v.Fun) == callee && cpos == 0 {
				cpos = v.Pos()
			}
		}
		return true
	}
	ast.Inspect(fd.Body, walk)
	return apos != 0 && cpos != 0 && apos < cpos
}

func deleteGuardedByReady(p *pkg) bool {
	fd := p.funcDecl("wsConn", "handleResponse")
	if fd == nil {
		die("handleResponse not found")
	}
	total, guarded := 0, 0
	var walk func(n ast.Node, g bool)
	walk = func(n ast.Node, g bool) {
		ast.Inspect(n, func(m ast.Node) bool {
			switch v := m.(type) {
			case *ast.IfStmt:
				cg := g || strings.Contains(exprString2(v.Cond), ".ready")
				walk(v.Body, cg)
				if v.Else != nil {
					walk(v.Else, g)
				}
				return false
			case *ast.CallExpr:
				if exprString(v.Fun) == "delete" && len(v.Args) == 2 && strings.HasSuffix(exprString(v.Args[0]), ".inflight") {
					total++
					if g {
						guarded++
					}
				}
			}
			return true
		})
	}
	walk(fd.Body, false)
	return total == 1 && guarded == 1
}

func retryCondition(p *pkg) string {
	fd := p.funcDecl("rpcFunc", "handleRpcCall")
	if fd == nil {
		die("handleRpcCall not found")
	}
	out := ""
	ast.Inspect(fd.Body, func(n ast.Node) bool {
		as, ok := n.(*ast.AssignStmt)
		if ok && len(as.Lhs) == 1 && exprString(as.Lhs[0]) == "retry" && as.Tok == token.DEFINE {
			out = exprString2(as.Rhs[0])
		}
		return true
	})
	if out == "" {
		die("retry condition not found in handleRpcCall")
	}
	return out
}

func closerBodies(p *pkg) string {
	var items []string
	for _, fn := range []string{"NewCustomClient", "httpClient", "websocketClient"} {
		fd := p.anyFunc(fn)
		if fd == nil {
			die("%s not found", fn)
		}
		// last `return func() { ... }, nil`
		body := ""
		ast.Inspect(fd.Body, func(n ast.Node) bool {
			rs, ok := n.(*ast.ReturnStmt)
			if !ok || len(rs.Results) != 2 {
				return true
			}
			fl, ok := rs.Results[0].(*ast.FuncLit)
			if !ok {
				return true
			}
			var parts []string
			for _, st := range fl.Body.List {
				switch v := st.(type) {
				case *ast.ExprStmt:
					parts = append(parts, exprString2(v.X))
				default:
					parts = append(parts, fmt.Sprintf("<%T>", st))
				}
			}
			body = strings.Join(parts, "; ")
			return true
		})
		items = append(items, fmt.Sprintf("(%s, %s)", coqStr(fn), coqStr(body)))
	}
	return strings.Join(items, "; ")
}

func backoffClampFirst(p *pkg) bool {
	fd := p.funcDecl("backoff", "next")
	if fd == nil {
		die("backoff.next not found")
	}
	var clampPos, convPos token.Pos
	for _, st := range fd.Body.List {
		switch v := st.(type) {
		case *ast.IfStmt:
			c := exprString2(v.Cond)
			if (c == "durf >= float64(b.maxDelay)" || c == "durf > float64(b.maxDelay)") && len(v.Body.List) == 1 {
				if rs, ok := v.Body.List[0].(*ast.ReturnStmt); ok && len(rs.Results) == 1 && exprString2(rs.Results[0]) == "b.maxDelay" && clampPos == 0 {
					clampPos = v.Pos()
				}
			}
		case *ast.AssignStmt:
			if len(v.Rhs) == 1 && strings.HasPrefix(exprString2(v.Rhs[0]), "time.Duration(") && convPos == 0 {
				convPos = v.Pos()
			}
		}
	}
	return clampPos != 0 && convPos != 0 && clampPos < convPos
}

// numeric literals and the formula's shape: base of the power and the jitter term
func backoffConsts(p *pkg) []string {
	fd := p.funcDecl("backoff", "next")
	var out []string
	ast.Inspect(fd.Body, func(n ast.Node) bool {
		if as, ok := n.(*ast.AssignStmt); ok && len(as.Lhs) == 1 && exprString(as.Lhs[0]) == "durf" {
			out = append(out, exprString2(as.Rhs[0]))
		}
		return true
	})
	return out
}

func lazyWriterFailedArm(p *pkg) bool {
	fd := p.funcDecl("lazyWriter", "Write")
	if fd == nil {
		die("lazyWriter.Write not found")
	}
	arm, closer := false, false
	ast.Inspect(fd.Body, func(n ast.Node) bool {
		switch v := n.(type) {
		case *ast.CommClause:
			if es, ok := v.Comm.(*ast.ExprStmt); ok && exprString2(es.X) == "<-failed" {
				for _, st := range v.Body {
					if _, ok := st.(*ast.ReturnStmt); ok {
						arm = true
					}
				}
			}
		case *ast.CallExpr:
			if exprString2(v) == "close(failed)" {
				closer = true
			}
		}
		return true
	})
	return arm && closer
}

func handleCallCtx(p *pkg) string {
	fd := p.funcDecl("wsConn", "handleCall")
	if fd == nil {
		die("handleCall not found")
	}
	out := ""
	ast.Inspect(fd.Body, func(n ast.Node) bool {
		if as, ok := n.(*ast.AssignStmt); ok && len(as.Lhs) == 2 && exprString(as.Lhs[0]) == "ctx" && exprString(as.Lhs[1]) == "cancel" {
			out = exprString2(as.Rhs[0])
		}
		return true
	})
	return out
}

// assignments `lhs = rhs` (textual) to the given left-hand sides anywhere inside function fn (func literals included)
func assignsIn(p *pkg, fn string, lhss []string) []string {
	fd := p.anyFunc(fn)
	if fd == nil {
		die("%s not found", fn)
	}
	want := map[string]bool{}
	for _, l := range lhss {
		want[l] = true
	}
	var out []string
	ast.Inspect(fd.Body, func(n ast.Node) bool {
		if as, ok := n.(*ast.AssignStmt); ok && len(as.Lhs) == 1 && len(as.Rhs) == 1 && want[exprString(as.Lhs[0])] {
			out = append(out, exprString(as.Lhs[0])+" = "+exprString2(as.Rhs[0]))
		}
		return true
	})
	sort.Strings(out)
	return out
}

func builderCall(p *pkg) string {
	fd := p.funcDecl("RPCServer", "handleWS")
	if fd == nil {
		die("handleWS not found")
	}
	out := ""
	ast.Inspect(fd.Body, func(n ast.Node) bool {
		if as, ok := n.(*ast.AssignStmt); ok && len(as.Rhs) == 1 {
			if ce, ok := as.Rhs[0].(*ast.CallExpr); ok && strings.HasSuffix(exprString(ce.Fun), "reverseClientBuilder") {
				var l []string
				for _, x := range as.Lhs {
					l = append(l, exprString(x))
				}
				out = strings.Join(l, ", ") + " " + as.Tok.String() + " " + exprString2(as.Rhs[0])
			}
		}
		return true
	})
	return out
}

func callBefore(p *pkg, fn, first, second string) bool {
	fd := p.anyFunc(fn)
	if fd == nil {
		die("%s not found", fn)
	}
	var a, b token.Pos
	ast.Inspect(fd.Body, func(n ast.Node) bool {
		if ce, ok := n.(*ast.CallExpr); ok {
			s := exprString(ce.Fun)
			if s == first && a == 0 {
				a = ce.Pos()
			}
			if s == second && b == 0 {
				b = ce.Pos()
			}
		}
		return true
	})
	return a != 0 && b != 0 && a < b
}

func pingHandlerPongs(p *pkg) bool {
	fd := p.funcDecl("wsConn", "setupPings")
	if fd == nil {
		die("setupPings not found")
	}
	ok := false
	ast.Inspect(fd.Body, func(n ast.Node) bool {
		ce, isCall := n.(*ast.CallExpr)
		if !isCall || !strings.HasSuffix(exprString(ce.Fun), "SetPingHandler") || len(ce.Args) != 1 {
			return true
		}
		ast.Inspect(ce.Args[0], func(m ast.Node) bool {
			if c2, ok2 := m.(*ast.CallExpr); ok2 && strings.HasSuffix(exprString(c2.Fun), "WriteControl") && len(c2.Args) > 0 && exprString(c2.Args[0]) == "websocket.PongMessage" {
				ok = true
			}
			return true
		})
		return true
	})
	return ok
}

func defaultOf(p *pkg, fn, field string) int64 {
	fd := p.anyFunc(fn)
	if fd == nil {
		die("%s not found", fn)
	}
	var val int64
	found := false
	ast.Inspect(fd.Body, func(n ast.Node) bool {
		if kv, ok := n.(*ast.KeyValueExpr); ok {
			if id, ok := kv.Key.(*ast.Ident); ok && id.Name == field {
				val = p.evalInt(kv.Value)
				found = true
			}
		}
		return true
	})
	if !found {
		die("default %s.%s not found", fn, field)
	}
	return val
}

// decision skeleton of a function: type-switch case types and if/else-if conditions, in source order
func decisionOrder(p *pkg, recv, fn string) []string {
	fd := p.funcDecl(recv, fn)
	if recv == "" {
		fd = p.anyFunc(fn)
	}
	if fd == nil {
		die("%s.%s not found", recv, fn)
	}
	var out []string
	ast.Inspect(fd.Body, func(n ast.Node) bool {
		switch v := n.(type) {
		case *ast.TypeSwitchStmt:
			for _, c := range v.Body.List {
				cc := c.(*ast.CaseClause)
				for _, t := range cc.List {
					out = append(out, "case "+exprString2(t))
				}
				if cc.List == nil {
					out = append(out, "default")
				}
			}
		case *ast.SwitchStmt:
			tag := ""
			if v.Tag != nil {
				tag = exprString2(v.Tag)
			}
			out = append(out, "switch "+tag)
			for _, c := range v.Body.List {
				cc := c.(*ast.CaseClause)
				for _, t := range cc.List {
					out = append(out, "case "+exprString2(t))
				}
				if cc.List == nil {
					out = append(out, "default")
				}
			}
		case *ast.IfStmt:
			out = append(out, "if "+exprString2(v.Cond))
		}
		return true
	})
	return out
}

// keys of the composite literal assigned to `field` in function fn (NewErrors' pre-registered codes)
func literalKeys(p *pkg, fn, field string) []int64 {
	fd := p.anyFunc(fn)
	if fd == nil {
		die("%s not found", fn)
	}
	var out []int64
	ast.Inspect(fd.Body, func(n ast.Node) bool {
		kv, ok := n.(*ast.KeyValueExpr)
		if !ok {
			return true
		}
		if id, ok := kv.Key.(*ast.Ident); !ok || id.Name != field {
			return true
		}
		if cl, ok := kv.Value.(*ast.CompositeLit); ok {
			for _, e := range cl.Elts {
				if ekv, ok := e.(*ast.KeyValueExpr); ok {
					out = append(out, p.evalInt(ekv.Key))
				}
			}
		}
		return false
	})
	return out
}

// initial value of `var name T = v` inside fn
func localInit(p *pkg, recv, fn, name string) int64 {
	fd := p.funcDecl(recv, fn)
	if fd == nil {
		die("%s.%s not found", recv, fn)
	}
	var val int64
	found := false
	ast.Inspect(fd.Body, func(n ast.Node) bool {
		if vs, ok := n.(*ast.ValueSpec); ok && len(vs.Names) == 1 && vs.Names[0].Name == name && len(vs.Values) == 1 {
			val = p.evalInt(vs.Values[0])
			found = true
		}
		return true
	})
	if !found {
		die("local %s not found in %s", name, fn)
	}
	return val
}

// the positional skeleton of a function: every index / slice expression and make() size, and every call whose callee
// mentions one of the given words, in source order (deduplicated)
func positionalSkeleton(p *pkg, recv, fn string, words []string) []string {
	var fd *ast.FuncDecl
	if recv == "" {
		fd = p.anyFunc(fn)
	} else {
		fd = p.funcDecl(recv, fn)
	}
	if fd == nil {
		die("%s.%s not found", recv, fn)
	}
	var out []string
	seen := map[string]bool{}
	add := func(s string) {
		if !seen[s] {
			seen[s] = true
			out = append(out, s)
		}
	}
	ast.Inspect(fd.Body, func(n ast.Node) bool {
		switch v := n.(type) {
		case *ast.IndexExpr:
			add(exprString3(v))
		case *ast.SliceExpr:
			add(exprString3(v))
		case *ast.BinaryExpr:
			if v.Op == token.ADD || v.Op == token.SUB {
				add(exprString3(v))
			}
		case *ast.CallExpr:
			s := exprString3(v.Fun)
			if s == "make" {
				add(exprString3(v))
				return true
			}
			for _, w := range words {
				if strings.Contains(s, w) {
					add(exprString3(v))
					break
				}
			}
		}
		return true
	})
	return out
}

// exprString2 plus slices, composite types and function literals
func exprString3(e ast.Expr) string {
	switch v := e.(type) {
	case *ast.SliceExpr:
		lo, hi := "", ""
		if v.Low != nil {
			lo = exprString3(v.Low)
		}
		if v.High != nil {
			hi = exprString3(v.High)
		}
		return exprString3(v.X) + "[" + lo + ":" + hi + "]"
	case *ast.IndexExpr:
		return exprString3(v.X) + "[" + exprString3(v.Index) + "]"
	case *ast.ArrayType:
		return "[]" + exprString3(v.Elt)
	case *ast.BinaryExpr:
		return exprString3(v.X) + " " + v.Op.String() + " " + exprString3(v.Y)
	case *ast.CallExpr:
		var as []string
		for _, a := range v.Args {
			as = append(as, exprString3(a))
		}
		return exprString3(v.Fun) + "(" + strings.Join(as, ", ") + ")"
	case *ast.SelectorExpr:
		return exprString3(v.X) + "." + v.Sel.Name
	case *ast.ParenExpr:
		return "(" + exprString3(v.X) + ")"
	case *ast.UnaryExpr:
		return v.Op.String() + exprString3(v.X)
	case *ast.StarExpr:
		return "*" + exprString3(v.X)
	case *ast.TypeAssertExpr:
		if v.Type == nil {
			return exprString3(v.X) + ".(type)"
		}
		return exprString3(v.X) + ".(" + exprString3(v.Type) + ")"
	case *ast.MapType:
		return "map[" + exprString3(v.Key) + "]" + exprString3(v.Value)
	}
	return exprString2(e)
}

// like assignBeforeCall, but looks inside function literals too (the redial goroutine)
func assignBeforeCallDeep(p *pkg, fn, lhs, callee string) bool {
	fd := p.anyFunc(fn)
	if fd == nil {
		die("%s not found", fn)
	}
	var apos, cpos token.Pos
	ast.Inspect(fd.Body, func(n ast.Node) bool {
		switch v := n.(type) {
		case *ast.AssignStmt:
			for _, l := range v.Lhs {
				if exprString(l) == lhs && apos == 0 {
					apos = v.Pos()
				}
			}
		case *ast.CallExpr:
			if exprString(v.Fun) == callee && cpos == 0 {
				cpos = v.Pos()
			}
		}
		return true
	})
	return apos != 0 && cpos != 0 && apos < cpos
}

// conditions of if statements that compare a response id, with the function they stand in
func idChecks(p *pkg) []string {
	var out []string
	var names []string
	for n := range p.files {
		names = append(names, n)
	}
	sort.Strings(names)
	for _, fname := range names {
		f := p.files[fname]
		for _, d := range f.Decls {
			fd, ok := d.(*ast.FuncDecl)
			if !ok || fd.Body == nil {
				continue
			}
			ast.Inspect(fd.Body, func(n ast.Node) bool {
				if is, ok := n.(*ast.IfStmt); ok {
					c := exprString2(is.Cond)
					if strings.Contains(c, "resp.ID != ") {
						out = append(out, fd.Name.Name+": "+c)
					}
				}
				return true
			})
		}
	}
	return out
}

// in WithReverseClient: is the reverse client's formatter read inside the per-connection builder (the function literal
// assigned to c.reverseClientBuilder), i.e. when a connection is upgraded, not when the option is applied
func reverseFormatterReadPerConnection(p *pkg) bool {
	fd := p.anyFunc("WithReverseClient")
	if fd == nil {
		die("WithReverseClient not found")
	}
	ok := false
	ast.Inspect(fd.Body, func(n ast.Node) bool {
		as, isAs := n.(*ast.AssignStmt)
		if !isAs || len(as.Lhs) != 1 || len(as.Rhs) != 1 || exprString(as.Lhs[0]) != "c.reverseClientBuilder" {
			return true
		}
		fl, isFl := as.Rhs[0].(*ast.FuncLit)
		if !isFl {
			return true
		}
		ast.Inspect(fl.Body, func(m ast.Node) bool {
			if se, isSel := m.(*ast.SelectorExpr); isSel && exprString(se) == "c.methodNameFormatter" {
				ok = true
			}
			return true
		})
		return false
	})
	// and nowhere outside that literal
	outside := false
	ast.Inspect(fd.Body, func(n ast.Node) bool {
		if as, isAs := n.(*ast.AssignStmt); isAs && len(as.Lhs) == 1 && exprString(as.Lhs[0]) == "c.reverseClientBuilder" {
			return false
		}
		if se, isSel := n.(*ast.SelectorExpr); isSel && exprString(se) == "c.methodNameFormatter" {
			outside = true
		}
		return true
	})
	return ok && !outside
}

// optionBody: the statements (textual, in order) of the function literal returned by option constructor fn
func optionBody(p *pkg, fn string) string {
	fd := p.funcDecl("", fn)
	if fd == nil {
		die("%s not found", fn)
	}
	var stmts []string
	found := false
	for _, st := range fd.Body.List {
		rs, ok := st.(*ast.ReturnStmt)
		if !ok || len(rs.Results) != 1 {
			stmts = append(stmts, "outer: "+stmtString(st))
			continue
		}
		fl, ok := rs.Results[0].(*ast.FuncLit)
		if !ok {
			stmts = append(stmts, "outer: "+stmtString(st))
			continue
		}
		found = true
		for _, in := range fl.Body.List {
			stmts = append(stmts, stmtString(in))
		}
	}
	if !found {
		die("%s does not return a function literal", fn)
	}
	return fmt.Sprintf("(%s, %s)", coqStr(fn), strList(stmts))
}

func stmtString(st ast.Stmt) string {
	switch x := st.(type) {
	case *ast.AssignStmt:
		var l, r []string
		for _, e := range x.Lhs {
			l = append(l, exprString2(e))
		}
		for _, e := range x.Rhs {
			r = append(r, exprString2(e))
		}
		return strings.Join(l, ", ") + " " + x.Tok.String() + " " + strings.Join(r, ", ")
	case *ast.ExprStmt:
		return exprString2(x.X)
	case *ast.IfStmt:
		return "if " + exprString2(x.Cond) + " {...}"
	case *ast.ReturnStmt:
		return "return"
	}
	return fmt.Sprintf("%T", st)
}

// selectComms: for every select statement of function fn (function literals included), in source order, the list of
// its communication clauses as text
func selectComms(p *pkg, fn string) string {
	fd := p.anyFunc(fn)
	if fd == nil {
		die("%s not found", fn)
	}
	var all []string
	ast.Inspect(fd.Body, func(n ast.Node) bool {
		ss, ok := n.(*ast.SelectStmt)
		if !ok {
			return true
		}
		var comms []string
		for _, c := range ss.Body.List {
			cc := c.(*ast.CommClause)
			if cc.Comm == nil {
				comms = append(comms, "default")
				continue
			}
			switch x := cc.Comm.(type) {
			case *ast.SendStmt:
				comms = append(comms, exprString2(x.Chan)+" <- "+exprString2(x.Value))
			default:
				comms = append(comms, stmtString(cc.Comm))
			}
		}
		all = append(all, strList(comms))
		return true
	})
	return "[" + strings.Join(all, "; ") + "]"
}

// reflectSelectCases: the Chan (and Dir) of every reflect.SelectCase literal in function fn, in source order
func reflectSelectCases(p *pkg, fn string) []string {
	fd := p.anyFunc(fn)
	if fd == nil {
		die("%s not found", fn)
	}
	var out []string
	one := func(cl *ast.CompositeLit) {
		dir, ch := "", ""
		for _, e := range cl.Elts {
			if kv, ok := e.(*ast.KeyValueExpr); ok {
				switch exprString(kv.Key) {
				case "Dir":
					dir = exprString2(kv.Value)
				case "Chan":
					ch = exprString2(kv.Value)
				}
			}
		}
		out = append(out, dir+" "+ch)
	}
	ast.Inspect(fd.Body, func(n ast.Node) bool {
		cl, ok := n.(*ast.CompositeLit)
		if !ok || cl.Type == nil {
			return true
		}
		switch exprString2(cl.Type) {
		case "reflect.SelectCase":
			one(cl)
			return false
		case "[]reflect.SelectCase":
			for _, e := range cl.Elts {
				if el, ok := e.(*ast.CompositeLit); ok {
					one(el)
				}
			}
			return false
		}
		return true
	})
	// the arms of the switch over the chosen alternative
	ast.Inspect(fd.Body, func(n ast.Node) bool {
		sw, ok := n.(*ast.SwitchStmt)
		if !ok || sw.Tag == nil || exprString(sw.Tag) != "chosen" {
			return true
		}
		for _, c := range sw.Body.List {
			cc := c.(*ast.CaseClause)
			var ls []string
			for _, e := range cc.List {
				ls = append(ls, exprString2(e))
			}
			if cc.List == nil {
				ls = []string{"default"}
			}
			out = append(out, "case "+strings.Join(ls, ","))
		}
		return true
	})
	return out
}

// retryLoop: the for loop of rpcFunc.handleRpcCall. leaves: every return / break inside it with the condition (if or
// select arm) that guards it; tail: the top-level statements of the body after the `if !retry { break }`
func retryLoop(p *pkg) (leaves []string, tail []string) {
	fd := p.funcDecl("rpcFunc", "handleRpcCall")
	if fd == nil {
		die("handleRpcCall not found")
	}
	var loop *ast.ForStmt
	ast.Inspect(fd.Body, func(n ast.Node) bool {
		if fs, ok := n.(*ast.ForStmt); ok && loop == nil && fs.Init != nil && strings.HasPrefix(stmtString(fs.Init), "attempt") {
			loop = fs
		}
		return loop == nil
	})
	if loop == nil {
		die("retry loop not found in handleRpcCall")
	}
	leaveOf := func(list []ast.Stmt) string {
		for _, st := range list {
			switch x := st.(type) {
			case *ast.ReturnStmt:
				return "return"
			case *ast.BranchStmt:
				return x.Tok.String()
			}
		}
		return ""
	}
	var walk func(list []ast.Stmt)
	walk = func(list []ast.Stmt) {
		for _, st := range list {
			switch x := st.(type) {
			case *ast.IfStmt:
				cond := exprString2(x.Cond)
				if x.Init != nil {
					cond = stmtString(x.Init) + "; " + cond
				}
				if l := leaveOf(x.Body.List); l != "" {
					leaves = append(leaves, "if "+cond+": "+l)
				}
				walk(x.Body.List)
				if eb, ok := x.Else.(*ast.BlockStmt); ok {
					if l := leaveOf(eb.List); l != "" {
						leaves = append(leaves, "else of "+cond+": "+l)
					}
					walk(eb.List)
				}
			case *ast.SelectStmt:
				for _, c := range x.Body.List {
					cc := c.(*ast.CommClause)
					comm := "default"
					if cc.Comm != nil {
						comm = stmtString(cc.Comm)
					}
					if l := leaveOf(cc.Body); l != "" {
						leaves = append(leaves, "select "+comm+": "+l)
					}
					walk(cc.Body)
				}
			case *ast.SwitchStmt:
				for _, c := range x.Body.List {
					cc := c.(*ast.CaseClause)
					if l := leaveOf(cc.Body); l != "" {
						leaves = append(leaves, "switch arm: "+l)
					}
					walk(cc.Body)
				}
			case *ast.BlockStmt:
				if l := leaveOf(x.List); l != "" {
					leaves = append(leaves, "block: "+l)
				}
				walk(x.List)
			}
		}
	}
	// a return / break directly in the loop body is unconditional; guarded ones are reported with their guard
	if l := leaveOf(loop.Body.List); l != "" {
		leaves = append(leaves, "unconditional "+l)
	}
	walk(loop.Body.List)
	after := false
	for _, st := range loop.Body.List {
		if after {
			tail = append(tail, stmtString(st))
		}
		if is, ok := st.(*ast.IfStmt); ok && exprString2(is.Cond) == "!retry" {
			after = true
		}
	}
	return
}

// effectSkeleton: control flow, synchronisation and shared-state effects of one function, in source order: conditions of
// if / for / switch, range expressions, select communications, go / defer / return, channel sends, calls made as
// statements (by callee; delete and close with their arguments), stores to fields and to indexed tables. Calls to the
// logger and to the verif hook are left out, so are assignments to locals. The models are written against these lists.
func effectSkeleton(p *pkg, recv, fn string) []string {
	fd := p.funcDecl(recv, fn)
	if fd == nil && recv == "" {
		fd = p.anyFunc(fn)
	}
	if fd == nil {
		die("%s.%s not found", recv, fn)
	}
	var out []string
	callee := func(ce *ast.CallExpr) string { return exprString2(ce.Fun) }
	noise := func(name string) bool {
		return name == "vhook" || strings.HasPrefix(name, "log.") || strings.HasPrefix(name, "span.") || strings.HasPrefix(name, "stats.")
	}
	ast.Inspect(fd.Body, func(n ast.Node) bool {
		switch v := n.(type) {
		case *ast.IfStmt:
			c := exprString2(v.Cond)
			if v.Init != nil {
				c = stmtString(v.Init) + "; " + c
			}
			out = append(out, "if "+c)
		case *ast.TypeSwitchStmt:
			out = append(out, "typeswitch")
			for _, c := range v.Body.List {
				cc := c.(*ast.CaseClause)
				var ts []string
				for _, t := range cc.List {
					ts = append(ts, exprString2(t))
				}
				if cc.List == nil {
					ts = []string{"default"}
				}
				out = append(out, "case "+strings.Join(ts, ","))
			}
		case *ast.SwitchStmt:
			tag := ""
			if v.Tag != nil {
				tag = exprString2(v.Tag)
			}
			out = append(out, "switch "+tag)
			for _, c := range v.Body.List {
				cc := c.(*ast.CaseClause)
				var ts []string
				for _, t := range cc.List {
					ts = append(ts, exprString2(t))
				}
				if cc.List == nil {
					ts = []string{"default"}
				}
				out = append(out, "case "+strings.Join(ts, ","))
			}
		case *ast.ForStmt:
			c := ""
			if v.Cond != nil {
				c = exprString2(v.Cond)
			}
			out = append(out, "for "+c)
		case *ast.RangeStmt:
			out = append(out, "range "+exprString2(v.X))
		case *ast.SelectStmt:
			out = append(out, "select")
			for _, c := range v.Body.List {
				cc := c.(*ast.CommClause)
				if cc.Comm == nil {
					out = append(out, "comm default")
				} else if ss, ok := cc.Comm.(*ast.SendStmt); ok {
					out = append(out, "comm "+exprString2(ss.Chan)+" <-")
				} else {
					out = append(out, "comm "+stmtString(cc.Comm))
				}
			}
		case *ast.GoStmt:
			if _, lit := v.Call.Fun.(*ast.FuncLit); lit {
				out = append(out, "go func")
			} else {
				out = append(out, "go "+callee(v.Call))
			}
		case *ast.DeferStmt:
			if _, lit := v.Call.Fun.(*ast.FuncLit); lit {
				out = append(out, "defer func")
			} else {
				out = append(out, "defer "+callee(v.Call))
			}
		case *ast.ReturnStmt:
			out = append(out, "return")
		case *ast.BranchStmt:
			out = append(out, v.Tok.String())
		case *ast.SendStmt:
			out = append(out, "send "+exprString2(v.Chan))
		case *ast.IncDecStmt:
			if _, ok := v.X.(*ast.Ident); !ok {
				out = append(out, exprString2(v.X)+v.Tok.String())
			}
		case *ast.ExprStmt:
			if ce, ok := v.X.(*ast.CallExpr); ok {
				name := callee(ce)
				if noise(name) {
					return false
				}
				if name == "delete" || name == "close" {
					var as []string
					for _, a := range ce.Args {
						as = append(as, exprString2(a))
					}
					out = append(out, name+"("+strings.Join(as, ", ")+")")
				} else if _, lit := ce.Fun.(*ast.FuncLit); !lit {
					out = append(out, "call "+name)
				}
			}
		case *ast.AssignStmt:
			for _, l := range v.Lhs {
				switch x := l.(type) {
				case *ast.IndexExpr:
					out = append(out, "store "+exprString2(x.X)+"[...]")
				case *ast.SelectorExpr:
					out = append(out, "set "+exprString2(x))
				}
			}
		}
		return true
	})
	return out
}

// packageVars: the package-level variables of the package (name and type / initialiser shape), sorted; and every place a
// function body changes one of them (assignment, indexed store, ++/--, delete, address taken), as "func: what"
func packageVars(p *pkg) (vars []string, muts []string) {
	names := map[string]bool{}
	for _, fn := range p.sortedFiles() {
		for _, d := range p.files[fn].Decls {
			gd, ok := d.(*ast.GenDecl)
			if !ok || gd.Tok.String() != "var" {
				continue
			}
			for _, sp := range gd.Specs {
				vs := sp.(*ast.ValueSpec)
				for i, n := range vs.Names {
					if n.Name == "_" {
						continue
					}
					kind := ""
					var te ast.Expr = vs.Type
					if te == nil && i < len(vs.Values) {
						switch v := vs.Values[i].(type) {
						case *ast.CompositeLit:
							te = v.Type
						case *ast.CallExpr:
							if exprString2(v.Fun) == "make" && len(v.Args) > 0 {
								te = v.Args[0]
							}
						}
					}
					switch tt := te.(type) {
					case *ast.MapType:
						kind = " (map)"
					case *ast.ChanType:
						kind = " (chan)"
					case *ast.ArrayType:
						if tt.Len == nil {
							kind = " (slice)"
						}
					}
					vars = append(vars, n.Name+kind)
					names[n.Name] = true
				}
			}
		}
	}
	sort.Strings(vars)
	root := func(e ast.Expr) string {
		for {
			switch x := e.(type) {
			case *ast.Ident:
				return x.Name
			case *ast.IndexExpr:
				e = x.X
			case *ast.SelectorExpr:
				e = x.X
			case *ast.StarExpr:
				e = x.X
			case *ast.ParenExpr:
				e = x.X
			default:
				return ""
			}
		}
	}
	for _, fn := range p.sortedFiles() {
		for _, d := range p.files[fn].Decls {
			fd, ok := d.(*ast.FuncDecl)
			if !ok || fd.Body == nil {
				continue
			}
			// names shadowed by parameters or locals are not tracked precisely: a local of the same name as a package
			// variable would be reported too (fails closed)
			ast.Inspect(fd.Body, func(n ast.Node) bool {
				switch x := n.(type) {
				case *ast.AssignStmt:
					if x.Tok.String() == ":=" {
						return true
					}
					for _, l := range x.Lhs {
						if r := root(l); names[r] {
							muts = append(muts, fd.Name.Name+": "+exprString2(l)+" "+x.Tok.String())
						}
					}
				case *ast.IncDecStmt:
					if r := root(x.X); names[r] {
						muts = append(muts, fd.Name.Name+": "+exprString2(x.X)+x.Tok.String())
					}
				case *ast.CallExpr:
					if exprString2(x.Fun) == "delete" && len(x.Args) > 0 {
						if r := root(x.Args[0]); names[r] {
							muts = append(muts, fd.Name.Name+": delete "+exprString2(x.Args[0]))
						}
					}
				case *ast.UnaryExpr:
					if x.Op.String() == "&" {
						if r := root(x.X); names[r] {
							muts = append(muts, fd.Name.Name+": &"+exprString2(x.X))
						}
					}
				}
				return true
			})
		}
	}
	sort.Strings(muts)
	return
}

// callExprsNamed: the textual form (with arguments) of every call in function fn whose callee's last selector is one of
// names, in source order; fn may be a method of any receiver
func callExprsNamed(p *pkg, fn string, names ...string) []string {
	fd := p.anyFunc(fn)
	if fd == nil {
		die("%s not found", fn)
	}
	want := map[string]bool{}
	for _, n := range names {
		want[n] = true
	}
	var out []string
	ast.Inspect(fd.Body, func(n ast.Node) bool {
		ce, ok := n.(*ast.CallExpr)
		if !ok {
			return true
		}
		name := ""
		switch f := ce.Fun.(type) {
		case *ast.Ident:
			name = f.Name
		case *ast.SelectorExpr:
			name = f.Sel.Name
		}
		if want[name] {
			out = append(out, exprString2(ce))
		}
		return true
	})
	return out
}

// chanMakes: every make(chan ...) expression of the named functions, as "fn: make(...)"
func chanMakes(p *pkg, fns ...string) []string {
	var out []string
	for _, fn := range fns {
		for _, m := range callExprsNamed(p, fn, "make") {
			if strings.HasPrefix(m, "make(chan ") {
				out = append(out, fn+": "+m)
			}
		}
	}
	return out
}
