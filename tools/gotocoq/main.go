// gotocoq: translator from facts of /repo's Go source text to Coq definitions (coq/gen/*.v).
// Standard library only (go/parser, go/ast). It fails closed: anything it is asked to extract
// and cannot find or evaluate is a fatal error (the proof obligation "gen regenerates" breaks).
package main

import (
	"flag"
	"fmt"
	"go/ast"
	"go/parser"
	"go/token"
	"os"
	"path/filepath"
	"reflect"
	"sort"
	"strconv"
	"strings"
)

var fset = token.NewFileSet()

type pkg struct {
	dir   string
	files map[string]*ast.File // base name -> file
}

func die(f string, a ...interface{}) {
	fmt.Fprintf(os.Stderr, "gotocoq: "+f+"\n", a...)
	os.Exit(1)
}

func loadPkg(dir string) *pkg {
	p := &pkg{dir: dir, files: map[string]*ast.File{}}
	ents, err := os.ReadDir(dir)
	if err != nil {
		die("%v", err)
	}
	for _, e := range ents {
		n := e.Name()
		if e.IsDir() || !strings.HasSuffix(n, ".go") || strings.HasSuffix(n, "_test.go") {
			continue
		}
		if n == "verif_on.go" || n == "verif_off.go" {
			continue
		}
		f, err := parser.ParseFile(fset, filepath.Join(dir, n), nil, parser.ParseComments)
		if err != nil {
			die("parse %s: %v", n, err)
		}
		p.files[n] = f
	}
	return p
}

func (p *pkg) sortedFiles() []string {
	var ns []string
	for n := range p.files {
		ns = append(ns, n)
	}
	sort.Strings(ns)
	return ns
}

// ---- constants

var timeUnits = map[string]int64{"Nanosecond": 1, "Microsecond": 1e3, "Millisecond": 1e6, "Second": 1e9, "Minute": 60e9, "Hour": 3600e9}

func (p *pkg) findValueSpec(name string) (ast.Expr, bool) {
	for _, fn := range p.sortedFiles() {
		for _, d := range p.files[fn].Decls {
			gd, ok := d.(*ast.GenDecl)
			if !ok || (gd.Tok != token.CONST && gd.Tok != token.VAR) {
				continue
			}
			for _, s := range gd.Specs {
				vs := s.(*ast.ValueSpec)
				for i, id := range vs.Names {
					if id.Name == name && i < len(vs.Values) {
						return vs.Values[i], true
					}
				}
			}
		}
	}
	return nil, false
}

func (p *pkg) evalInt(e ast.Expr) int64 {
	switch v := e.(type) {
	case *ast.BasicLit:
		if v.Kind == token.INT {
			n, err := strconv.ParseInt(v.Value, 0, 64)
			if err != nil {
				die("int literal %s: %v", v.Value, err)
			}
			return n
		}
	case *ast.ParenExpr:
		return p.evalInt(v.X)
	case *ast.UnaryExpr:
		if v.Op == token.SUB {
			return -p.evalInt(v.X)
		}
	case *ast.BinaryExpr:
		a, b := p.evalInt(v.X), p.evalInt(v.Y)
		switch v.Op {
		case token.SHL:
			return a << uint(b)
		case token.MUL:
			return a * b
		case token.ADD:
			return a + b
		case token.SUB:
			return a - b
		}
	case *ast.SelectorExpr:
		if x, ok := v.X.(*ast.Ident); ok && x.Name == "time" {
			if u, ok := timeUnits[v.Sel.Name]; ok {
				return u
			}
		}
	case *ast.Ident:
		if ex, ok := p.findValueSpec(v.Name); ok {
			return p.evalInt(ex)
		}
	}
	die("cannot evaluate integer expression at %s", fset.Position(e.Pos()))
	return 0
}

func (p *pkg) constInt(name string) int64 {
	e, ok := p.findValueSpec(name)
	if !ok {
		die("constant %s not found", name)
	}
	return p.evalInt(e)
}

func (p *pkg) constString(name string) string {
	e, ok := p.findValueSpec(name)
	if !ok {
		die("constant %s not found", name)
	}
	bl, ok := e.(*ast.BasicLit)
	if !ok || bl.Kind != token.STRING {
		die("constant %s is not a string literal", name)
	}
	s, err := strconv.Unquote(bl.Value)
	if err != nil {
		die("%v", err)
	}
	return s
}

// ---- struct tags

type field struct {
	GoName, JSONName, GoType string
	OmitEmpty               bool
}

func exprString(e ast.Expr) string {
	switch v := e.(type) {
	case *ast.Ident:
		return v.Name
	case *ast.StarExpr:
		return "*" + exprString(v.X)
	case *ast.SelectorExpr:
		return exprString(v.X) + "." + v.Sel.Name
	case *ast.InterfaceType:
		return "interface{}"
	case *ast.MapType:
		return "map[" + exprString(v.Key) + "]" + exprString(v.Value)
	case *ast.ArrayType:
		return "[]" + exprString(v.Elt)
	}
	return fmt.Sprintf("%T", e)
}

func (p *pkg) structFields(name string) []field {
	for _, fn := range p.sortedFiles() {
		for _, d := range p.files[fn].Decls {
			gd, ok := d.(*ast.GenDecl)
			if !ok || gd.Tok != token.TYPE {
				continue
			}
			for _, s := range gd.Specs {
				ts := s.(*ast.TypeSpec)
				if ts.Name.Name != name {
					continue
				}
				st, ok := ts.Type.(*ast.StructType)
				if !ok {
					die("%s is not a struct", name)
				}
				var out []field
				for _, f := range st.Fields.List {
					tag := ""
					if f.Tag != nil {
						tag, _ = strconv.Unquote(f.Tag.Value)
					}
					js := reflect.StructTag(tag).Get("json")
					parts := strings.Split(js, ",")
					for _, n := range f.Names {
						fl := field{GoName: n.Name, JSONName: parts[0], GoType: exprString(f.Type)}
						if fl.JSONName == "" {
							fl.JSONName = n.Name
						}
						for _, o := range parts[1:] {
							if o == "omitempty" {
								fl.OmitEmpty = true
							}
						}
						out = append(out, fl)
					}
				}
				return out
			}
		}
	}
	die("struct %s not found", name)
	return nil
}

func (p *pkg) funcDecl(recv, name string) *ast.FuncDecl {
	for _, fn := range p.sortedFiles() {
		for _, d := range p.files[fn].Decls {
			fd, ok := d.(*ast.FuncDecl)
			if !ok || fd.Name.Name != name {
				continue
			}
			r := ""
			if fd.Recv != nil && len(fd.Recv.List) > 0 {
				r = strings.TrimPrefix(exprString(fd.Recv.List[0].Type), "*")
			}
			if r == recv {
				return fd
			}
		}
	}
	return nil
}

// ---- output helpers

func coqStr(s string) string {
	for _, c := range s {
		if c < 32 || c > 126 {
			die("non printable string constant %q", s)
		}
	}
	return "\"" + strings.ReplaceAll(s, "\"", "\"\"") + "\""
}

func coqZ(n int64) string {
	if n < 0 {
		return fmt.Sprintf("(%d)%%Z", n)
	}
	return fmt.Sprintf("%d%%Z", n)
}

func coqBool(b bool) string {
	if b {
		return "true"
	}
	return "false"
}

func main() {
	repo := flag.String("repo", "/repo", "repository root")
	out := flag.String("out", "", "output directory for generated .v files")
	flag.Parse()
	if *out == "" {
		die("-out required")
	}
	root := loadPkg(*repo)
	authp := loadPkg(filepath.Join(*repo, "auth"))
	httpio := loadPkg(filepath.Join(*repo, "httpio"))

	var b strings.Builder
	genExtracted(&b, root, authp, httpio)
	if err := os.WriteFile(filepath.Join(*out, "Extracted.v"), []byte(b.String()), 0o644); err != nil {
		die("%v", err)
	}
	var lt strings.Builder
	genLockTable(&lt, root)
	if err := os.WriteFile(filepath.Join(*out, "LockTable.v"), []byte(lt.String()), 0o644); err != nil {
		die("%v", err)
	}
}
