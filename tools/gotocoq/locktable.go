package main

import "strings"

// placeholder until the lock-set interpreter is written (see locks.go)
func genLockTable(b *strings.Builder, root *pkg) {
	genLockTableImpl(b, root)
}
