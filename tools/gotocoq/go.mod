module gotocoq

go 1.23.0
