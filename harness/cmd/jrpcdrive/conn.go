package main

import (
	"context"
	"errors"
	"fmt"
	"net"
	"net/http/httptest"
	"strings"
	"sync"
	"sync/atomic"
	"time"

	"github.com/filecoin-project/go-jsonrpc"
)

// family "conn": real client <-> faultProxy <-> real server, scripted faults, gates through the hooks;
// every run emits its linearised event trace plus the black-box outcome of every call.

type connHandler struct {
	env *connEnv
}

func (h *connHandler) enter(kind string, token int) {
	h.env.tr.ev("h.start", token, kind)
	h.env.execs.Store(token, h.env.execCount(token)+1)
	if ch := h.env.holdOf(token); ch != nil {
		<-ch
	}
}

func (h *connHandler) Echo(ctx context.Context, token int) (int, error) {
	h.enter("echo", token)
	h.env.tr.evEnd(token, ctx)
	return token, nil
}

// Plain has no error result: a failed call hands its caller the zero value; the library must still not re-send it
func (h *connHandler) Plain(ctx context.Context, token int) int {
	h.enter("plain", token)
	h.env.tr.evEnd(token, ctx)
	return token
}

func (h *connHandler) Retry(ctx context.Context, token int) (int, error) {
	h.enter("retry", token)
	h.env.tr.evEnd(token, ctx)
	return token, nil
}

func (h *connHandler) RetryNC(ctx context.Context, token int) (int, error) {
	h.enter("retrync", token)
	h.env.tr.evEnd(token, ctx)
	return token, nil
}

func (h *connHandler) RetryNo(ctx context.Context, token int) (int, error) {
	h.enter("retryno", token)
	h.env.tr.evEnd(token, ctx)
	return token, nil
}

func (h *connHandler) Retry0(ctx context.Context, token int) (int, error) {
	h.enter("retry0", token)
	h.env.tr.evEnd(token, ctx)
	return token, nil
}

func (h *connHandler) Fail(ctx context.Context, token int) (int, error) {
	h.enter("fail", token)
	h.env.tr.evEnd(token, ctx)
	return 0, fmt.Errorf("fail-%d", token)
}

func (h *connHandler) Big(ctx context.Context, token int, size int) (string, error) {
	h.enter("big", token)
	h.env.tr.evEnd(token, ctx)
	return fmt.Sprintf("%d:", token) + strings.Repeat("x", size), nil
}

func (h *connHandler) Note(token int) {
	h.enter("note", token)
	h.env.tr.ev("h.end", token, false)
}

// WaitCtx blocks until its context is cancelled or it is released; reports which
func (h *connHandler) WaitCtx(ctx context.Context, token int) (int, error) {
	h.env.tr.ev("h.start", token, "waitctx")
	h.env.execs.Store(token, h.env.execCount(token)+1)
	ch := h.env.holdOf(token)
	select {
	case <-ctx.Done():
		h.env.tr.ev("h.ctxdone", token)
		h.env.tr.ev("h.end", token, true)
		return -token, nil
	case <-ch:
		h.env.tr.evEnd(token, ctx)
		return token, nil
	}
}

// NoteWait: a notification whose handler waits for its context (or a release)
func (h *connHandler) NoteWait(ctx context.Context, token int) {
	h.env.tr.ev("h.start", token, "notewait")
	h.env.execs.Store(token, h.env.execCount(token)+1)
	ch := h.env.holdOf(token)
	select {
	case <-ctx.Done():
		h.env.tr.ev("h.ctxdone", token)
		h.env.tr.ev("h.end", token, true)
	case <-ch:
		h.env.tr.evEnd(token, ctx)
	}
}

// Sub: a stream of n values token*1000+i; the producer goroutine obeys the stream script of the env
func (h *connHandler) Sub(ctx context.Context, token int, n int) (<-chan int, error) {
	h.env.tr.ev("h.start", token, "sub")
	h.env.execs.Store(token, h.env.execCount(token)+1)
	if h.env.watchCtx {
		// an observer of the handler's context that does not depend on what the producer is doing
		go func() { <-ctx.Done(); h.env.tr.ev("h.ctxwatch", token) }()
	}
	buf := h.env.subBuf
	ch := make(chan int, buf)
	hold := h.env.holdOf(token)
	go func() {
		closeIt := true
		defer func() {
			if closeIt {
				h.env.tr.ev("prod.close", token)
				close(ch)
			}
		}()
		for i := 0; i < n; i++ {
			v := token*1000 + i
			if h.env.prodGate != nil {
				h.env.prodGate(token, i)
			}
			h.env.tr.ev("prod.try", token, v)
			select {
			case ch <- v:
				h.env.tr.ev("prod.send", token, v)
			case <-ctx.Done():
				h.env.tr.ev("h.ctxdone", token)
				closeIt = !h.env.subNoClose // a producer may simply stop when its context ends, without closing
				return
			}
		}
		if hold != nil {
			select {
			case <-hold:
			case <-ctx.Done():
				h.env.tr.ev("h.ctxdone", token)
				closeIt = !h.env.subNoClose
			}
		}
	}()
	h.env.tr.evEnd(token, ctx)
	return ch, nil
}

// stream elements that are not scalars: every element must be decoded into a fresh value on the client
type cpElem struct {
	Seq    int
	Tags   []string       `json:",omitempty"`
	Attrs  map[string]int `json:",omitempty"`
	Parent *int           `json:",omitempty"`
}

func mkElem(v int) cpElem {
	e := cpElem{Seq: v}
	switch v % 3 {
	case 0:
		p := v
		e.Tags, e.Attrs, e.Parent = []string{"a", "b", fmt.Sprint(v)}, map[string]int{"x": v}, &p
	case 1:
		e.Attrs = map[string]int{"y": 2, fmt.Sprint("k", v): v}
	case 2:
		p := -v
		e.Tags, e.Parent = []string{"g"}, &p
	}
	return e
}

// SubS is Sub with struct elements (same observation points; the element's Seq plays the part of the value)
func (h *connHandler) SubS(ctx context.Context, token int, n int) (<-chan cpElem, error) {
	h.env.tr.ev("h.start", token, "sub")
	h.env.execs.Store(token, h.env.execCount(token)+1)
	ch := make(chan cpElem, h.env.subBuf)
	hold := h.env.holdOf(token)
	go func() {
		defer func() {
			h.env.tr.ev("prod.close", token)
			close(ch)
		}()
		for i := 0; i < n; i++ {
			v := token*1000 + i
			if h.env.prodGate != nil {
				h.env.prodGate(token, i)
			}
			h.env.tr.ev("prod.try", token, v)
			select {
			case ch <- mkElem(v):
				h.env.tr.ev("prod.send", token, v)
			case <-ctx.Done():
				h.env.tr.ev("h.ctxdone", token)
				return
			}
		}
		if hold != nil {
			select {
			case <-hold:
			case <-ctx.Done():
				h.env.tr.ev("h.ctxdone", token)
			}
		}
	}()
	h.env.tr.evEnd(token, ctx)
	return ch, nil
}

// SubOnly is Sub with the channel as its only result (no error result): a subscription all the same
func (h *connHandler) SubOnly(ctx context.Context, token int, n int) <-chan int {
	ch, _ := h.Sub(ctx, token, n)
	return ch
}

// anyElem is element i of a SubAny stream: every third one is an untyped nil, the others numbers and strings
func anyElem(token, i int) interface{} {
	switch i % 3 {
	case 1:
		return nil
	case 2:
		return fmt.Sprintf("s%d", token*1000+i)
	}
	return float64(token*1000 + i)
}

// SubAny streams n elements of interface type (the element type of the channel is interface{}); no producer events are
// traced: these streams are judged by the direct oracle only
func (h *connHandler) SubAny(ctx context.Context, token int, n int) (<-chan interface{}, error) {
	h.env.tr.ev("h.start", token, "subany")
	h.env.execs.Store(token, h.env.execCount(token)+1)
	ch := make(chan interface{}, h.env.subBuf)
	go func() {
		defer close(ch)
		for i := 0; i < n; i++ {
			select {
			case ch <- anyElem(token, i):
			case <-ctx.Done():
				return
			}
		}
	}()
	h.env.tr.evEnd(token, ctx)
	return ch, nil
}

// SubWait is a subscribing method that is slow to hand out its channel: it waits (up to 1.5s) for its context
func (h *connHandler) SubWait(ctx context.Context, token int, n int) (<-chan int, error) {
	h.env.tr.ev("h.start", token, "subwait")
	h.env.execs.Store(token, h.env.execCount(token)+1)
	select {
	case <-ctx.Done():
		h.env.tr.ev("h.ctxdone", token)
	case <-time.After(1500 * time.Millisecond):
	}
	ch := make(chan int)
	close(ch)
	h.env.tr.evEnd(token, ctx)
	return ch, nil
}

type connClient struct {
	Echo     func(ctx context.Context, token int) (int, error)
	Retry    func(ctx context.Context, token int) (int, error) `retry:"true"`
	RetryNC  func(token int) (int, error)                      `retry:"true"` // retry-tagged, no context parameter
	RetryNo  func(ctx context.Context, token int) (int, error) `retry:"no"`   // not tagged for retry: only "true" tags a method
	Retry0   func(ctx context.Context, token int) (int, error) `retry:"0"`
	Plain    func(ctx context.Context, token int) int
	Fail     func(ctx context.Context, token int) (int, error)
	Big      func(ctx context.Context, token int, size int) (string, error)
	Note     func(token int) error `notify:"true"`
	WaitCtx  func(ctx context.Context, token int) (int, error)
	NoteWait func(ctx context.Context, token int) error `notify:"true"`
	Sub      func(ctx context.Context, token int, n int) (<-chan int, error)
	SubS     func(ctx context.Context, token int, n int) (<-chan cpElem, error)
	SubAny   func(ctx context.Context, token int, n int) (<-chan interface{}, error)
	SubOnly  func(ctx context.Context, token int, n int) <-chan int
	SubWait  func(ctx context.Context, token int, n int) (<-chan int, error)
}

type callRec struct {
	Token    int    `json:"token"`
	Kind     string `json:"kind"`
	Returned bool   `json:"returned"`
	Returns  int    `json:"returns"`
	Outcome  string `json:"outcome"` // ok | foreign:<v> | connerr | exiting | handler-error | other:<msg> | pending
	Execs    int    `json:"execs"`
	ErrType  string `json:"err_type,omitempty"`
}

type connEnv struct {
	tr         *tracer
	srv        *jsonrpc.RPCServer
	ts         *httptest.Server
	proxy      *faultProxy
	cl         connClient
	closer     jsonrpc.ClientCloser
	mu         sync.Mutex
	holds      map[int]chan struct{}
	execs      sync.Map
	calls      map[int]*callRec
	wg         sync.WaitGroup
	nextTok    int32
	subBuf     int
	prodGate   func(token, i int)
	watchCtx   bool // Sub handlers report the end of their context on their own (h.ctxwatch)
	subNoClose bool // Sub producers stop on a cancelled context without closing their channel
	backoffMin time.Duration
	srvCancel  context.CancelFunc
}

func (e *connEnv) execCount(token int) int {
	if v, ok := e.execs.Load(token); ok {
		return v.(int)
	}
	return 0
}

func (e *connEnv) hold(token int) {
	e.mu.Lock()
	e.holds[token] = make(chan struct{})
	e.mu.Unlock()
}
func (e *connEnv) holdOf(token int) chan struct{} {
	e.mu.Lock()
	defer e.mu.Unlock()
	return e.holds[token]
}
func (e *connEnv) release(token int) {
	e.mu.Lock()
	ch := e.holds[token]
	delete(e.holds, token)
	e.mu.Unlock()
	if ch != nil {
		e.tr.ev("h.release", token)
		close(ch)
	}
}
func (e *connEnv) releaseAllHolds() {
	e.mu.Lock()
	var ts []int
	for t := range e.holds {
		ts = append(ts, t)
	}
	e.mu.Unlock()
	for _, t := range ts {
		e.release(t)
	}
}

type connOpts struct {
	noReconnect      bool
	errors           bool
	ping             time.Duration
	timeout          time.Duration
	backoffMin       time.Duration
	backoffMax       time.Duration
	srvPing          time.Duration
	clientCtx        context.Context // context handed to the client constructor (nil: Background)
	timeoutFirst     bool            // list WithTimeout before WithPingInterval
	noReconnectFirst bool            // list WithNoReconnect before WithReconnectBackoff
}

func newConnEnv(o connOpts) *connEnv {
	e := &connEnv{tr: newTracer(), holds: map[int]chan struct{}{}, calls: map[int]*callRec{}}
	e.tr.install()
	sopts := []jsonrpc.ServerOption{jsonrpc.WithServerPingInterval(o.srvPing)}
	e.srv = jsonrpc.NewServer(sopts...)
	e.srv.Register("C", &connHandler{env: e})
	baseCtx, srvCancel := context.WithCancel(context.Background())
	e.srvCancel = srvCancel
	e.ts = httptest.NewUnstartedServer(e.srv)
	e.ts.Config.BaseContext = func(net.Listener) context.Context { return baseCtx }
	e.ts.Start()
	e.proxy = newFaultProxy(strings.TrimPrefix(e.ts.URL, "http://"))
	if o.backoffMin == 0 {
		o.backoffMin, o.backoffMax = 5*time.Millisecond, 20*time.Millisecond
	}
	e.backoffMin = o.backoffMin
	copts := []jsonrpc.Option{jsonrpc.WithReconnectBackoff(o.backoffMin, o.backoffMax), jsonrpc.WithPingInterval(o.ping), jsonrpc.WithTimeout(o.timeout)}
	if o.timeoutFirst {
		copts[1], copts[2] = copts[2], copts[1]
	}
	if o.noReconnect {
		if o.noReconnectFirst {
			copts = append([]jsonrpc.Option{jsonrpc.WithNoReconnect()}, copts...)
		} else {
			copts = append(copts, jsonrpc.WithNoReconnect())
		}
	}
	if o.errors {
		copts = append(copts, jsonrpc.WithErrors(jsonrpc.NewErrors()))
	}
	cctx := o.clientCtx
	if cctx == nil {
		cctx = context.Background()
	}
	closer, err := jsonrpc.NewMergeClient(cctx, "ws://"+e.proxy.addr(), "C", []interface{}{&e.cl}, nil, copts...)
	if err != nil {
		panic(err)
	}
	var once sync.Once
	e.closer = func() { once.Do(closer) }
	return e
}

func classify(token int, v interface{}, err error) (string, string) {
	if err == nil {
		switch x := v.(type) {
		case int:
			if x == token {
				return "ok", ""
			}
			if x == 0 {
				return "zero", "" // a method without an error result whose call failed: the zero value, silently
			}
			if x == -token {
				return "ok-cancelled", ""
			}
			return fmt.Sprintf("foreign:%d", x), ""
		case string:
			if strings.HasPrefix(x, fmt.Sprintf("%d:", token)) {
				return "ok", ""
			}
			return "foreign:" + x[:min(len(x), 12)], ""
		}
		return "ok", ""
	}
	et := fmt.Sprintf("%T", err)
	var ce *jsonrpc.RPCConnectionError
	msg := err.Error()
	switch {
	case errors.As(err, &ce), strings.Contains(msg, "websocket connection closed"):
		return "connerr", et
	case strings.Contains(msg, "websocket routine exiting"):
		return "exiting", et
	case strings.HasPrefix(msg, "fail-"):
		if msg == fmt.Sprintf("fail-%d", token) {
			return "handler-error", et
		}
		return "foreign:" + msg, et
	}
	return "other:" + msg, et
}

// issue a call in its own goroutine; returns the token
func (e *connEnv) call(kind string, ctx context.Context, extra ...int) int {
	token := int(atomic.AddInt32(&e.nextTok, 1))
	rec := &callRec{Token: token, Kind: kind, Outcome: "pending"}
	e.mu.Lock()
	e.calls[token] = rec
	e.mu.Unlock()
	e.wg.Add(1)
	e.tr.ev("call.issue", token, kind)
	go func() {
		defer e.wg.Done()
		var v interface{}
		var err error
		switch kind {
		case "echo":
			v, err = e.cl.Echo(ctx, token)
		case "retry":
			v, err = e.cl.Retry(ctx, token)
		case "retryno":
			v, err = e.cl.RetryNo(ctx, token)
		case "retry0":
			v, err = e.cl.Retry0(ctx, token)
		case "retrync":
			func() {
				// a panic inside the proxy function belongs to this call: it neither returned a result nor an error
				defer func() {
					if p := recover(); p != nil {
						err = fmt.Errorf("the proxy function panicked: %v", p)
					}
				}()
				v, err = e.cl.RetryNC(token)
			}()
		case "plain":
			v = e.cl.Plain(ctx, token)
		case "fail":
			v, err = e.cl.Fail(ctx, token)
		case "big":
			v, err = e.cl.Big(ctx, token, extra[0])
		case "note":
			err = e.cl.Note(token)
			v = token
		case "waitctx":
			v, err = e.cl.WaitCtx(ctx, token)
		case "notewait":
			err = e.cl.NoteWait(ctx, token)
			v = token
		}
		out, et := classify(token, v, err)
		e.mu.Lock()
		rec.Returned = true
		rec.Returns++
		rec.Outcome = out
		rec.ErrType = et
		e.mu.Unlock()
		e.tr.ev("call.return", token, out)
	}()
	return token
}

func (e *connEnv) waitCalls(d time.Duration) bool {
	done := make(chan struct{})
	go func() { e.wg.Wait(); close(done) }()
	select {
	case <-done:
		return true
	case <-time.After(d):
		return false
	}
}

// wait until the trace contains an event satisfying f
func (e *connEnv) waitEv(d time.Duration, f func(tev) bool) bool {
	deadline := time.Now().Add(d)
	for time.Now().Before(deadline) {
		for _, ev := range e.tr.snapshot() {
			if f(ev) {
				return true
			}
		}
		time.Sleep(500 * time.Microsecond)
	}
	return false
}

func evIs(point string, arg0 interface{}) func(tev) bool {
	return func(ev tev) bool {
		return ev.Point == point && (arg0 == nil || (len(ev.Args) > 0 && fmt.Sprint(ev.Args[0]) == fmt.Sprint(arg0)))
	}
}

type connRun struct {
	Scenario string                 `json:"scenario"`
	Params   map[string]interface{} `json:"params"`
	Events   []tev                  `json:"events"`
	Calls    []*callRec             `json:"calls"`
	Accepts  int                    `json:"accepts"`
	AllDone  bool                   `json:"all_returned"`
	CloserOK bool                   `json:"closer_returned"`
	Oracle   string                 `json:"oracle_fail,omitempty"`
}

func (e *connEnv) finish(name string, params map[string]interface{}) *connRun {
	e.tr.releaseAll()
	e.releaseAllHolds()
	allDone := e.waitCalls(4 * time.Second)
	closed := make(chan struct{})
	go func() { e.closer(); close(closed) }()
	closerOK := false
	select {
	case <-closed:
		closerOK = true
	case <-time.After(4 * time.Second):
	}
	if !allDone {
		allDone = e.waitCalls(2 * time.Second)
	}
	time.Sleep(5 * time.Millisecond)
	e.proxy.close()
	if e.srvCancel != nil {
		e.srvCancel()
	}
	e.ts.CloseClientConnections()
	go e.ts.Close()
	if params != nil {
		params["backoff_min_ns"] = int64(e.backoffMin)
	}
	r := &connRun{Scenario: name, Params: params, Events: e.tr.snapshot(), Accepts: e.proxy.acceptCount(), AllDone: allDone, CloserOK: closerOK}
	e.mu.Lock()
	for t := 1; t <= int(e.nextTok); t++ {
		if c := e.calls[t]; c != nil {
			c.Execs = e.execCount(t)
			cc := *c
			r.Calls = append(r.Calls, &cc)
		}
	}
	e.mu.Unlock()
	r.Oracle = connOracle(r)
	e.tr.uninstall()
	return r
}

// direct oracle (C02 C03 C04 C18), independent of the model
func connOracle(r *connRun) string {
	if !r.CloserOK {
		return "the client's closer did not return"
	}
	for _, c := range r.Calls {
		if !c.Returned {
			return fmt.Sprintf("call %d (%s) never returned although the client was closed", c.Token, c.Kind)
		}
		if c.Returns != 1 {
			return fmt.Sprintf("call %d returned %d times", c.Token, c.Returns)
		}
		if strings.HasPrefix(c.Outcome, "foreign") {
			return fmt.Sprintf("call %d received a result that is not its own: %s", c.Token, c.Outcome)
		}
		if strings.HasPrefix(c.Outcome, "other:") {
			return fmt.Sprintf("call %d failed with an unexpected error: %s", c.Token, c.Outcome)
		}
		if !isRetryKind(c.Kind) && c.Execs > 1 {
			return fmt.Sprintf("call %d (not retry-tagged) executed its handler %d times", c.Token, c.Execs)
		}
		if (c.Outcome == "ok" || c.Outcome == "handler-error") && c.Execs < 1 && c.Kind != "note" {
			return fmt.Sprintf("call %d got an answer but its handler never ran", c.Token)
		}
		if isRetryKind(c.Kind) && c.Outcome == "connerr" && r.Params["heals"] == true {
			return fmt.Sprintf("retry-tagged call %d surfaced the connection error although the link healed", c.Token)
		}
	}
	return ""
}

func isRetryKind(k string) bool { return k == "retry" || k == "retrync" }

func min(a, b int) int {
	if a < b {
		return a
	}
	return b
}
