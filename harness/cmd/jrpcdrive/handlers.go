package main

import (
	"context"
	"encoding/json"
	"errors"
	"fmt"
	"net/http"
	"sync"

	"github.com/filecoin-project/go-jsonrpc"
)

// The standard handler object. Its behaviour is mirrored by coq/theories/HttpCases.v:std_handlers.

type invRec struct {
	Name string `json:"name"`
	Args string `json:"args"` // JSON array of the received arguments, re-marshalled
}

type invLog struct {
	mu  sync.Mutex
	log []invRec
}

func (l *invLog) add(name string, args ...interface{}) {
	b, err := json.Marshal(args)
	if err != nil {
		b = []byte(fmt.Sprintf("%q", "marshal error: "+err.Error()))
	}
	if len(args) == 0 {
		b = []byte("[]")
	}
	l.mu.Lock()
	l.log = append(l.log, invRec{name, string(b)})
	l.mu.Unlock()
}

func (l *invLog) take() []invRec {
	l.mu.Lock()
	defer l.mu.Unlock()
	out := l.log
	l.log = nil
	if out == nil {
		out = []invRec{}
	}
	return out
}

type CodedErr struct {
	N int
}

func (e *CodedErr) Error() string                { return "coded" }
func (e *CodedErr) MarshalJSON() ([]byte, error) { return json.Marshal(struct{ N int }{e.N}) }
func (e *CodedErr) UnmarshalJSON(b []byte) error {
	var s struct{ N int }
	if err := json.Unmarshal(b, &s); err != nil {
		return err
	}
	e.N = s.N
	return nil
}

type StdHandler struct {
	l *invLog
}

func (h *StdHandler) Noop()         { h.l.add("Noop") }
func (h *StdHandler) Const() int    { h.l.add("Const"); return 42 }
func (h *StdHandler) Err() error    { h.l.add("Err"); return errors.New("boom <&> \"quoted\"") }
func (h *StdHandler) ErrNil() error { h.l.add("ErrNil"); return nil }
func (h *StdHandler) ValErr(fail bool) (int, error) {
	h.l.add("ValErr", fail)
	if fail {
		return 9, errors.New("bad")
	}
	return 7, nil
}
func (h *StdHandler) EchoInt(a int) int       { h.l.add("EchoInt", a); return a }
func (h *StdHandler) Add(a, b int) int        { h.l.add("Add", a, b); return a + b }
func (h *StdHandler) EchoStr(s string) string { h.l.add("EchoStr", s); return s }
func (h *StdHandler) Not(b bool) bool         { h.l.add("Not", b); return !b }
func (h *StdHandler) Sum(xs []int) int {
	h.l.add("Sum", xs)
	t := 0
	for _, x := range xs {
		t += x
	}
	return t
}
func (h *StdHandler) Raw1(v json.RawMessage) json.RawMessage { h.l.add("Raw1", v); return v }
func (h *StdHandler) RawP(p jsonrpc.RawParams) (json.RawMessage, error) {
	if len(p) == 0 {
		h.l.add("RawP", nil)
		return nil, nil
	}
	h.l.add("RawP", json.RawMessage(p))
	return json.RawMessage(p), nil
}
func (h *StdHandler) Panic()             { h.l.add("Panic"); panic("kaboom") }
func (h *StdHandler) PanicInt(a int) int { h.l.add("PanicInt", a); panic(fmt.Errorf("perr %d", a)) }
func (h *StdHandler) PanicNilMap() {
	h.l.add("PanicNilMap")
	var m map[string]int
	m["a"] = 1
}
func (h *StdHandler) PanicDeref() int {
	h.l.add("PanicDeref")
	var p *int
	return *p
}

type customPanic struct{ A int }

func (h *StdHandler) PanicCustom() { h.l.add("PanicCustom"); panic(customPanic{3}) }
func (h *StdHandler) PanicAbort()  { h.l.add("PanicAbort"); panic(http.ErrAbortHandler) }

// a panic value encoding/json cannot marshal (a channel inside)
type opaquePanic struct {
	C   chan int
	Why string
}

// a panic whose payload is an error of a type registered in the server's error table: it is still a panic
func (h *StdHandler) PanicCoded() { h.l.add("PanicCoded"); panic(&CodedErr{N: 9}) }

func (h *StdHandler) PanicOpaque() { h.l.add("PanicOpaque"); panic(opaquePanic{nil, "reindex"}) }
func (h *StdHandler) Ctx(ctx context.Context, a int) int {
	h.l.add("Ctx", a)
	return a + 1
}
func (h *StdHandler) Chan(ctx context.Context) (<-chan int, error) {
	h.l.add("Chan")
	ch := make(chan int)
	close(ch)
	return ch, nil
}
func (h *StdHandler) CodeErr(n int) error { h.l.add("CodeErr", n); return &CodedErr{N: n} }

var fmtNames = []string{"ns.orig", "ns.lower", "bare.orig", "bare.lower", "sep_"}

func formatterOf(i int) jsonrpc.MethodNameFormatter {
	switch i {
	case 0:
		return jsonrpc.NewMethodNameFormatter(true, jsonrpc.OriginalCase)
	case 1:
		return jsonrpc.NewMethodNameFormatter(true, jsonrpc.LowerFirstCharCase)
	case 2:
		return jsonrpc.NewMethodNameFormatter(false, jsonrpc.OriginalCase)
	case 3:
		return jsonrpc.NewMethodNameFormatter(false, jsonrpc.LowerFirstCharCase)
	default:
		return func(ns, m string) string { return ns + "_" + m }
	}
}

func stdErrors() jsonrpc.Errors {
	e := jsonrpc.NewErrors()
	e.Register(7, new(*CodedErr))
	return e
}

// newStdServer mirrors HttpCases.std_config
func newStdServer(fmtIdx int, maxSize int64, l *invLog, extra ...jsonrpc.ServerOption) *jsonrpc.RPCServer {
	f := formatterOf(fmtIdx)
	opts := []jsonrpc.ServerOption{jsonrpc.WithServerMethodNameFormatter(f), jsonrpc.WithServerErrors(stdErrors())}
	if maxSize >= 0 {
		opts = append(opts, jsonrpc.WithMaxRequestSize(maxSize))
	}
	opts = append(opts, extra...)
	s := jsonrpc.NewServer(opts...)
	s.Register("H", &StdHandler{l: l})
	s.AliasMethod("Alias.Const", f("H", "Const"))
	s.AliasMethod("Alias.Missing", "H.Nope")
	s.AliasMethod("A2", "Alias.Const")
	s.AliasMethod("H.EchoInt", "H.Const")
	return s
}
