package main

import (
	"bytes"
	"context"
	"encoding/json"
	"errors"
	"fmt"
	"io"
	"math"
	"net/http/httptest"
	"reflect"
	"sort"
	"strings"
	"sync"
	"time"

	"github.com/filecoin-project/go-jsonrpc"
)

// family "callpath" (C01): typed signatures x argument tuples x transports x formatters. Every handler method records
// what it received; the oracle is encoding/json itself (marshal then unmarshal into the parameter type), independent of
// the library. Methods over the basic universe (int, string, bool, []int, interface{}) are also emitted for the Coq model.

type cpInner struct {
	A int     `json:"a"`
	B *string `json:"b,omitempty"`
}
type cpEmbedded struct {
	E1 string
	E2 []byte
}
type cpOuter struct {
	cpEmbedded
	Name   string                 `json:"name"`
	In     cpInner                `json:"in"`
	PIn    *cpInner               `json:"pin"`
	List   []cpInner              `json:"list"`
	M      map[string]interface{} `json:"m"`
	Any    interface{}            `json:"any"`
	Skip   int                    `json:"-"`
	Opt    float64                `json:"opt,omitempty"`
	U64    uint64
	I64    int64
	hidden int
}

// custom (Un)Marshaler
type cpTemp struct{ Deci int }

func (t cpTemp) MarshalJSON() ([]byte, error) {
	return json.Marshal(fmt.Sprintf("%d.%dC", t.Deci/10, abs(t.Deci)%10))
}
func (t *cpTemp) UnmarshalJSON(b []byte) error {
	var s string
	if err := json.Unmarshal(b, &s); err != nil {
		return err
	}
	var a, f int
	neg := strings.HasPrefix(s, "-")
	if _, err := fmt.Sscanf(strings.TrimPrefix(s, "-"), "%d.%dC", &a, &f); err != nil {
		return err
	}
	t.Deci = a*10 + f
	if neg {
		t.Deci = -t.Deci
	}
	return nil
}
func abs(x int) int {
	if x < 0 {
		return -x
	}
	return x
}

// named scalar types with their own wire form (the Kind is int / bool / uint64, the JSON is not the bare scalar)
type cpLevel int

func (l cpLevel) MarshalJSON() ([]byte, error) { return json.Marshal(fmt.Sprintf("L%d", int(l))) }
func (l *cpLevel) UnmarshalJSON(b []byte) error {
	var s string
	if err := json.Unmarshal(b, &s); err != nil {
		return fmt.Errorf("level must be a string: %w", err)
	}
	var n int
	if _, err := fmt.Sscanf(s, "L%d", &n); err != nil {
		return err
	}
	*l = cpLevel(n)
	return nil
}

type cpFlag bool

func (f cpFlag) MarshalJSON() ([]byte, error) {
	if f {
		return []byte(`"yes"`), nil
	}
	return []byte(`"no"`), nil
}
func (f *cpFlag) UnmarshalJSON(b []byte) error {
	switch string(b) {
	case `"yes"`:
		*f = true
	case `"no"`:
		*f = false
	default:
		return fmt.Errorf("flag must be yes/no, got %s", b)
	}
	return nil
}

type cpAmount uint64 // wire form: the amount in hundredths, itself a number

func (a cpAmount) MarshalJSON() ([]byte, error) { return json.Marshal(uint64(a) * 100) }
func (a *cpAmount) UnmarshalJSON(b []byte) error {
	var n uint64
	if err := json.Unmarshal(b, &n); err != nil {
		return err
	}
	*a = cpAmount(n / 100)
	return nil
}

// custom param encoder / decoder pair
type cpEnc struct{ Parts []string }

type cpCall struct {
	Method string
	Args   []interface{}
}
type cpLog struct {
	mu    sync.Mutex
	calls []cpCall
	rets  []interface{}
}

type CP struct{ l *cpLog }

func (h *CP) rec(name string, args ...interface{}) {
	h.l.mu.Lock()
	h.l.calls = append(h.l.calls, cpCall{name, args})
	h.l.mu.Unlock()
}
func (h *CP) ret(v interface{}) {
	h.l.mu.Lock()
	h.l.rets = append(h.l.rets, v)
	h.l.mu.Unlock()
}

var errNeg = errors.New("negative <input> & \"quoted\"")

// ---- basic universe (also checked against the Coq model)
func (h *CP) B0() { h.rec("B0") }
func (h *CP) B1(a int) int {
	h.rec("B1", a)
	h.ret(a)
	return a
}
func (h *CP) B2(ctx context.Context, a int, b string) (string, error) {
	h.rec("B2", a, b)
	if a < 0 {
		h.ret("partial")
		return "partial", errNeg
	}
	r := fmt.Sprintf("%d:%s", a, b)
	h.ret(r)
	return r, nil
}
func (h *CP) B3(a int, b string, c []int) (string, error) {
	h.rec("B3", a, b, c)
	if a < 0 {
		h.ret("partial")
		return "partial", errNeg
	}
	r := fmt.Sprintf("%d:%s:%d", a, b, len(c))
	h.ret(r)
	return r, nil
}
func (h *CP) B5(ctx context.Context, a int, b string, c bool, d []int, e interface{}) ([]int, error) {
	h.rec("B5", a, b, c, d, e)
	if a < 0 {
		h.ret([]int{1})
		return []int{1}, errNeg
	}
	var r []int
	if c {
		r = append([]int{a}, d...)
	} else {
		r = d
	}
	h.ret(r)
	return r, nil
}
func (h *CP) BE(a string) error {
	h.rec("BE", a)
	if a == "fail" {
		return errNeg
	}
	return nil
}
func (h *CP) BN(a int) { h.rec("BN", a) }
func (h *CP) BV(ctx context.Context) int {
	h.rec("BV")
	h.ret(77)
	return 77
}
func (h *CP) BA(a interface{}) (interface{}, error) {
	h.rec("BA", a)
	h.ret(a)
	return a, nil
}

// ---- rich types (oracle only)
func (h *CP) EchoI64(ctx context.Context, a int64) (int64, error) {
	h.rec("EchoI64", a)
	h.ret(a)
	return a, nil
}
func (h *CP) EchoU64(ctx context.Context, a uint64) (uint64, error) {
	h.rec("EchoU64", a)
	h.ret(a)
	return a, nil
}
func (h *CP) EchoF64(ctx context.Context, a float64) (float64, error) {
	h.rec("EchoF64", a)
	h.ret(a)
	return a, nil
}
func (h *CP) EchoStr(a string) (string, error)      { h.rec("EchoStr", a); h.ret(a); return a, nil }
func (h *CP) EchoBytes(a []byte) ([]byte, error)    { h.rec("EchoBytes", a); h.ret(a); return a, nil }
func (h *CP) EchoStrs(a []string) ([]string, error) { h.rec("EchoStrs", a); h.ret(a); return a, nil }
func (h *CP) EchoMap(a map[string]int) (map[string]int, error) {
	h.rec("EchoMap", a)
	h.ret(a)
	return a, nil
}
func (h *CP) EchoPtr(a *cpInner) (*cpInner, error) { h.rec("EchoPtr", a); h.ret(a); return a, nil }
func (h *CP) EchoStruct(ctx context.Context, a cpOuter) (cpOuter, error) {
	h.rec("EchoStruct", a)
	h.ret(a)
	return a, nil
}
func (h *CP) EchoAnyMap(a map[string]interface{}) (map[string]interface{}, error) {
	h.rec("EchoAnyMap", a)
	h.ret(a)
	return a, nil
}
func (h *CP) EchoRawMsg(a json.RawMessage) (json.RawMessage, error) {
	h.rec("EchoRawMsg", a)
	h.ret(a)
	return a, nil
}
func (h *CP) EchoTemp(a cpTemp, b *cpTemp) (cpTemp, error) {
	h.rec("EchoTemp", a, b)
	h.ret(a)
	return a, nil
}
func (h *CP) EchoEnc(ctx context.Context, n int, a cpEnc) (cpEnc, error) {
	h.rec("EchoEnc", n, a)
	h.ret(a)
	return a, nil
}
func (h *CP) Mixed(ctx context.Context, a int8, b uint16, c float32, d *string, e [2]int, f []cpOuter) (cpOuter, error) {
	h.rec("Mixed", a, b, c, d, e, f)
	if a < 0 {
		r := cpOuter{Name: "partial", I64: 5}
		h.ret(r)
		return r, errNeg
	}
	var r cpOuter
	if len(f) > 0 {
		r = f[len(f)-1]
	}
	r.I64 = int64(a) + int64(b)
	h.ret(r)
	return r, nil
}

// consecutive parameters of one type: each must be decoded into a fresh value (json.Unmarshal merges into what is there)
func (h *CP) Pairs(a []int, b []int, c map[string]int, d map[string]int, e *cpInner, f *cpInner, g cpInner, i cpInner) (int, error) {
	h.rec("Pairs", a, b, c, d, e, f, g, i)
	h.ret(len(a) + len(b))
	return len(a) + len(b), nil
}
func (h *CP) Named(ctx context.Context, l cpLevel, f cpFlag, a cpAmount, p *cpLevel) (cpLevel, error) {
	h.rec("Named", l, f, a, p)
	h.ret(l + 1)
	return l + 1, nil
}
func (h *CP) Raw(ctx context.Context, p jsonrpc.RawParams) (json.RawMessage, error) {
	h.rec("Raw", []byte(p))
	h.ret(json.RawMessage(p))
	return json.RawMessage(p), nil
}
func (h *CP) RawE(p jsonrpc.RawParams) error { h.rec("RawE", []byte(p)); return nil }

type cpClient struct {
	B0         func()
	B1         func(a int) int
	B2         func(ctx context.Context, a int, b string) (string, error)
	B3         func(a int, b string, c []int) (string, error)
	B5         func(ctx context.Context, a int, b string, c bool, d []int, e interface{}) ([]int, error)
	BE         func(a string) error
	BN         func(a int)
	BV         func(ctx context.Context) int
	BA         func(a interface{}) (interface{}, error)
	EchoI64    func(ctx context.Context, a int64) (int64, error)
	EchoU64    func(ctx context.Context, a uint64) (uint64, error)
	EchoF64    func(ctx context.Context, a float64) (float64, error)
	EchoStr    func(a string) (string, error)
	EchoBytes  func(a []byte) ([]byte, error)
	EchoStrs   func(a []string) ([]string, error)
	EchoMap    func(a map[string]int) (map[string]int, error)
	EchoPtr    func(a *cpInner) (*cpInner, error)
	EchoStruct func(ctx context.Context, a cpOuter) (cpOuter, error)
	EchoAnyMap func(a map[string]interface{}) (map[string]interface{}, error)
	EchoRawMsg func(a json.RawMessage) (json.RawMessage, error)
	EchoTemp   func(a cpTemp, b *cpTemp) (cpTemp, error)
	EchoEnc    func(ctx context.Context, n int, a cpEnc) (cpEnc, error)
	Mixed      func(ctx context.Context, a int8, b uint16, c float32, d *string, e [2]int, f []cpOuter) (cpOuter, error)
	Raw        func(ctx context.Context, p jsonrpc.RawParams) (json.RawMessage, error)
	RawE       func(p jsonrpc.RawParams) error
	Named      func(ctx context.Context, l cpLevel, f cpFlag, a cpAmount, p *cpLevel) (cpLevel, error)
	Pairs      func(a []int, b []int, c map[string]int, d map[string]int, e *cpInner, f *cpInner, g cpInner, i cpInner) (int, error)
}

// dynamic types below interface positions, nil-ness of slices / maps / pointers
func deepType(v reflect.Value, depth int) string {
	if !v.IsValid() {
		return "invalid"
	}
	if depth > 8 {
		return "..."
	}
	switch v.Kind() {
	case reflect.Interface:
		if v.IsNil() {
			return "nil"
		}
		return "i(" + v.Elem().Type().String() + ":" + deepType(v.Elem(), depth+1) + ")"
	case reflect.Ptr:
		if v.IsNil() {
			return "nilptr"
		}
		return "*" + deepType(v.Elem(), depth+1)
	case reflect.Struct:
		var fs []string
		for i := 0; i < v.NumField(); i++ {
			if v.Type().Field(i).PkgPath != "" && !v.Type().Field(i).Anonymous {
				continue
			}
			fs = append(fs, deepType(v.Field(i), depth+1))
		}
		return "{" + strings.Join(fs, ",") + "}"
	case reflect.Slice:
		if v.IsNil() {
			return "nilslice"
		}
		fallthrough
	case reflect.Array:
		if v.Type().Elem().Kind() == reflect.Uint8 {
			return "bytes"
		}
		var es []string
		for i := 0; i < v.Len() && i < 40; i++ {
			es = append(es, deepType(v.Index(i), depth+1))
		}
		return "[" + strings.Join(es, ",") + "]"
	case reflect.Map:
		if v.IsNil() {
			return "nilmap"
		}
		var ks []string
		for _, k := range v.MapKeys() {
			ks = append(ks, fmt.Sprint(k.Interface())+":"+deepType(v.MapIndex(k), depth+1))
		}
		sort.Strings(ks)
		return "map{" + strings.Join(ks, ",") + "}"
	}
	return v.Kind().String()
}

func sameValue(a, b interface{}) string {
	ja, ea := json.Marshal(a)
	jb, eb := json.Marshal(b)
	if (ea == nil) != (eb == nil) {
		return fmt.Sprintf("marshal errors differ: %v / %v", ea, eb)
	}
	if !bytes.Equal(ja, jb) {
		return fmt.Sprintf("JSON differs: %s / %s", trunc(string(ja)), trunc(string(jb)))
	}
	da, db := deepType(reflect.ValueOf(a), 0), deepType(reflect.ValueOf(b), 0)
	if reflect.TypeOf(a) != reflect.TypeOf(b) {
		return fmt.Sprintf("types differ: %T / %T", a, b)
	}
	if da != db {
		return fmt.Sprintf("dynamic types differ: %s / %s", trunc(da), trunc(db))
	}
	return ""
}

func trunc(s string) string {
	if len(s) > 300 {
		return s[:300] + "..."
	}
	return s
}

func cpEncoder(v reflect.Value) (reflect.Value, error) {
	return reflect.ValueOf(strings.Join(v.Interface().(cpEnc).Parts, "|")), nil
}
func cpDecoder(ctx context.Context, b []byte) (reflect.Value, error) {
	var s string
	if err := json.Unmarshal(b, &s); err != nil {
		return reflect.Value{}, err
	}
	return reflect.ValueOf(cpEnc{Parts: strings.Split(s, "|")}), nil
}

// the JSON round trip of v at type t, by encoding/json alone
func roundTrip(v interface{}, t reflect.Type) (interface{}, error) {
	if t == reflect.TypeOf(cpEnc{}) {
		ev, _ := cpEncoder(reflect.ValueOf(v))
		b, err := json.Marshal(ev.Interface())
		if err != nil {
			return nil, err
		}
		rv, err := cpDecoder(context.Background(), b)
		if err != nil {
			return nil, err
		}
		return rv.Interface(), nil
	}
	b, err := json.Marshal(v)
	if err != nil {
		return nil, err
	}
	rp := reflect.New(t)
	if err := json.NewDecoder(bytes.NewReader(b)).Decode(rp.Interface()); err != nil {
		return nil, err
	}
	return rp.Elem().Interface(), nil
}

// result round trip: plain json.Unmarshal into the out type (no custom decoder on results)
func roundTripResult(v interface{}, t reflect.Type) (interface{}, error) {
	b, err := json.Marshal(v)
	if err != nil {
		return nil, err
	}
	rp := reflect.New(t)
	if err := json.Unmarshal(b, rp.Interface()); err != nil {
		return nil, err
	}
	return rp.Elem().Interface(), nil
}

type cpRecord struct {
	Method    string   `json:"method"`
	Transport string   `json:"transport"`
	Fmt       int      `json:"fmt"`
	Basic     bool     `json:"basic"`
	Ctx       bool     `json:"ctx"`
	Params    []string `json:"params"` // basic: int str bool ints any
	Outs      string   `json:"outs"`   // none val err valerr
	OutTy     string   `json:"outty"`
	Args      []string `json:"args"`     // JSON of each argument as passed
	Invoked   int      `json:"invoked"`  // times the method ran
	Received  []string `json:"received"` // JSON of each argument the method saw
	HRet      string   `json:"hret"`     // JSON of the value the method returned ("" = none)
	HErr      bool     `json:"herr"`     // the method returned a non-nil error
	Val       string   `json:"val"`      // JSON of the caller's value ("" = none)
	ErrNil    bool     `json:"err_nil"`
	ErrMsg    string   `json:"err_msg"`
	Oracle    string   `json:"oracle_fail,omitempty"`
}

func basicName(t reflect.Type) string {
	switch t {
	case reflect.TypeOf(int(0)):
		return "int"
	case reflect.TypeOf(""):
		return "str"
	case reflect.TypeOf(true):
		return "bool"
	case reflect.TypeOf([]int(nil)):
		return "ints"
	}
	if t.Kind() == reflect.Interface && t.NumMethod() == 0 {
		return "any"
	}
	return "?"
}

var ctxType = reflect.TypeOf((*context.Context)(nil)).Elem()
var errType = reflect.TypeOf((*error)(nil)).Elem()

func mj(v interface{}) string { b, _ := json.Marshal(v); return string(b) }

func callpathFamily(seed uint64, tier string, args []string) {
	r := newRng(seed)
	sp := func(s string) *string { return &s }
	ints := []interface{}{0, 1, -1, 42, math.MaxInt64, math.MinInt64, 1<<53 + 1, -(1<<53 + 1)}
	strs := []interface{}{"", "plain", "<script>alert(\"x\")</script> & 'q'", "tab\tnl\nnul\x00bell\x07", "é中😀  ", strings.Repeat("xy", 700), "fail", "\\u0041 \"\\\""}
	intss := []interface{}{[]int(nil), []int{}, []int{1}, []int{math.MaxInt64, math.MinInt64, 0}, make([]int, 300)}
	anys := []interface{}{nil, 1.5, float64(7), "s", true, []interface{}{}, []interface{}{float64(1), "two", 3.25, nil}, map[string]interface{}{"n": float64(2), "nested": []interface{}{float64(1), "two"}, "k": 1e308},
		map[string]interface{}{}, 9007199254740993.0, -0.0}
	type tup struct {
		m string
		a []interface{}
	}
	var tups []tup
	add := func(m string, a ...interface{}) { tups = append(tups, tup{m, a}) }
	add("B0")
	add("BV")
	for i, v := range ints {
		add("B1", v)
		add("BN", v)
		add("B2", v, strs[i%len(strs)])
		add("B3", v, strs[(i+3)%len(strs)], intss[i%len(intss)])
		add("B5", v, strs[(i+1)%len(strs)], i%2 == 0, intss[(i+2)%len(intss)], anys[i%len(anys)])
	}
	for _, v := range strs {
		add("BE", v)
		add("B2", 3, v)
		add("EchoStr", v)
	}
	for i, v := range anys {
		add("BA", v)
		add("B5", i, "s", i%2 == 1, intss[i%len(intss)], v)
	}
	for _, v := range intss {
		add("B3", 1, "x", v)
	}
	for _, v := range []int64{0, 1, -1, math.MaxInt64, math.MinInt64, 1<<53 + 1} {
		add("EchoI64", v)
	}
	for _, v := range []uint64{0, 1, math.MaxUint64, 1<<63 + 1, 1<<53 + 1} {
		add("EchoU64", v)
	}
	for _, v := range []float64{0, math.Copysign(0, -1), 1e308, -1e308, 5e-324, math.MaxFloat64, 0.1, 1.0 / 3, 1e21, 1e-7, 123456789012345678} {
		add("EchoF64", v)
	}
	for _, v := range [][]byte{nil, {}, {0}, {0xff, 0xfe, 0x00, 0x80}, bytes.Repeat([]byte{7}, 1000)} {
		add("EchoBytes", v)
	}
	for _, v := range [][]string{nil, {}, {""}, {"a", "<b>", "\x01"}} {
		add("EchoStrs", v)
	}
	for _, v := range []map[string]int{nil, {}, {"": 0}, {"a": 1, "<k>": -5, "é": math.MaxInt64}} {
		add("EchoMap", v)
	}
	for _, v := range []*cpInner{nil, {}, {A: 5, B: sp("")}, {A: -1, B: sp("<x>")}} {
		add("EchoPtr", v)
	}
	outers := []cpOuter{{}, {cpEmbedded: cpEmbedded{E1: "e", E2: []byte{1, 2}}, Name: "n<&>", In: cpInner{A: 1, B: sp("b")}, PIn: &cpInner{A: 2},
		List: []cpInner{{A: 3}, {A: 4, B: sp("")}}, M: map[string]interface{}{"x": float64(1), "y": []interface{}{"z", nil}}, Any: map[string]interface{}{"deep": []interface{}{float64(1)}},
		Skip: 9, Opt: 2.5, U64: math.MaxUint64, I64: math.MinInt64, hidden: 3},
		{List: []cpInner{}, M: map[string]interface{}{}, Any: float64(3)}, {Any: "str", Opt: 0}}
	for _, v := range outers {
		add("EchoStruct", v)
	}
	for _, v := range []map[string]interface{}{nil, {}, {"a": float64(1), "b": "s", "c": nil, "d": map[string]interface{}{"e": []interface{}{true}}}} {
		add("EchoAnyMap", v)
	}
	for _, v := range []string{`null`, `{"a":1}`, `[1,2,{"x":"<y>"}]`, `"s"`, `1e400`, `{"a":  1,
 "b":[ ]}`} {
		add("EchoRawMsg", json.RawMessage(v))
	}
	add("EchoRawMsg", json.RawMessage(nil))
	add("EchoTemp", cpTemp{215}, &cpTemp{-5})
	add("EchoTemp", cpTemp{0}, (*cpTemp)(nil))
	add("EchoEnc", 1, cpEnc{Parts: []string{"a", "b"}})
	add("EchoEnc", 2, cpEnc{Parts: []string{"<x>", "", "é"}})
	add("Mixed", int8(5), uint16(65535), float32(0.1), sp("d"), [2]int{1, -2}, outers)
	add("Mixed", int8(-128), uint16(0), float32(3.4e38), (*string)(nil), [2]int{}, []cpOuter(nil))
	add("Mixed", int8(127), uint16(1), float32(-0.0), sp(""), [2]int{math.MaxInt64, math.MinInt64}, []cpOuter{})
	lv := cpLevel(3)
	add("Named", cpLevel(2), cpFlag(true), cpAmount(7), &lv)
	add("Named", cpLevel(0), cpFlag(false), cpAmount(0), (*cpLevel)(nil))
	add("Named", cpLevel(-5), cpFlag(true), cpAmount(184467440737095516), &lv)
	add("Pairs", []int{1, 2, 3}, []int{9, 8}, map[string]int{"a": 1}, map[string]int{"b": 2, "c": 3}, &cpInner{A: 1, B: sp("x")}, &cpInner{A: 2}, cpInner{A: 1, B: sp("x")}, cpInner{A: 2})
	add("Pairs", []int{}, []int(nil), map[string]int{}, map[string]int(nil), (*cpInner)(nil), &cpInner{}, cpInner{}, cpInner{B: sp("")})
	add("Pairs", []int{7, 7, 7, 7}, []int{1}, map[string]int{"k": 1, "l": 2}, map[string]int{"k": 5}, &cpInner{A: 9, B: sp("keep?")}, (*cpInner)(nil), cpInner{A: 3, B: sp("b")}, cpInner{})
	for _, v := range []string{`[1,2,3]`, `{"named":true}`, `"just a string"`, `[]`, `null`, `[{"a":[1,{"b":null}]}]`, `  [ 1 ]  `} {
		add("Raw", jsonrpc.RawParams(v))
		add("RawE", jsonrpc.RawParams(v))
	}
	// nil raw params: the JSON round trip of a nil raw message is `null` (an empty non-nil one is not serialisable)
	add("Raw", jsonrpc.RawParams(nil))
	add("RawE", jsonrpc.RawParams(nil))
	if tier == "thorough" {
		for i := 0; i < 400; i++ {
			rs := func() string {
				n := r.intn(40)
				var sb strings.Builder
				for j := 0; j < n; j++ {
					switch r.intn(6) {
					case 0:
						sb.WriteRune(rune(r.intn(0x20)))
					case 1:
						sb.WriteRune(rune(0x80 + r.intn(0x2000)))
					case 2:
						sb.WriteRune(rune(0x1F600 + r.intn(64)))
					case 3:
						sb.WriteString([]string{"<", ">", "&", "\"", "\\", "'", " "}[r.intn(7)])
					default:
						sb.WriteByte(byte(0x20 + r.intn(0x5f)))
					}
				}
				return sb.String()
			}
			ri := func() int { return int(int64(r.next()) >> uint(r.intn(64))) }
			var rany func(d int) interface{}
			rany = func(d int) interface{} {
				switch r.intn(7 - 2*boolInt(d > 3)) {
				case 0:
					return nil
				case 1:
					return math.Float64frombits(r.next()&^(0x7ff<<52) | uint64(r.intn(2046)+1)<<52)
				case 2:
					return rs()
				case 3:
					return r.bool()
				case 4:
					return float64(ri() >> 12)
				case 5:
					n := r.intn(4)
					l := make([]interface{}, n)
					for k := range l {
						l[k] = rany(d + 1)
					}
					return l
				default:
					m := map[string]interface{}{}
					for k := r.intn(4); k > 0; k-- {
						m[rs()] = rany(d + 1)
					}
					return m
				}
			}
			rints := func() []int {
				if r.chance(10) {
					return nil
				}
				l := make([]int, r.intn(6))
				for k := range l {
					l[k] = ri()
				}
				return l
			}
			add("B5", ri(), rs(), r.bool(), rints(), rany(0))
			add("B3", ri(), rs(), rints())
			add("BA", rany(0))
			add("EchoF64", math.Float64frombits(r.next()&^(0x7ff<<52)|uint64(r.intn(2046)+1)<<52))
			add("EchoStr", rs())
			add("EchoStruct", cpOuter{Name: rs(), In: cpInner{A: ri(), B: sp(rs())}, M: map[string]interface{}{rs(): rany(0)}, Any: rany(0), U64: r.next(), I64: int64(r.next()), Opt: float64(ri())})
		}
	}

	fmts := []jsonrpc.MethodNameFormatter{jsonrpc.DefaultMethodNameFormatter, jsonrpc.NewMethodNameFormatter(true, jsonrpc.LowerFirstCharCase),
		jsonrpc.NewMethodNameFormatter(false, jsonrpc.OriginalCase), jsonrpc.NewMethodNameFormatter(false, jsonrpc.LowerFirstCharCase),
		func(ns, m string) string { return ns + "_" + m }}
	hmeths := reflect.TypeOf(&CP{})
	for fi, f := range fmts {
		if tier == "quick" && fi != 0 && fi != 3 && fi != 4 {
			continue
		}
		lg := &cpLog{}
		srv := jsonrpc.NewServer(jsonrpc.WithServerMethodNameFormatter(f), jsonrpc.WithParamDecoder(new(cpEnc), cpDecoder))
		srv.Register("CP", &CP{lg})
		ts := httptest.NewServer(srv)
		for _, transport := range []string{"http", "ws", "custom"} {
			var cl cpClient
			var notif struct {
				BN func(a int) `notify:"true"`
			}
			copts := []jsonrpc.Option{jsonrpc.WithMethodNameFormatter(f), jsonrpc.WithParamEncoder(new(cpEnc), cpEncoder)}
			var closer jsonrpc.ClientCloser
			var err error
			switch transport {
			case "http":
				closer, err = jsonrpc.NewMergeClient(context.Background(), ts.URL, "CP", []interface{}{&cl, &notif}, nil, copts...)
			case "ws":
				closer, err = jsonrpc.NewMergeClient(context.Background(), "ws"+strings.TrimPrefix(ts.URL, "http"), "CP", []interface{}{&cl, &notif}, nil, copts...)
			case "custom":
				do := func(ctx context.Context, body []byte) (io.ReadCloser, error) {
					var buf bytes.Buffer
					srv.HandleRequest(ctx, bytes.NewReader(body), &buf)
					return io.NopCloser(&buf), nil
				}
				closer, err = jsonrpc.NewCustomClient("CP", []interface{}{&cl}, do, copts...)
			}
			if err != nil {
				panic(err)
			}
			for ti, t := range tups {
				if tier == "quick" && fi != 0 && ti%3 != fi%3 {
					continue
				}
				hm, _ := hmeths.MethodByName(t.m)
				hasCtx := 0
				if hm.Type.NumIn() >= 2 && hm.Type.In(1) == ctxType {
					hasCtx = 1
				}
				fv := reflect.ValueOf(&cl).Elem().FieldByName(t.m)
				ft := fv.Type()
				in := []reflect.Value{}
				if hasCtx == 1 {
					in = append(in, reflect.ValueOf(context.Background()))
				}
				rec := cpRecord{Method: t.m, Transport: transport, Fmt: fi, Ctx: hasCtx == 1, Basic: true}
				var expArgs []interface{}
				for i, a := range t.a {
					pt := ft.In(i + hasCtx)
					av := reflect.Zero(pt)
					if a != nil {
						av = reflect.ValueOf(a).Convert(pt)
					} else if pt.Kind() == reflect.Interface {
						av = reflect.Zero(pt)
					}
					in = append(in, av)
					rec.Args = append(rec.Args, mj(av.Interface()))
					if pt == reflect.TypeOf(jsonrpc.RawParams(nil)) {
						// the JSON round trip of a raw message is its compacted form (json.Marshal compacts RawMessage)
						e, eerr := roundTrip(json.RawMessage(av.Interface().(jsonrpc.RawParams)), reflect.TypeOf(json.RawMessage(nil)))
						if eerr != nil {
							panic(eerr)
						}
						expArgs = append(expArgs, []byte(e.(json.RawMessage)))
						rec.Basic = false
						continue
					}
					bn := basicName(pt)
					if bn == "?" {
						rec.Basic = false
					}
					rec.Params = append(rec.Params, bn)
					e, eerr := roundTrip(av.Interface(), hm.Type.In(i+1+hasCtx))
					if eerr != nil {
						panic(fmt.Sprintf("oracle round trip failed for %s arg %d: %v", t.m, i, eerr))
					}
					expArgs = append(expArgs, e)
				}
				// outs
				var outT reflect.Type
				switch {
				case ft.NumOut() == 0:
					rec.Outs = "none"
				case ft.NumOut() == 1 && ft.Out(0) == errType:
					rec.Outs = "err"
				case ft.NumOut() == 1:
					rec.Outs, outT = "val", ft.Out(0)
				default:
					rec.Outs, outT = "valerr", ft.Out(0)
				}
				if outT != nil {
					rec.OutTy = basicName(outT)
					if rec.OutTy == "?" {
						rec.Basic = false
					}
				}
				lg.mu.Lock()
				lg.calls, lg.rets = nil, nil
				lg.mu.Unlock()
				outs := fv.Call(in)
				if t.m == "BN" || t.m == "B0" {
					// no response to wait for over ws only for notifications; B0/BN are calls here (they return when answered)
				}
				lg.mu.Lock()
				calls := append([]cpCall(nil), lg.calls...)
				rets := append([]interface{}(nil), lg.rets...)
				lg.mu.Unlock()
				rec.Invoked = len(calls)
				var fails []string
				if len(calls) != 1 {
					fails = append(fails, fmt.Sprintf("the method ran %d times", len(calls)))
				} else {
					if calls[0].Method != t.m {
						fails = append(fails, "another method ran: "+calls[0].Method)
					}
					if len(calls[0].Args) != len(expArgs) {
						fails = append(fails, fmt.Sprintf("the method saw %d arguments, %d were passed", len(calls[0].Args), len(expArgs)))
					} else {
						for i := range expArgs {
							rec.Received = append(rec.Received, mj(calls[0].Args[i]))
							if d := sameValue(calls[0].Args[i], expArgs[i]); d != "" {
								fails = append(fails, fmt.Sprintf("argument %d as the method saw it differs from its JSON round trip: %s", i, d))
							}
						}
					}
				}
				herr := false
				switch t.m {
				case "B2", "B3", "B5":
					herr = t.a[0].(int) < 0
				case "Mixed":
					herr = t.a[0].(int8) < 0
				case "BE":
					herr = t.a[0].(string) == "fail"
				}
				rec.HErr = herr
				if len(rets) == 1 {
					rec.HRet = mj(rets[0])
				}
				var gotErr error
				if rec.Outs == "err" || rec.Outs == "valerr" {
					if e := outs[len(outs)-1].Interface(); e != nil {
						gotErr = e.(error)
					}
					rec.ErrNil = gotErr == nil
					if gotErr != nil {
						rec.ErrMsg = gotErr.Error()
					}
					if herr != (gotErr != nil) {
						fails = append(fails, fmt.Sprintf("the method's error was nil=%v, the caller's nil=%v (%v)", !herr, gotErr == nil, gotErr))
					}
					if herr && gotErr != nil && gotErr.Error() != errNeg.Error() {
						fails = append(fails, fmt.Sprintf("error message changed: %q", gotErr.Error()))
					}
				} else {
					rec.ErrNil = true
				}
				if outT != nil {
					got := outs[0].Interface()
					rec.Val = mj(got)
					if herr {
						if d := sameValue(got, reflect.Zero(outT).Interface()); d != "" {
							fails = append(fails, "non-zero value beside an error: "+d)
						}
					} else if len(rets) == 1 {
						exp, eerr := roundTripResult(rets[0], outT)
						if eerr != nil {
							panic(fmt.Sprintf("oracle result round trip failed for %s: %v", t.m, eerr))
						}
						if d := sameValue(got, exp); d != "" {
							fails = append(fails, "the caller's value differs from the JSON round trip of what the method returned: "+d)
						}
					}
				}
				if len(fails) > 0 {
					rec.Oracle = strings.Join(fails, "; ")
				}
				emit(rec)
			}
			// one notification per client kind that supports it
			if transport != "custom" {
				lg.mu.Lock()
				lg.calls = nil
				lg.mu.Unlock()
				notif.BN(31337)
				// a following call on the same connection orders us after the notification over ws; over http the
				// notification request has completed when BN returns
				_ = cl.B1(1)
				// handlers of one connection run in their own goroutines: the notified method may be recorded after the
				// following call has returned, so wait for it (and a little longer, to see a second execution)
				count := func() int {
					lg.mu.Lock()
					defer lg.mu.Unlock()
					n := 0
					for _, c := range lg.calls {
						if c.Method == "BN" && len(c.Args) == 1 && c.Args[0] == 31337 {
							n++
						}
					}
					return n
				}
				for dl := time.Now().Add(2 * time.Second); count() == 0 && time.Now().Before(dl); {
					time.Sleep(time.Millisecond)
				}
				time.Sleep(5 * time.Millisecond)
				n := count()
				rec := cpRecord{Method: "BN!notify", Transport: transport, Fmt: fi, Basic: false, Outs: "none", Args: []string{"31337"}, Invoked: n, ErrNil: true}
				if n != 1 {
					rec.Oracle = fmt.Sprintf("the notified method ran %d times with the argument", n)
				}
				emit(rec)
			}
			closer()
		}
		ts.Close()
	}
}

func boolInt(b bool) int {
	if b {
		return 1
	}
	return 0
}

func init() { families["callpath"] = callpathFamily }
