package main

import (
	"encoding/json"
	"fmt"
	"net/http/httptest"
	"strings"
	"time"

	"github.com/filecoin-project/go-jsonrpc"
	"github.com/gorilla/websocket"
)

// family "slow-writer" (C14): a response that takes long to leave — tens of MB towards a peer that does not read for more
// than six seconds — holds the connection's writer from its first byte to its flush; a small response produced meanwhile
// waits. Afterwards the peer must find exactly the two responses, each a complete, well-formed message.
type slowWriterObs struct {
	StallMs  int64  `json:"stall_ms"`
	Size     int    `json:"size"`
	Messages int    `json:"messages"`
	BigOK    bool   `json:"big_ok"`
	SmallOK  bool   `json:"small_ok"`
	Err      string `json:"err,omitempty"`
	Oracle   string `json:"oracle_fail,omitempty"`
}

func slowWriterCase(size int, stall time.Duration) slowWriterObs {
	o := slowWriterObs{StallMs: stall.Milliseconds(), Size: size}
	srv := jsonrpc.NewServer(jsonrpc.WithServerPingInterval(0))
	srv.Register("W", &wHandler{})
	ts := httptest.NewServer(srv)
	defer ts.Close()
	conn, _, err := websocket.DefaultDialer.Dial("ws"+strings.TrimPrefix(ts.URL, "http"), nil)
	if err != nil {
		o.Oracle = "dial failed: " + err.Error()
		return o
	}
	defer conn.Close()
	_ = conn.WriteMessage(websocket.TextMessage, []byte(fmt.Sprintf(`{"jsonrpc":"2.0","id":1,"method":"W.Big","params":[1,%d]}`, size)))
	time.Sleep(300 * time.Millisecond) // the big response is being written
	_ = conn.WriteMessage(websocket.TextMessage, []byte(`{"jsonrpc":"2.0","id":2,"method":"W.Echo","params":[2]}`))
	time.Sleep(stall)
	_ = conn.SetReadDeadline(time.Now().Add(30 * time.Second))
	for o.Messages < 2 {
		_, msg, err := conn.ReadMessage()
		if err != nil {
			o.Err = err.Error()
			break
		}
		o.Messages++
		var r struct {
			ID     float64         `json:"id"`
			Result json.RawMessage `json:"result"`
			Error  json.RawMessage `json:"error"`
		}
		if json.Unmarshal(msg, &r) != nil {
			o.Oracle = fmt.Sprintf("message %d of %d bytes is not a complete JSON value (begins %q)", o.Messages, len(msg), truncate(string(msg), 60))
			return o
		}
		switch r.ID {
		case 1:
			var s string
			o.BigOK = json.Unmarshal(r.Result, &s) == nil && len(s) == size+2 && strings.HasPrefix(s, "1:")
		case 2:
			o.SmallOK = string(r.Result) == "2"
		}
	}
	if o.Oracle == "" && !(o.BigOK && o.SmallOK) {
		o.Oracle = fmt.Sprintf("after a response of %d bytes had been held up for %v by a peer that was not reading, the peer received %d message(s) (big intact: %v, small intact: %v, read error: %q)", size, stall, o.Messages, o.BigOK, o.SmallOK, o.Err)
	}
	return o
}

func init() {
	families["slow-writer"] = func(seed uint64, tier string, args []string) {
		emit(slowWriterCase(40<<20, 6200*time.Millisecond))
		if tier == "thorough" {
			emit(slowWriterCase(64<<20, 11*time.Second))
		}
	}
}
