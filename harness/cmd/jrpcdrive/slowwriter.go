package main

import (
	"encoding/json"
	"fmt"
	"net/http/httptest"
	"strings"
	"time"

	"github.com/filecoin-project/go-jsonrpc"
	"github.com/gorilla/websocket"
)

// family "slow-writer" (C14): a response that takes long to leave — tens of MB towards a peer that does not read for more
// than six seconds — holds the connection's writer from its first byte to its flush; a small response produced meanwhile
// waits. Afterwards the peer must find exactly the two responses, each a complete, well-formed message.
type slowWriterObs struct {
	StallMs  int64  `json:"stall_ms"`
	Size     int    `json:"size"`
	Messages int    `json:"messages"`
	BigOK    bool   `json:"big_ok"`
	SmallOK  bool   `json:"small_ok"`
	Err      string `json:"err,omitempty"`
	Oracle   string `json:"oracle_fail,omitempty"`
}

func slowWriterCase(size int, stall time.Duration) slowWriterObs {
	o := slowWriterObs{StallMs: stall.Milliseconds(), Size: size}
	srv := jsonrpc.NewServer(jsonrpc.WithServerPingInterval(0))
	srv.Register("W", &wHandler{})
	ts := httptest.NewServer(srv)
	defer ts.Close()
	conn, _, err := websocket.DefaultDialer.Dial("ws"+strings.TrimPrefix(ts.URL, "http"), nil)
	if err != nil {
		o.Oracle = "dial failed: " + err.Error()
		return o
	}
	defer conn.Close()
	_ = conn.WriteMessage(websocket.TextMessage, []byte(fmt.Sprintf(`{"jsonrpc":"2.0","id":1,"method":"W.Big","params":[1,%d]}`, size)))
	time.Sleep(300 * time.Millisecond) // the big response is being written
	_ = conn.WriteMessage(websocket.TextMessage, []byte(`{"jsonrpc":"2.0","id":2,"method":"W.Echo","params":[2]}`))
	time.Sleep(stall)
	_ = conn.SetReadDeadline(time.Now().Add(30 * time.Second))
	for o.Messages < 2 {
		_, msg, err := conn.ReadMessage()
		if err != nil {
			o.Err = err.Error()
			break
		}
		o.Messages++
		var r struct {
			ID     float64         `json:"id"`
			Result json.RawMessage `json:"result"`
			Error  json.RawMessage `json:"error"`
		}
		if json.Unmarshal(msg, &r) != nil {
			o.Oracle = fmt.Sprintf("message %d of %d bytes is not a complete JSON value (begins %q)", o.Messages, len(msg), truncate(string(msg), 60))
			return o
		}
		switch r.ID {
		case 1:
			var s string
			o.BigOK = json.Unmarshal(r.Result, &s) == nil && len(s) == size+2 && strings.HasPrefix(s, "1:")
		case 2:
			o.SmallOK = string(r.Result) == "2"
		}
	}
	if o.Oracle == "" && !(o.BigOK && o.SmallOK) {
		o.Oracle = fmt.Sprintf("after a response of %d bytes had been held up for %v by a peer that was not reading, the peer received %d message(s) (big intact: %v, small intact: %v, read error: %q)", size, stall, o.Messages, o.BigOK, o.SmallOK, o.Err)
	}
	return o
}

// the same with the peer draining slowly instead of not at all, and the server's pinger running: a large response that
// takes many ping intervals to leave must still arrive whole, and the connection must stay usable
type slowDrainObs struct {
	Size      int    `json:"size"`
	PingMs    int64  `json:"server_ping_ms"`
	RateMBs   int    `json:"drain_mb_per_s"`
	Got       int    `json:"bytes_received"`
	BigOK     bool   `json:"big_ok"`
	FollowOK  bool   `json:"follow_up_ok"`
	Err       string `json:"err,omitempty"`
	SlowDrain bool   `json:"slow_drain"`
	Oracle    string `json:"oracle_fail,omitempty"`
}

func slowDrainCase(size int, ping time.Duration, rateMBs int) slowDrainObs {
	o := slowDrainObs{Size: size, PingMs: ping.Milliseconds(), RateMBs: rateMBs, SlowDrain: true}
	srv := jsonrpc.NewServer(jsonrpc.WithServerPingInterval(ping))
	srv.Register("W", &wHandler{})
	ts := httptest.NewServer(srv)
	defer ts.Close()
	conn, _, err := websocket.DefaultDialer.Dial("ws"+strings.TrimPrefix(ts.URL, "http"), nil)
	if err != nil {
		o.Oracle = "dial failed: " + err.Error()
		return o
	}
	defer conn.Close()
	_ = conn.WriteMessage(websocket.TextMessage, []byte(fmt.Sprintf(`{"jsonrpc":"2.0","id":1,"method":"W.Big","params":[1,%d]}`, size)))
	_ = conn.SetReadDeadline(time.Now().Add(40 * time.Second))
	readOne := func(throttle bool) ([]byte, error) {
		_, r, err := conn.NextReader()
		if err != nil {
			return nil, err
		}
		var buf []byte
		chunk := make([]byte, 256<<10)
		for {
			n, err := r.Read(chunk)
			buf = append(buf, chunk[:n]...)
			if throttle && n > 0 {
				time.Sleep(time.Duration(n) * time.Second / time.Duration(rateMBs<<20))
			}
			if err != nil {
				if err.Error() == "EOF" {
					return buf, nil
				}
				return buf, err
			}
		}
	}
	msg, err := readOne(true)
	o.Got = len(msg)
	if err != nil {
		o.Err = err.Error()
	}
	var r struct {
		ID     float64         `json:"id"`
		Result json.RawMessage `json:"result"`
	}
	if err == nil && json.Unmarshal(msg, &r) == nil && r.ID == 1 {
		var s string
		o.BigOK = json.Unmarshal(r.Result, &s) == nil && len(s) == size+2
	}
	if o.BigOK {
		_ = conn.WriteMessage(websocket.TextMessage, []byte(`{"jsonrpc":"2.0","id":2,"method":"W.Echo","params":[2]}`))
		m2, err2 := readOne(false)
		o.FollowOK = err2 == nil && strings.Contains(string(m2), `"result":2`)
		if err2 != nil {
			o.Err = err2.Error()
		}
	}
	if !(o.BigOK && o.FollowOK) {
		o.Oracle = fmt.Sprintf("a response of %d bytes drained at %d MB/s with the server pinging every %v: %d bytes arrived (intact: %v), a small call afterwards on the same connection succeeded: %v, read error %q", size, rateMBs, ping, o.Got, o.BigOK, o.FollowOK, o.Err)
	}
	return o
}

func init() {
	families["slow-writer"] = func(seed uint64, tier string, args []string) {
		emit(slowDrainCase(16<<20, 150*time.Millisecond, 8))
		emit(slowWriterCase(40<<20, 6200*time.Millisecond))
		if tier == "thorough" {
			emit(slowWriterCase(64<<20, 11*time.Second))
		}
	}
}
