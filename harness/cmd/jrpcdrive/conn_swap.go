package main

import (
	"bytes"
	"context"
	"encoding/json"
	"fmt"
	"io"
	"net/http"
	"net/http/httptest"
	"strings"
	"sync"
	"time"

	"github.com/filecoin-project/go-jsonrpc"
)

// ---- a misbehaving peer / intermediary on the single-request transports (C02): two calls are in flight at once and each
// is handed the response built for the other (same shape, the other's id). Whatever the library makes of it, a call must
// never return another call's result or error as its own.

type swapClient struct {
	Echo func(ctx context.Context, token int) (int, error)
	Fail func(ctx context.Context, token int) (int, error)
}

func scenSwap(transport string, asError bool) *connRun {
	params := map[string]interface{}{"transport": transport, "swap": "responses of two concurrent calls", "as_error": asError}
	type parked struct {
		id    interface{}
		token int
		reply chan []byte
	}
	var mu sync.Mutex
	var waiting []*parked
	build := func(id interface{}, token int) []byte {
		m := map[string]interface{}{"jsonrpc": "2.0", "id": id}
		if asError {
			m["error"] = map[string]interface{}{"code": 1, "message": fmt.Sprintf("fail-%d", token)}
		} else {
			m["result"] = token
		}
		b, _ := json.Marshal(m)
		return b
	}
	serve := func(body []byte) []byte {
		var req struct {
			ID     interface{}   `json:"id"`
			Params []interface{} `json:"params"`
		}
		if json.Unmarshal(body, &req) != nil || len(req.Params) == 0 {
			return []byte(`{"jsonrpc":"2.0","id":null,"error":{"code":-32700,"message":"bad"}}`)
		}
		tok := int(req.Params[0].(float64))
		me := &parked{id: req.ID, token: tok, reply: make(chan []byte, 1)}
		mu.Lock()
		waiting = append(waiting, me)
		if len(waiting) == 2 {
			a, b := waiting[0], waiting[1]
			waiting = nil
			a.reply <- build(b.id, b.token) // each gets the other's response
			b.reply <- build(a.id, a.token)
		}
		mu.Unlock()
		select {
		case r := <-me.reply:
			return r
		case <-time.After(2 * time.Second):
			return build(me.id, me.token)
		}
	}
	ts := httptest.NewServer(http.HandlerFunc(func(w http.ResponseWriter, r *http.Request) {
		b, _ := io.ReadAll(r.Body)
		w.Header().Set("Content-Type", "application/json")
		_, _ = w.Write(serve(b))
	}))
	defer ts.Close()
	var cl swapClient
	var closer jsonrpc.ClientCloser
	var err error
	if transport == "custom" {
		closer, err = jsonrpc.NewCustomClient("C", []interface{}{&cl}, func(ctx context.Context, body []byte) (io.ReadCloser, error) {
			return io.NopCloser(bytes.NewReader(serve(body))), nil
		})
	} else {
		closer, err = jsonrpc.NewMergeClient(context.Background(), ts.URL, "C", []interface{}{&cl}, nil)
	}
	if err != nil {
		panic(err)
	}
	defer closer()
	run := &connRun{Scenario: "swap", Params: params, AllDone: true, CloserOK: true, Events: []tev{}}
	tok := 0
	for round := 0; round < 4; round++ {
		var wg sync.WaitGroup
		recs := make([]*callRec, 2)
		for k := 0; k < 2; k++ {
			tok++
			rec := &callRec{Token: tok, Kind: map[bool]string{true: "fail", false: "echo"}[asError], Outcome: "pending"}
			recs[k] = rec
			run.Calls = append(run.Calls, rec)
			wg.Add(1)
			go func(rec *callRec) {
				defer wg.Done()
				var v int
				var e error
				if asError {
					v, e = cl.Fail(context.Background(), rec.Token)
				} else {
					v, e = cl.Echo(context.Background(), rec.Token)
				}
				rec.Returned = true
				rec.Returns++
				switch {
				case e == nil && v == rec.Token:
					rec.Outcome = "ok"
				case e == nil:
					rec.Outcome = fmt.Sprintf("foreign:%d", v)
				case strings.HasPrefix(e.Error(), "fail-") && e.Error() != fmt.Sprintf("fail-%d", rec.Token):
					rec.Outcome = "foreign-error:" + e.Error()
				case e.Error() == fmt.Sprintf("fail-%d", rec.Token):
					rec.Outcome = "handler-error"
				default:
					rec.Outcome = "refused"
					rec.ErrType = e.Error()
				}
			}(rec)
		}
		wg.Wait()
		for _, rec := range recs {
			if strings.HasPrefix(rec.Outcome, "foreign") && run.Oracle == "" {
				run.Oracle = fmt.Sprintf("call %d over %s was handed the response of a concurrent call (its id does not match) and returned it as its own: %s", rec.Token, transport, rec.Outcome)
			}
		}
	}
	return run
}

func init() {
	connExtra = append(connExtra, func(which string, seed uint64, tier string) {
		if which == "all" || which == "perm" {
			for _, tr := range []string{"http", "custom"} {
				emit(scenSwap(tr, false))
				emit(scenSwap(tr, true))
			}
		}
	})
}

// many callers at once on a single-request client (HTTP: parallel connections; custom transport): every call returns its
// own result exactly once. With a request header given, as applications that authenticate do.
func scenSingleMany(transport string, n int, withHeader bool) *connRun {
	params := map[string]interface{}{"transport": transport, "concurrent_callers": n, "request_header": withHeader}
	h := &hsEcho{}
	srv := jsonrpc.NewServer()
	srv.Register("C", h)
	ts := httptest.NewServer(srv)
	defer func() { ts.CloseClientConnections(); go ts.Close() }()
	var cl struct {
		Echo func(ctx context.Context, token int) (int, error)
	}
	var closer jsonrpc.ClientCloser
	var err error
	var hdrGiven http.Header
	if transport == "custom" {
		closer, err = jsonrpc.NewCustomClient("C", []interface{}{&cl}, func(ctx context.Context, body []byte) (io.ReadCloser, error) {
			var buf bytes.Buffer
			srv.HandleRequest(ctx, bytes.NewReader(body), &buf)
			return io.NopCloser(&buf), nil
		})
	} else {
		var hdr http.Header
		if withHeader {
			hdr = http.Header{"Authorization": []string{"Bearer x"}, "X-Trace": []string{"a", "b"}}
			hdrGiven = hdr
		}
		closer, err = jsonrpc.NewMergeClient(context.Background(), ts.URL, "C", []interface{}{&cl}, hdr)
	}
	if err != nil {
		panic(err)
	}
	defer closer()
	run := &connRun{Scenario: "swap", Params: params, AllDone: true, CloserOK: true, Events: []tev{}}
	var wg sync.WaitGroup
	start := make(chan struct{})
	recs := make([]*callRec, n)
	for k := 0; k < n; k++ {
		rec := &callRec{Token: k + 1, Kind: "echo", Outcome: "pending"}
		recs[k] = rec
		run.Calls = append(run.Calls, rec)
		wg.Add(1)
		go func(rec *callRec) {
			defer wg.Done()
			<-start
			for rep := 0; rep < 8; rep++ {
				v, e := cl.Echo(context.Background(), rec.Token)
				switch {
				case e == nil && v == rec.Token:
					rec.Outcome = "ok"
				case e == nil:
					rec.Outcome = fmt.Sprintf("foreign:%d", v)
					return
				default:
					rec.Outcome = "other:" + e.Error()
					return
				}
			}
			rec.Returned = true
			rec.Returns = 1
			rec.Execs = 1
		}(rec)
	}
	close(start)
	done := make(chan struct{})
	go func() { wg.Wait(); close(done) }()
	select {
	case <-done:
	case <-time.After(20 * time.Second):
		run.AllDone = false
	}
	for _, rec := range recs {
		if run.Oracle == "" && rec.Outcome != "ok" {
			run.Oracle = fmt.Sprintf("%d callers at once over %s: call %d ended as %q instead of its own result", n, transport, rec.Token, rec.Outcome)
		}
	}
	// the header object the application handed to the constructor is read by every call; if the library writes into it,
	// all concurrent calls of the client share one map with the transport's goroutines (a data race that aborts the process
	// in some schedules, not in all)
	if run.Oracle == "" && hdrGiven != nil {
		if ct := hdrGiven.Get("Content-Type"); ct != "" || len(hdrGiven) != 2 {
			run.Oracle = fmt.Sprintf("%d callers at once over http: the library wrote into the request header object given to the constructor (Content-Type=%q, %d keys): all calls of the client share one map with the transport", n, ct, len(hdrGiven))
		}
	}
	return run
}

type hsEcho struct{}

func (hsEcho) Echo(ctx context.Context, token int) (int, error) { return token, nil }

func init() {
	connExtra = append(connExtra, func(which string, seed uint64, tier string) {
		if which == "all" || which == "perm" {
			emit(scenSingleMany("http", 32, true))
			emit(scenSingleMany("http", 32, false))
			emit(scenSingleMany("custom", 32, false))
		}
	})
}
