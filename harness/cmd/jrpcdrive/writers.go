package main

import (
	"context"
	"fmt"
	"net/http/httptest"
	"strings"
	"sync"
	"sync/atomic"
	"time"

	"github.com/filecoin-project/go-jsonrpc"
)

// family "writers" (C14, dynamic support and violation search): every kind of writer at once on one connection
// (caller requests, cancel notifications, handler responses of many sizes through the lazy writer, channel
// registrations, channel values and closes, reverse calls, 1ms pings both ways). gorilla panics on a concurrent
// write and a torn frame fails to parse, so: the process must survive and every result must be the right one.
// Hooks are used as yield points inside the writers' critical sections to widen overlaps.

type wHandler struct{}

func (h *wHandler) Big(ctx context.Context, token int, size int) (string, error) {
	return fmt.Sprintf("%d:", token) + strings.Repeat("y", size), nil
}
func (h *wHandler) Echo(ctx context.Context, token int) (int, error) { return token, nil }
func (h *wHandler) Wait(ctx context.Context, token int) (int, error) {
	select {
	case <-ctx.Done():
		return -token, nil
	case <-time.After(50 * time.Millisecond):
		return token, nil
	}
}
func (h *wHandler) Sub(ctx context.Context, token int, n int) (<-chan int, error) {
	ch := make(chan int, 2)
	go func() {
		defer close(ch)
		for i := 0; i < n; i++ {
			select {
			case ch <- token*1000 + i:
			case <-ctx.Done():
				return
			}
		}
	}()
	return ch, nil
}
func (h *wHandler) CallBack(ctx context.Context, token int) (int, error) {
	rev, ok := jsonrpc.ExtractReverseClient[RevAPI](ctx)
	if !ok {
		return -1, nil
	}
	return rev.WhoAmI(ctx, token)
}

type wClient struct {
	Big      func(ctx context.Context, token int, size int) (string, error)
	Echo     func(ctx context.Context, token int) (int, error)
	Wait     func(ctx context.Context, token int) (int, error)
	Sub      func(ctx context.Context, token int, n int) (<-chan int, error)
	CallBack func(ctx context.Context, token int) (int, error)
}

func writersFamily(seed uint64, tier string, args []string) {
	dur := 2500 * time.Millisecond
	if tier == "thorough" {
		dur = 20 * time.Second
	}
	r := newRng(seed)
	var ymu sync.Mutex
	jsonrpc.VerifSetHook(func(point string, a ...interface{}) {
		switch point {
		case "write.locked", "nw.acquired", "send.req", "ping.send", "ping.recv", "och.val", "redial.swap":
			ymu.Lock()
			d := r.intn(120)
			ymu.Unlock()
			if d < 40 {
				time.Sleep(time.Duration(d) * time.Microsecond)
			}
		}
	})
	srv := jsonrpc.NewServer(jsonrpc.WithServerPingInterval(time.Millisecond), jsonrpc.WithReverseClient[RevAPI]("R"))
	srv.Register("W", &wHandler{})
	ts := httptest.NewServer(srv)
	proxy := newFaultProxy(strings.TrimPrefix(ts.URL, "http://"))
	var cl wClient
	tr := newTracer()
	closer, err := jsonrpc.NewMergeClient(context.Background(), "ws://"+proxy.addr(), "W", []interface{}{&cl}, nil,
		jsonrpc.WithPingInterval(time.Millisecond), jsonrpc.WithTimeout(5*time.Second), jsonrpc.WithReconnectBackoff(2*time.Millisecond, 5*time.Millisecond),
		jsonrpc.WithClientHandler("R", &revClientHandler{identity: 7, tr: tr, hold: func(int) chan struct{} { return nil }}))
	if err != nil {
		panic(err)
	}
	var calls, bad, connerrs int64
	var firstBad atomic.Value
	note := func(s string) {
		atomic.AddInt64(&bad, 1)
		firstBad.CompareAndSwap(nil, s)
	}
	stop := time.Now().Add(dur)
	var wg sync.WaitGroup
	var tok int64
	isConnErr := func(err error) bool {
		return err != nil && (strings.Contains(err.Error(), "websocket connection closed") || strings.Contains(err.Error(), "exiting") || strings.Contains(err.Error(), "context"))
	}
	for g := 0; g < 16; g++ {
		wg.Add(1)
		go func(g int) {
			defer wg.Done()
			rr := newRng(seed*131 + uint64(g))
			for time.Now().Before(stop) {
				t := int(atomic.AddInt64(&tok, 1))
				atomic.AddInt64(&calls, 1)
				switch g % 5 {
				case 0:
					size := []int{3, 2000, 70000, 300000}[rr.intn(4)]
					s, err := cl.Big(context.Background(), t, size)
					if isConnErr(err) {
						atomic.AddInt64(&connerrs, 1)
					} else if err != nil || len(s) != len(fmt.Sprint(t))+1+size || !strings.HasPrefix(s, fmt.Sprintf("%d:", t)) {
						note(fmt.Sprintf("Big(%d,%d) -> len %d err %v", t, size, len(s), err))
					}
				case 1:
					v, err := cl.Echo(context.Background(), t)
					if isConnErr(err) {
						atomic.AddInt64(&connerrs, 1)
					} else if err != nil || v != t {
						note(fmt.Sprintf("Echo(%d) -> %d %v", t, v, err))
					}
				case 2:
					ctx, cancel := context.WithCancel(context.Background())
					go func() { time.Sleep(time.Duration(rr.intn(3)) * time.Millisecond); cancel() }()
					v, err := cl.Wait(ctx, t)
					if isConnErr(err) {
						atomic.AddInt64(&connerrs, 1)
					} else if err != nil || (v != t && v != -t) {
						note(fmt.Sprintf("Wait(%d) -> %d %v", t, v, err))
					}
					cancel()
				case 3:
					ctx, cancel := context.WithCancel(context.Background())
					ch, err := cl.Sub(ctx, t, 20)
					if err == nil {
						i := 0
						for v := range ch {
							if v != t*1000+i {
								note(fmt.Sprintf("Sub(%d) element %d is %d", t, i, v))
								break
							}
							i++
						}
					} else if !isConnErr(err) {
						note(fmt.Sprintf("Sub(%d) -> %v", t, err))
					}
					cancel()
				case 4:
					v, err := cl.CallBack(context.Background(), t)
					if isConnErr(err) {
						atomic.AddInt64(&connerrs, 1)
					} else if err != nil || v != 7*100000+t {
						note(fmt.Sprintf("CallBack(%d) -> %d %v", t, v, err))
					}
				}
			}
		}(g)
	}
	// a few forced reconnects while everything is writing
	go func() {
		for i := 0; i < 3 && time.Now().Before(stop); i++ {
			time.Sleep(dur / 5)
			if pc := proxy.current(); pc != nil {
				pc.kill(faultFIN)
			}
		}
	}()
	finished := make(chan struct{})
	go func() { wg.Wait(); close(finished) }()
	stuck := false
	select {
	case <-finished:
		closer()
	case <-time.After(dur + 10*time.Second):
		// a caller that is still waiting 10s after the workload ended was never answered: its request or its response
		// did not make it across the connection intact
		stuck = true
	}
	jsonrpc.VerifSetHook(nil)
	out := map[string]interface{}{"calls": calls, "bad": bad, "connerrs": connerrs, "seed": seed, "duration_ms": dur.Milliseconds()}
	if stuck {
		out["oracle_fail"] = "under concurrent writers some calls were never answered (still blocked 10s after the workload ended): a message was lost or corrupted on the wire"
		if b := firstBad.Load(); b != nil {
			out["oracle_fail"] = out["oracle_fail"].(string) + "; first wrong result: " + b.(string)
		}
	} else if b := firstBad.Load(); b != nil {
		out["oracle_fail"] = "under concurrent writers a call returned a wrong result (corrupted or misrouted frame): " + b.(string)
	}
	emit(out)
}

func init() { families["writers"] = writersFamily }
