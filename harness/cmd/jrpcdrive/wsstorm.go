package main

import (
	"bufio"
	"context"
	"encoding/json"
	"fmt"
	"net/http/httptest"
	"os"
	"os/exec"
	"strings"
	"sync"
	"time"

	"github.com/filecoin-project/go-jsonrpc"
	"github.com/gorilla/websocket"
)

// family "ws-storm" (C13): many handlers panic at the same moment, over several WebSocket connections and through many
// distinct method names (aliases of one panicking method). Every caller gets an error for its own id, a healthy call
// works afterwards on every connection, and the process hosting the server is still alive. The server runs in a worker
// subprocess so that its death is an observation, not the end of the harness.

type stormObs struct {
	Conns    int    `json:"conns"`
	PerConn  int    `json:"per_conn"`
	Group    int    `json:"group"`
	Names    string `json:"names"` // "distinct" (one alias per call) | "one" (a single method name)
	Replies  int    `json:"error_replies"`
	Foreign  int    `json:"foreign_or_malformed_replies"`
	ProbesOK int    `json:"probes_ok"`
	Crashed  bool   `json:"crashed"`
	CrashLog string `json:"crash_log,omitempty"`
	Oracle   string `json:"oracle_fail,omitempty"`
}

type stormHandler struct {
	lk      sync.Mutex
	waiting int
	gate    chan struct{}
	group   int
}

// Boom waits briefly until a group of callers has gathered, so that the whole group panics at the same moment
func (h *stormHandler) Boom() error {
	h.lk.Lock()
	if h.gate == nil {
		h.gate = make(chan struct{})
	}
	g := h.gate
	h.waiting++
	if h.waiting >= h.group {
		h.waiting = 0
		h.gate = nil
		close(g)
	}
	h.lk.Unlock()
	select {
	case <-g:
	case <-time.After(100 * time.Millisecond):
	}
	panic("storm-boom")
}

func (h *stormHandler) Ping() (string, error) { return "pong", nil }

func stormWorker(conns, perConn, group int, names string) {
	o := stormObs{Conns: conns, PerConn: perConn, Group: group, Names: names}
	srv := jsonrpc.NewServer()
	srv.Register("S", &stormHandler{group: group})
	name := func(c, i int) string {
		if names == "one" {
			return "S.Boom"
		}
		return fmt.Sprintf("S.Boom_%d_%d", c, i)
	}
	if names != "one" {
		for c := 0; c < conns; c++ {
			for i := 0; i < perConn; i++ {
				srv.AliasMethod(name(c, i), "S.Boom")
			}
		}
	}
	ts := httptest.NewServer(srv)
	url := "ws" + strings.TrimPrefix(ts.URL, "http")
	var mu sync.Mutex
	var wg sync.WaitGroup
	for c := 0; c < conns; c++ {
		wg.Add(1)
		go func(c int) {
			defer wg.Done()
			conn, _, err := websocket.DefaultDialer.Dial(url, nil)
			if err != nil {
				return
			}
			defer conn.Close()
			go func() {
				for i := 0; i < perConn; i++ {
					_ = conn.WriteMessage(websocket.TextMessage, []byte(fmt.Sprintf(`{"jsonrpc":"2.0","id":%d,"method":%q}`, c*1000000+i, name(c, i))))
				}
				_ = conn.WriteMessage(websocket.TextMessage, []byte(fmt.Sprintf(`{"jsonrpc":"2.0","id":"probe-%d","method":"S.Ping"}`, c)))
			}()
			seen := map[int]bool{}
			_ = conn.SetReadDeadline(time.Now().Add(20 * time.Second))
			for n := 0; n < perConn+1; n++ {
				_, msg, err := conn.ReadMessage()
				if err != nil {
					return
				}
				var r struct {
					ID     interface{}     `json:"id"`
					Result json.RawMessage `json:"result"`
					Error  *struct {
						Message string `json:"message"`
					} `json:"error"`
				}
				mu.Lock()
				switch {
				case json.Unmarshal(msg, &r) != nil:
					o.Foreign++
				case r.ID == fmt.Sprintf("probe-%d", c):
					if string(r.Result) == `"pong"` {
						o.ProbesOK++
					}
				default:
					id, ok := r.ID.(float64)
					i := int(id) - c*1000000
					if !ok || i < 0 || i >= perConn || seen[i] || r.Error == nil || !strings.Contains(r.Error.Message, "storm-boom") {
						o.Foreign++
					} else {
						seen[i] = true
						o.Replies++
					}
				}
				mu.Unlock()
			}
		}(c)
	}
	wg.Wait()
	b, _ := json.Marshal(o)
	fmt.Printf("DONE %s\n", b)
}

func runStorm(conns, perConn, group int, names string) stormObs {
	cmd := exec.Command(os.Args[0], "ws-worker", "storm", fmt.Sprint(conns), fmt.Sprint(perConn), fmt.Sprint(group), names)
	cmd.Env = append(os.Environ(), "GOLOG_LOG_LEVEL=fatal")
	stdout, _ := cmd.StdoutPipe()
	var stderr strings.Builder
	cmd.Stderr = &stderr
	if err := cmd.Start(); err != nil {
		panic(err)
	}
	var obs *stormObs
	sc := bufio.NewScanner(stdout)
	sc.Buffer(make([]byte, 1<<20), 1<<26)
	for sc.Scan() {
		if line := sc.Text(); strings.HasPrefix(line, "DONE ") {
			var o stormObs
			if json.Unmarshal([]byte(line[5:]), &o) == nil {
				obs = &o
			}
		}
	}
	_ = cmd.Wait()
	if obs == nil {
		lg := stderr.String()
		for _, key := range []string{"fatal error:", "panic:"} {
			if i := strings.Index(lg, key); i >= 0 {
				lg = lg[i:]
				break
			}
		}
		if len(lg) > 1200 {
			lg = lg[:1200]
		}
		return stormObs{Conns: conns, PerConn: perConn, Group: group, Names: names, Crashed: true, CrashLog: lg,
			Oracle: fmt.Sprintf("the process hosting the server died while %d handlers at a time were panicking (%d connections, method names: %s): %s", group, conns, names, firstLine(lg))}
	}
	want := conns * perConn
	switch {
	case obs.Foreign > 0:
		obs.Oracle = fmt.Sprintf("%d replies to panicking calls were malformed, duplicated, for an unknown id or not the panic error", obs.Foreign)
	case obs.Replies != want:
		obs.Oracle = fmt.Sprintf("%d of %d panicking calls got their error reply", obs.Replies, want)
	case obs.ProbesOK != conns:
		obs.Oracle = fmt.Sprintf("a healthy call after the panics succeeded on %d of %d connections", obs.ProbesOK, conns)
	}
	return *obs
}

func init() {
	families["ws-storm"] = func(seed uint64, tier string, args []string) {
		emit(runStorm(8, 400, 32, "distinct"))
		emit(runStorm(4, 300, 16, "one"))
		emit(runStorm(1, 200, 8, "distinct"))
		if tier == "thorough" {
			emit(runStorm(8, 1500, 32, "distinct"))
			emit(runStorm(16, 500, 64, "distinct"))
			emit(runStorm(8, 1500, 32, "one"))
		}
	}
}

// family "panic-typed" (C13): the caller of a panicking method is a real client with an error table; the panic's payload is
// a string, an error of an unregistered type, and an error of a type registered on both sides. Whatever it is, the
// caller's error mentions the panic (it must not be rebuilt into the registered type as if the handler had returned it).
type panicTypedObs struct {
	Transport string `json:"transport"`
	Method    string `json:"method"`
	ErrType   string `json:"err_type"`
	Err       string `json:"err"`
	Oracle    string `json:"oracle_fail,omitempty"`
}

func panicTypedFamily(seed uint64, tier string, args []string) {
	l := &invLog{}
	srv := newStdServer(0, -1, l)
	ts := httptest.NewServer(srv)
	defer ts.Close()
	for _, transport := range []string{"http", "ws"} {
		var cl struct {
			Panic      func() error
			PanicInt   func(int) (int, error)
			PanicCoded func() error
			CodeErr    func(int) error
		}
		addr := ts.URL
		if transport == "ws" {
			addr = "ws" + strings.TrimPrefix(ts.URL, "http")
		}
		closer, err := jsonrpc.NewMergeClient(context.Background(), addr, "H", []interface{}{&cl}, nil, jsonrpc.WithErrors(stdErrors()), jsonrpc.WithNoReconnect())
		if err != nil {
			emit(panicTypedObs{Transport: transport, Oracle: "client construction failed: " + err.Error()})
			continue
		}
		calls := []struct {
			name string
			f    func() error
		}{{"Panic", cl.Panic}, {"PanicInt", func() error { _, e := cl.PanicInt(3); return e }}, {"PanicCoded", cl.PanicCoded}}
		for _, c := range calls {
			e := c.f()
			o := panicTypedObs{Transport: transport, Method: c.name}
			if e != nil {
				o.ErrType, o.Err = fmt.Sprintf("%T", e), truncate(e.Error(), 200)
			}
			if e == nil || !strings.Contains(e.Error(), "panic") {
				o.Oracle = fmt.Sprintf("method %s panicked; its caller (a client with the server's error table) got %s %q, which does not mention the panic", c.name, o.ErrType, o.Err)
			}
			emit(o)
		}
		// control: the same registered type *returned* by a handler does arrive as that type
		e := cl.CodeErr(5)
		o := panicTypedObs{Transport: transport, Method: "CodeErr"}
		if e != nil {
			o.ErrType, o.Err = fmt.Sprintf("%T", e), truncate(e.Error(), 200)
		}
		if o.ErrType != "*main.CodedErr" {
			o.Oracle = "control: a registered error returned by a handler did not arrive as its type: " + o.ErrType
		}
		emit(o)
		closer()
	}
}

func init() { families["panic-typed"] = panicTypedFamily }
