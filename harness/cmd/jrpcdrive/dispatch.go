package main

import (
	"bytes"
	"context"
	"encoding/json"
	"errors"
	"fmt"
	"io"
	"net/http"
	"net/http/httptest"
	"time"

	"github.com/filecoin-project/go-jsonrpc"
)

// family "dispatch" (C12): exhaustive small universe of registrations / formatters / aliases / names.

type dT1 struct {
	ns string
	l  *[]string
}

func (d *dT1) Foo() string { *d.l = append(*d.l, d.ns+"/1/Foo"); return "x" }
func (d *dT1) Bar() string { *d.l = append(*d.l, d.ns+"/1/Bar"); return "x" }

type dT2 struct {
	ns string
	l  *[]string
}

func (d *dT2) Foo() string    { *d.l = append(*d.l, d.ns+"/2/Foo"); return "x" }
func (d *dT2) FooBar() string { *d.l = append(*d.l, d.ns+"/2/FooBar"); return "x" }

type dReg struct {
	NS   string `json:"ns"`
	Type int    `json:"type"`
}

type dCase struct {
	Fmt     int         `json:"fmt"`
	Regs    []dReg      `json:"regs"`
	Aliases [][2]string `json:"aliases"`
	Name    string      `json:"name"`
	Ran     string      `json:"ran"`  // "" or "<ns>/<type>/<Method>" of the registration that ran
	Code    int         `json:"code"` // 0 = result, else error code
	Oracle  string      `json:"oracle_fail,omitempty"`
	Client  *dClientUse `json:"client,omitempty"` // the request was made by a real client proxy (Name is what it put on the wire)
}

type dClientUse struct {
	NS    string `json:"ns"`
	Field string `json:"field"`
	Tag   string `json:"tag,omitempty"`
}

// proxy struct of the client side of the universe; T0..T4 carry the server-side name of B/FooBar under formatter 0..4
type dProxy struct {
	Foo    func() (string, error)
	Bar    func() (string, error)
	FooBar func() (string, error)
	T0     func() (string, error) `rpc_method:"B.FooBar"`
	T1     func() (string, error) `rpc_method:"B.fooBar"`
	T2     func() (string, error) `rpc_method:"FooBar"`
	T3     func() (string, error) `rpc_method:"fooBar"`
	T4     func() (string, error) `rpc_method:"B_FooBar"`
}

type dWire struct {
	srv  *jsonrpc.RPCServer
	last string
}

func (w *dWire) ServeHTTP(rw http.ResponseWriter, r *http.Request) {
	b, _ := io.ReadAll(r.Body)
	var req struct {
		Method string `json:"method"`
	}
	_ = json.Unmarshal(b, &req)
	w.last = req.Method
	r.Body = io.NopCloser(bytes.NewReader(b))
	w.srv.ServeHTTP(rw, r)
}

// a real client configured with the server's formatter (or a field tagged with the server-side name) against every
// registration sequence of the universe: what it puts on the wire and which handler runs
func dispatchClients(fi int, regSeqs [][]dReg) {
	f := formatterOf(fi)
	has := map[int]map[string]bool{1: {"Foo": true, "Bar": true}, 2: {"Foo": true, "FooBar": true}}
	for _, regs := range regSeqs {
		var log []string
		srv := jsonrpc.NewServer(jsonrpc.WithServerMethodNameFormatter(f))
		for _, rg := range regs {
			if rg.Type == 1 {
				srv.Register(rg.NS, &dT1{rg.NS, &log})
			} else {
				srv.Register(rg.NS, &dT2{rg.NS, &log})
			}
		}
		wire := &dWire{srv: srv}
		ts := httptest.NewServer(wire)
		for _, cns := range []string{"A", "B", ""} {
			var px dProxy
			closer, err := jsonrpc.NewMergeClient(context.Background(), ts.URL, cns, []interface{}{&px}, nil, jsonrpc.WithMethodNameFormatter(f))
			if err != nil {
				emit(dCase{Fmt: fi, Regs: regs, Aliases: [][2]string{}, Client: &dClientUse{NS: cns}, Oracle: "client construction failed: " + err.Error()})
				continue
			}
			tagged := []func() (string, error){px.T0, px.T1, px.T2, px.T3, px.T4}[fi]
			tag := []string{"B.FooBar", "B.fooBar", "FooBar", "fooBar", "B_FooBar"}[fi]
			uses := []struct {
				field, tag string
				fn         func() (string, error)
			}{{"Foo", "", px.Foo}, {"Bar", "", px.Bar}, {"FooBar", "", px.FooBar}, {"T", tag, tagged}}
			for _, u := range uses {
				log = nil
				wire.last = "<none>"
				_, cerr := u.fn()
				c := dCase{Fmt: fi, Regs: regs, Aliases: [][2]string{}, Name: wire.last, Client: &dClientUse{NS: cns, Field: u.field, Tag: u.tag}}
				if c.Regs == nil {
					c.Regs = []dReg{}
				}
				if cerr != nil {
					c.Code = -32601
					var je *jsonrpc.JSONRPCError
					if errors.As(cerr, &je) {
						c.Code = int(je.Code)
					}
				}
				if len(log) == 1 {
					c.Ran = log[0]
				} else if len(log) > 1 {
					c.Oracle = fmt.Sprintf("%d handlers ran for one request", len(log))
				}
				// the name on the wire: the shared formatter applied to the client's namespace and the field name, or the tag
				wantWire, wantNS, wantM := f(cns, u.field), cns, u.field
				if u.tag != "" {
					wantWire, wantNS, wantM = u.tag, "B", "FooBar"
				}
				if c.Oracle == "" && c.Name != wantWire {
					c.Oracle = fmt.Sprintf("client (namespace %q, field %s, tag %q) put method %q on the wire, expected %q", cns, u.field, u.tag, c.Name, wantWire)
				}
				// agreement: if the server registered that namespace with a handler having that method, exactly it runs
				// (namespace-less formatters cannot tell namespaces apart: the last registration of the method name wins)
				wantRan := ""
				for _, rg := range regs {
					if has[rg.Type][wantM] && (rg.NS == wantNS || fi == 2 || fi == 3) {
						wantRan = fmt.Sprintf("%s/%d/%s", rg.NS, rg.Type, wantM)
					}
				}
				if c.Oracle == "" && wantRan != "" && c.Ran != wantRan {
					c.Oracle = fmt.Sprintf("client (namespace %q, field %s, tag %q, same formatter as the server) ran %q, the server registered %s for it", cns, u.field, u.tag, c.Ran, wantRan)
				}
				emit(c)
			}
			closer()
		}
		ts.Close()
	}
}

func dispatchFamily(seed uint64, tier string, args []string) {
	dispatchReverse()
	nss := []string{"A", "B", ""}
	var regSeqs [][]dReg
	regSeqs = append(regSeqs, nil)
	var singles []dReg
	for _, ns := range nss {
		for t := 1; t <= 2; t++ {
			singles = append(singles, dReg{ns, t})
		}
	}
	for _, a := range singles {
		regSeqs = append(regSeqs, []dReg{a})
	}
	for _, a := range singles {
		for _, b := range singles {
			regSeqs = append(regSeqs, []dReg{a, b})
		}
	}
	for fi := 0; fi < 5; fi++ {
		f := formatterOf(fi)
		dispatchClients(fi, regSeqs)
		// candidate names: every formatted name of the universe under this formatter + a few others
		nameSet := map[string]bool{"Al": true, "Al2": true, "Foo": true, "A.Foo": true, "a.foo": true, "A.FOO": true, "A.": true, "": true, "B.foo": true, ".Foo": true}
		for _, ns := range nss {
			for _, m := range []string{"Foo", "Bar", "FooBar", "Baz"} {
				nameSet[f(ns, m)] = true
			}
		}
		var names []string
		for n := range nameSet {
			names = append(names, n)
		}
		sortStrings(names)
		aliasTables := [][][2]string{
			nil,
			{{"Al", f("A", "Foo")}, {"Al2", "Al"}}, // to existing (maybe), chain of length 2 (not followed)
			{{"Al", f("B", "Missing")}, {f("A", "Bar"), f("B", "Foo")}}, // to missing; shadowing a direct name
			{{f("A", "Baz"), f("A", "Foo")}, {f("", "Foo"), f("B", "FooBar")}},
		}
		for _, regs := range regSeqs {
			for _, als := range aliasTables {
				var log []string
				srv := jsonrpc.NewServer(jsonrpc.WithServerMethodNameFormatter(f))
				for _, rg := range regs {
					if rg.Type == 1 {
						srv.Register(rg.NS, &dT1{rg.NS, &log})
					} else {
						srv.Register(rg.NS, &dT2{rg.NS, &log})
					}
				}
				for _, a := range als {
					srv.AliasMethod(a[0], a[1])
				}
				for _, name := range names {
					log = nil
					nb, _ := json.Marshal(name)
					body := fmt.Sprintf(`{"jsonrpc":"2.0","id":1,"method":%s}`, nb)
					rec := httptest.NewRecorder()
					srv.ServeHTTP(rec, httptest.NewRequest("POST", "/", bytes.NewReader([]byte(body))))
					var resp struct {
						Result interface{} `json:"result"`
						Error  *struct {
							Code int `json:"code"`
						} `json:"error"`
					}
					c := dCase{Fmt: fi, Regs: regs, Aliases: als, Name: name}
					if c.Regs == nil {
						c.Regs = []dReg{}
					}
					if c.Aliases == nil {
						c.Aliases = [][2]string{}
					}
					if err := json.Unmarshal(rec.Body.Bytes(), &resp); err != nil {
						c.Oracle = "reply is not JSON: " + err.Error()
					}
					if resp.Error != nil {
						c.Code = resp.Error.Code
					}
					if len(log) == 1 {
						c.Ran = log[0]
					} else if len(log) > 1 {
						c.Oracle = fmt.Sprintf("%d handlers ran for one request", len(log))
					}
					if (c.Ran == "") == (c.Code == 0) && c.Oracle == "" {
						c.Oracle = "result without a handler run, or handler run answered with an error"
					}
					emit(c)
				}
			}
		}
	}
}

func sortStrings(s []string) {
	for i := 1; i < len(s); i++ {
		for j := i; j > 0 && s[j] < s[j-1]; j-- {
			s[j], s[j-1] = s[j-1], s[j]
		}
	}
}

func init() { families["dispatch"] = dispatchFamily }

// reverse calls: the server's reverse client and the client-side handler table agree on the method name for every
// formatter, whichever way round the server lists WithReverseClient and WithServerMethodNameFormatter
type dRevCase struct {
	ReverseNaming bool   `json:"reverse_naming"`
	Fmt           int    `json:"fmt"`
	OptionFirst   bool   `json:"reverse_option_first"`
	Result        int    `json:"result"`
	Err           string `json:"err,omitempty"`
	Oracle        string `json:"oracle_fail,omitempty"`
}

type dRevAPI struct {
	Who func(ctx context.Context) (int, error)
}
type dRevClientHandler struct{}

func (dRevClientHandler) Who(ctx context.Context) (int, error) { return 4242, nil }

type dRevServerHandler struct{}

func (dRevServerHandler) CallBack(ctx context.Context) (int, error) {
	rev, ok := jsonrpc.ExtractReverseClient[dRevAPI](ctx)
	if !ok {
		return -1, nil
	}
	return rev.Who(ctx)
}

func dispatchReverse() {
	for fi := 0; fi < 5; fi++ {
		for _, first := range []bool{false, true} {
			f := formatterOf(fi)
			sopts := []jsonrpc.ServerOption{jsonrpc.WithServerMethodNameFormatter(f), jsonrpc.WithServerPingInterval(0)}
			if first {
				sopts = append([]jsonrpc.ServerOption{jsonrpc.WithReverseClient[dRevAPI]("R")}, sopts...)
			} else {
				sopts = append(sopts, jsonrpc.WithReverseClient[dRevAPI]("R"))
			}
			srv := jsonrpc.NewServer(sopts...)
			srv.Register("S", dRevServerHandler{})
			ts := httptest.NewServer(srv)
			var cl struct {
				CallBack func(ctx context.Context) (int, error)
			}
			c := dRevCase{ReverseNaming: true, Fmt: fi, OptionFirst: first}
			closer, err := jsonrpc.NewMergeClient(context.Background(), "ws"+ts.URL[4:], "S", []interface{}{&cl}, nil,
				jsonrpc.WithMethodNameFormatter(f), jsonrpc.WithNoReconnect(), jsonrpc.WithPingInterval(0), jsonrpc.WithClientHandler("R", dRevClientHandler{}))
			if err != nil {
				c.Oracle = "client construction failed: " + err.Error()
				emit(c)
				ts.Close()
				continue
			}
			ctx, cancel := context.WithTimeout(context.Background(), 3*time.Second)
			v, e := cl.CallBack(ctx)
			cancel()
			c.Result = v
			if e != nil {
				c.Err = e.Error()
			}
			if e != nil || v != 4242 {
				c.Oracle = fmt.Sprintf("server and client share formatter %d (WithReverseClient listed first: %v) but the reverse call did not reach the client's method: result %d, error %q", fi, first, v, c.Err)
			}
			emit(c)
			closer()
			ts.CloseClientConnections()
			ts.Close()
		}
	}
}
