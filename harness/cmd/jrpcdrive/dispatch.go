package main

import (
	"bytes"
	"encoding/json"
	"fmt"
	"net/http/httptest"

	"github.com/filecoin-project/go-jsonrpc"
)

// family "dispatch" (C12): exhaustive small universe of registrations / formatters / aliases / names.

type dT1 struct {
	ns string
	l  *[]string
}

func (d *dT1) Foo() string { *d.l = append(*d.l, d.ns+"/1/Foo"); return "x" }
func (d *dT1) Bar() string { *d.l = append(*d.l, d.ns+"/1/Bar"); return "x" }

type dT2 struct {
	ns string
	l  *[]string
}

func (d *dT2) Foo() string    { *d.l = append(*d.l, d.ns+"/2/Foo"); return "x" }
func (d *dT2) FooBar() string { *d.l = append(*d.l, d.ns+"/2/FooBar"); return "x" }

type dReg struct {
	NS   string `json:"ns"`
	Type int    `json:"type"`
}

type dCase struct {
	Fmt     int         `json:"fmt"`
	Regs    []dReg      `json:"regs"`
	Aliases [][2]string `json:"aliases"`
	Name    string      `json:"name"`
	Ran     string      `json:"ran"`  // "" or "<ns>/<type>/<Method>" of the registration that ran
	Code    int         `json:"code"` // 0 = result, else error code
	Oracle  string      `json:"oracle_fail,omitempty"`
}

func dispatchFamily(seed uint64, tier string, args []string) {
	nss := []string{"A", "B", ""}
	var regSeqs [][]dReg
	regSeqs = append(regSeqs, nil)
	var singles []dReg
	for _, ns := range nss {
		for t := 1; t <= 2; t++ {
			singles = append(singles, dReg{ns, t})
		}
	}
	for _, a := range singles {
		regSeqs = append(regSeqs, []dReg{a})
	}
	for _, a := range singles {
		for _, b := range singles {
			regSeqs = append(regSeqs, []dReg{a, b})
		}
	}
	for fi := 0; fi < 5; fi++ {
		f := formatterOf(fi)
		// candidate names: every formatted name of the universe under this formatter + a few others
		nameSet := map[string]bool{"Al": true, "Al2": true, "Foo": true, "A.Foo": true, "a.foo": true, "A.FOO": true, "A.": true, "": true, "B.foo": true, ".Foo": true}
		for _, ns := range nss {
			for _, m := range []string{"Foo", "Bar", "FooBar", "Baz"} {
				nameSet[f(ns, m)] = true
			}
		}
		var names []string
		for n := range nameSet {
			names = append(names, n)
		}
		sortStrings(names)
		aliasTables := [][][2]string{
			nil,
			{{"Al", f("A", "Foo")}, {"Al2", "Al"}}, // to existing (maybe), chain of length 2 (not followed)
			{{"Al", f("B", "Missing")}, {f("A", "Bar"), f("B", "Foo")}}, // to missing; shadowing a direct name
			{{f("A", "Baz"), f("A", "Foo")}, {f("", "Foo"), f("B", "FooBar")}},
		}
		for _, regs := range regSeqs {
			for _, als := range aliasTables {
				var log []string
				srv := jsonrpc.NewServer(jsonrpc.WithServerMethodNameFormatter(f))
				for _, rg := range regs {
					if rg.Type == 1 {
						srv.Register(rg.NS, &dT1{rg.NS, &log})
					} else {
						srv.Register(rg.NS, &dT2{rg.NS, &log})
					}
				}
				for _, a := range als {
					srv.AliasMethod(a[0], a[1])
				}
				for _, name := range names {
					log = nil
					nb, _ := json.Marshal(name)
					body := fmt.Sprintf(`{"jsonrpc":"2.0","id":1,"method":%s}`, nb)
					rec := httptest.NewRecorder()
					srv.ServeHTTP(rec, httptest.NewRequest("POST", "/", bytes.NewReader([]byte(body))))
					var resp struct {
						Result interface{} `json:"result"`
						Error  *struct {
							Code int `json:"code"`
						} `json:"error"`
					}
					c := dCase{Fmt: fi, Regs: regs, Aliases: als, Name: name}
					if c.Regs == nil {
						c.Regs = []dReg{}
					}
					if c.Aliases == nil {
						c.Aliases = [][2]string{}
					}
					if err := json.Unmarshal(rec.Body.Bytes(), &resp); err != nil {
						c.Oracle = "reply is not JSON: " + err.Error()
					}
					if resp.Error != nil {
						c.Code = resp.Error.Code
					}
					if len(log) == 1 {
						c.Ran = log[0]
					} else if len(log) > 1 {
						c.Oracle = fmt.Sprintf("%d handlers ran for one request", len(log))
					}
					if (c.Ran == "") == (c.Code == 0) && c.Oracle == "" {
						c.Oracle = "result without a handler run, or handler run answered with an error"
					}
					emit(c)
				}
			}
		}
	}
}

func sortStrings(s []string) {
	for i := 1; i < len(s); i++ {
		for j := i; j > 0 && s[j] < s[j-1]; j-- {
			s[j], s[j-1] = s[j-1], s[j]
		}
	}
}

func init() { families["dispatch"] = dispatchFamily }
