package main

import (
	"math"
	"math/rand"
	"time"

	"github.com/filecoin-project/go-jsonrpc"
)

// family "backoff" (C05): backoff.next through the verif-tagged shim, jitter in lock-step via rand.Seed.

type backoffCase struct {
	Min     int64  `json:"min"`
	Max     int64  `json:"max"`
	Attempt int    `json:"attempt"`
	JitNum  uint64 `json:"jit_num"` // jitter = JitNum / 2^53, exactly
	Got     int64  `json:"got"`
	Oracle  string `json:"oracle_fail,omitempty"`
}

func backoffFamily(seed uint64, tier string, args []string) {
	pairs := [][2]time.Duration{
		{100 * time.Millisecond, 5 * time.Second}, {100 * time.Millisecond, 10 * time.Minute}, {5 * time.Millisecond, 20 * time.Millisecond},
		{time.Nanosecond, time.Second}, {time.Second, time.Second}, {time.Millisecond, time.Duration(math.MaxInt64)}, {3 * time.Hour, 1000 * time.Hour},
	}
	step := 1
	hi := 300
	if tier == "thorough" {
		hi = 1200
	}
	s := int64(seed)
	for _, p := range pairs {
		for a := -2; a <= hi; a += step {
			s++
			rand.Seed(s)
			j := rand.Float64()
			rand.Seed(s)
			got := jsonrpc.VerifBackoffNext(p[0], p[1], a)
			c := backoffCase{Min: int64(p[0]), Max: int64(p[1]), Attempt: a, JitNum: uint64(j * (1 << 53)), Got: int64(got)}
			if got < p[0] || got > p[1] {
				c.Oracle = "backoff delay outside [min, max]: a non-positive or oversized delay makes the redial loop spin or stall"
			}
			emit(c)
		}
	}
}

func init() { families["backoff"] = backoffFamily }
