package main

import (
	"context"
	"fmt"
	"net/http/httptest"
	"strings"
	"sync"
	"time"

	"github.com/filecoin-project/go-jsonrpc"
)

// ---- reverse-call scenarios (C16)

type RevAPI struct {
	WhoAmI  func(ctx context.Context, token int) (int, error)
	Aliased func(ctx context.Context, token int) (int, error) `rpc_method:"R.AliasWho"`
	Tagged  func(ctx context.Context, token int) (int, error) `rpc_method:"R.WhoAmI"`
}

type revClientHandler struct {
	identity int
	tr       *tracer
	hold     func(token int) chan struct{}
}

func (r *revClientHandler) WhoAmI(ctx context.Context, token int) (int, error) {
	r.tr.ev("rev.start", token, r.identity)
	if ch := r.hold(token); ch != nil {
		select {
		case <-ch:
		case <-ctx.Done():
		}
	}
	return r.identity*100000 + token, nil
}

// Other is what every second client aliases R.AliasWho to: the alias tables of the clients of one process differ
func (r *revClientHandler) Other(ctx context.Context, token int) (int, error) {
	r.tr.ev("rev.start", token, r.identity)
	return r.identity*100000 + 50000 + token, nil
}

type revServerHandler struct {
	tr *tracer
}

// CallMe makes `mode` reverse calls back into whoever is calling: 0 = WhoAmI, 1 = through an alias registered on the
// client, 2 = through a field tagged with the client-side name; returns what the client answered
func (h *revServerHandler) CallMe(ctx context.Context, token int, mode int) (int, error) {
	h.tr.ev("h.start", token, "callme")
	rev, ok := jsonrpc.ExtractReverseClient[RevAPI](ctx)
	if !ok {
		h.tr.ev("h.end", token, false)
		return -1, nil
	}
	var v int
	var err error
	done := make(chan struct{})
	go func() {
		defer close(done)
		switch mode {
		case 1:
			v, err = rev.Aliased(ctx, token)
		case 2:
			v, err = rev.Tagged(ctx, token)
		default:
			v, err = rev.WhoAmI(ctx, token)
		}
	}()
	select {
	case <-done:
	case <-time.After(5 * time.Second):
		h.tr.ev("rev.blocked", token)
		return -3, nil
	}
	h.tr.evEnd(token, ctx)
	if err != nil {
		h.tr.ev("rev.error", token, err.Error())
		return -2, nil
	}
	return v, nil
}

// set around a scenReverse call: WithReverseClient is listed before the formatter option
var revOptionFirst bool

type revForward struct {
	CallMe func(ctx context.Context, token int, mode int) (int, error)
}

// n clients, each issuing `per` concurrent forward calls that call back; optionally client 0's link is cut while its
// reverse call is pending; fmtIdx selects the method-name formatter used on both sides
func scenReverse(n, per int, fmtIdx int, cut string, transport string, withOption bool) *connRun {
	tr := newTracer()
	tr.install()
	params := map[string]interface{}{"clients": n, "per": per, "fmt": fmtNames[fmtIdx], "cut": cut, "transport": transport, "server_option": withOption}
	f := formatterOf(fmtIdx)
	sopts := []jsonrpc.ServerOption{jsonrpc.WithServerMethodNameFormatter(f), jsonrpc.WithServerPingInterval(0)}
	if withOption && revOptionFirst {
		// server options in the other order: the reverse client must still use the formatter the server ends up with
		sopts = append([]jsonrpc.ServerOption{jsonrpc.WithReverseClient[RevAPI]("R")}, sopts...)
	} else if withOption {
		sopts = append(sopts, jsonrpc.WithReverseClient[RevAPI]("R"))
	}
	params["reverse_option_first"] = revOptionFirst
	srv := jsonrpc.NewServer(sopts...)
	srv.Register("S", &revServerHandler{tr: tr})
	ts := httptest.NewServer(srv)
	var mu sync.Mutex
	holds := map[int]chan struct{}{}
	holdOf := func(tok int) chan struct{} { mu.Lock(); defer mu.Unlock(); return holds[tok] }
	proxies := make([]*faultProxy, n)
	clients := make([]revForward, n)
	closers := make([]jsonrpc.ClientCloser, n)
	for i := 0; i < n; i++ {
		proxies[i] = newFaultProxy(strings.TrimPrefix(ts.URL, "http://"))
		addr := "ws://" + proxies[i].addr()
		if transport == "http" {
			addr = "http://" + proxies[i].addr()
		}
		// the alias is registered under the formatted name of the real method
		c, err := jsonrpc.NewMergeClient(context.Background(), addr, "S", []interface{}{&clients[i]}, nil,
			jsonrpc.WithMethodNameFormatter(f), jsonrpc.WithNoReconnect(), jsonrpc.WithPingInterval(0),
			jsonrpc.WithClientHandler("R", &revClientHandler{identity: i + 1, tr: tr, hold: holdOf}),
			jsonrpc.WithClientHandlerAlias("R.AliasWho", f("R", []string{"WhoAmI", "Other"}[i%2])))
		if err != nil {
			panic(err)
		}
		var once sync.Once
		closers[i] = func() { once.Do(c) }
	}
	run := &connRun{Scenario: "reverse", Params: params, AllDone: true, CloserOK: true}
	var g *gate
	if cut == "prewrite" {
		// hold the server's loop right after it registered the reverse request, before it writes it
		g = tr.gate("loop.register", func(conn string, args []interface{}) bool { return strings.HasPrefix(conn, "ws-server") })
	}
	var wg sync.WaitGroup
	tok := 0
	cutTok := 0
	for i := 0; i < n; i++ {
		for j := 0; j < per; j++ {
			tok++
			t := tok
			mode := (i + j) % 3
			if fmtIdx != 0 && mode == 2 {
				mode = 0 // the tag spells the default-formatted name: only meaningful with the default formatter
			}
			rec := &callRec{Token: t, Kind: fmt.Sprintf("callme/client%d/mode%d", i+1, mode), Outcome: "pending"}
			run.Calls = append(run.Calls, rec)
			if cut != "" && cut != "prewrite" && i == 0 && j == 0 {
				cutTok = t
				mu.Lock()
				holds[t] = make(chan struct{})
				mu.Unlock()
			}
			wg.Add(1)
			tr.ev("call.issue", t, rec.Kind)
			go func(i int, rec *callRec) {
				defer wg.Done()
				ctx, cancel := context.WithTimeout(context.Background(), 8*time.Second)
				defer cancel()
				v, err := clients[i].CallMe(ctx, rec.Token, mode)
				mu.Lock()
				rec.Returned = true
				rec.Returns++
				switch {
				case err != nil && strings.Contains(err.Error(), "websocket routine exiting"):
					rec.Outcome = "exiting"
				case err != nil && strings.Contains(err.Error(), "websocket connection closed"):
					rec.Outcome = "connerr"
				case err != nil:
					rec.Outcome = "other:" + err.Error()
				case v == -1:
					rec.Outcome = "no-reverse-client"
				case v == -2:
					rec.Outcome = "reverse-error"
				case v == -3:
					rec.Outcome = "reverse-blocked"
				case mode == 1 && i%2 == 1 && v == (i+1)*100000+50000+rec.Token:
					rec.Outcome = "ok" // this client aliases the name to its other method
				case v == (i+1)*100000+rec.Token && !(mode == 1 && i%2 == 1):
					rec.Outcome = "ok"
				default:
					rec.Outcome = fmt.Sprintf("foreign:%d", v)
				}
				mu.Unlock()
				tr.ev("call.return", rec.Token, rec.Outcome)
			}(i, rec)
		}
	}
	if cut == "prewrite" {
		if g.wait(3 * time.Second) {
			proxies[0].current().kill(faultRST)
			time.Sleep(30 * time.Millisecond)
		}
		g.release()
	} else if cut != "" {
		// wait until client 1's reverse handler is running (held), then cut its link
		deadline := time.Now().Add(3 * time.Second)
		for time.Now().Before(deadline) {
			seen := false
			for _, ev := range tr.snapshot() {
				if ev.Point == "rev.start" && fmt.Sprint(ev.Args[0]) == fmt.Sprint(cutTok) {
					seen = true
				}
			}
			if seen {
				break
			}
			time.Sleep(time.Millisecond)
		}
		switch cut {
		case "fin":
			proxies[0].current().kill(faultFIN)
		case "rst":
			proxies[0].current().kill(faultRST)
		case "close":
			closers[0]()
		}
		time.Sleep(20 * time.Millisecond)
		mu.Lock()
		if ch := holds[cutTok]; ch != nil {
			close(ch)
			delete(holds, cutTok)
		}
		mu.Unlock()
	}
	done := make(chan struct{})
	go func() { wg.Wait(); close(done) }()
	select {
	case <-done:
	case <-time.After(10 * time.Second):
		run.AllDone = false
	}
	// every server handler must finish too: a reverse call that neither returns nor fails keeps its handler blocked
	hdl := time.Now().Add(7 * time.Second)
	for time.Now().Before(hdl) {
		st, en := 0, 0
		for _, ev := range tr.snapshot() {
			switch ev.Point {
			case "h.start":
				st++
			case "h.end", "rev.blocked":
				en++
			}
		}
		if en >= st {
			break
		}
		time.Sleep(2 * time.Millisecond)
	}
	for _, c := range closers {
		cc := c
		go cc()
	}
	time.Sleep(20 * time.Millisecond)
	for _, p := range proxies {
		p.close()
	}
	ts.CloseClientConnections()
	go ts.Close()
	run.Events = tr.snapshot()
	for _, ev := range run.Events {
		if ev.Point == "rev.blocked" {
			run.Oracle = fmt.Sprintf("the reverse call made by the handler of call %v neither returned nor failed within 5s after its client's connection was lost", ev.Args[0])
		}
	}
	mu.Lock()
	for _, c := range run.Calls {
		if run.Oracle != "" {
			break
		}
		switch {
		case !c.Returned:
			run.Oracle = fmt.Sprintf("forward call %d never returned", c.Token)
		case strings.HasPrefix(c.Outcome, "foreign"):
			run.Oracle = fmt.Sprintf("call %d (%s): the reverse call was answered by another client, or by another method than this client's own alias table names (identity*100000 [+50000 for its other method] + token expected): %s", c.Token, c.Kind, c.Outcome)
		case c.Outcome == "reverse-blocked":
			run.Oracle = fmt.Sprintf("call %d: the reverse call blocked instead of returning an error after its client was gone", c.Token)
		case strings.HasPrefix(c.Outcome, "other:"):
			run.Oracle = fmt.Sprintf("call %d failed unexpectedly: %s", c.Token, c.Outcome)
		case transport == "ws" && withOption && c.Outcome == "no-reverse-client":
			run.Oracle = fmt.Sprintf("call %d: no reverse client in a websocket handler context although the server option is set", c.Token)
		case (transport != "ws" || !withOption) && c.Outcome != "no-reverse-client":
			run.Oracle = fmt.Sprintf("call %d: a reverse client was present (%s) over %s / option=%v", c.Token, c.Outcome, transport, withOption)
		case transport == "ws" && withOption && cut == "" && c.Outcome != "ok":
			run.Oracle = fmt.Sprintf("call %d (%s): reverse call failed on a healthy connection: %s", c.Token, c.Kind, c.Outcome)
		}
	}
	mu.Unlock()
	tr.uninstall()
	return run
}

func init() {
	connExtra = append(connExtra, func(which string, seed uint64, tier string) {
		if which == "all" || which == "reverse" {
			for _, n := range []int{1, 2, 4} {
				emit(scenReverse(n, 3, 0, "", "ws", true))
			}
			for fi := 1; fi < 5; fi++ {
				emit(scenReverse(2, 2, fi, "", "ws", true))
			}
			revOptionFirst = true
			for _, fi := range []int{0, 1, 3, 4} {
				emit(scenReverse(1, 2, fi, "", "ws", true))
			}
			revOptionFirst = false
			for _, cut := range []string{"fin", "rst", "close"} {
				emit(scenReverse(1, 2, 0, cut, "ws", true))
				emit(scenReverse(3, 2, 0, cut, "ws", true))
			}
			emit(scenReverse(1, 1, 0, "prewrite", "ws", true))
			emit(scenReverse(2, 2, 0, "prewrite", "ws", true))
			// many reverse requests handed to the connection while its loop is held, then the client goes away: each of
			// them is either taken (and failed with the rest) or its caller sees the loop end; none may be left behind
			emit(scenReverse(1, 24, 0, "prewrite", "ws", true))
			emit(scenReverse(1, 2, 0, "", "http", true))
			emit(scenReverse(1, 2, 0, "", "ws", false))
			if tier == "thorough" {
				for fi := 0; fi < 5; fi++ {
					emit(scenReverse(6, 5, fi, "", "ws", true))
					for _, cut := range []string{"fin", "rst", "close", "prewrite"} {
						emit(scenReverse(2+fi%3, 3, fi, cut, "ws", true))
					}
				}
				emit(scenReverse(2, 30, 0, "prewrite", "ws", true))
				emit(scenReverse(3, 3, 2, "", "http", true))
				emit(scenReverse(3, 3, 1, "", "ws", false))
			}
		}
	})
}
