package main

import (
	"context"
	"fmt"
	"reflect"
	"sync"
	"time"
)

// ---- stream scenarios (C07 C08)

type streamSpec struct {
	N        int    `json:"n"`
	Consumer string `json:"consumer"` // fast | slow | never | cancel@j (cancel the subscription after j values)
	CancelAt int    `json:"cancel_at"`
	Struct   bool   `json:"struct,omitempty"` // elements are structs with optional slice / map / pointer fields
	Any      bool   `json:"any,omitempty"`    // the channel's element type is interface{}; every third element is an untyped nil
}

type streamObs struct {
	Token  int    `json:"token"`
	N      int    `json:"n"`
	Got    []int  `json:"got"`
	Closed bool   `json:"closed"`
	SubErr string `json:"sub_err,omitempty"`
}

// set around a scenStream call: consumers of kind "never" stay away this much longer after everything else has finished
var neverExtraStall time.Duration

// cause: "normal" | "fin@j" | "rst@j" | "stop@j"  (the fault strikes once stream 0's consumer has j values)
func scenStream(specs []streamSpec, unary int, cause string, at int, subBuf int, reconnect bool) *connRun {
	e := newConnEnv(connOpts{noReconnect: !reconnect})
	e.subBuf = subBuf
	params := map[string]interface{}{"specs": specs, "unary": unary, "cause": cause, "at": at, "sub_buf": subBuf, "reconnect": reconnect}
	obs := make([]*streamObs, len(specs))
	var mu sync.Mutex
	var cwg sync.WaitGroup
	trigger := make(chan struct{})
	var trigOnce sync.Once
	neverRelease := make(chan struct{})
	cancels := make([]context.CancelFunc, len(specs))
	holdFirst := cause == "normal" && len(specs) >= 3 && specs[0].N <= 2
	// with holdFirst the younger producers pause half way until the forwarder has removed the oldest stream, so that
	// values and closes of the survivors are forwarded after the removal, whatever the scheduling
	phase2 := make(chan struct{})
	if holdFirst {
		first := int(e.nextTok) + 1
		halves := map[int]int{}
		for i, sp := range specs {
			halves[first+i] = sp.N / 2
		}
		e.prodGate = func(token, i int) {
			if token != first && halves[token] > 0 && i == halves[token] {
				select {
				case <-phase2:
				case <-time.After(3 * time.Second):
				}
			}
		}
	}
	for i, sp := range specs {
		e.nextTok++
		tok := int(e.nextTok)
		if i == 0 && holdFirst {
			e.hold(tok) // the oldest stream closes only once the younger ones are registered and flowing
		}
		o := &streamObs{Token: tok, N: sp.N, Got: []int{}}
		obs[i] = o
		ctx, cancel := context.WithCancel(context.Background())
		cancels[i] = cancel
		e.tr.ev("call.issue", tok, "sub")
		var ch <-chan int
		var err error
		if sp.Any {
			var chA <-chan interface{}
			chA, err = e.cl.SubAny(ctx, tok, sp.N)
			if err == nil {
				// adapter: the k-th element received must be the k-th element sent; anything else is passed on negated
				ci := make(chan int)
				ch = ci
				go func() {
					defer close(ci)
					k := 0
					for el := range chA {
						if reflect.DeepEqual(el, anyElem(tok, k)) {
							ci <- tok*1000 + k
						} else {
							ci <- -(tok*1000 + k) - 1
						}
						k++
					}
				}()
			}
		} else if sp.Struct {
			var chS <-chan cpElem
			chS, err = e.cl.SubS(ctx, tok, sp.N)
			if err == nil {
				// unbuffered adapter: same back-pressure; an element that is not what the handler sent is passed on negated
				ci := make(chan int)
				ch = ci
				go func() {
					defer close(ci)
					for el := range chS {
						if reflect.DeepEqual(el, mkElem(el.Seq)) {
							ci <- el.Seq
						} else {
							ci <- -el.Seq - 1
						}
					}
				}()
			}
		} else {
			ch, err = e.cl.Sub(ctx, tok, sp.N)
		}
		if err != nil {
			o.SubErr = err.Error()
			e.tr.ev("call.return", tok, "other:"+err.Error())
			continue
		}
		e.tr.ev("call.return", tok, "ok")
		cwg.Add(1)
		go func(i int, sp streamSpec, o *streamObs, ch <-chan int, cancel context.CancelFunc) {
			defer cwg.Done()
			if sp.Consumer == "never" {
				<-neverRelease
			}
			for v := range ch {
				if !sp.Any {
					e.tr.ev("cons.recv", o.Token, v)
				}
				mu.Lock()
				o.Got = append(o.Got, v)
				k := len(o.Got)
				mu.Unlock()
				if i == 0 && at > 0 && k == at {
					trigOnce.Do(func() { close(trigger) })
				}
				if sp.Consumer == "cancel" && k == sp.CancelAt {
					e.tr.ev("ctx.cancel", o.Token)
					cancel()
				}
				if sp.Consumer == "slow" {
					time.Sleep(300 * time.Microsecond)
				}
			}
			if !sp.Any {
				e.tr.ev("cons.closed", o.Token)
			}
			mu.Lock()
			o.Closed = true
			mu.Unlock()
		}(i, sp, o, ch, cancel)
	}
	for i := 0; i < unary; i++ {
		e.call("echo", context.Background())
	}
	if holdFirst {
		time.Sleep(3 * time.Millisecond)
		e.release(obs[0].Token)
		e.waitEv(2*time.Second, func(ev tev) bool { return ev.Point == "och.close" })
		close(phase2)
	}
	if cause != "normal" {
		select {
		case <-trigger:
		case <-time.After(2 * time.Second):
		}
		switch cause {
		case "fin":
			e.proxy.current().kill(faultFIN)
		case "rst":
			e.proxy.current().kill(faultRST)
		case "stop":
			e.tr.ev("stop.invoke")
			e.closer()
			e.tr.ev("stop.returned")
		}
	}
	// a subscriber that never reads while its handler sends far more than any internal buffer holds: once the handler has
	// sent everything, fresh ordinary calls are issued; they too must complete
	for i, sp := range specs {
		if sp.Consumer == "never" && sp.N >= 5000 && obs[i].SubErr == "" {
			tokS := fmt.Sprint(obs[i].Token)
			dl := time.Now().Add(5 * time.Second)
			for time.Now().Before(dl) {
				n := 0
				for _, ev := range e.tr.snapshot() {
					if ev.Point == "prod.send" && fmt.Sprint(ev.Args[0]) == tokS {
						n++
					}
				}
				if n >= sp.N-600 { // the rest may sit in socket buffers if the reader has stopped
					break
				}
				time.Sleep(5 * time.Millisecond)
			}
			time.Sleep(50 * time.Millisecond)
			e.call("echo", context.Background())
			e.call("echo", context.Background())
		}
	}
	// unary calls must complete although a consumer never reads
	e.waitCalls(3 * time.Second)
	unaryDone := true
	e.mu.Lock()
	for _, c := range e.calls {
		if !c.Returned {
			unaryDone = false
		}
	}
	e.mu.Unlock()
	// let the streams run to their end
	done := make(chan struct{})
	go func() {
		deadline := time.Now().Add(4 * time.Second)
		for time.Now().Before(deadline) {
			mu.Lock()
			all := true
			for i, o := range obs {
				if specs[i].Consumer != "never" && o.SubErr == "" && !o.Closed {
					all = false
				}
			}
			mu.Unlock()
			if all {
				break
			}
			time.Sleep(time.Millisecond)
		}
		close(done)
	}()
	<-done
	if cause == "normal" || reconnect {
		time.Sleep(5 * time.Millisecond)
	}
	if neverExtraStall > 0 {
		// the stalled consumers stay away for a long time after the server side has closed their streams
		time.Sleep(neverExtraStall)
		params["stalled_ms_after_close"] = neverExtraStall.Milliseconds()
	}
	close(neverRelease) // stalled consumers finally read: their channels must deliver what was buffered and then close
	cdone := make(chan struct{})
	go func() { cwg.Wait(); close(cdone) }()
	allClosed := true
	select {
	case <-cdone:
	case <-time.After(3 * time.Second):
		allClosed = false
		// cancel what is left so that finish() can proceed; the oracle reports the hang
	}
	r := e.finish("stream", params)
	for _, c := range cancels {
		c()
	}
	params["streams"] = obs
	if r.Oracle == "" {
		mu.Lock()
		r.Oracle = streamOracle(specs, obs, cause, unaryDone, allClosed)
		mu.Unlock()
	}
	return r
}

// the connection ends (client closed / link lost) at the very moment a stream value is inside the client's sink callback:
// the executor is held there by a gate, the cause strikes, the gate opens 30ms later. The value in delivery and the
// closing of the sink must not overlap (the process must survive), and the caller's channel must be closed.
func scenCloseDuringDelivery(cause string) *connRun {
	e := newConnEnv(connOpts{noReconnect: true})
	params := map[string]interface{}{"cause": cause, "instant": "value inside the sink callback"}
	e.nextTok++
	tok := int(e.nextTok)
	o := &streamObs{Token: tok, N: 5, Got: []int{}}
	g := e.tr.gate("sink.val", nil)
	e.tr.ev("call.issue", tok, "sub")
	ch, err := e.cl.Sub(context.Background(), tok, 5)
	var mu sync.Mutex
	done := make(chan struct{})
	if err != nil {
		o.SubErr = err.Error()
		e.tr.ev("call.return", tok, "other:"+err.Error())
		close(done)
	} else {
		e.tr.ev("call.return", tok, "ok")
		go func() {
			defer close(done)
			for v := range ch {
				e.tr.ev("cons.recv", tok, v)
				mu.Lock()
				o.Got = append(o.Got, v)
				mu.Unlock()
			}
			e.tr.ev("cons.closed", tok)
			mu.Lock()
			o.Closed = true
			mu.Unlock()
		}()
	}
	hit := g.wait(3 * time.Second)
	stopped := make(chan struct{})
	switch cause {
	case "stop":
		// the closer waits for the connection loop, which waits for the delivery in progress: it is invoked concurrently
		e.tr.ev("stop.invoke")
		go func() { e.closer(); e.tr.ev("stop.returned"); close(stopped) }()
	case "fin":
		e.proxy.current().kill(faultFIN)
		close(stopped)
	case "rst":
		e.proxy.current().kill(faultRST)
		close(stopped)
	}
	time.Sleep(30 * time.Millisecond)
	g.release()
	closerReturned := true
	select {
	case <-stopped:
	case <-time.After(3 * time.Second):
		closerReturned = false
	}
	closed := true
	select {
	case <-done:
	case <-time.After(3 * time.Second):
		closed = false
	}
	r := e.finish("term", params)
	mu.Lock()
	params["streams"] = []*streamObs{o}
	if r.Oracle == "" {
		switch {
		case !hit:
			r.Oracle = ""
		case !closerReturned:
			r.Oracle = "the client's closer did not return within 3s of the delivery in progress having completed"
		case !closed:
			r.Oracle = fmt.Sprintf("the channel of stream %d was never closed (cause %s while a value was being delivered)", tok, cause)
		default:
			for j, v := range o.Got {
				if v != tok*1000+j {
					r.Oracle = fmt.Sprintf("stream %d: element %d is %d, the handler sent %d", tok, j, v, tok*1000+j)
				}
			}
		}
	}
	mu.Unlock()
	return r
}

func streamOracle(specs []streamSpec, obs []*streamObs, cause string, unaryDone, allClosed bool) string {
	if !unaryDone {
		return "unary calls did not complete while a subscriber was not reading"
	}
	for i, o := range obs {
		if o.SubErr != "" {
			continue
		}
		for j, v := range o.Got {
			if v < 0 {
				return fmt.Sprintf("stream %d: element %d arrived with a content other than what the handler sent at that position (an element lost, or fields of other elements merged in)", o.Token, j)
			}
			if v != o.Token*1000+j {
				return fmt.Sprintf("stream %d: element %d is %d, the handler sent %d (foreign, reordered or duplicated value)", o.Token, j, v, o.Token*1000+j)
			}
		}
		if len(o.Got) > o.N {
			return fmt.Sprintf("stream %d delivered %d values, the handler sent only %d", o.Token, len(o.Got), o.N)
		}
		if !o.Closed {
			return fmt.Sprintf("the channel of stream %d was never closed (cause %s)", o.Token, cause)
		}
		if cause == "normal" && specs[i].Consumer != "cancel" && len(o.Got) != o.N {
			return fmt.Sprintf("stream %d closed after %d of %d values although nothing went wrong (lost values)", o.Token, len(o.Got), o.N)
		}
	}
	if !allClosed {
		return "a consumer goroutine is still blocked on a channel that was never closed"
	}
	return ""
}

func init() {
	connExtra = append(connExtra, func(which string, seed uint64, tier string) {
		r := newRng(seed + 77)
		if which == "all" || which == "stream" {
			lens := []int{0, 1, 2, 31, 32, 33, 100}
			// single streams of every length, both producer buffer sizes
			for i, n := range lens {
				emit(scenStream([]streamSpec{{N: n, Consumer: "fast"}}, 1, "normal", 0, []int{0, 8}[i%2], false))
			}
			// concurrent streams, one consumer stalled, unary calls interleaved
			emit(scenStream([]streamSpec{{N: 40, Consumer: "fast"}, {N: 70, Consumer: "never"}, {N: 33, Consumer: "slow"}}, 3, "normal", 0, 0, false))
			emit(scenStream([]streamSpec{{N: 5, Consumer: "fast"}, {N: 5, Consumer: "fast"}, {N: 5, Consumer: "fast"}, {N: 5, Consumer: "fast"}}, 2, "normal", 0, 4, false))
			// oldest of three closes first while the others go on (forwarder swap-remove)
			emit(scenStream([]streamSpec{{N: 1, Consumer: "fast"}, {N: 30, Consumer: "slow"}, {N: 30, Consumer: "slow"}}, 0, "normal", 0, 0, false))
			emit(scenStream([]streamSpec{{N: 2, Consumer: "fast"}, {N: 40, Consumer: "fast"}, {N: 40, Consumer: "slow"}, {N: 40, Consumer: "fast"}}, 1, "normal", 0, 2, false))
			emit(scenStream([]streamSpec{{N: 0, Consumer: "fast"}, {N: 25, Consumer: "slow"}, {N: 25, Consumer: "never"}}, 0, "normal", 0, 0, false))
			emit(scenStream([]streamSpec{{N: 20, Consumer: "slow"}, {N: 1, Consumer: "fast"}, {N: 25, Consumer: "slow"}, {N: 2, Consumer: "fast"}}, 1, "normal", 0, 0, false))
			// a subscriber that never reads while its handler sends far more than any internal buffer holds: ordinary calls
			// and other subscriptions on the connection must not be held up
			emit(scenStream([]streamSpec{{N: 12000, Consumer: "never"}, {N: 6, Consumer: "fast"}}, 2, "normal", 0, 0, false))
			// a subscriber that comes back to its channel long after the handler has sent everything and closed: what was
			// buffered for it must still be there, whole and in order
			neverExtraStall = 5600 * time.Millisecond
			emit(scenStream([]streamSpec{{N: 45, Consumer: "never"}, {N: 5, Consumer: "fast"}}, 1, "normal", 0, 0, false))
			neverExtraStall = 0
			// channels whose element type is an interface: untyped nil elements travel as null and arrive as nil
			emit(scenStream([]streamSpec{{N: 10, Consumer: "fast", Any: true}}, 0, "normal", 0, 0, false))
			emit(scenStream([]streamSpec{{N: 31, Consumer: "slow", Any: true}, {N: 12, Consumer: "fast"}}, 1, "normal", 0, 4, false))
			// non-scalar elements (optional slice / map / pointer fields that differ from one element to the next)
			emit(scenStream([]streamSpec{{N: 12, Consumer: "fast", Struct: true}}, 0, "normal", 0, 0, false))
			emit(scenStream([]streamSpec{{N: 30, Consumer: "slow", Struct: true}, {N: 30, Consumer: "fast"}, {N: 9, Consumer: "fast", Struct: true}}, 1, "normal", 0, 4, false))
			k := 6
			if tier == "thorough" {
				k = 80
			}
			for i := 0; i < k; i++ {
				n := 1 + r.intn(4)
				var sp []streamSpec
				for j := 0; j < n; j++ {
					sp = append(sp, streamSpec{N: lens[r.intn(len(lens))], Consumer: []string{"fast", "slow", "fast", "never"}[r.intn(4)]})
				}
				emit(scenStream(sp, r.intn(3), "normal", 0, r.intn(3)*4, false))
			}
		}
		if which == "close" || which == "all" || which == "term" {
			for _, cause := range []string{"stop", "fin", "rst"} {
				if which == "close" && cause == "rst" {
					continue
				}
				emit(scenCloseDuringDelivery(cause))
			}
		}
		if which == "close" {
			// closing the client while streamed values are still buffered for a slow consumer: every channel obtained
			// from the client must still deliver what it holds and then be closed (C18)
			emit(scenStream([]streamSpec{{N: 40, Consumer: "slow"}, {N: 40, Consumer: "fast"}}, 1, "stop", 2, 0, false))
			emit(scenStream([]streamSpec{{N: 60, Consumer: "never"}, {N: 20, Consumer: "slow", Struct: true}}, 0, "stop", 1, 4, false))
			emit(scenStream([]streamSpec{{N: 25, Consumer: "slow"}}, 0, "stop", 20, 0, true))
		}
		if which == "all" || which == "term" {
			for _, cause := range []string{"fin", "rst", "stop"} {
				for _, at := range []int{1, 3, 20} {
					emit(scenStream([]streamSpec{{N: 60, Consumer: "slow"}, {N: 60, Consumer: "fast"}}, 1, cause, at, 0, false))
				}
			}
			// connection lost just before a reconnect
			emit(scenStream([]streamSpec{{N: 60, Consumer: "slow"}, {N: 10, Consumer: "fast"}}, 1, "fin", 5, 0, true))
			emit(scenStream([]streamSpec{{N: 60, Consumer: "slow"}}, 0, "rst", 2, 4, true))
			// the caller cancels the subscription: before any value, between values, with values still buffered
			for _, j := range []int{1, 2, 10, 35} {
				emit(scenStream([]streamSpec{{N: 50, Consumer: "cancel", CancelAt: j}, {N: 50, Consumer: "fast"}}, 1, "normal", 0, 0, false))
			}
			// cancel racing connection loss
			emit(scenStream([]streamSpec{{N: 60, Consumer: "cancel", CancelAt: 5}, {N: 60, Consumer: "slow"}}, 0, "fin", 5, 0, false))
			emit(scenStream([]streamSpec{{N: 60, Consumer: "cancel", CancelAt: 3}}, 0, "stop", 3, 0, false))
		}
	})
}
