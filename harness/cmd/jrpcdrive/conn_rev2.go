package main

import (
	"context"
	"fmt"
	"net"
	"net/http/httptest"
	"strings"
	"sync"
	"time"

	"github.com/filecoin-project/go-jsonrpc"
)

// ---- two more reverse-call scenarios
//
// rev-shutdown (C15): n handlers of one connection are each waiting for the answer to a reverse call made with their own
// context when the server shuts the connection down (its base context is cancelled): every handler is released and the
// server retains no goroutine for the connection.
//
// rev-notify (C16): the forward call is a notification; its handler calls back into the client. The reverse call is answered
// like any other (the handler of a notification is not special).

type rev2Server struct {
	tr *tracer
}

func (h *rev2Server) CallMe(ctx context.Context, token int) (int, error) {
	h.tr.ev("h.start", token, "callme")
	rev, ok := jsonrpc.ExtractReverseClient[RevAPI](ctx)
	if !ok {
		h.tr.ev("h.end", token, false)
		return -1, nil
	}
	v, err := rev.WhoAmI(ctx, token)
	h.tr.ev("h.revdone", token, v, err == nil)
	h.tr.evEnd(token, ctx)
	return v, nil
}

// NotifyMe is called as a notification
func (h *rev2Server) NotifyMe(ctx context.Context, token int) {
	h.tr.ev("h.start", token, "notifyme")
	rev, ok := jsonrpc.ExtractReverseClient[RevAPI](ctx)
	if !ok {
		h.tr.ev("h.revdone", token, -1, false)
		return
	}
	c2, cancel := context.WithTimeout(ctx, 4*time.Second)
	defer cancel()
	v, err := rev.WhoAmI(c2, token)
	h.tr.ev("h.revdone", token, v, err == nil)
}

type rev2Client struct {
	CallMe   func(ctx context.Context, token int) (int, error)
	NotifyMe func(ctx context.Context, token int) error `notify:"true"`
}

func scenRev2(kind string, n int) *connRun {
	tr := newTracer()
	tr.install()
	params := map[string]interface{}{"kind": kind, "handlers": n}
	srv := jsonrpc.NewServer(jsonrpc.WithServerPingInterval(0), jsonrpc.WithReverseClient[RevAPI]("R"))
	srv.Register("S", &rev2Server{tr: tr})
	baseCtx, srvCancel := context.WithCancel(context.Background())
	ts := httptest.NewUnstartedServer(srv)
	ts.Config.BaseContext = func(net.Listener) context.Context { return baseCtx }
	ts.Start()
	var mu sync.Mutex
	holds := map[int]chan struct{}{}
	holdOf := func(tok int) chan struct{} { mu.Lock(); defer mu.Unlock(); return holds[tok] }
	var cl rev2Client
	closer, err := jsonrpc.NewMergeClient(context.Background(), "ws"+strings.TrimPrefix(ts.URL, "http"), "S", []interface{}{&cl}, nil,
		jsonrpc.WithNoReconnect(), jsonrpc.WithPingInterval(0), jsonrpc.WithClientHandler("R", &revClientHandler{identity: 1, tr: tr, hold: holdOf}))
	if err != nil {
		panic(err)
	}
	run := &connRun{Scenario: "reverse", Params: params, AllDone: true, CloserOK: true}
	count := func(point string) int {
		k := 0
		for _, ev := range tr.snapshot() {
			if ev.Point == point {
				k++
			}
		}
		return k
	}
	waitCount := func(point string, want int, d time.Duration) bool {
		dl := time.Now().Add(d)
		for time.Now().Before(dl) {
			if count(point) >= want {
				return true
			}
			time.Sleep(2 * time.Millisecond)
		}
		return false
	}
	switch kind {
	case "rev-shutdown":
		for t := 1; t <= n; t++ {
			mu.Lock()
			holds[t] = make(chan struct{}) // the client's reverse handler stays in its hands
			mu.Unlock()
			go func(t int) { _, _ = cl.CallMe(context.Background(), t) }(t)
		}
		started := waitCount("rev.start", n, 3*time.Second)
		before := labelledGoroutines("wsserver")
		tr.ev("srv.cancel")
		srvCancel()
		tr.ev("srv.cancelled")
		released := waitCount("h.revdone", n, 4*time.Second)
		leaked := -1
		for i := 0; i < 300; i++ {
			leaked = labelledGoroutines("wsserver")
			if leaked == 0 {
				break
			}
			time.Sleep(5 * time.Millisecond)
		}
		params["reverse_handlers_running"], params["goroutines_before"], params["goroutines_after"] = count("rev.start"), before, leaked
		switch {
		case !started:
			run.Oracle = fmt.Sprintf("only %d of %d reverse calls reached the client", count("rev.start"), n)
		case !released:
			run.Oracle = fmt.Sprintf("the server shut the connection down while %d handlers were waiting for their reverse calls: only %d were released within 4s", n, count("h.revdone"))
		case leaked > 0:
			run.Oracle = fmt.Sprintf("%d library goroutine(s) labelled for the connection the server shut down are still alive 1.5s later: %s", leaked, labelledDump("wsserver"))
		}
		mu.Lock()
		for _, ch := range holds {
			close(ch)
		}
		holds = map[int]chan struct{}{}
		mu.Unlock()
	case "rev-notify":
		for t := 1; t <= n; t++ {
			if err := cl.NotifyMe(context.Background(), t); err != nil {
				run.Oracle = "sending the notification failed: " + err.Error()
			}
		}
		if run.Oracle == "" && !waitCount("h.revdone", n, 5*time.Second) {
			run.Oracle = fmt.Sprintf("a reverse call made from the handler of a notification did not return: %d of %d done after 5s", count("h.revdone"), n)
		}
		for _, ev := range tr.snapshot() {
			if ev.Point == "h.revdone" && run.Oracle == "" {
				tok := ev.Args[0].(int)
				if fmt.Sprint(ev.Args[1]) != fmt.Sprint(100000+tok) || ev.Args[2] != true {
					run.Oracle = fmt.Sprintf("the reverse call made from the handler of notification %d was answered %v (ok=%v), expected %d", tok, ev.Args[1], ev.Args[2], 100000+tok)
				}
			}
		}
		// an ordinary call still works on the connection
		if run.Oracle == "" {
			ctx, cancel := context.WithTimeout(context.Background(), 3*time.Second)
			v, err := cl.CallMe(ctx, 77)
			cancel()
			if err != nil || v != 100077 {
				run.Oracle = fmt.Sprintf("after reverse calls from notification handlers an ordinary call on the connection returned %d, %v", v, err)
			}
		}
	}
	done := make(chan struct{})
	go func() { closer(); close(done) }()
	select {
	case <-done:
	case <-time.After(3 * time.Second):
		run.CloserOK = false
	}
	srvCancel()
	ts.CloseClientConnections()
	go ts.Close()
	run.Events = tr.snapshot()
	tr.uninstall()
	return run
}

func init() {
	connExtra = append(connExtra, func(which string, seed uint64, tier string) {
		if which == "all" || which == "reverse" {
			emit(scenRev2("rev-notify", 3))
		}
		if which == "all" || which == "reverse" || which == "connend" {
			emit(scenRev2("rev-shutdown", 6))
			emit(scenRev2("rev-shutdown", 1))
		}
	})
}
