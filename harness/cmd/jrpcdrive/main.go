// jrpcdrive: correspondence harness. One sub-command per scenario family; each
// runs the real implementation (module replaced by /repo, built with -tags verif)
// and prints one JSON object per case on stdout (JSONL).
package main

import (
	"encoding/json"
	"fmt"
	"os"
	"reflect"
	"strconv"
	"sync"
)

var outMu sync.Mutex
var outEnc = json.NewEncoder(os.Stdout)

// failed records so far; a run whose direct oracle has already failed maxOracleFails times stops (the verdict is
// settled, and scenarios against a broken tree tend to run into their time limits one after the other)
var oracleFails int

const maxOracleFails = 6

func emit(v interface{}) {
	outMu.Lock()
	defer outMu.Unlock()
	if err := outEnc.Encode(v); err != nil {
		fmt.Fprintln(os.Stderr, "emit:", err)
		os.Exit(3)
	}
	rv := reflect.ValueOf(v)
	for rv.Kind() == reflect.Ptr && !rv.IsNil() {
		rv = rv.Elem()
	}
	if rv.Kind() == reflect.Struct {
		if f := rv.FieldByName("Oracle"); f.IsValid() && f.Kind() == reflect.String && f.String() != "" {
			oracleFails++
			if oracleFails >= maxOracleFails && os.Getenv("VERIF_NO_EARLY_STOP") == "" {
				fmt.Fprintln(os.Stderr, "stopping early: the direct oracle failed", oracleFails, "times")
				os.Exit(0)
			}
		}
	}
}

type familyFn func(seed uint64, tier string, args []string)

var families = map[string]familyFn{}

func main() {
	if len(os.Args) < 2 {
		fmt.Fprintln(os.Stderr, "usage: jrpcdrive <family> [args]")
		os.Exit(2)
	}
	seed := uint64(1)
	if s := os.Getenv("VERIF_SEED"); s != "" {
		if v, err := strconv.ParseUint(s, 10, 64); err == nil {
			seed = v
		}
	}
	tier := os.Getenv("VERIF_TIER")
	if tier == "" {
		tier = "quick"
	}
	f, ok := families[os.Args[1]]
	if !ok {
		fmt.Fprintln(os.Stderr, "unknown family", os.Args[1])
		os.Exit(2)
	}
	f(seed, tier, os.Args[2:])
}
