package main

import (
	"bytes"
	"context"
	"fmt"
	"io"
	"net"
	"net/http"
	"net/http/httptest"
	"strings"
	"sync"
	"time"

	"github.com/filecoin-project/go-jsonrpc"
)

// ---- scenarios (requester side: C02 C03 C04 C05 C18)

// perm: n concurrent held calls released in a given order
func scenPerm(order []int, kinds []string, yieldSeed uint64) *connRun {
	e := newConnEnv(connOpts{})
	if yieldSeed != 0 {
		r := newRng(yieldSeed)
		var mu = make(chan struct{}, 1)
		mu <- struct{}{}
		e.tr.yield = func(point string) time.Duration {
			switch point {
			case "loop.register", "loop.sent", "resp.lookup", "resp.deliver", "send.req", "call.recv":
				<-mu
				d := time.Duration(r.intn(300)) * time.Microsecond
				mu <- struct{}{}
				return d
			}
			return 0
		}
	}
	n := len(order)
	toks := make([]int, n)
	for i := 0; i < n; i++ {
		e.hold(i + 1)
	}
	for i := 0; i < n; i++ {
		toks[i] = e.call(kinds[i%len(kinds)], context.Background())
	}
	for _, t := range toks {
		e.waitEv(3*time.Second, evIs("h.start", t))
	}
	for _, i := range order {
		e.release(toks[i])
		if yieldSeed == 0 {
			e.waitEv(2*time.Second, func(ev tev) bool { return ev.Point == "call.return" && fmt.Sprint(ev.Args[0]) == fmt.Sprint(toks[i]) })
		}
	}
	e.waitCalls(5 * time.Second)
	return e.finish("perm", map[string]interface{}{"order": order, "kinds": kinds, "yield": yieldSeed})
}

// many: n callers at once on one client, every handler waits until all n are running (so the server holds all n
// requests before it answers any), then they are released newest first
func scenMany(n int) *connRun {
	e := newConnEnv(connOpts{})
	toks := make([]int, n)
	for i := 0; i < n; i++ {
		e.hold(i + 1)
	}
	kinds := []string{"echo", "fail", "retry"}
	for i := 0; i < n; i++ {
		toks[i] = e.call(kinds[i%3], context.Background())
	}
	deadline := time.Now().Add(5 * time.Second)
	started := 0
	for time.Now().Before(deadline) {
		started = countPoint(e, "h.start")
		if started >= n {
			break
		}
		time.Sleep(5 * time.Millisecond)
	}
	for i := n - 1; i >= 0; i-- {
		e.release(toks[i])
	}
	all := e.waitCalls(5 * time.Second)
	r := e.finish("perm", map[string]interface{}{"many": n, "handlers_running_before_any_release": started})
	if r.Oracle == "" && (started < n || !all) {
		r.Oracle = fmt.Sprintf("%d calls were issued concurrently on one client; only %d of their handlers were running 5s later and waiting for the rest (all returned before the close: %v)", n, started, all)
	}
	return r
}

// fault: one call in flight (A, held), a fault of a given kind at a given position, a call B inside the
// reconnect window (held there by a gate on the redial), then recovery and a probe call C.
// pos: "idle" (frame boundary), "mid-resp" (inside a large response frame, server->client),
// "mid-req" (inside a large request frame, client->server), "resp-head" (inside the frame header of a response)
func scenFault(kind faultKind, pos string, windowKind string, aKind string, heal bool, errorsOn bool) *connRun {
	e := newConnEnv(connOpts{errors: errorsOn})
	params := map[string]interface{}{"fault": kind.String(), "pos": pos, "window_call": windowKind, "a_kind": aKind, "heals": heal, "errors": errorsOn}
	// warm-up call
	w := e.call("echo", context.Background())
	e.waitEv(2*time.Second, func(ev tev) bool { return ev.Point == "call.return" && fmt.Sprint(ev.Args[0]) == fmt.Sprint(w) })
	pc := e.proxy.current()
	// hold the client in the reconnect window
	g := e.tr.gate("redial.attempt", nil)
	if !heal {
		e.proxy.setRefuse(true)
	}
	var a int
	switch pos {
	case "idle":
		e.hold(2)
		a = e.call(aKind, context.Background())
		e.waitEv(2*time.Second, evIs("h.start", a))
		pc.kill(kind)
	case "mid-resp", "resp-head":
		off := int64(1500)
		if pos == "resp-head" {
			off = 2
		}
		pc.arm(1, off, kind)
		a = e.call("big", context.Background(), 70000)
	case "mid-req":
		pc.arm(2, 1500, kind)
		// a large request: the token rides in a big params array is not possible with int params; use Big's size as the
		// payload carrier is on the response side only, so send many queued echo calls instead (their frames straddle the cut)
		a = e.call(aKind, context.Background())
		for i := 0; i < 40; i++ {
			e.call("echo", context.Background())
		}
	}
	if kind == faultStall {
		// nothing notices a blackhole without keepalive; the harness ends the stall by killing the link after a while
		time.Sleep(30 * time.Millisecond)
		pc.kill(faultFIN)
	}
	inWindow := g.wait(3 * time.Second)
	params["window_reached"] = inWindow
	b := 0
	if inWindow && windowKind != "" {
		b = e.call(windowKind, context.Background())
		// let it be taken (or fail fast) while still in the window
		e.waitEv(300*time.Millisecond, func(ev tev) bool {
			return (ev.Point == "loop.failfast" || ev.Point == "loop.sent" || ev.Point == "call.return") && b != 0
		})
		time.Sleep(2 * time.Millisecond)
	}
	g.release()
	e.releaseAllHolds()
	if heal {
		e.waitEv(3*time.Second, evIs("redial.swap", nil))
		c := e.call("echo", context.Background())
		e.waitEv(3*time.Second, func(ev tev) bool { return ev.Point == "call.return" && fmt.Sprint(ev.Args[0]) == fmt.Sprint(c) })
		params["probe"] = c
	} else {
		time.Sleep(40 * time.Millisecond)
	}
	_ = a
	all := e.waitCalls(3 * time.Second)
	var blocked []int
	if !all {
		e.mu.Lock()
		for t, c := range e.calls {
			if !c.Returned {
				blocked = append(blocked, t)
			}
		}
		e.mu.Unlock()
	}
	r := e.finish("fault", params)
	if r.Oracle == "" && heal && len(blocked) > 0 {
		// the link healed and a later call round-tripped, yet these calls were still waiting 3s later: only the closer
		// released them
		r.Oracle = fmt.Sprintf("call(s) %v were still blocked 3s after the link had healed and a later call had round-tripped on the same client (window call: %d)", blocked, b)
	}
	return r
}

// close: a mixed workload; the closer fires at the k-th occurrence of hook point p
func scenClose(point string, k int) *connRun {
	e := newConnEnv(connOpts{})
	cnt := 0
	g := e.tr.gate(point, func(conn string, args []interface{}) bool { cnt++; return cnt == k })
	e.hold(1)
	e.call("echo", context.Background())
	e.call("echo", context.Background())
	e.call("big", context.Background(), 40000)
	e.call("note", context.Background())
	e.call("retry", context.Background())
	hit := g.wait(500 * time.Millisecond)
	closed := make(chan struct{})
	e.tr.ev("stop.invoke")
	go func() { e.closer(); e.tr.ev("stop.returned"); close(closed) }()
	time.Sleep(time.Millisecond)
	g.release()
	e.releaseAllHolds()
	select {
	case <-closed:
	case <-time.After(3 * time.Second):
	}
	late := e.call("echo", context.Background())
	e.waitEv(2*time.Second, func(ev tev) bool { return ev.Point == "call.return" && fmt.Sprint(ev.Args[0]) == fmt.Sprint(late) })
	e.waitCalls(3 * time.Second)
	return e.finish("close", map[string]interface{}{"point": point, "k": k, "gate_hit": hit, "late": late})
}

// close-redial: the link is lost, the server stays unreachable, the closer fires while the redial goroutine sleeps
// in its backoff; afterwards nothing may dial any more.
func scenCloseRedial(kind faultKind, afterAttempts int, delay time.Duration) *connRun {
	e := newConnEnv(connOpts{backoffMin: 120 * time.Millisecond, backoffMax: 150 * time.Millisecond})
	w := e.call("echo", context.Background())
	e.waitEv(2*time.Second, func(ev tev) bool { return ev.Point == "call.return" && fmt.Sprint(ev.Args[0]) == fmt.Sprint(w) })
	e.proxy.setRefuse(true)
	e.proxy.current().kill(kind)
	n := 0
	e.waitEv(3*time.Second, func(ev tev) bool {
		if ev.Point == "redial.attempt" && len(ev.Args) > 0 && fmt.Sprint(ev.Args[0]) == fmt.Sprint(afterAttempts) {
			n++
		}
		return n > 0
	})
	time.Sleep(delay)
	e.tr.ev("stop.invoke")
	e.closer()
	e.tr.ev("stop.returned")
	acc := e.proxy.acceptCount()
	e.proxy.setRefuse(false) // the server is reachable again: a stray dial would even succeed
	time.Sleep(400 * time.Millisecond)
	late := e.call("echo", context.Background())
	e.waitEv(2*time.Second, func(ev tev) bool { return ev.Point == "call.return" && fmt.Sprint(ev.Args[0]) == fmt.Sprint(late) })
	r := e.finish("close-redial", map[string]interface{}{"fault": kind.String(), "after_attempts": afterAttempts, "delay_ms": delay.Milliseconds(),
		"accepts_at_close": acc})
	if r.Oracle == "" && r.Accepts > acc {
		r.Oracle = fmt.Sprintf("the client dialed %d time(s) after its closer had returned", r.Accepts-acc)
	}
	return r
}

// stale-delete: the executor is held between looking a response up and delivering it (as a descheduled
// goroutine would be) while the link drops; the retry-tagged call gets the connection error, waits its
// backoff, re-registers the same id on the new connection; then the executor resumes.
func scenStaleDelete(holdFor time.Duration) *connRun {
	e := newConnEnv(connOpts{})
	w := e.call("echo", context.Background())
	e.waitEv(2*time.Second, func(ev tev) bool { return ev.Point == "call.return" && fmt.Sprint(ev.Args[0]) == fmt.Sprint(w) })
	g := e.tr.gate("resp.deliver", nil)
	e.hold(2)
	a := e.call("retry", context.Background())
	e.waitEv(2*time.Second, evIs("h.start", a))
	pc := e.proxy.current()
	e.release(a) // first execution answers; the executor looks the response up and is held before delivering
	hit := g.wait(2 * time.Second)
	pc.kill(faultFIN)
	// the call gets the connection error, sleeps its retry backoff (100-200ms), re-registers, is executed again (held)
	e.hold(a)
	e.waitEv(3*time.Second, func(ev tev) bool { return ev.Point == "loop.sent" && ev.Seq > 0 && countPoint(e, "loop.register") >= 3 })
	time.Sleep(holdFor)
	g.release() // the executor resumes: delivers the stale response and deletes the in-flight entry
	time.Sleep(20 * time.Millisecond)
	e.release(a)
	ok := e.waitEv(2*time.Second, func(ev tev) bool { return ev.Point == "call.return" && fmt.Sprint(ev.Args[0]) == fmt.Sprint(a) })
	probe := e.call("echo", context.Background())
	e.waitEv(2*time.Second, func(ev tev) bool { return ev.Point == "call.return" && fmt.Sprint(ev.Args[0]) == fmt.Sprint(probe) })
	r := e.finish("stale-delete", map[string]interface{}{"gate_hit": hit, "returned_before_close": ok, "heals": true, "probe": probe})
	if r.Oracle == "" && !ok {
		r.Oracle = fmt.Sprintf("retry-tagged call %d did not return although the link was healthy again (a later call round-tripped); it only returned when the client was closed", a)
	}
	return r
}

func countPoint(e *connEnv, p string) int {
	n := 0
	for _, ev := range e.tr.snapshot() {
		if ev.Point == p {
			n++
		}
	}
	return n
}

// httpfault (C04 over HTTP): after a successful call (so the keep-alive connection is reused) the server executes
// the next request and then closes the connection before writing any response byte. The handler must not run twice.
func scenHTTPFault(mode string) *connRun {
	tr := newTracer()
	tr.install()
	var mu sync.Mutex
	execs := map[int]int{}
	h := &httpCountHandler{count: func(tok int) { mu.Lock(); execs[tok]++; mu.Unlock(); tr.ev("h.start", tok, "http") }}
	rpc := jsonrpc.NewServer()
	rpc.Register("C", h)
	faultTok := -1
	ts := httptest.NewServer(http.HandlerFunc(func(w http.ResponseWriter, r *http.Request) {
		body, _ := io.ReadAll(r.Body)
		mu.Lock()
		ft := faultTok
		mu.Unlock()
		if ft >= 0 && bytes.Contains(body, []byte(fmt.Sprintf("[%d]", ft))) {
			rec := httptest.NewRecorder()
			rpc.ServeHTTP(rec, httptest.NewRequest("POST", "/", bytes.NewReader(body))) // the handler runs
			if hj, ok := w.(http.Hijacker); ok {
				c, _, _ := hj.Hijack()
				if mode == "rst" {
					if tc, ok := c.(*net.TCPConn); ok {
						tc.SetLinger(0)
					}
				}
				c.Close() // ... and the connection dies before the first response byte
			}
			return
		}
		rpc.ServeHTTP(w, httptest.NewRequest("POST", "/", bytes.NewReader(body)).WithContext(r.Context()))
	}))
	var cl struct {
		Echo func(ctx context.Context, token int) (int, error)
		Note func(token int) error `notify:"true"`
	}
	closer, err := jsonrpc.NewMergeClient(context.Background(), ts.URL, "C", []interface{}{&cl}, nil)
	if err != nil {
		panic(err)
	}
	run := &connRun{Scenario: "httpfault", Params: map[string]interface{}{"mode": mode}, AllDone: true, CloserOK: true}
	do := func(tok int, kind string) {
		tr.ev("call.issue", tok, kind)
		var v int
		var err error
		if kind == "note" {
			err = cl.Note(tok)
			v = tok
		} else {
			v, err = cl.Echo(context.Background(), tok)
		}
		out := "ok"
		if err != nil {
			out = "transport-error"
		} else if v != tok {
			out = fmt.Sprintf("foreign:%d", v)
		}
		tr.ev("call.return", tok, out)
		run.Calls = append(run.Calls, &callRec{Token: tok, Kind: kind, Returned: true, Returns: 1, Outcome: out})
	}
	do(1, "echo") // warms the keep-alive connection
	mu.Lock()
	faultTok = 2
	mu.Unlock()
	do(2, "echo")
	mu.Lock()
	faultTok = -1
	mu.Unlock()
	do(3, "echo")
	do(4, "note")
	closer()
	ts.Close()
	run.Events = tr.snapshot()
	mu.Lock()
	for _, c := range run.Calls {
		c.Execs = execs[c.Token]
		if c.Execs > 1 {
			run.Oracle = fmt.Sprintf("call %d over HTTP executed its handler %d times (the library re-sent the request on its own)", c.Token, c.Execs)
		}
		if c.Outcome == "ok" && c.Execs != 1 {
			run.Oracle = fmt.Sprintf("call %d over HTTP was answered but executed %d times", c.Token, c.Execs)
		}
	}
	mu.Unlock()
	tr.uninstall()
	return run
}

type httpCountHandler struct{ count func(int) }

func (h *httpCountHandler) Echo(ctx context.Context, token int) (int, error) {
	h.count(token)
	return token, nil
}
func (h *httpCountHandler) Note(token int) { h.count(token) }

// the connection loop of a client ends for good without the closer being called — a no-reconnect client loses its
// connection, or the context given to the constructor is cancelled: the call in flight is failed, and calls issued
// afterwards fail promptly; none may wait for the closer to be called (C03)
func scenLoopEnds(kind faultKind, viaCtx bool) *connRun {
	ctx, cancel := context.WithCancel(context.Background())
	defer cancel()
	e := newConnEnv(connOpts{noReconnect: !viaCtx, clientCtx: ctx})
	params := map[string]interface{}{"fault": kind.String(), "via_ctx": viaCtx, "heals": false}
	w := e.call("echo", context.Background())
	e.waitEv(2*time.Second, func(ev tev) bool { return ev.Point == "call.return" && fmt.Sprint(ev.Args[0]) == fmt.Sprint(w) })
	e.hold(2)
	a := e.call("echo", context.Background())
	e.waitEv(2*time.Second, evIs("h.start", a))
	// more calls are handed to the connection loop while it is held with a request in its hands: when the loop ends
	// each of them must be released as well
	var queued []int
	var g *gate
	if !viaCtx && kind == faultRST {
		g = e.tr.gate("loop.register", func(conn string, args []interface{}) bool { return strings.HasPrefix(conn, "ws-client") })
		queued = append(queued, e.call("echo", context.Background()))
		g.wait(2 * time.Second)
		for i := 0; i < 24; i++ {
			queued = append(queued, e.call("echo", context.Background()))
		}
		time.Sleep(10 * time.Millisecond)
	}
	if viaCtx {
		cancel()
	} else {
		e.proxy.current().kill(kind)
	}
	if g != nil {
		time.Sleep(10 * time.Millisecond)
		g.release()
	}
	returned := func(t int) func(tev) bool {
		return func(ev tev) bool { return ev.Point == "call.return" && fmt.Sprint(ev.Args[0]) == fmt.Sprint(t) }
	}
	late := ""
	if !e.waitEv(2*time.Second, returned(a)) {
		late = fmt.Sprintf("call %d was in flight when the connection loop ended and had not returned 2s later", a)
	}
	e.waitEv(2*time.Second, evIs("loop.exit", nil))
	for _, t := range queued {
		if !e.waitEv(2*time.Second, returned(t)) && late == "" {
			late = fmt.Sprintf("call %d had been handed to the connection loop before it ended and had not returned 2s later", t)
		}
	}
	time.Sleep(5 * time.Millisecond)
	b := e.call("echo", context.Background())
	c := e.call("retry", context.Background())
	for _, t := range []int{b, c} {
		if !e.waitEv(2*time.Second, returned(t)) && late == "" {
			late = fmt.Sprintf("call %d, issued after the connection loop had ended, had not returned 2s later (the closer has not been called)", t)
		}
	}
	r := e.finish("loopends", params)
	if r.Oracle == "" {
		r.Oracle = late
	}
	return r
}

// outage (C05): the link drops, the server is unreachable for k redials, then comes back; one retry-tagged and one
// untagged call are in flight at the fault, one of each is issued during the outage; optionally a second fault right
// after the reconnect. With noReconnect the client must never dial again.
// the retry-tagged method used by scenOutage: "retry" (with a context parameter) or "retrync" (without one)
var outageRetryKind = "retry"

// set around a scenOutage call: WithNoReconnect is listed before WithReconnectBackoff
var outageNoReconnectFirst bool

func scenOutage(kind faultKind, k int, errorsOn bool, noReconnect bool, secondFault bool) *connRun {
	minB := 15 * time.Millisecond
	e := newConnEnv(connOpts{errors: errorsOn, noReconnect: noReconnect, noReconnectFirst: outageNoReconnectFirst, backoffMin: minB, backoffMax: 60 * time.Millisecond})
	params := map[string]interface{}{"fault": kind.String(), "failed_redials": k, "errors": errorsOn, "no_reconnect": noReconnect, "no_reconnect_option_first": outageNoReconnectFirst,
		"second_fault": secondFault, "heals": !noReconnect, "backoff_min_ms": minB.Milliseconds()}
	w := e.call("echo", context.Background())
	e.waitEv(2*time.Second, func(ev tev) bool { return ev.Point == "call.return" && fmt.Sprint(ev.Args[0]) == fmt.Sprint(w) })
	e.hold(2)
	e.hold(3)
	params["retry_kind"] = outageRetryKind
	a := e.call(outageRetryKind, context.Background())
	b := e.call("echo", context.Background())
	e.waitEv(2*time.Second, evIs("h.start", a))
	e.waitEv(2*time.Second, evIs("h.start", b))
	e.proxy.setRefuse(true)
	base := e.proxy.acceptCount()
	e.proxy.current().kill(kind)
	e.releaseAllHolds()
	if noReconnect {
		time.Sleep(80 * time.Millisecond)
		c := e.call("echo", context.Background())
		e.waitEv(2*time.Second, func(ev tev) bool { return ev.Point == "call.return" && fmt.Sprint(ev.Args[0]) == fmt.Sprint(c) })
		e.waitCalls(2 * time.Second)
		r := e.finish("outage", params)
		if r.Oracle == "" && r.Accepts != base {
			r.Oracle = fmt.Sprintf("a no-reconnect client dialed %d more time(s)", r.Accepts-base)
		}
		return r
	}
	// during the outage
	e.waitEv(2*time.Second, evIs("reconn.begin", nil))
	c1 := e.call(outageRetryKind, context.Background())
	c2 := e.call("echo", context.Background())
	deadline := time.Now().Add(5 * time.Second)
	for e.proxy.acceptCount() < base+k && time.Now().Before(deadline) {
		time.Sleep(time.Millisecond)
	}
	e.proxy.setRefuse(false)
	e.waitEv(3*time.Second, evIs("redial.swap", nil))
	if secondFault {
		e.proxy.current().kill(kind)
		dl := time.Now().Add(3 * time.Second)
		for countPoint(e, "redial.swap") < 2 && time.Now().Before(dl) {
			time.Sleep(time.Millisecond)
		}
	}
	p := e.call("echo", context.Background())
	e.waitEv(3*time.Second, func(ev tev) bool { return ev.Point == "call.return" && fmt.Sprint(ev.Args[0]) == fmt.Sprint(p) })
	_, _ = c1, c2
	e.waitCalls(4 * time.Second)
	times := e.proxy.acceptTimes()
	r := e.finish("outage", params)
	params["probe"] = p
	if r.Oracle == "" {
		// redial attempts are spaced by the backoff, never a busy loop
		for i := base + 1; i < len(times); i++ {
			if gap := times[i].Sub(times[i-1]); gap < minB*8/10 {
				r.Oracle = fmt.Sprintf("two consecutive dials only %v apart (configured minimum backoff %v): busy redial loop", gap, minB)
			}
		}
		for _, c := range r.Calls {
			if c.Token == p && c.Outcome != "ok" {
				r.Oracle = fmt.Sprintf("after the link healed a new call still failed: %s", c.Outcome)
			}
			if isRetryKind(c.Kind) && c.Outcome != "ok" {
				r.Oracle = fmt.Sprintf("retry-tagged call %d did not ride out the outage: %s", c.Token, c.Outcome)
			}
			if c.Kind == "echo" && c.Outcome == "connerr" {
				want := "*jsonrpc.JSONRPCError"
				if errorsOn {
					want = "*jsonrpc.RPCConnectionError"
				}
				if c.ErrType != want {
					r.Oracle = fmt.Sprintf("untagged call %d surfaced the connection error as %s, expected %s (error mapping %v)", c.Token, c.ErrType, want, errorsOn)
				}
			}
		}
		// attempts count from 0 and increase by one per failed dial within one outage
		want := 0
		for _, ev := range r.Events {
			if ev.Point == "reconn.begin" {
				want = 0
			}
			if ev.Point == "redial.attempt" {
				if fmt.Sprint(ev.Args[0]) != fmt.Sprint(want) {
					r.Oracle = fmt.Sprintf("redial attempt numbered %v, expected %d", ev.Args[0], want)
				}
				want++
			}
		}
	}
	return r
}

func permutations(n int) [][]int {
	if n == 0 {
		return [][]int{{}}
	}
	var out [][]int
	for _, p := range permutations(n - 1) {
		for i := 0; i <= len(p); i++ {
			q := append(append(append([]int{}, p[:i]...), n-1), p[i:]...)
			out = append(out, q)
		}
	}
	return out
}

var connExtra []func(which string, seed uint64, tier string)

func connFamily(seed uint64, tier string, args []string) {
	r := newRng(seed)
	which := "all"
	if len(args) > 0 {
		which = args[0]
	}
	for _, f := range connExtra {
		f(which, seed, tier)
	}
	if which == "all" || which == "perm" {
		maxN := 4
		if tier == "thorough" {
			maxN = 5
		}
		for n := 1; n <= maxN; n++ {
			for _, p := range permutations(n) {
				emit(scenPerm(p, []string{"echo", "fail", "retry"}, 0))
			}
		}
		emit(scenMany(300))
		if tier == "thorough" {
			emit(scenMany(700))
		}
		k := 12
		if tier == "thorough" {
			k = 200
		}
		for i := 0; i < k; i++ {
			n := 2 + r.intn(30)
			p := make([]int, n)
			for j := range p {
				p[j] = j
			}
			for j := n - 1; j > 0; j-- {
				x := r.intn(j + 1)
				p[j], p[x] = p[x], p[j]
			}
			emit(scenPerm(p, []string{"echo", "fail", "retry", "big0"}[:3], r.next()|1))
		}
	}
	if which == "all" || which == "fault" {
		for _, k := range []faultKind{faultFIN, faultRST, faultStall} {
			for _, pos := range []string{"idle", "mid-resp", "resp-head", "mid-req"} {
				for wi, wk := range []string{"echo", "retry", "note", ""} {
					for _, ak := range []string{"echo", "retry"} {
						if tier == "quick" && (int(k)+wi+len(pos)+len(ak))%2 == int(seed%2) && !(pos == "mid-resp" && wk == "echo") {
							continue
						}
						emit(scenFault(k, pos, wk, ak, true, wi%2 == 0))
					}
				}
			}
		}
		// a call without an error result in flight at the fault / issued in the window
		emit(scenFault(faultFIN, "idle", "plain", "plain", true, true))
		// a retry-tagged method without a context parameter in flight at the fault / issued in the window
		emit(scenFault(faultFIN, "idle", "retrync", "retrync", true, true))
		emit(scenFault(faultRST, "mid-resp", "retrync", "echo", true, false))
		emit(scenFault(faultCloseFrame, "idle", "echo", "retrync", true, true))
		// tags whose value is not "true" do not tag: such a method is never re-sent
		emit(scenFault(faultFIN, "idle", "retryno", "retryno", true, true))
		emit(scenFault(faultRST, "idle", "retry0", "retry0", true, false))
		// a blackhole seen by a client whose pings are off and whose timeout is on: the read deadline alone must notice
		emit(scenKeepSilent(0, 300*time.Millisecond, "during-call", false))
		emit(scenKeepSilent(0, 250*time.Millisecond, "settled", true))
		emit(scenFault(faultRST, "mid-resp", "plain", "plain", true, false))
		for _, k := range []faultKind{faultFIN, faultRST} {
			emit(scenLoopEnds(k, false))
		}
		emit(scenLoopEnds(faultFIN, true))
		for _, k := range []faultKind{faultFIN, faultRST} {
			emit(scenFault(k, "idle", "echo", "echo", false, true))
		}
		for _, wk := range []string{"echo", "retry", "note"} {
			emit(scenFault(faultCloseFrame, "idle", wk, "retry", true, true))
		}
	}
	if which == "all" || which == "outage" {
		for _, k := range []faultKind{faultFIN, faultRST, faultCloseFrame} {
			for _, n := range []int{0, 1, 2, 5} {
				if tier == "quick" && n == 5 && k == faultRST {
					continue
				}
				emit(scenOutage(k, n, n%2 == 0, false, n == 1))
			}
			emit(scenOutage(k, 0, true, true, false))
			emit(scenOutage(k, 0, false, true, false))
			outageNoReconnectFirst = true
			emit(scenOutage(k, 0, true, true, false))
			outageNoReconnectFirst = false
		}
		// the retry-tagged method has no context parameter
		outageRetryKind = "retrync"
		emit(scenOutage(faultFIN, 1, true, false, false))
		emit(scenOutage(faultRST, 2, false, false, true))
		outageRetryKind = "retry"
	}
	if which == "all" || which == "httpfault" {
		emit(scenHTTPFault("fin"))
		emit(scenHTTPFault("rst"))
	}
	if which == "all" || which == "stale" {
		emit(scenStaleDelete(10 * time.Millisecond))
	}
	if which == "all" || which == "close" {
		for _, k := range []faultKind{faultFIN, faultRST} {
			for _, a := range []int{0, 1} {
				emit(scenCloseRedial(k, a, 20*time.Millisecond))
			}
		}
		points := []string{"loop.take", "loop.register", "loop.sent", "send.req", "resp.lookup", "resp.deliver", "frame.enq", "exec.take", "reader.msg", "handle.call", "call.recv"}
		for _, p := range points {
			ks := []int{1, 2, 3, 5}
			if tier == "thorough" {
				ks = []int{1, 2, 3, 4, 5, 6, 7, 8}
			}
			for _, k := range ks {
				emit(scenClose(p, k))
			}
		}
	}
}

func init() { families["conn"] = connFamily }
