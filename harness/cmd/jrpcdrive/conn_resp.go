package main

import (
	"bytes"
	"context"
	"fmt"
	"runtime/pprof"
	"strings"
	"sync"
	"time"
)

// ---- responder-side scenarios (C06 C15)

// cancel: m concurrent calls whose handlers wait for their context; a subset is cancelled at a given instant
// instants: "after-send" (handler running), "before-send" (context already cancelled when the call is made),
// "race-response" (the response is on its way: executor held at the lookup while the caller cancels)
func scenCancel(m int, mask int, instant string) *connRun {
	e := newConnEnv(connOpts{})
	params := map[string]interface{}{"m": m, "mask": mask, "instant": instant}
	ctxs := make([]context.Context, m)
	cancels := make([]context.CancelFunc, m)
	toks := make([]int, m)
	var g *gate
	base := 0
	if instant == "before-send-busy" {
		w := e.call("echo", context.Background())
		e.waitEv(2*time.Second, func(ev tev) bool { return ev.Point == "call.return" && fmt.Sprint(ev.Args[0]) == fmt.Sprint(w) })
		base = 1
	}
	lateNotice := ""
	if instant == "after-send-note" {
		// a notification's handler is running (and stays so) on the same connection while the calls are cancelled
		e.hold(1)
		nt := e.call("notewait", context.Background())
		e.waitEv(2*time.Second, evIs("h.start", nt))
		base = 1
	}
	for i := 0; i < m; i++ {
		ctxs[i], cancels[i] = context.WithCancel(context.Background())
		e.hold(base + i + 1)
	}
	if instant == "before-send" {
		for i := 0; i < m; i++ {
			if mask&(1<<i) != 0 {
				e.tr.ev("ctx.cancel", i+1)
				cancels[i]()
			}
		}
	}
	if instant == "race-response" {
		g = e.tr.gate("resp.lookup", nil)
	}
	if instant == "before-send-busy" {
		// the server's frame executor is held with the first request in its hands, so the cancel requests that follow
		// on the wire reach the connection while their calls are not registered yet: they must not be lost
		g = e.tr.gate("exec.take", func(conn string, args []interface{}) bool { return strings.HasPrefix(conn, "ws-server") })
		for i := 0; i < m; i++ {
			if mask&(1<<i) != 0 {
				e.tr.ev("ctx.cancel", base+i+1)
				cancels[i]()
			}
		}
	}
	for i := 0; i < m; i++ {
		toks[i] = e.call("waitctx", ctxs[i])
	}
	if instant != "before-send" && instant != "before-send-busy" {
		for _, t := range toks {
			e.waitEv(2*time.Second, evIs("h.start", t))
		}
	}
	switch instant {
	case "after-send", "after-send-note":
		for i := 0; i < m; i++ {
			if mask&(1<<i) != 0 {
				e.tr.ev("ctx.cancel", toks[i])
				cancels[i]()
			}
		}
		// the cancelled handlers must notice; the others must not
		for i := 0; i < m; i++ {
			if mask&(1<<i) != 0 {
				if !e.waitEv(2*time.Second, evIs("h.ctxdone", toks[i])) && lateNotice == "" {
					lateNotice = fmt.Sprintf("call %d was cancelled by its caller while in flight (%s); 2 s later, with everything else on the connection unchanged, its handler context still was not", toks[i], instant)
				}
			}
		}
		time.Sleep(10 * time.Millisecond)
	case "race-response":
		// release the first masked call's handler: its response reaches the executor, which is held; then cancel
		first := -1
		for i := 0; i < m; i++ {
			if mask&(1<<i) != 0 {
				first = i
				break
			}
		}
		if first >= 0 {
			e.release(toks[first])
			g.wait(2 * time.Second)
			e.tr.ev("ctx.cancel", toks[first])
			cancels[first]()
			time.Sleep(5 * time.Millisecond)
			g.release()
		}
		time.Sleep(10 * time.Millisecond)
	case "before-send":
		time.Sleep(30 * time.Millisecond)
	case "before-send-busy":
		g.wait(2 * time.Second)
		time.Sleep(40 * time.Millisecond) // requests and cancel requests pile up behind the held executor
		g.release()
		for i := 0; i < m; i++ {
			if mask&(1<<i) != 0 {
				e.waitEv(2*time.Second, evIs("h.ctxdone", toks[i]))
			}
		}
		time.Sleep(10 * time.Millisecond)
	}
	e.releaseAllHolds()
	e.waitCalls(3 * time.Second)
	for i := 0; i < m; i++ {
		e.tr.ev("ctx.cancel", toks[i])
		cancels[i]()
	}
	r := e.finish("cancel", params)
	if r.Oracle == "" {
		r.Oracle = lateNotice
	}
	if r.Oracle == "" {
		r.Oracle = cancelOracle(r, toks, mask, instant)
	}
	return r
}

func cancelOracle(r *connRun, toks []int, mask int, instant string) string {
	saw := map[string]bool{}
	started := map[string]bool{}
	for _, ev := range r.Events {
		if ev.Point == "h.ctxdone" {
			saw[fmt.Sprint(ev.Args[0])] = true
		}
		if ev.Point == "h.start" {
			started[fmt.Sprint(ev.Args[0])] = true
		}
	}
	for i, t := range toks {
		cancelled := mask&(1<<i) != 0
		if !cancelled && saw[fmt.Sprint(t)] {
			return fmt.Sprintf("the handler context of call %d was cancelled although its caller never cancelled (cancelled subset mask %b)", t, mask)
		}
		if cancelled && (instant == "after-send" || instant == "after-send-note") && !saw[fmt.Sprint(t)] {
			return fmt.Sprintf("call %d was cancelled by its caller while in flight but its handler context never was", t)
		}
		if cancelled && instant == "before-send-busy" && started[fmt.Sprint(t)] && !saw[fmt.Sprint(t)] {
			return fmt.Sprintf("call %d was cancelled by its caller right at send; its handler ran, but with a context that was never cancelled (the cancel request was lost)", t)
		}
	}
	return ""
}

// a subscribing call is cancelled by its caller while it is still in flight (its handler has not handed out the channel
// yet): like any call in flight, its handler context must be cancelled
func scenSubInflightCancel(others int) *connRun {
	e := newConnEnv(connOpts{})
	params := map[string]interface{}{"others": others}
	var bystanders []int
	for i := 0; i < others; i++ {
		e.hold(i + 1)
		bystanders = append(bystanders, e.call("waitctx", context.Background()))
	}
	for _, t := range bystanders {
		e.waitEv(2*time.Second, evIs("h.start", t))
	}
	e.nextTok++
	tok := int(e.nextTok)
	ctx, cancel := context.WithCancel(context.Background())
	e.tr.ev("call.issue", tok, "subwait")
	done := make(chan struct{})
	go func() {
		defer close(done)
		ch, err := e.cl.SubWait(ctx, tok, 0)
		out := "ok"
		if err != nil {
			out = "other:" + err.Error()
		} else {
			for range ch {
			}
		}
		_ = out
		e.tr.ev("sub.returned", tok)
	}()
	e.waitEv(2*time.Second, evIs("h.start", tok))
	time.Sleep(5 * time.Millisecond)
	e.tr.ev("ctx.cancel", tok)
	cancel()
	noticed := e.waitEv(time.Second, evIs("h.ctxdone", tok))
	select {
	case <-done:
	case <-time.After(3 * time.Second):
	}
	e.releaseAllHolds()
	e.waitCalls(3 * time.Second)
	r := e.finish("subinflight", params)
	if r.Oracle == "" && !noticed {
		r.Oracle = fmt.Sprintf("subscribing call %d was cancelled by its caller while in flight; the context of its handler was still live 1s later", tok)
	}
	if r.Oracle == "" {
		for _, ev := range r.Events {
			if ev.Point == "h.ctxdone" && fmt.Sprint(ev.Args[0]) != fmt.Sprint(tok) {
				r.Oracle = fmt.Sprintf("the handler context of call %v was cancelled although only call %d was", ev.Args[0], tok)
			}
		}
	}
	return r
}

// subcancel: unary calls in flight (held) next to subscriptions; subscription contexts are cancelled after their
// subscribing calls have returned. Exactly the cancelled subscriptions' handlers may see their context cancelled.
func scenSubCancel(nUnary, nSubs int, mask int) *connRun {
	e := newConnEnv(connOpts{})
	params := map[string]interface{}{"unary": nUnary, "subs": nSubs, "mask": mask}
	var unary []int
	for i := 0; i < nUnary; i++ {
		e.hold(i + 1)
		unary = append(unary, e.call("waitctx", context.Background()))
	}
	for _, t := range unary {
		e.waitEv(2*time.Second, evIs("h.start", t))
	}
	type sub struct {
		tok    int
		cancel context.CancelFunc
	}
	var subs []sub
	for i := 0; i < nSubs; i++ {
		e.nextTok++
		tok := int(e.nextTok)
		e.hold(tok)
		ctx, cancel := context.WithCancel(context.Background())
		e.tr.ev("call.issue", tok, "sub")
		ch, err := e.cl.Sub(ctx, tok, 1)
		out := "ok"
		if err != nil {
			out = "other:" + err.Error()
		} else {
			go func() {
				for v := range ch {
					e.tr.ev("cons.recv", tok, v)
				}
				e.tr.ev("cons.closed", tok)
			}()
		}
		e.tr.ev("call.return", tok, out)
		subs = append(subs, sub{tok, cancel})
	}
	time.Sleep(10 * time.Millisecond)
	for i, sb := range subs {
		if mask&(1<<i) != 0 {
			e.tr.ev("ctx.cancel", sb.tok)
			sb.cancel()
		}
	}
	for i, sb := range subs {
		if mask&(1<<i) != 0 {
			e.waitEv(2*time.Second, evIs("h.ctxdone", sb.tok))
		}
	}
	time.Sleep(15 * time.Millisecond)
	// snapshot of who saw a cancellation while everything is still in flight / open
	saw := map[string]bool{}
	for _, ev := range e.tr.snapshot() {
		if ev.Point == "h.ctxdone" {
			saw[fmt.Sprint(ev.Args[0])] = true
		}
	}
	oracle := ""
	for _, t := range unary {
		if saw[fmt.Sprint(t)] {
			oracle = fmt.Sprintf("the context of in-flight call %d was cancelled although only subscriptions were cancelled", t)
		}
	}
	for i, sb := range subs {
		c := mask&(1<<i) != 0
		if c && !saw[fmt.Sprint(sb.tok)] {
			oracle = fmt.Sprintf("subscription %d was cancelled by its caller but its handler context was not", sb.tok)
		}
		if !c && saw[fmt.Sprint(sb.tok)] {
			oracle = fmt.Sprintf("the handler context of subscription %d was cancelled although its caller did not cancel", sb.tok)
		}
	}
	e.releaseAllHolds()
	e.waitCalls(3 * time.Second)
	for _, sb := range subs {
		e.tr.ev("ctx.cancel", sb.tok)
		sb.cancel()
	}
	r := e.finish("subcancel", params)
	if r.Oracle == "" {
		r.Oracle = oracle
	}
	return r
}

// connend: handlers in progress (unary with id, notification, streaming) when the connection ends for a given cause
// set around a scenConnEnd call: the stream's producer stops on its cancelled context without closing its channel
var connendLeakyProducer bool

func scenConnEnd(cause string, withStream bool) *connRun {
	e := newConnEnv(connOpts{noReconnect: true})
	e.subNoClose = connendLeakyProducer
	params := map[string]interface{}{"cause": cause, "stream": withStream, "producer_closes": !connendLeakyProducer}
	e.hold(1)
	e.hold(2)
	e.hold(3)
	a := e.call("waitctx", context.Background())
	b := e.call("notewait", context.Background())
	e.waitEv(2*time.Second, evIs("h.start", a))
	e.waitEv(2*time.Second, evIs("h.start", b))
	var subTok int
	if withStream {
		subTok = 3
		e.nextTok = 2
		tok := int(e.nextTok) + 1
		e.nextTok++
		e.tr.ev("call.issue", tok, "sub")
		ch, err := e.cl.Sub(context.Background(), tok, 2)
		if err == nil {
			go func() {
				for v := range ch {
					e.tr.ev("cons.recv", tok, v)
				}
				e.tr.ev("cons.closed", tok)
			}()
		}
		e.tr.ev("call.return", tok, "ok")
		subTok = tok
		time.Sleep(10 * time.Millisecond)
	}
	before := labelledGoroutines("wsserver")
	switch cause {
	case "client-close":
		e.tr.ev("stop.invoke")
		e.closer()
		e.tr.ev("stop.returned")
	case "fin":
		e.proxy.current().kill(faultFIN)
	case "rst":
		e.proxy.current().kill(faultRST)
	case "server-cancel":
		e.tr.ev("srv.cancel")
		e.srvCancel()
		e.tr.ev("srv.cancelled")
	}
	okA := e.waitEv(3*time.Second, evIs("h.ctxdone", a))
	okB := e.waitEv(3*time.Second, evIs("h.ctxdone", b))
	okS := true
	if withStream {
		okS = e.waitEv(3*time.Second, evIs("h.ctxdone", subTok))
	}
	e.waitCalls(3 * time.Second)
	// once the handlers have returned the server must retain no goroutine for the dead connection
	leaked := -1
	var dump string
	for i := 0; i < 100; i++ {
		leaked = labelledGoroutines("wsserver")
		if leaked == 0 {
			break
		}
		time.Sleep(5 * time.Millisecond)
	}
	if leaked > 0 {
		dump = labelledDump("wsserver")
	}
	params["goroutines_before"] = before
	params["goroutines_after"] = leaked
	r := e.finish("connend", params)
	if r.Oracle == "" {
		switch {
		case !okA:
			r.Oracle = "the context of the unary handler still running was not cancelled when the connection ended (" + cause + ")"
		case !okB:
			r.Oracle = "the context of the notification handler still running was not cancelled when the connection ended (" + cause + ")"
		case !okS:
			r.Oracle = "the context of the streaming handler was not cancelled when the connection ended (" + cause + ")"
		case leaked > 0:
			r.Oracle = fmt.Sprintf("%d library goroutine(s) labelled for the dead connection are still alive after its handlers returned: %s", leaked, dump)
		}
	}
	return r
}

// connend-blocked: a handler is in progress while another response is stuck in a socket write (the peer stopped
// reading), server pings are on; then the client says goodbye with a close frame but the TCP connection lingers.
// The contexts of the handlers still running must be cancelled all the same.
func scenConnEndBlocked(clientPing time.Duration) *connRun {
	e := newConnEnv(connOpts{noReconnect: true, srvPing: 20 * time.Millisecond, ping: clientPing})
	params := map[string]interface{}{"cause": "close-frame-with-blocked-writer", "client_ping_ms": clientPing.Milliseconds()}
	e.hold(1)
	e.hold(2)
	a := e.call("waitctx", context.Background())
	b := e.call("notewait", context.Background())
	e.waitEv(2*time.Second, evIs("h.start", a))
	e.waitEv(2*time.Second, evIs("h.start", b))
	pc := e.proxy.current()
	pc.mu.Lock()
	pc.stallS2C = true
	pc.holdOpen = true
	pc.mu.Unlock()
	e.call("big", context.Background(), 24<<20) // its response blocks in the server's socket write
	e.waitEv(3*time.Second, evIs("nw.acquired", nil))
	time.Sleep(120 * time.Millisecond) // several ping intervals: the pinger queues up behind the writer
	e.tr.ev("stop.invoke")
	done := make(chan struct{})
	go func() { e.closer(); close(done) }()
	select {
	case <-done:
	case <-time.After(2 * time.Second):
	}
	e.tr.ev("stop.returned")
	// with the client pinging, the server's reader has pongs to answer behind the blocked writer: each attempt may take its
	// one-second write deadline before the reader goes on to the close frame
	okA := e.waitEv(6*time.Second, evIs("h.ctxdone", a))
	okB := e.waitEv(3*time.Second, evIs("h.ctxdone", b))
	r := e.finish("connend", params)
	if r.Oracle == "" || strings.Contains(r.Oracle, "never returned") {
		r.Oracle = ""
		if !okA {
			r.Oracle = "graceful close with a response stuck in a socket write: the context of the unary handler still running was never cancelled"
		} else if !okB {
			r.Oracle = "graceful close with a response stuck in a socket write: the context of the notification handler still running was never cancelled"
		}
	}
	return r
}

// connend-handoff: the connection ends while a streaming handler is handing its channel over to the forwarding
// goroutine and that goroutine is busy (it waits for the write lock behind a response stuck in a socket write, the peer
// having stopped reading). The handler's goroutine, like every other one of the connection, must be gone afterwards.
func scenConnEndHandoff(cause string) *connRun {
	e := newConnEnv(connOpts{noReconnect: true})
	params := map[string]interface{}{"cause": cause + "-with-channel-registration-pending"}
	e.watchCtx = true
	gate := make(chan struct{})
	var gateOnce sync.Once
	defer gateOnce.Do(func() { close(gate) })
	e.nextTok++
	x := int(e.nextTok)
	e.prodGate = func(token, i int) {
		if token == x && i == 1 {
			<-gate
		}
	}
	ctxX, cancelX := context.WithCancel(context.Background())
	defer cancelX()
	e.tr.ev("call.issue", x, "sub")
	chX, err := e.cl.Sub(ctxX, x, 3)
	if err == nil {
		go func() {
			for v := range chX {
				e.tr.ev("cons.recv", x, v)
			}
			e.tr.ev("cons.closed", x)
		}()
	}
	e.tr.ev("call.return", x, "ok")
	e.waitEv(2*time.Second, func(ev tev) bool { return ev.Point == "cons.recv" && fmt.Sprint(ev.Args[0]) == fmt.Sprint(x) })
	pc := e.proxy.current()
	pc.mu.Lock()
	pc.stallS2C = true
	pc.mu.Unlock()
	nw := countPoint(e, "nw.acquired")
	e.call("big", context.Background(), 24<<20) // its response blocks in the server's socket write, holding the write lock
	for dl := time.Now().Add(3 * time.Second); countPoint(e, "nw.acquired") == nw && time.Now().Before(dl); {
		time.Sleep(2 * time.Millisecond)
	}
	time.Sleep(60 * time.Millisecond)
	gateOnce.Do(func() { close(gate) })
	// the forwarder has taken the next value of X and now waits for the write lock
	busy := e.waitEv(2*time.Second, func(ev tev) bool {
		return ev.Point == "prod.send" && fmt.Sprint(ev.Args[0]) == fmt.Sprint(x) && fmt.Sprint(ev.Args[1]) == fmt.Sprint(x*1000+1)
	})
	params["forwarder_busy"] = busy
	e.nextTok++
	y := int(e.nextTok)
	ctxY, cancelY := context.WithCancel(context.Background())
	defer cancelY()
	e.tr.ev("call.issue", y, "sub")
	go func() {
		ch, err := e.cl.Sub(ctxY, y, 1)
		out := "ok"
		if err != nil {
			out, _ = classify(y, 0, err)
		} else {
			go func() {
				for range ch {
				}
			}()
		}
		e.tr.ev("call.return", y, out)
	}()
	handed := e.waitEv(2*time.Second, evIs("h.end", y))
	params["second_handler_returned_its_channel"] = handed
	time.Sleep(30 * time.Millisecond)
	before := labelledGoroutines("wsserver")
	switch cause {
	case "fin":
		pc.kill(faultFIN)
	case "rst":
		pc.kill(faultRST)
	}
	okX := e.waitEv(3*time.Second, evIs("h.ctxwatch", x))
	e.waitCalls(3 * time.Second)
	leaked := -1
	var dump string
	for i := 0; i < 300; i++ {
		leaked = labelledGoroutines("wsserver")
		if leaked == 0 {
			break
		}
		time.Sleep(5 * time.Millisecond)
	}
	if leaked > 0 {
		dump = labelledDump("wsserver")
	}
	params["goroutines_before"] = before
	params["goroutines_after"] = leaked
	r := e.finish("connend", params)
	if r.Oracle == "" {
		switch {
		case !okX:
			r.Oracle = "the context of the streaming handler was not cancelled when the connection ended (" + cause + ", a registration pending)"
		case leaked > 0:
			r.Oracle = fmt.Sprintf("%d library goroutine(s) labelled for the dead connection are still alive 1.5s after it ended (a streaming handler was handing over its channel while the forwarder was busy): %s", leaked, dump)
		}
	}
	return r
}

func labelledGoroutines(mode string) int {
	var b bytes.Buffer
	_ = pprof.Lookup("goroutine").WriteTo(&b, 1)
	n := 0
	for _, blk := range strings.Split(b.String(), "\n\n") {
		if strings.Contains(blk, `"jrpc-mode":"`+mode+`"`) {
			var k int
			fmt.Sscanf(blk, "%d @", &k)
			if k == 0 {
				k = 1
			}
			n += k
		}
	}
	return n
}

func labelledDump(mode string) string {
	var b bytes.Buffer
	_ = pprof.Lookup("goroutine").WriteTo(&b, 1)
	var out []string
	for _, blk := range strings.Split(b.String(), "\n\n") {
		if strings.Contains(blk, `"jrpc-mode":"`+mode+`"`) {
			lines := strings.Split(blk, "\n")
			var fns []string
			for _, l := range lines {
				if strings.HasPrefix(l, "#\t") && strings.Contains(l, "go-jsonrpc") {
					f := strings.Fields(l)
					if len(f) >= 3 {
						fns = append(fns, f[2])
					}
				}
			}
			out = append(out, strings.Join(fns, "<"))
		}
	}
	s := strings.Join(out, " | ")
	if len(s) > 600 {
		s = s[:600]
	}
	return s
}

func init() {
	connExtra = append(connExtra, func(which string, seed uint64, tier string) {
		if which == "all" || which == "cancel" {
			maxM := 3
			for m := 1; m <= maxM; m++ {
				for mask := 0; mask < 1<<m; mask++ {
					for _, inst := range []string{"after-send", "before-send", "race-response", "before-send-busy", "after-send-note"} {
						if (inst == "race-response" || inst == "before-send-busy" || inst == "after-send-note") && mask == 0 {
							continue
						}
						if tier == "quick" && m == 3 && inst != "after-send" && mask%3 != int(seed%3) {
							continue
						}
						emit(scenCancel(m, mask, inst))
					}
				}
			}
		}
		if which == "all" || which == "cancel" {
			for _, cfg := range [][3]int{{1, 1, 1}, {1, 2, 1}, {1, 2, 2}, {2, 2, 3}, {0, 2, 2}, {2, 1, 0}, {2, 3, 5}} {
				emit(scenSubCancel(cfg[0], cfg[1], cfg[2]))
			}
			for _, o := range []int{0, 2} {
				emit(scenSubInflightCancel(o))
			}
		}
		if which == "all" || which == "connend" {
			for _, c := range []string{"client-close", "fin", "rst", "server-cancel"} {
				emit(scenConnEnd(c, false))
				emit(scenConnEnd(c, true))
				if c == "client-close" || c == "rst" {
					connendLeakyProducer = true
					emit(scenConnEnd(c, true))
					connendLeakyProducer = false
				}
			}
			emit(scenConnEndBlocked(0))
			emit(scenConnEndBlocked(25 * time.Millisecond))
			emit(scenConnEndHandoff("rst"))
			emit(scenConnEndHandoff("fin"))
		}
	})
}
