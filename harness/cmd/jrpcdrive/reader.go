package main

import (
	"bytes"
	"context"
	"encoding/hex"
	"fmt"
	"io"
	"net/http"
	"net/http/httptest"
	"strings"
	"sync"
	"time"

	"github.com/filecoin-project/go-jsonrpc"
	"github.com/filecoin-project/go-jsonrpc/httpio"
	"github.com/gorilla/mux"
)

// family "reader" (C20): the real encoder/decoder pair over a real HTTP server.

type readObs struct {
	Op   string `json:"op"` // read | close
	N    int    `json:"n"`
	K    int    `json:"k"`
	Err  string `json:"err"` // "" | EOF | closed | other:<text>
	Sum  uint32 `json:"sum"` // adler32 of the k bytes
	Data string `json:"data,omitempty"`
}

type readerSide struct {
	mu   sync.Mutex
	logs map[int][]readObs
}

func (s *readerSide) add(tag int, o readObs) {
	s.mu.Lock()
	s.logs[tag] = append(s.logs[tag], o)
	s.mu.Unlock()
}

func adler(b []byte) uint32 {
	a, c := uint32(1), uint32(0)
	for _, x := range b {
		a = (a + uint32(x)) % 65521
		c = (c + a) % 65521
	}
	return c<<16 | a
}

func errKind(err error) string {
	if err == nil {
		return ""
	}
	if err == io.EOF {
		return "EOF"
	}
	if err == http.ErrBodyReadAfterClose {
		return "closed"
	}
	return "other:" + err.Error()
}

type recReader struct {
	r    io.Reader
	side *readerSide
	tag  int
}

func (r *recReader) Read(p []byte) (int, error) {
	k, err := r.r.Read(p)
	o := readObs{Op: "read", N: len(p), K: k, Err: errKind(err), Sum: adler(p[:k])}
	if k <= 24 {
		o.Data = hex.EncodeToString(p[:k])
	}
	r.side.add(r.tag, o)
	return k, err
}

type ReaderHandler struct {
	side *readerSide
}

// script: n>0 Read(n) once; 0 Close; -1 io.ReadAll; -2 pause 30ms; -3 a zero-length Read; -(1000+m) loop Read(m) until an error
func (h *ReaderHandler) ReadScript(ctx context.Context, r io.Reader, script []int, tag int) (int, error) {
	rr := &recReader{r: r, side: h.side, tag: tag}
	total := 0
	for _, s := range script {
		switch {
		case s > 0:
			buf := make([]byte, s)
			k, _ := rr.Read(buf)
			total += k
		case s == 0:
			if c, ok := r.(io.Closer); ok {
				err := c.Close()
				h.side.add(tag, readObs{Op: "close", Err: errKind(err)})
			} else {
				h.side.add(tag, readObs{Op: "close", Err: "other:not a closer"})
			}
		case s == -3:
			// len(p) == 0: allowed by the io.Reader contract (iotest.TestReader probes it, so does a full fixed buffer)
			_, _ = rr.Read(nil)
		case s == -2:
			// let the uploading request finish first (it is released by the EOF / Close the handler just saw)
			time.Sleep(30 * time.Millisecond)
		case s == -1:
			b, _ := io.ReadAll(rr)
			total += len(b)
		case s <= -1000:
			m := -s - 1000
			buf := make([]byte, m)
			for {
				k, err := rr.Read(buf)
				total += k
				if err != nil {
					break
				}
			}
		}
	}
	return total, nil
}

func genPayload(kind int, seed uint64, n int) []byte {
	b := make([]byte, n)
	switch kind {
	case 0:
	case 1:
		for i := range b {
			b[i] = 0xff
		}
	case 2:
		for i := range b {
			b[i] = byte((uint64(i) + seed) % 256)
		}
	default:
		x := seed % (1 << 31)
		for i := range b {
			x = (x*1103515245 + 12345) % (1 << 31)
			b[i] = byte((x >> 16) & 0xff)
		}
	}
	return b
}

// chunkedReader hides the length from net/http (forces chunked upload)
type chunkedReader struct{ r io.Reader }

func (c chunkedReader) Read(p []byte) (int, error) { return c.r.Read(p) }

type uploadInfo struct {
	status    int
	completed bool
}

type statusRec struct {
	http.ResponseWriter
	code int
}

func (s *statusRec) WriteHeader(c int) { s.code = c; s.ResponseWriter.WriteHeader(c) }

type readerCase struct {
	Tag       int       `json:"tag"`
	Len       int       `json:"len"`
	Kind      int       `json:"kind"`
	PSeed     uint64    `json:"pseed"`
	Script    []int     `json:"script"`
	Order     string    `json:"order"` // upload_first | decode_first | natural
	Chunked   bool      `json:"chunked"`
	Group     int       `json:"group"` // number of concurrent calls it ran with
	Obs       []readObs `json:"obs"`
	ClientErr string    `json:"client_err"`
	Total     int       `json:"total"`
	UpStatus  int       `json:"upload_status"`
	UpDone    bool      `json:"upload_completed"`
	Oracle    string    `json:"oracle_fail,omitempty"`
}

func readerFamily(seed uint64, tier string, args []string) {
	side := &readerSide{logs: map[int][]readObs{}}
	hnd, decOpt := httpio.ReaderParamDecoder()
	srv := jsonrpc.NewServer(decOpt)
	srv.Register("R", &ReaderHandler{side: side})

	var upMu sync.Mutex
	uploads := map[int64]*uploadInfo{} // keyed by content length (distinct inside a concurrent group) or -tag when sequential
	var curSeqTag int64
	var uploadDelay, rpcDelay time.Duration

	m := mux.NewRouter()
	m.Handle("/rpc", http.HandlerFunc(func(w http.ResponseWriter, r *http.Request) {
		if rpcDelay > 0 {
			time.Sleep(rpcDelay)
		}
		srv.ServeHTTP(w, r)
	}))
	m.Handle("/rpc/streams/v0/push/{uuid}", http.HandlerFunc(func(w http.ResponseWriter, r *http.Request) {
		key := r.ContentLength
		if key < 0 {
			upMu.Lock()
			key = -curSeqTag
			upMu.Unlock()
		}
		info := &uploadInfo{}
		upMu.Lock()
		uploads[key] = info
		upMu.Unlock()
		if uploadDelay > 0 {
			time.Sleep(uploadDelay)
		}
		sr := &statusRec{ResponseWriter: w}
		hnd(sr, r)
		upMu.Lock()
		info.status = sr.code
		info.completed = true
		upMu.Unlock()
	}))
	ts := httptest.NewServer(m)

	var client struct {
		ReadScript func(ctx context.Context, r io.Reader, script []int, tag int) (int, error)
	}
	closer, err := jsonrpc.NewMergeClient(context.Background(), ts.URL+"/rpc", "R", []interface{}{&client}, nil,
		httpio.ReaderParamEncoder(ts.URL+"/rpc/streams/v0/push"))
	if err != nil {
		panic(err)
	}
	defer closer()

	r := newRng(seed)
	tag := 0
	type spec struct {
		ln, kind int
		script   []int
		order    string
		chunked  bool
	}
	runGroup := func(specs []spec) {
		n := len(specs)
		cases := make([]*readerCase, n)
		var wg sync.WaitGroup
		// arrival order is forced with delays on the two server entry points (whole group shares one order)
		uploadDelay, rpcDelay = 0, 0
		switch specs[0].order {
		case "upload_first":
			rpcDelay = 40 * time.Millisecond
		case "decode_first":
			uploadDelay = 40 * time.Millisecond
		}
		for i, sp := range specs {
			tag++
			c := &readerCase{Tag: tag, Len: sp.ln, Kind: sp.kind, PSeed: r.next() % 100000, Script: sp.script, Order: sp.order, Chunked: sp.chunked, Group: n}
			cases[i] = c
			payload := genPayload(c.Kind, c.PSeed, c.Len)
			var rd io.Reader = bytes.NewReader(payload)
			key := int64(c.Len)
			if sp.chunked {
				rd = chunkedReader{rd}
				upMu.Lock()
				curSeqTag = int64(c.Tag)
				upMu.Unlock()
				key = -int64(c.Tag)
			}
			wg.Add(1)
			go func(c *readerCase, rd io.Reader, key int64) {
				defer wg.Done()
				ctx, cancel := context.WithTimeout(context.Background(), 20*time.Second)
				defer cancel()
				tot, err := client.ReadScript(ctx, rd, c.Script, c.Tag)
				c.Total = tot
				if err != nil {
					c.ClientErr = err.Error()
				}
				// upload completion: wait (bounded) when the script consumes or closes the stream
				expect := false
				for _, s := range c.Script {
					if s == 0 || s == -1 || s <= -1000 {
						expect = true
					}
				}
				deadline := time.Now().Add(300 * time.Millisecond)
				if expect {
					deadline = time.Now().Add(5 * time.Second)
				}
				for {
					upMu.Lock()
					info := uploads[key]
					done := info != nil && info.completed
					if done {
						c.UpDone, c.UpStatus = true, info.status
					}
					upMu.Unlock()
					if done || time.Now().After(deadline) {
						break
					}
					time.Sleep(2 * time.Millisecond)
				}
			}(c, rd, key)
			if sp.chunked {
				wg.Wait() // chunked uploads are identified by "the current one": strictly sequential
			}
		}
		wg.Wait()
		upMu.Lock()
		for k := range uploads {
			delete(uploads, k)
		}
		upMu.Unlock()
		for _, c := range cases {
			side.mu.Lock()
			c.Obs = side.logs[c.Tag]
			side.mu.Unlock()
			if c.Obs == nil {
				c.Obs = []readObs{}
			}
			c.Oracle = readerOracle(c)
			emit(c)
		}
	}

	lens := []int{0, 1, 2, 511, 512, 513, 4095, 4096, 4097, 32767, 32768, 32769}
	patterns := [][]int{
		{-1}, {-1, 16, 16, 16}, {-1, -2, 16, 16}, {-1, 0}, {-1, 0, 16}, {0}, {7, 0}, {7, 0, 9, 0}, {100, 100}, {-1064}, {-5096, 1, 1},
		{-3, -1}, {5, -3, -3, -1064, -3}, {-1001}, {3, -1, 0, 0},
	}
	orders := []string{"upload_first", "decode_first", "natural"}
	// sequential sweep: every length x every pattern (byte-at-a-time only for small lengths)
	for li, ln := range lens {
		for pi, p := range patterns {
			if len(p) == 1 && p[0] == -1001 && ln > 600 {
				continue
			}
			if tier == "quick" && ln > 4097 && pi%3 != li%3 {
				continue
			}
			runGroup([]spec{{ln, (li + pi) % 4, p, orders[(li+pi)%3], (li+pi)%5 == 0}})
		}
	}
	// one Read with a buffer of exactly the payload's length (net/http hands out the tail of a fixed-length body together
	// with EOF), a pause long enough for the upload request to complete, then more Reads: they must keep saying EOF
	for i, ln := range []int{1, 2, 511, 513, 4096, 4097} {
		runGroup([]spec{{ln, i % 4, []int{ln, -2, 8, 8}, "natural", false}})
		runGroup([]spec{{ln, (i + 1) % 4, []int{ln + 5, -2, -3, 8}, "upload_first", false}})
	}
	// big payloads
	bigs := []int{1 << 20, 1<<20 + 1}
	if tier == "thorough" {
		bigs = append(bigs, 3<<20, 1<<20-1)
	}
	for i, ln := range bigs {
		runGroup([]spec{{ln, 3, [][]int{{-1, 8}, {-33768, 0}, {-1}, {-5096}}[i%4], orders[i%3], i%2 == 1}})
	}
	// concurrent groups with distinct lengths
	groups := 12
	if tier == "thorough" {
		groups = 120
	}
	for g := 0; g < groups; g++ {
		n := 2 + r.intn(7)
		var specs []spec
		used := map[int]bool{}
		order := orders[r.intn(3)]
		for i := 0; i < n; i++ {
			ln := lens[r.intn(len(lens))] + r.intn(3)*7919
			for used[ln] {
				ln++
			}
			used[ln] = true
			specs = append(specs, spec{ln, r.intn(4), patterns[r.intn(len(patterns)-2)], order, false})
		}
		runGroup(specs)
	}
	_ = strings.Join
	_ = fmt.Sprint
	// ties between the two arrivals
	ties := 6000
	if tier == "thorough" {
		ties = 120000
	}
	emit(readerTies(seed, ties, 6))
}

// direct oracle: the property, without the model: bytes received are a prefix of the payload, equal to it once
// EOF was reported; EOF is repeated on every further read; no panic; upload completed after EOF/close.
func readerOracle(c *readerCase) string {
	payload := genPayload(c.Kind, c.PSeed, c.Len)
	if strings.Contains(c.ClientErr, "panic") {
		return "handler panicked: " + c.ClientErr
	}
	pos := 0
	eof := false
	closed := false
	for _, o := range c.Obs {
		if o.Op == "close" {
			closed = true
			continue
		}
		if pos+o.K > len(payload) {
			return fmt.Sprintf("handler received more bytes (%d) than the payload has (%d)", pos+o.K, len(payload))
		}
		if adler(payload[pos:pos+o.K]) != o.Sum {
			return fmt.Sprintf("bytes at offset %d..%d differ from the caller's payload", pos, pos+o.K)
		}
		pos += o.K
		if eof && !closed && !(o.K == 0 && o.Err == "EOF") {
			return fmt.Sprintf("after EOF a further Read returned (%d, %q) instead of (0, EOF)", o.K, o.Err)
		}
		if o.Err == "EOF" {
			if pos != len(payload) {
				return fmt.Sprintf("EOF reported after %d of %d bytes", pos, len(payload))
			}
			eof = true
		}
		if o.Err == "closed" && !closed {
			return fmt.Sprintf("a Read reported a closed stream (after %d of %d bytes) although the handler had not closed it: the only terminal result of an unclosed reader is EOF", pos, len(payload))
		}
		if strings.HasPrefix(o.Err, "other:") {
			return "unexpected read error " + o.Err
		}
	}
	if (eof || closed) && !c.UpDone {
		return "handler consumed/closed the stream but the uploading request did not complete"
	}
	if c.UpDone && c.UpStatus != 200 && c.UpStatus != 0 {
		return fmt.Sprintf("upload completed with status %d", c.UpStatus)
	}
	return ""
}

func init() { families["reader"] = readerFamily }
