package main

import (
	"context"
	"fmt"
	"net/http"
	"net/http/httptest"
	"net/url"

	"github.com/filecoin-project/go-jsonrpc/auth"
)

// family "auth": exhaustive over a 3-permission universe (C19).

type authImpl struct {
	calls *int
}

func (a authImpl) DoErr(ctx context.Context) error        { *a.calls++; return nil }
func (a authImpl) DoVal(ctx context.Context) (int, error) { *a.calls++; return 7, nil }
func (a authImpl) FailErr(ctx context.Context) error      { *a.calls++; return fmt.Errorf("impl-fail") }
func (a authImpl) FailVal(ctx context.Context) (int, error) {
	*a.calls++
	return 9, fmt.Errorf("impl-fail")
}

type proxyRead struct {
	DoErr   func(context.Context) error        `perm:"read"`
	DoVal   func(context.Context) (int, error) `perm:"read"`
	FailErr func(context.Context) error        `perm:"read"`
	FailVal func(context.Context) (int, error) `perm:"read"`
}
type proxyWrite struct {
	DoErr   func(context.Context) error        `perm:"write"`
	DoVal   func(context.Context) (int, error) `perm:"write"`
	FailErr func(context.Context) error        `perm:"write"`
	FailVal func(context.Context) (int, error) `perm:"write"`
}
type proxyAdmin struct {
	DoErr   func(context.Context) error        `perm:"admin"`
	DoVal   func(context.Context) (int, error) `perm:"admin"`
	FailErr func(context.Context) error        `perm:"admin"`
	FailVal func(context.Context) (int, error) `perm:"admin"`
}
type proxyMissing struct {
	DoErr func(context.Context) error `perm:"read"`
	DoVal func(context.Context) (int, error)
}
type proxyUnknown struct {
	DoErr func(context.Context) error        `perm:"read"`
	DoVal func(context.Context) (int, error) `perm:"sign"`
}

var permUniverse = []auth.Permission{"read", "write", "admin"}

func subsets() [][]auth.Permission {
	var out [][]auth.Permission
	for m := 0; m < 8; m++ {
		s := []auth.Permission{}
		for i, p := range permUniverse {
			if m&(1<<i) != 0 {
				s = append(s, p)
			}
		}
		out = append(out, s)
	}
	// order and duplicates must not matter either
	out = append(out, []auth.Permission{"admin", "read"}, []auth.Permission{"write", "write"}, []auth.Permission{"Read"}, []auth.Permission{""})
	return out
}

type authProxyCase struct {
	Kind     string    `json:"kind"`
	Attached *[]string `json:"attached"` // nil = nothing attached
	Dflt     []string  `json:"dflt"`
	Required string    `json:"required"`
	Method   string    `json:"method"` // DoErr DoVal FailErr FailVal
	Invoked  int       `json:"invoked"`
	ErrNil   bool      `json:"err_nil"`
	ErrText  string    `json:"err_text"`
	Val      int       `json:"val"`
	Oracle   string    `json:"oracle_fail,omitempty"`
}

func strs(ps []auth.Permission) []string {
	out := make([]string, len(ps))
	for i, p := range ps {
		out[i] = string(p)
	}
	return out
}

func contains(ps []auth.Permission, p auth.Permission) bool {
	for _, q := range ps {
		if q == p {
			return true
		}
	}
	return false
}

func authFamily(seed uint64, tier string, args []string) {
	// --- proxy
	for _, required := range permUniverse {
		for _, dflt := range subsets() {
			// index 0: nothing attached; index 1: a nil slice attached (an empty set all the same); then every subset
			for ai, att := range append([][]auth.Permission{nil, nil}, subsets()...) {
				attached := ai != 0
				calls := 0
				impl := authImpl{&calls}
				var fns [4]func(ctx context.Context) (int, error, bool)
				mk := func(e func(context.Context) error, v func(context.Context) (int, error)) (func(ctx context.Context) (int, error, bool), func(ctx context.Context) (int, error, bool)) {
					return func(ctx context.Context) (int, error, bool) { return 0, e(ctx), false },
						func(ctx context.Context) (int, error, bool) { a, b := v(ctx); return a, b, true }
				}
				switch required {
				case "read":
					var p proxyRead
					auth.PermissionedProxy(permUniverse, dflt, impl, &p)
					fns[0], fns[1] = mk(p.DoErr, p.DoVal)
					fns[2], fns[3] = mk(p.FailErr, p.FailVal)
				case "write":
					var p proxyWrite
					auth.PermissionedProxy(permUniverse, dflt, impl, &p)
					fns[0], fns[1] = mk(p.DoErr, p.DoVal)
					fns[2], fns[3] = mk(p.FailErr, p.FailVal)
				case "admin":
					var p proxyAdmin
					auth.PermissionedProxy(permUniverse, dflt, impl, &p)
					fns[0], fns[1] = mk(p.DoErr, p.DoVal)
					fns[2], fns[3] = mk(p.FailErr, p.FailVal)
				}
				for mi, name := range []string{"DoErr", "DoVal", "FailErr", "FailVal"} {
					ctx := context.Background()
					if attached {
						ctx = auth.WithPerm(ctx, att)
					}
					before := calls
					v, err, _ := fns[mi](ctx)
					c := authProxyCase{Kind: "proxy", Dflt: strs(dflt), Required: string(required), Method: name,
						Invoked: calls - before, ErrNil: err == nil, Val: v}
					if err != nil {
						c.ErrText = err.Error()
					}
					eff := dflt
					if attached {
						s := strs(att)
						c.Attached = &s
						eff = att
					}
					// direct oracle: the property, stated without the model
					should := contains(eff, required)
					if should && c.Invoked != 1 {
						c.Oracle = "caller holds the permission but the implementation was not invoked exactly once"
					}
					if !should && (c.Invoked != 0 || err == nil || v != 0) {
						c.Oracle = "caller lacks the permission but implementation ran / no error / non-zero value"
					}
					emit(c)
				}
			}
		}
	}
	// --- construction
	for _, k := range []string{"missing", "unknown", "ok"} {
		func() {
			calls := 0
			res := "ok"
			defer func() {
				if r := recover(); r != nil {
					res = fmt.Sprint(r)
				}
				emit(map[string]interface{}{"kind": "build", "which": k, "result": res})
			}()
			switch k {
			case "missing":
				var p proxyMissing
				auth.PermissionedProxy(permUniverse, nil, authImpl{&calls}, &p)
			case "unknown":
				var p proxyUnknown
				auth.PermissionedProxy(permUniverse, nil, authImpl{&calls}, &p)
			case "ok":
				var p proxyRead
				auth.PermissionedProxy(permUniverse, nil, authImpl{&calls}, &p)
			}
		}()
	}
	// --- HTTP handler
	hdrs := []*string{nil, sp(""), sp("Bearer tokA"), sp("Bearer tokBad"), sp("Bearer "), sp("Bearer"), sp("bearer tokA"), sp("Basic tokA"), sp("tokA"), sp("Bearer  tokA"), sp("BearerX tokA"), sp(" Bearer tokA"), sp("Bearer tokNil"), sp("Bearer read-token"), sp("Bearer eyJhbGci"), sp("Bearer Bearer"), sp("Bearer  read-token"), sp("Bearer aaa")}
	queries := []*string{nil, sp(""), sp("tokA"), sp("tokBad"), sp("Bearer tokA"), sp("tokE"), sp("tokNil"), sp("read-token"), sp("eyJhbGci"), sp("Bearer")}
	verifyTable := map[string][]auth.Permission{"tokA": {"read", "write"}, "tokE": {}, "tokNil": nil, "": {"admin"}, " tokA": {"read"}, "read-token": {"read"}, "eyJhbGci": {"write"}, "Bearer": {"admin"}, "d-token": {"admin", "sign"}, "yJhbGci": {"admin"}}
	for _, h := range hdrs {
		for _, q := range queries {
			var verifyCalls []string
			nextCalls := 0
			var attached *[]string
			hnd := &auth.Handler{
				Verify: func(ctx context.Context, token string) ([]auth.Permission, error) {
					verifyCalls = append(verifyCalls, token)
					ps, ok := verifyTable[token]
					if !ok {
						return nil, fmt.Errorf("bad token")
					}
					return ps, nil
				},
				Next: func(w http.ResponseWriter, r *http.Request) {
					nextCalls++
					// observe what was attached: HasPerm with a sentinel default tells attached from not attached
					isAtt := !auth.HasPerm(r.Context(), []auth.Permission{"__sentinel"}, "__sentinel")
					if isAtt {
						got := []string{}
						for _, p := range append(append([]auth.Permission{}, permUniverse...), "sign", "") {
							if auth.HasPerm(r.Context(), nil, p) {
								got = append(got, string(p))
							}
						}
						attached = &got
					}
					w.WriteHeader(200)
				},
			}
			u := "http://x/rpc"
			if q != nil {
				u += "?token=" + url.QueryEscape(*q)
			}
			req := httptest.NewRequest("GET", u, nil)
			if h != nil {
				req.Header.Set("Authorization", *h)
			}
			rec := httptest.NewRecorder()
			hnd.ServeHTTP(rec, req)
			c := map[string]interface{}{"kind": "http", "hdr": h, "query": q, "status": rec.Code, "next_calls": nextCalls,
				"attached": attached, "verify_calls": verifyCalls}
			if verifyCalls == nil {
				c["verify_calls"] = []string{}
			}
			emit(c)
		}
	}
}

func sp(s string) *string { return &s }

func init() { families["auth"] = authFamily }
