package main

import (
	"net"
	"sync"
	"time"
)

// faultProxy: a TCP proxy between the websocket client and server that can cut the link in three ways
// (FIN, RST, blackhole) at an exact byte offset of either direction, or on command.

type faultKind int

const (
	faultFIN faultKind = iota
	faultRST
	faultStall
	faultCloseFrame // the peer says goodbye with a WebSocket close frame (status 1000), then closes
)

func (k faultKind) String() string { return [...]string{"fin", "rst", "stall", "closeframe"}[k] }

type pconn struct {
	client, server net.Conn
	mu             sync.Mutex
	s2c, c2s       int64 // bytes forwarded
	trigDir        int   // 0 none, 1 server->client, 2 client->server
	trigAt         int64 // absolute offset in that direction at which to fault
	trigKind       faultKind
	stalled        bool
	stallS2C       bool // swallow server->client bytes only (the client "stops reading"), client->server keeps flowing
	holdOpen       bool // when the client side reaches EOF keep the server side open (a peer that said goodbye but lingers)
	dead           bool
	faulted        chan struct{}
}

type faultProxy struct {
	ln      net.Listener
	target  string
	mu      sync.Mutex
	conns   []*pconn
	accepts int
	refuse  bool // refuse (close immediately) new connections: the server is "unreachable"
	acceptT []time.Time
}

func newFaultProxy(target string) *faultProxy {
	ln, err := net.Listen("tcp", "127.0.0.1:0")
	if err != nil {
		panic(err)
	}
	p := &faultProxy{ln: ln, target: target}
	go p.loop()
	return p
}

func (p *faultProxy) addr() string { return p.ln.Addr().String() }

func (p *faultProxy) loop() {
	for {
		c, err := p.ln.Accept()
		if err != nil {
			return
		}
		p.mu.Lock()
		p.accepts++
		p.acceptT = append(p.acceptT, time.Now())
		refuse := p.refuse
		p.mu.Unlock()
		if refuse {
			c.Close()
			continue
		}
		s, err := net.Dial("tcp", p.target)
		if err != nil {
			c.Close()
			continue
		}
		pc := &pconn{client: c, server: s, faulted: make(chan struct{})}
		p.mu.Lock()
		p.conns = append(p.conns, pc)
		p.mu.Unlock()
		go pc.pump(s, c, 1)
		go pc.pump(c, s, 2)
	}
}

func (pc *pconn) pump(src, dst net.Conn, dir int) {
	buf := make([]byte, 32*1024)
	for {
		n, err := src.Read(buf)
		if n > 0 {
			b := buf[:n]
			for len(b) > 0 {
				pc.mu.Lock()
				if pc.dead {
					pc.mu.Unlock()
					return
				}
				if pc.stalled {
					pc.mu.Unlock()
					b = nil // swallow
					break
				}
				if pc.stallS2C && dir == 1 {
					pc.mu.Unlock()
					// do not even read on: let the server's socket buffer fill up
					time.Sleep(5 * time.Millisecond)
					continue
				}
				cnt := &pc.s2c
				if dir == 2 {
					cnt = &pc.c2s
				}
				allow := int64(len(b))
				fire := false
				if pc.trigDir == dir {
					if room := pc.trigAt - *cnt; room <= allow {
						if room < 0 {
							room = 0
						}
						allow = room
						fire = true
					}
				}
				pc.mu.Unlock()
				if allow > 0 {
					if _, werr := dst.Write(b[:allow]); werr != nil {
						pc.kill(faultFIN)
						return
					}
					pc.mu.Lock()
					*cnt += allow
					pc.mu.Unlock()
					b = b[allow:]
				}
				if fire {
					pc.mu.Lock()
					k := pc.trigKind
					pc.trigDir = 0
					pc.mu.Unlock()
					pc.kill(k)
					if k != faultStall {
						return
					}
					b = nil
				}
			}
		}
		if err != nil {
			pc.mu.Lock()
			hold := pc.holdOpen && dir == 2
			pc.mu.Unlock()
			if hold {
				return
			}
			pc.kill(faultFIN)
			return
		}
	}
}

func (pc *pconn) kill(k faultKind) {
	pc.mu.Lock()
	defer pc.mu.Unlock()
	if pc.dead {
		return
	}
	switch k {
	case faultCloseFrame:
		// only meaningful at a frame boundary (the scenarios use it on an idle link)
		pc.client.Write([]byte{0x88, 0x02, 0x03, 0xE8})
		time.Sleep(2 * time.Millisecond)
	case faultStall:
		if !pc.stalled {
			pc.stalled = true
			close(pc.faulted)
		}
		return
	case faultRST:
		if tc, ok := pc.client.(*net.TCPConn); ok {
			tc.SetLinger(0)
		}
		if tc, ok := pc.server.(*net.TCPConn); ok {
			tc.SetLinger(0)
		}
	}
	pc.dead = true
	pc.client.Close()
	pc.server.Close()
	if !pc.stalled {
		close(pc.faulted)
	}
}

// arm: fault after `more` further bytes in direction dir (1 = server->client, 2 = client->server)
func (pc *pconn) arm(dir int, more int64, k faultKind) {
	pc.mu.Lock()
	defer pc.mu.Unlock()
	pc.trigDir = dir
	pc.trigKind = k
	if dir == 1 {
		pc.trigAt = pc.s2c + more
	} else {
		pc.trigAt = pc.c2s + more
	}
}

func (p *faultProxy) current() *pconn {
	p.mu.Lock()
	defer p.mu.Unlock()
	if len(p.conns) == 0 {
		return nil
	}
	return p.conns[len(p.conns)-1]
}

func (p *faultProxy) setRefuse(b bool) { p.mu.Lock(); p.refuse = b; p.mu.Unlock() }
func (p *faultProxy) acceptCount() int { p.mu.Lock(); defer p.mu.Unlock(); return p.accepts }
func (p *faultProxy) acceptTimes() []time.Time {
	p.mu.Lock()
	defer p.mu.Unlock()
	return append([]time.Time{}, p.acceptT...)
}
func (p *faultProxy) close() {
	p.ln.Close()
	p.mu.Lock()
	cs := p.conns
	p.mu.Unlock()
	for _, c := range cs {
		c.kill(faultFIN)
	}
}
