package main

import (
	"context"
	"encoding/json"
	"errors"
	"fmt"
	"net/http/httptest"
	"strings"

	"github.com/filecoin-project/go-jsonrpc"
)

// family "errors" (C11): handler errors of several kinds x registration tables x shapes x transports.

type plainVal struct{ M string }

func (e plainVal) Error() string { return e.M }

type plainPtr struct{ M string }

func (e *plainPtr) Error() string { return e.M }

type marshErr struct {
	M string
	N int
}

func (e *marshErr) Error() string { return e.M }
func (e *marshErr) MarshalJSON() ([]byte, error) {
	return json.Marshal(struct {
		M string
		N int
	}{e.M, e.N})
}
func (e *marshErr) UnmarshalJSON(b []byte) error {
	var s struct {
		M string
		N int
	}
	if err := json.Unmarshal(b, &s); err != nil {
		return err
	}
	e.M, e.N = s.M, s.N
	return nil
}

type codecErr struct {
	C    int
	M    string
	Data interface{}
}

func (e *codecErr) Error() string { return e.M }
func (e *codecErr) ToJSONRPCError() (jsonrpc.JSONRPCError, error) {
	return jsonrpc.JSONRPCError{Code: jsonrpc.ErrorCode(e.C), Message: e.M, Data: e.Data}, nil
}
func (e *codecErr) FromJSONRPCError(j jsonrpc.JSONRPCError) error {
	e.C, e.M, e.Data = int(j.Code), j.Message, j.Data
	return nil
}

// codec AND marshalable: the codec must win on both sides
type bothErr struct {
	codecErr
	X int
}

func (e *bothErr) MarshalJSON() ([]byte, error) { return json.Marshal(struct{ X int }{e.X}) }
func (e *bothErr) UnmarshalJSON(b []byte) error {
	var s struct{ X int }
	if err := json.Unmarshal(b, &s); err != nil {
		return err
	}
	e.X = s.X
	return nil
}

type failUnmarshal struct{ M string }

func (e *failUnmarshal) Error() string                { return e.M }
func (e *failUnmarshal) MarshalJSON() ([]byte, error) { return json.Marshal(e.M) }
func (e *failUnmarshal) UnmarshalJSON(b []byte) error { return errors.New("refuse") }

type failFrom struct{ M string }

func (e *failFrom) Error() string { return e.M }
func (e *failFrom) ToJSONRPCError() (jsonrpc.JSONRPCError, error) {
	return jsonrpc.JSONRPCError{Code: 44, Message: e.M}, nil
}
func (e *failFrom) FromJSONRPCError(j jsonrpc.JSONRPCError) error { return errors.New("refuse") }

// a codec error that reads its data back as the type it put there (a string)
type dataErr struct {
	M string
	D string
}

func (e *dataErr) Error() string { return e.M }
func (e *dataErr) ToJSONRPCError() (jsonrpc.JSONRPCError, error) {
	return jsonrpc.JSONRPCError{Code: 46, Message: e.M, Data: e.D}, nil
}
func (e *dataErr) FromJSONRPCError(j jsonrpc.JSONRPCError) error {
	d, ok := j.Data.(string)
	if !ok {
		return fmt.Errorf("data is %T, not the string that was sent", j.Data)
	}
	e.M, e.D = j.Message, d
	return nil
}

// a codec error whose wire message is empty while its Error() text is not
type emptyMsgErr struct {
	M string // what arrived in the wire message (the sender leaves it empty)
	T string // the sender's own text, only in Error()
	D string
}

func (e *emptyMsgErr) Error() string { return "emc: " + e.T }
func (e *emptyMsgErr) ToJSONRPCError() (jsonrpc.JSONRPCError, error) {
	return jsonrpc.JSONRPCError{Code: 47, Message: "", Data: e.D}, nil
}
func (e *emptyMsgErr) FromJSONRPCError(j jsonrpc.JSONRPCError) error {
	d, _ := j.Data.(string)
	e.M, e.D = j.Message, d
	return nil
}

// registered in VALUE form; as is natural for such a type the reading half of the codec has a pointer receiver (it has to
// fill the value in), the rest have value receivers: only the pointer type is a full RPCErrorCodec
type valCodec struct{ M string }

func (e valCodec) Error() string { return e.M }
func (e valCodec) ToJSONRPCError() (jsonrpc.JSONRPCError, error) {
	return jsonrpc.JSONRPCError{Code: 48, Message: e.M}, nil
}
func (e *valCodec) FromJSONRPCError(j jsonrpc.JSONRPCError) error { e.M = j.Message; return nil }

type valReg struct{ M string } // registered as a value type; handlers may return the value or a pointer

func (e valReg) Error() string { return e.M }

type errHandler struct{}

func mkErr(kind int, msg string, n int) error {
	switch kind {
	case 0:
		return nil
	case 1:
		return plainVal{msg}
	case 2:
		return &plainPtr{msg}
	case 3:
		return &marshErr{msg, n}
	case 4:
		return &codecErr{C: 40 + n%3, M: msg, Data: map[string]interface{}{"n": n}}
	case 5:
		return &bothErr{codecErr: codecErr{C: 45, M: msg, Data: []interface{}{float64(n), "d"}}, X: n}
	case 6:
		return &failUnmarshal{msg}
	case 7:
		return &failFrom{msg}
	case 8:
		return errors.New(msg)
	case 9:
		return &valReg{msg} // pointer to a value-registered type: a different key
	case 10:
		return valReg{msg}
	case 11: // a registered marshalable error wrapped by the handler: the dynamic type returned is not registered
		return fmt.Errorf("ctx: %w", &marshErr{msg, n})
	case 12: // a codec error wrapped
		return fmt.Errorf("ctx: %w", &codecErr{C: 41, M: msg})
	case 13:
		return &dataErr{M: msg, D: fmt.Sprintf("payload-%d", n)}
	case 14:
		return &emptyMsgErr{T: msg, D: fmt.Sprintf("d-%d", n)}
	case 15:
		return valCodec{M: msg}
	}
	return nil
}

func (h *errHandler) Fail(ctx context.Context, kind int, msg string, n int) error {
	return mkErr(kind, msg, n)
}
func (h *errHandler) FailVal(ctx context.Context, kind int, msg string, n int) (int, error) {
	return 5, mkErr(kind, msg, n)
}

type errClient struct {
	Fail    func(ctx context.Context, kind int, msg string, n int) error
	FailVal func(ctx context.Context, kind int, msg string, n int) (int, error)
}

// registration tables: code -> kind (1..10 as in mkErr); the type object registered for a kind
func regType(kind int) interface{} {
	switch kind {
	case 1:
		return new(plainVal)
	case 2:
		return new(*plainPtr)
	case 3:
		return new(*marshErr)
	case 4:
		return new(*codecErr)
	case 5:
		return new(*bothErr)
	case 6:
		return new(*failUnmarshal)
	case 7:
		return new(*failFrom)
	case 10:
		return new(valReg)
	case 13:
		return new(*dataErr)
	case 14:
		return new(*emptyMsgErr)
	case 15:
		return new(valCodec)
	}
	return nil
}

func buildErrors(tab [][2]int) *jsonrpc.Errors {
	if tab == nil {
		return nil
	}
	e := jsonrpc.NewErrors()
	for _, r := range tab {
		e.Register(jsonrpc.ErrorCode(r[0]), regType(r[1]))
	}
	return &e
}

type errCase struct {
	Kind      int      `json:"kind"`
	Msg       string   `json:"msg"` // hex
	N         int      `json:"n"`
	Shape     string   `json:"shape"`
	Transport string   `json:"transport"`
	SReg      [][2]int `json:"sreg"` // nil = no registry
	CReg      [][2]int `json:"creg"`
	Nil       bool     `json:"nil"`
	Type      string   `json:"type"`
	ErrString string   `json:"error_string"` // hex
	Fields    string   `json:"fields"`       // JSON of what the typed error holds / of the generic error
	Val       int      `json:"val"`
	Oracle    string   `json:"oracle_fail,omitempty"`
}

func errorsFamily(seed uint64, tier string, args []string) {
	same := [][2]int{{11, 1}, {12, 2}, {13, 3}, {14, 4}, {15, 5}, {16, 6}, {17, 7}, {20, 10}, {46, 13}, {47, 14}, {48, 15}}
	disjoint := [][2]int{{21, 1}, {22, 2}, {23, 3}, {24, 4}, {25, 5}, {26, 6}, {27, 7}, {30, 10}}
	swapped := [][2]int{{11, 2}, {12, 1}, {13, 4}, {14, 3}, {15, 5}, {16, 6}, {17, 7}, {20, 10}, {40, 3}, {41, 4}, {42, 1}, {44, 3}, {45, 5}}
	codecCodes := [][2]int{{40, 4}, {41, 4}, {42, 4}, {44, 7}, {45, 5}, {13, 3}, {11, 1}, {46, 13}, {47, 14}}
	relations := []struct {
		name string
		s, c [][2]int
	}{
		{"same", same, same}, {"server-only", same, [][2]int{}}, {"client-only", [][2]int{}, same}, {"none", nil, nil},
		{"disjoint", same, disjoint}, {"swapped", same, swapped}, {"codec-codes", same, codecCodes}, {"client-nil", same, nil}, {"server-nil", nil, same},
	}
	msgs := []string{"boom", "", "with \"quotes\" and \\ and <tags> & ampersand", "unicode é 中 😀", "line\nbreak\ttab\x01", strings.Repeat("long ", 300)}
	r := newRng(seed)
	for ri, rel := range relations {
		srvOpts := []jsonrpc.ServerOption{}
		if se := buildErrors(rel.s); se != nil {
			srvOpts = append(srvOpts, jsonrpc.WithServerErrors(*se))
		}
		srv := jsonrpc.NewServer(srvOpts...)
		srv.Register("E", &errHandler{})
		ts := httptest.NewServer(srv)
		for _, transport := range []string{"http", "ws"} {
			var cl errClient
			copts := []jsonrpc.Option{}
			if ce := buildErrors(rel.c); ce != nil {
				copts = append(copts, jsonrpc.WithErrors(*ce))
			}
			addr := ts.URL
			if transport == "ws" {
				addr = "ws" + strings.TrimPrefix(ts.URL, "http")
			}
			closer, err := jsonrpc.NewMergeClient(context.Background(), addr, "E", []interface{}{&cl}, nil, copts...)
			if err != nil {
				panic(err)
			}
			for kind := 0; kind <= 15; kind++ {
				for mi, msg := range msgs {
					if tier == "quick" && (kind+mi+ri)%3 != 0 && mi > 1 {
						continue
					}
					for _, shape := range []string{"err", "valerr"} {
						n := r.intn(1000)
						c := errCase{Kind: kind, Msg: hexs([]byte(msg)), N: n, Shape: shape, Transport: transport, SReg: rel.s, CReg: rel.c}
						var e error
						if shape == "err" {
							e = cl.Fail(context.Background(), kind, msg, n)
						} else {
							c.Val, e = cl.FailVal(context.Background(), kind, msg, n)
						}
						c.Nil = e == nil
						if e != nil {
							c.Type = fmt.Sprintf("%T", e)
							c.ErrString = hexs([]byte(e.Error()))
							switch v := e.(type) {
							case *jsonrpc.JSONRPCError:
								b, _ := json.Marshal(v)
								c.Fields = string(b)
							case *codecErr:
								b, _ := json.Marshal(map[string]interface{}{"code": v.C, "message": v.M, "data": v.Data})
								c.Fields = string(b)
							case *dataErr:
								b, _ := json.Marshal(map[string]interface{}{"code": 46, "message": v.M, "data": v.D})
								c.Fields = string(b)
							case valCodec:
								b, _ := json.Marshal(map[string]interface{}{"code": 48, "message": v.M, "data": nil})
								c.Fields = string(b)
							case *emptyMsgErr:
								b, _ := json.Marshal(map[string]interface{}{"code": 47, "message": v.M, "data": v.D})
								c.Fields = string(b)
							case *bothErr:
								b, _ := json.Marshal(map[string]interface{}{"code": v.C, "message": v.M, "data": v.Data, "X": v.X})
								c.Fields = string(b)
							case *marshErr:
								b, _ := json.Marshal(struct {
									M string
									N int
								}{v.M, v.N})
								c.Fields = string(b)
							default:
								b, _ := json.Marshal(map[string]interface{}{"M": fmt.Sprint(reflectField(e))})
								c.Fields = string(b)
							}
						}
						// direct oracle (independent of the model): nil iff nil; value slot zero with an error; message preserved for
						// unregistered errors; an exact registered round trip keeps type and content
						switch {
						case kind == 0 && e != nil:
							c.Oracle = "handler returned nil but the caller got an error: " + e.Error()
						case kind != 0 && e == nil:
							c.Oracle = "handler returned an error but the caller got nil"
						case kind != 0 && shape == "valerr" && c.Val != 0:
							c.Oracle = fmt.Sprintf("caller got an error and a non-zero value %d", c.Val)
						case kind == 0 && shape == "valerr" && c.Val != 5:
							c.Oracle = fmt.Sprintf("handler returned 5, caller got %d", c.Val)
						case (kind == 11 || kind == 12) && e != nil && (c.Type != "*jsonrpc.JSONRPCError" || e.Error() != "ctx: "+msg || !strings.Contains(c.Fields, `"code":1,`)):
							c.Oracle = fmt.Sprintf("an unregistered (wrapping) error did not arrive as the generic error with code 1 and its message: %s %q %s", c.Type, e.Error(), c.Fields)
						case (rel.name == "same" || rel.name == "codec-codes") && kind == 13 && (c.Type != "*main.dataErr" || !strings.Contains(c.Fields, fmt.Sprintf(`"payload-%d"`, n))):
							c.Oracle = "a codec error registered under its code on both sides did not arrive as its type with the data it sent: " + c.Type + " " + c.Fields
						case codecCode(kind, n) != 0 && e != nil && c.Type == "*jsonrpc.JSONRPCError" && !strings.Contains(c.Fields, fmt.Sprintf(`"code":%d,`, codecCode(kind, n))):
							// whatever the server's table says: a codec-style error supplies its code itself
							c.Oracle = fmt.Sprintf("a codec-style error supplying code %d itself arrived as the generic error without that code: %s", codecCode(kind, n), c.Fields)
						case codecCode(kind, n) != 0 && e != nil && hasReg(rel.c, codecCode(kind, n), kind) && kind != 7 && c.Type == "*jsonrpc.JSONRPCError":
							c.Oracle = fmt.Sprintf("a codec-style error supplying code %d itself, registered under that code by the client (server table: %v), arrived as the generic error: %s", codecCode(kind, n), rel.s, c.Fields)
						case kind == 15 && rel.name == "same" && (c.Type != "main.valCodec" || !strings.Contains(c.Fields, `"message":`+mustQ(msg))):
							c.Oracle = "an error type registered in value form under the same code on both sides, whose pointer type is a codec, did not arrive as that type with its fields: " + c.Type + " " + c.Fields
						case kind == 14 && e != nil && c.Type == "*main.emptyMsgErr" && !strings.Contains(c.Fields, `"message":""`):
							c.Oracle = "a codec-style error whose own wire message is empty arrived with another message (the codec-provided fields must equal the original's): " + c.Fields
						case kind == 8 && e != nil && (c.Type != "*jsonrpc.JSONRPCError" || e.Error() != msg):
							c.Oracle = fmt.Sprintf("unregistered error did not arrive as the generic error with its message: %s %q", c.Type, e.Error())
						case rel.name == "same" && kind == 3 && (c.Type != "*main.marshErr" || c.Fields != fmt.Sprintf(`{"M":%s,"N":%d}`, mustQ(msg), n)):
							c.Oracle = "marshalable error registered under the same code on both sides did not round-trip: " + c.Type + " " + c.Fields
						case (rel.name == "same" || rel.name == "codec-codes") && kind == 5 && e != nil && c.Type == "*main.bothErr" && !strings.Contains(c.Fields, mustQ(msg)):
							c.Oracle = "codec-based error lost its codec-provided fields: " + c.Fields
						}
						emit(c)
					}
				}
			}
			closer()
		}
		ts.Close()
	}
}

// the code a codec-style error kind supplies itself (0: not a codec kind)
func codecCode(kind, n int) int {
	switch kind {
	case 4:
		return 40 + n%3
	case 5:
		return 45
	case 7:
		return 44
	case 13:
		return 46
	case 14:
		return 47
	}
	return 0
}

func hasReg(tab [][2]int, code, kind int) bool {
	for _, r := range tab {
		if r[0] == code && r[1] == kind {
			return true
		}
	}
	return false
}

func mustQ(s string) string { b, _ := json.Marshal(s); return string(b) }

func reflectField(e error) string {
	switch v := e.(type) {
	case plainVal:
		return v.M
	case *plainPtr:
		return v.M
	case *failUnmarshal:
		return v.M
	case *failFrom:
		return v.M
	case valReg:
		return v.M
	case *valReg:
		return v.M
	}
	return "?"
}

func init() { families["errors"] = errorsFamily }
