package main

import (
	"context"
	"fmt"
	"strings"
	"time"
)

// ---- keepalive scenarios (C17)

// healthy: ping interval below half the timeout on the client; the server pings at srvPing (0 = never, relies on
// answering pongs). A call several timeouts long, an idle gap of several timeouts, a subscription: nothing may drop.
func scenKeepHealthy(ping, timeout, srvPing time.Duration) *connRun {
	e := newConnEnv(connOpts{ping: ping, timeout: timeout, srvPing: srvPing, timeoutFirst: keepTimeoutFirst})
	params := map[string]interface{}{"ping_ms": ping.Milliseconds(), "timeout_ms": timeout.Milliseconds(), "srv_ping_ms": srvPing.Milliseconds(), "kind": "healthy",
		"after_redial": keepAfterRedial, "timeout_option_first": keepTimeoutFirst}
	expectAccepts := 1
	if keepAfterRedial {
		// the link under test is one the client obtained by redialling: keepalive must work there as on the first one
		w := e.call("echo", context.Background())
		e.waitEv(2*time.Second, func(ev tev) bool { return ev.Point == "call.return" && fmt.Sprint(ev.Args[0]) == fmt.Sprint(w) })
		e.proxy.current().kill(faultFIN)
		e.waitEv(3*time.Second, evIs("redial.swap", nil))
		expectAccepts = 2
		e.hold(2)
	}
	e.hold(1)
	long := e.call("waitctx", context.Background()) // handler runs for 3 timeouts
	e.waitEv(2*time.Second, evIs("h.start", long))
	time.Sleep(3 * timeout)
	e.release(long)
	e.waitEv(2*time.Second, func(ev tev) bool { return ev.Point == "call.return" && fmt.Sprint(ev.Args[0]) == fmt.Sprint(long) })
	time.Sleep(3 * timeout) // idle
	after := e.call("echo", context.Background())
	e.waitEv(2*time.Second, func(ev tev) bool { return ev.Point == "call.return" && fmt.Sprint(ev.Args[0]) == fmt.Sprint(after) })
	r := e.finish("keepalive", params)
	if r.Oracle == "" {
		r.Oracle = armedOracle(r, timeout)
	}
	if r.Oracle == "" {
		if r.Accepts != expectAccepts {
			r.Oracle = fmt.Sprintf("a healthy link (ping %v < timeout/2 = %v, server ping %v, after a redial: %v) was dropped and re-dialled %d time(s)", ping, timeout/2, srvPing, keepAfterRedial, r.Accepts-expectAccepts)
		}
		for _, c := range r.Calls {
			if c.Outcome != "ok" {
				r.Oracle = fmt.Sprintf("call %d failed on a healthy link: %s", c.Token, c.Outcome)
			}
		}
	}
	return r
}

// set around a scenKeepHealthy call: first force one reconnect, then test the redialled link
var keepAfterRedial bool

// set around a keepalive scenario: the client lists WithTimeout before WithPingInterval
var keepTimeoutFirst bool

// the client connection arms its read deadline with the configured timeout, whatever the order of the options
func armedOracle(r *connRun, timeout time.Duration) string {
	for _, ev := range r.Events {
		if ev.Point == "deadline.reset" && strings.HasPrefix(ev.Conn, "ws-client#") && len(ev.Args) > 0 {
			if fmt.Sprint(ev.Args[0]) != fmt.Sprint(int64(timeout)) {
				return fmt.Sprintf("the client arms its read deadline with %v ns although the configured timeout is %v (ping interval below half of it)", ev.Args[0], timeout)
			}
		}
	}
	return ""
}

// silent: the peer falls silent (blackhole, no close) at a given point; the client must notice within a bound given by
// its timeout, fail the pending call with the connection error and start reconnecting.
// when: "fresh" (right after the handshake, before any pong), "settled" (after traffic), "during-call"
func scenKeepSilent(ping, timeout time.Duration, when string, steadyCalls bool) *connRun {
	e := newConnEnv(connOpts{ping: ping, timeout: timeout, srvPing: 0, errors: true, timeoutFirst: keepTimeoutFirst})
	params := map[string]interface{}{"ping_ms": ping.Milliseconds(), "timeout_ms": timeout.Milliseconds(), "kind": "silent", "when": when, "steady_calls": steadyCalls, "heals": true,
		"timeout_option_first": keepTimeoutFirst}
	switch when {
	case "settled":
		w := e.call("echo", context.Background())
		e.waitEv(2*time.Second, func(ev tev) bool { return ev.Point == "call.return" && fmt.Sprint(ev.Args[0]) == fmt.Sprint(w) })
		time.Sleep(2 * ping)
	case "during-call":
		w := e.call("echo", context.Background())
		e.waitEv(2*time.Second, func(ev tev) bool { return ev.Point == "call.return" && fmt.Sprint(ev.Args[0]) == fmt.Sprint(w) })
	}
	pc := e.proxy.current()
	var pending int
	if when == "during-call" {
		e.hold(2)
		pending = e.call("waitctx", context.Background())
		e.waitEv(2*time.Second, evIs("h.start", pending))
	}
	pc.kill(faultStall)
	e.tr.ev("silent.begin")
	t0 := time.Now()
	if when != "during-call" {
		pending = e.call("echo", context.Background())
	}
	stopCalls := make(chan struct{})
	if steadyCalls {
		// the application keeps calling at intervals shorter than the timeout
		go func() {
			for {
				select {
				case <-stopCalls:
					return
				case <-time.After(timeout / 4):
					e.call("echo", context.Background())
				}
			}
		}()
	}
	bound := 3*timeout + time.Second
	noticed := e.waitEv(bound+time.Second, func(ev tev) bool { return ev.Point == "call.return" && fmt.Sprint(ev.Args[0]) == fmt.Sprint(pending) })
	detect := time.Since(t0)
	redial := e.waitEv(bound, evIs("reconn.begin", nil))
	close(stopCalls)
	e.releaseAllHolds()
	e.waitEv(3*time.Second, evIs("redial.swap", nil))
	probe := e.call("echo", context.Background())
	e.waitEv(3*time.Second, func(ev tev) bool { return ev.Point == "call.return" && fmt.Sprint(ev.Args[0]) == fmt.Sprint(probe) })
	e.waitCalls(3 * time.Second)
	params["detect_ms"] = detect.Milliseconds()
	r := e.finish("keepalive", params)
	if r.Oracle == "" || true {
		pendOut := ""
		for _, c := range r.Calls {
			if c.Token == pending {
				pendOut = c.Outcome
			}
		}
		switch {
		case !noticed || detect > bound:
			r.Oracle = fmt.Sprintf("silent peer (%s): the pending call was not failed within 3x timeout + 1s (timeout %v, waited %v)", when, timeout, detect)
		case pendOut != "connerr":
			r.Oracle = fmt.Sprintf("silent peer (%s): the pending call ended as %q instead of the connection error", when, pendOut)
		case !redial:
			r.Oracle = fmt.Sprintf("silent peer (%s): the client did not start reconnecting", when)
		default:
			r.Oracle = armedOracle(r, timeout)
		}
	}
	return r
}

func init() {
	connExtra = append(connExtra, func(which string, seed uint64, tier string) {
		if which == "all" || which == "keepalive" {
			type pt struct{ p, t time.Duration }
			pairs := []pt{{20 * time.Millisecond, 100 * time.Millisecond}, {40 * time.Millisecond, 100 * time.Millisecond}, {30 * time.Millisecond, 200 * time.Millisecond}}
			for i, x := range pairs {
				for _, sp := range []time.Duration{0, 5 * time.Second, x.p} {
					if tier == "quick" && i == 2 && sp == x.p {
						continue
					}
					emit(scenKeepHealthy(x.p, x.t, sp))
				}
			}
			keepAfterRedial = true
			emit(scenKeepHealthy(20*time.Millisecond, 100*time.Millisecond, 0))
			emit(scenKeepHealthy(30*time.Millisecond, 200*time.Millisecond, 5*time.Second))
			keepAfterRedial = false
			// the same with the options listed the other way round
			keepTimeoutFirst = true
			emit(scenKeepHealthy(40*time.Millisecond, 100*time.Millisecond, 0))
			emit(scenKeepSilent(50*time.Millisecond, 300*time.Millisecond, "settled", false))
			emit(scenKeepSilent(20*time.Millisecond, 100*time.Millisecond, "during-call", true))
			keepTimeoutFirst = false
			for _, when := range []string{"fresh", "settled", "during-call"} {
				emit(scenKeepSilent(20*time.Millisecond, 100*time.Millisecond, when, false))
				emit(scenKeepSilent(25*time.Millisecond, 120*time.Millisecond, when, true))
			}
			if tier == "thorough" {
				more := []pt{{15 * time.Millisecond, 60 * time.Millisecond}, {50 * time.Millisecond, 250 * time.Millisecond}, {28 * time.Millisecond, 60 * time.Millisecond},
					{10 * time.Millisecond, 300 * time.Millisecond}}
				for _, x := range more {
					for _, sp := range []time.Duration{0, x.p, x.t} {
						emit(scenKeepHealthy(x.p, x.t, sp))
					}
					for _, when := range []string{"fresh", "settled", "during-call"} {
						emit(scenKeepSilent(x.p, x.t, when, when != "settled"))
					}
				}
			}
		}
	})
}
