package main

import (
	"bytes"
	"context"
	"fmt"
	"io"
	"net/http/httptest"
	"sync"
	"time"

	"github.com/filecoin-project/go-jsonrpc"
)

// ---- the single-request transports: cancellation (C06) and closing (C18) over HTTP and a custom transport

type hsHandler struct {
	tr    *tracer
	mu    sync.Mutex
	holds map[int]chan struct{}
}

func (h *hsHandler) hold(tok int) chan struct{} {
	h.mu.Lock()
	defer h.mu.Unlock()
	if h.holds[tok] == nil {
		h.holds[tok] = make(chan struct{})
	}
	return h.holds[tok]
}

// Wait returns token when released, -token when its context is cancelled first
func (h *hsHandler) Wait(ctx context.Context, token int) (int, error) {
	h.tr.ev("h.start", token, "wait")
	select {
	case <-h.hold(token):
		h.tr.ev("h.end", token, false)
		return token, nil
	case <-ctx.Done():
		h.tr.ev("h.ctxdone", token)
		return -token, nil
	case <-time.After(4 * time.Second):
		h.tr.ev("h.end", token, false)
		return token, nil
	}
}

type hsClient struct {
	Wait func(ctx context.Context, token int) (int, error)
}

func newSingle(transport string, tr *tracer) (*hsHandler, *hsClient, jsonrpc.ClientCloser, func()) {
	h := &hsHandler{tr: tr, holds: map[int]chan struct{}{}}
	srv := jsonrpc.NewServer()
	srv.Register("C", h)
	ts := httptest.NewServer(srv)
	cl := &hsClient{}
	var closer jsonrpc.ClientCloser
	var err error
	if transport == "custom" {
		closer, err = jsonrpc.NewCustomClient("C", []interface{}{cl}, func(ctx context.Context, body []byte) (io.ReadCloser, error) {
			var buf bytes.Buffer
			srv.HandleRequest(ctx, bytes.NewReader(body), &buf)
			return io.NopCloser(&buf), nil
		})
	} else {
		closer, err = jsonrpc.NewMergeClient(context.Background(), ts.URL, "C", []interface{}{cl}, nil)
	}
	if err != nil {
		panic(err)
	}
	return h, cl, closer, func() { ts.CloseClientConnections(); go ts.Close() }
}

func waitTrace(tr *tracer, d time.Duration, f func(tev) bool) bool {
	dl := time.Now().Add(d)
	for time.Now().Before(dl) {
		for _, ev := range tr.snapshot() {
			if f(ev) {
				return true
			}
		}
		time.Sleep(500 * time.Microsecond)
	}
	return false
}

// two calls in progress, the caller of the first cancels: exactly that handler's context must end
func scenSingleCancel(transport string) *connRun {
	tr := newTracer()
	tr.install()
	h, cl, closer, stop := newSingle(transport, tr)
	run := &connRun{Scenario: "singlecancel", Params: map[string]interface{}{"transport": transport}, AllDone: true, CloserOK: true, Events: []tev{}}
	ctx1, cancel1 := context.WithCancel(context.Background())
	var wg sync.WaitGroup
	res := make([]int, 3)
	errs := make([]error, 3)
	for i, c := range []context.Context{ctx1, context.Background()} {
		wg.Add(1)
		go func(i int, c context.Context) {
			defer wg.Done()
			res[i+1], errs[i+1] = cl.Wait(c, i+1)
		}(i, c)
	}
	started := waitTrace(tr, 2*time.Second, evIs("h.start", 1)) && waitTrace(tr, 2*time.Second, evIs("h.start", 2))
	tr.ev("ctx.cancel", 1)
	cancel1()
	got := waitTrace(tr, 2*time.Second, evIs("h.ctxdone", 1))
	time.Sleep(20 * time.Millisecond)
	other := waitTrace(tr, time.Millisecond, evIs("h.ctxdone", 2))
	close(h.hold(2))
	close(h.hold(1))
	wg.Wait()
	switch {
	case !started:
	case !got:
		run.Oracle = fmt.Sprintf("over %s the caller of call 1 cancelled its context while the call was in progress; the context of its handler was still live 2s later", transport)
	case other:
		run.Oracle = fmt.Sprintf("over %s the context of call 2's handler was cancelled although only call 1 was cancelled", transport)
	case errs[2] != nil || res[2] != 2:
		run.Oracle = fmt.Sprintf("over %s the call that was not cancelled returned (%d, %v)", transport, res[2], errs[2])
	}
	closer()
	stop()
	run.Events = tr.snapshot()
	tr.uninstall()
	return run
}

// the closer of a single-request client returns at once and does not disturb a call in progress
func scenSingleClose(transport string) *connRun {
	tr := newTracer()
	tr.install()
	h, cl, closer, stop := newSingle(transport, tr)
	run := &connRun{Scenario: "singleclose", Params: map[string]interface{}{"transport": transport}, AllDone: true, CloserOK: true, Events: []tev{}}
	var v int
	var err error
	done := make(chan struct{})
	go func() { defer close(done); v, err = cl.Wait(context.Background(), 1) }()
	started := waitTrace(tr, 2*time.Second, evIs("h.start", 1))
	t0 := time.Now()
	closed := make(chan struct{})
	go func() { closer(); close(closed) }()
	select {
	case <-closed:
	case <-time.After(time.Second):
		run.CloserOK = false
	}
	took := time.Since(t0)
	time.Sleep(10 * time.Millisecond)
	interrupted := waitTrace(tr, time.Millisecond, evIs("h.ctxdone", 1))
	close(h.hold(1))
	select {
	case <-done:
	case <-time.After(3 * time.Second):
		run.AllDone = false
	}
	switch {
	case !started:
	case !run.CloserOK:
		run.Oracle = fmt.Sprintf("the closer of the %s client had not returned after 1s with a call in progress", transport)
	case took > 500*time.Millisecond:
		run.Oracle = fmt.Sprintf("the closer of the %s client took %v with a call in progress", transport, took)
	case interrupted:
		run.Oracle = fmt.Sprintf("closing the %s client cancelled the context of the call in progress", transport)
	case !run.AllDone:
		run.Oracle = fmt.Sprintf("the call in progress when the %s client was closed never returned", transport)
	case err != nil || v != 1:
		run.Oracle = fmt.Sprintf("the call in progress when the %s client was closed returned (%d, %v) instead of its genuine result", transport, v, err)
	}
	stop()
	run.Events = tr.snapshot()
	tr.uninstall()
	return run
}

func init() {
	connExtra = append(connExtra, func(which string, seed uint64, tier string) {
		if which == "all" || which == "cancel" {
			emit(scenSingleCancel("http"))
			emit(scenSingleCancel("custom"))
		}
		if which == "all" || which == "close" {
			emit(scenSingleClose("http"))
			emit(scenSingleClose("custom"))
		}
	})
}
