package main

import (
	"bufio"
	"context"
	"encoding/hex"
	"encoding/json"
	"fmt"
	"net/http"
	"net/http/httptest"
	"os"
	"os/exec"
	"strings"
	"sync"
	"time"

	"github.com/filecoin-project/go-jsonrpc"
	"github.com/gorilla/websocket"
)

// family "ws-frames" (C10, C09 ws half): raw frames to a real server (role=server) and from a fake server to a
// real client (role=client). The library side runs in a worker subprocess so that a crash of the frame
// executor (which runs on a bare goroutine) is observed as the death of the worker, not of the harness.

type wsFrame struct {
	Hex    string `json:"hex"`
	Binary bool   `json:"binary,omitempty"`
}

type wsBatchObs struct {
	Role     string    `json:"role"`
	Frames   []wsFrame `json:"frames"`
	Received []string  `json:"received"` // hex of every data frame the library sent back (server role)
	Invs     []invRec  `json:"invs"`
	ProbeOK  bool      `json:"probe_ok"`
	Closed   []int     `json:"conn_closed_after"` // frame indices after which the library closed the connection
	Crashed  int       `json:"crashed_at"`        // -1, or index of the frame after which the worker died
	CrashLog string    `json:"crash_log,omitempty"`
	ChanVals []int     `json:"chan_vals"` // client role: values delivered to the subscribed channel
	ChanOpen bool      `json:"chan_open"` // client role: channel still open at the end
	Oracle   string    `json:"oracle_fail,omitempty"`
}

// ---- worker (library side)

func wsWorker(role string) {
	sc := bufio.NewScanner(os.Stdin)
	sc.Buffer(make([]byte, 1<<20), 1<<26)
	var frames []wsFrame
	for sc.Scan() {
		var f wsFrame
		if err := json.Unmarshal(sc.Bytes(), &f); err == nil {
			frames = append(frames, f)
		}
	}
	out := bufio.NewWriter(os.Stdout)
	progress := func(i int) { fmt.Fprintf(out, "SENT %d\n", i); out.Flush() }
	obs := wsBatchObs{Role: role, Crashed: -1, Received: []string{}, Closed: []int{}, ChanVals: []int{}}
	if role == "server" {
		wsWorkerServer(frames, &obs, progress)
	} else {
		// "client": a client with a reverse handler; "client-plain": one without (the default): call frames from the
		// server have nothing to run there and must be ignored, not crash the process
		wsWorkerClient(frames, &obs, progress, role == "client")
	}
	b, _ := json.Marshal(obs)
	fmt.Fprintf(out, "DONE %s\n", b)
	out.Flush()
}

func wsWorkerServer(frames []wsFrame, obs *wsBatchObs, progress func(int)) {
	l := &invLog{}
	srv := newStdServer(0, -1, l)
	ts := httptest.NewServer(srv)
	defer ts.Close()
	url := "ws" + strings.TrimPrefix(ts.URL, "http")
	var mu sync.Mutex
	dial := func() (*websocket.Conn, chan struct{}) {
		conn, _, err := websocket.DefaultDialer.Dial(url, nil)
		if err != nil {
			panic(err)
		}
		done := make(chan struct{})
		go func() {
			defer close(done)
			for {
				_, msg, err := conn.ReadMessage()
				if err != nil {
					return
				}
				mu.Lock()
				obs.Received = append(obs.Received, hex.EncodeToString(msg))
				mu.Unlock()
			}
		}()
		return conn, done
	}
	conn, done := dial()
	probeN := 0
	probe := func() bool {
		probeN++
		id := fmt.Sprintf("probe-%d", probeN)
		want := fmt.Sprintf(`"id":"%s"`, id)
		if err := conn.WriteMessage(websocket.TextMessage, []byte(fmt.Sprintf(`{"jsonrpc":"2.0","id":"%s","method":"H.ErrNil"}`, id))); err != nil {
			return false
		}
		deadline := time.Now().Add(3 * time.Second)
		for time.Now().Before(deadline) {
			mu.Lock()
			for _, r := range obs.Received {
				b, _ := hex.DecodeString(r)
				if strings.Contains(string(b), want) {
					mu.Unlock()
					return true
				}
			}
			mu.Unlock()
			select {
			case <-done:
				return false
			case <-time.After(time.Millisecond):
			}
		}
		return false
	}
	for i, f := range frames {
		b, _ := hex.DecodeString(f.Hex)
		mt := websocket.TextMessage
		if f.Binary {
			mt = websocket.BinaryMessage
		}
		err := conn.WriteMessage(mt, b)
		progress(i)
		closed := err != nil
		if !closed && (i%64 == 63 || i == len(frames)-1) {
			if !probe() {
				closed = true
			}
		}
		select {
		case <-done:
			closed = true
		default:
		}
		if closed {
			obs.Closed = append(obs.Closed, i)
			conn.Close()
			conn, done = dial()
		}
	}
	obs.ProbeOK = probe()
	time.Sleep(30 * time.Millisecond)
	conn.Close()
	for _, iv := range l.take() {
		if iv.Name != "ErrNil" { // the probe's own method
			obs.Invs = append(obs.Invs, iv)
		}
	}
	if obs.Invs == nil {
		obs.Invs = []invRec{}
	}
}

type clientProxy struct {
	Block func(ctx context.Context) (int, error)
	Sub   func(ctx context.Context) (<-chan int, error)
	Ping  func(ctx context.Context) (int, error)
}

type revHandler struct{ l *invLog }

func (r *revHandler) Const() int        { r.l.add("Const"); return 42 }
func (r *revHandler) EchoInt(a int) int { r.l.add("EchoInt", a); return a }
func (r *revHandler) Add(a, b int) int  { r.l.add("Add", a, b); return a + b }
func (r *revHandler) Noop()             { r.l.add("Noop") }
func (r *revHandler) Panic()            { r.l.add("Panic"); panic("kaboom in a client-side handler") }

func wsWorkerClient(frames []wsFrame, obs *wsBatchObs, progress func(int), withHandler bool) {
	// fake server: accepts one connection, answers Sub with channel id 5, never answers Block, answers Ping
	var up = websocket.Upgrader{}
	type srvConn struct {
		c  *websocket.Conn
		mu sync.Mutex
	}
	connCh := make(chan *srvConn, 4)
	reqs := make(chan map[string]interface{}, 1024)
	ts := httptest.NewServer(http.HandlerFunc(func(w http.ResponseWriter, r *http.Request) {
		c, err := up.Upgrade(w, r, nil)
		if err != nil {
			return
		}
		sc := &srvConn{c: c}
		connCh <- sc
		for {
			_, msg, err := c.ReadMessage()
			if err != nil {
				return
			}
			var m map[string]interface{}
			if json.Unmarshal(msg, &m) == nil {
				reqs <- m
			}
		}
	}))
	defer ts.Close()
	l := &invLog{}
	var cl clientProxy
	copts := []jsonrpc.Option{jsonrpc.WithNoReconnect(), jsonrpc.WithPingInterval(0)}
	if withHandler {
		copts = append(copts, jsonrpc.WithClientHandler("R", &revHandler{l}))
	}
	closer, err := jsonrpc.NewMergeClient(context.Background(), "ws"+strings.TrimPrefix(ts.URL, "http"), "H", []interface{}{&cl}, nil, copts...)
	if err != nil {
		panic(err)
	}
	defer closer()
	sc := <-connCh
	send := func(mt int, b []byte) error {
		sc.mu.Lock()
		defer sc.mu.Unlock()
		return sc.c.WriteMessage(mt, b)
	}
	waitReq := func(method string) interface{} {
		for {
			select {
			case m := <-reqs:
				if m["method"] == method {
					return m["id"]
				}
			case <-time.After(3 * time.Second):
				return nil
			}
		}
	}
	// 1. a blocked call (stays in flight)
	blockDone := make(chan error, 1)
	go func() { _, err := cl.Block(context.Background()); blockDone <- err }()
	blockID := waitReq("H.Block")
	// 2. a live subscription with channel id 5
	subCh := make(chan (<-chan int), 1)
	go func() {
		ch, err := cl.Sub(context.Background())
		if err != nil {
			subCh <- nil
			return
		}
		subCh <- ch
	}()
	subID := waitReq("H.Sub")
	sb, _ := json.Marshal(map[string]interface{}{"jsonrpc": "2.0", "id": subID, "result": 5})
	_ = send(websocket.TextMessage, sb)
	ch := <-subCh
	var vmu sync.Mutex
	open := ch != nil
	if ch != nil {
		go func() {
			for v := range ch {
				vmu.Lock()
				obs.ChanVals = append(obs.ChanVals, v)
				vmu.Unlock()
			}
			vmu.Lock()
			open = false
			vmu.Unlock()
		}()
	}
	// 3. hostile frames
	for i, f := range frames {
		b, _ := hex.DecodeString(f.Hex)
		mt := websocket.TextMessage
		if f.Binary {
			mt = websocket.BinaryMessage
		}
		if err := send(mt, b); err != nil {
			obs.Closed = append(obs.Closed, i)
			break
		}
		progress(i)
	}
	// 4. probe: a fresh call must round-trip, and the blocked call must complete once answered
	pingDone := make(chan error, 1)
	go func() { _, err := cl.Ping(context.Background()); pingDone <- err }()
	pid := waitReq("H.Ping")
	pb, _ := json.Marshal(map[string]interface{}{"jsonrpc": "2.0", "id": pid, "result": 1})
	_ = send(websocket.TextMessage, pb)
	ok := false
	select {
	case err := <-pingDone:
		ok = err == nil
	case <-time.After(3 * time.Second):
	}
	bb, _ := json.Marshal(map[string]interface{}{"jsonrpc": "2.0", "id": blockID, "result": 2})
	_ = send(websocket.TextMessage, bb)
	select {
	case <-blockDone:
	case <-time.After(3 * time.Second):
		ok = false
	}
	obs.ProbeOK = ok
	time.Sleep(30 * time.Millisecond)
	vmu.Lock()
	obs.ChanOpen = open
	vmu.Unlock()
	obs.Invs = l.take()
	// the in-flight ids the model needs
	obs.Received = []string{hex.EncodeToString(mustJSON(blockID)), hex.EncodeToString(mustJSON(subID))}
}

func mustJSON(v interface{}) []byte { b, _ := json.Marshal(v); return b }

// ---- parent

func runWsBatch(role string, frames []wsFrame) []wsBatchObs {
	var outs []wsBatchObs
	rest := frames
	for len(rest) > 0 {
		cmd := exec.Command(os.Args[0], "ws-worker", role)
		cmd.Env = append(os.Environ(), "GOLOG_LOG_LEVEL=fatal")
		stdin, _ := cmd.StdinPipe()
		stdout, _ := cmd.StdoutPipe()
		var stderr strings.Builder
		cmd.Stderr = &stderr
		if err := cmd.Start(); err != nil {
			panic(err)
		}
		go func() {
			enc := json.NewEncoder(stdin)
			for _, f := range rest {
				_ = enc.Encode(f)
			}
			stdin.Close()
		}()
		last := -1
		var obs *wsBatchObs
		sc := bufio.NewScanner(stdout)
		sc.Buffer(make([]byte, 1<<20), 1<<28)
		for sc.Scan() {
			line := sc.Text()
			if strings.HasPrefix(line, "SENT ") {
				fmt.Sscanf(line, "SENT %d", &last)
			} else if strings.HasPrefix(line, "DONE ") {
				var o wsBatchObs
				if json.Unmarshal([]byte(line[5:]), &o) == nil {
					obs = &o
				}
			}
		}
		_ = cmd.Wait()
		if obs != nil {
			obs.Frames = rest
			outs = append(outs, *obs)
			break
		}
		// the worker died: the frame sent last is the crasher (the executor handles frames one at a time)
		if last < 0 {
			last = 0
		}
		lg := stderr.String()
		if i := strings.Index(lg, "panic:"); i >= 0 {
			lg = lg[i:]
		}
		if len(lg) > 1200 {
			lg = lg[:1200]
		}
		o := wsBatchObs{Role: role, Frames: rest[:last+1], Crashed: last, CrashLog: lg, Received: []string{}, Closed: []int{}, ChanVals: []int{}, Invs: []invRec{}}
		b, _ := hex.DecodeString(rest[last].Hex)
		o.Oracle = fmt.Sprintf("the process hosting the %s died after frame %q: %s", role, string(b), firstLine(lg))
		outs = append(outs, o)
		rest = rest[last+1:]
	}
	return outs
}

func firstLine(s string) string {
	if i := strings.Index(s, "\n"); i >= 0 {
		return s[:i]
	}
	return s
}

func wsFramesFamily(seed uint64, tier string, args []string) {
	r := newRng(seed)
	methods := []string{`"H.Const"`, `"H.EchoInt"`, `"H.Add"`, `"H.Noop"`, `"H.Panic"`, `"H.Chan"`, `"H.Nope"`, `"xrpc.cancel"`, `"xrpc.ch.val"`, `"xrpc.ch.close"`, `""`, ``}
	xs := []string{`1`, `"s"`, `true`, `null`, `[1]`, `{"a":1}`, `18446744073709551616`, `-1`, `1.5`, `0`, `5`}
	ys := []string{`7`, `"t"`, `null`, `[2]`}
	var params []string
	params = append(params, ``, `null`, `[]`, `{}`, `"x"`)
	for _, x := range xs {
		params = append(params, `[`+x+`]`)
		for _, y := range ys {
			params = append(params, `[`+x+`,`+y+`]`)
		}
	}
	mk := func(role string) []wsFrame {
		var frames []wsFrame
		n := 0
		add := func(s string) { frames = append(frames, wsFrame{Hex: hex.EncodeToString([]byte(s))}); n++ }
		// corpus: witnesses of the repaired remote-crash defects first
		for _, s := range []string{
			`{"method":"xrpc.cancel","params":[]}`, `{"method":"xrpc.cancel","params":null}`, `{"method":"xrpc.cancel","params":[[1]]}`,
			`{"method":"xrpc.cancel","params":[{"a":1}]}`, `{"method":"xrpc.ch.close","params":[]}`, `{"method":"xrpc.ch.val","params":[5]}`,
			`{"method":"xrpc.ch.val","params":[]}`, `{"method":"xrpc.cancel"}`, `{"method":"xrpc.ch.val"}`, `{"method":"xrpc.ch.close","params":null}`,
			`{"jsonrpc":"2.0","id":[1],"method":"H.Const"}`, `{"id":{"a":1},"method":"xrpc.cancel","params":[1]}`, `{"id":true,"result":1}`,
			`{"id":12345,"result":1}`, `{"id":"nope","error":{"code":1,"message":"m"}}`, `{"id":1,"error":5}`, `{"id":1,"error":{"code":"x"}}`,
			``, `x`, `{`, `[]`, `null`, `5`, `"s"`, `{}`, `[{"id":1,"method":"H.Const"}]`, `{"method":5}`, `{"method":"H.Const","params":5}`,
		} {
			add(s)
		}
		// the meta member: a span context of every length (the library's own client sends 29 bytes = 40 base64 characters),
		// valid and invalid base64, on calls and notifications
		constM := `"H.Const"`
		if role == "client" {
			constM = `"R.Const"`
		}
		for i, sc := range []string{"", "AAAA", strings.Repeat("A", 39) + "=", strings.Repeat("A", 40), strings.Repeat("A", 44), strings.Repeat("QUJD", 16),
			strings.Repeat("A", 400), "!!!not-base64", strings.Repeat("A", 43) + "="} {
			add(fmt.Sprintf(`{"jsonrpc":"2.0","id":%d,"method":%s,"meta":{"SpanContext":%q}}`, 9000+i, constM, sc))
			add(fmt.Sprintf(`{"jsonrpc":"2.0","method":%s,"meta":{"SpanContext":%q,"other":"x"}}`, constM, sc))
		}
		for mi, m := range methods {
			for pi, p := range params {
				for ii := 0; ii < 8; ii++ {
					if tier == "quick" && (mi*7+pi*3+ii)%3 != int(seed%3) && mi < 7 {
						continue // plain calls are thinned in the quick tier; built-ins are always exhaustive
					}
					var mem []string
					if role == "client" && strings.HasPrefix(m, `"H.`) && (pi+ii)%2 == 0 {
						m = `"R.` + m[3:] // the client's own (reverse) handler table is registered under R
					}
					if m != `` {
						mem = append(mem, `"method":`+m)
					}
					if p != `` {
						mem = append(mem, `"params":`+p)
					}
					id := ``
					switch ii {
					case 0:
					case 1:
						id = `null`
					case 2:
						id = fmt.Sprintf(`%d`, 100000+n)
					case 3:
						id = fmt.Sprintf(`"s%d"`, n)
					case 4:
						id = fmt.Sprintf(`%d.5`, 100000+n)
					case 5:
						id = `true`
					case 6:
						id = `[1]`
					case 7:
						id = `{}`
					}
					if role == "client" && (ii == 2 || ii == 3 || ii == 4) {
						// ids 1 and 2 are the client's in-flight calls: never answer them from the hostile stream
						id = fmt.Sprintf(`%d`, 100000+n)
					}
					if id != `` {
						mem = append(mem, `"id":`+id)
					}
					if m == `""` || m == `` {
						switch (pi + ii) % 4 {
						case 0:
							mem = append(mem, `"result":1`)
						case 1:
							mem = append(mem, `"error":{"code":1,"message":"m"}`)
						case 2:
							mem = append(mem, `"error":{"code":"x"}`)
						}
					}
					add(`{"jsonrpc":"2.0",` + strings.Join(mem, ",") + `}`)
				}
			}
		}
		// mutations and non-text frames
		nm := 300
		if tier == "thorough" {
			nm = 20000
		}
		base := len(frames)
		for i := 0; i < nm; i++ {
			b, _ := hex.DecodeString(frames[r.intn(base)].Hex)
			b = mutate(r, b)
			bin := r.chance(5)
			if !bin {
				// a text frame that is not UTF-8 is a WebSocket-level violation that legitimately closes the connection
				b = []byte(strings.ToValidUTF8(string(b), "?"))
			}
			if inexactID(b) {
				continue // a numeric id that float64 cannot hold: echoed rounded (outside the model's domain, see httpbodies.go)
			}
			frames = append(frames, wsFrame{Hex: hex.EncodeToString(b), Binary: bin})
		}
		return frames
	}
	for _, role := range []string{"server", "client", "client-plain"} {
		frames := mk(strings.TrimSuffix(role, "-plain"))
		if role == "client-plain" {
			// the same stream thinned: what matters here are the call frames
			var th []wsFrame
			for i, f := range frames {
				if i%5 == int(seed%5) || i < 40 {
					th = append(th, f)
				}
			}
			frames = th
		}
		if role != "server" {
			// the client role has per-connection state (one subscription, one blocked call): smaller batches, fresh worker each
			for i := 0; i < len(frames); i += 400 {
				j := i + 400
				if j > len(frames) {
					j = len(frames)
				}
				for _, o := range runWsBatch(role, frames[i:j]) {
					if !o.ProbeOK && o.Crashed < 0 && o.Oracle == "" && len(o.Closed) == 0 {
						o.Oracle = "after the hostile frames the client no longer completes calls (probe failed)"
					}
					emit(o)
				}
			}
			continue
		}
		for i := 0; i < len(frames); i += 1500 {
			j := i + 1500
			if j > len(frames) {
				j = len(frames)
			}
			for _, o := range runWsBatch(role, frames[i:j]) {
				if !o.ProbeOK && o.Crashed < 0 && o.Oracle == "" {
					o.Oracle = "after the hostile frames the server no longer answers a valid call (probe failed)"
				}
				emit(o)
			}
		}
	}
}

func init() {
	families["ws-frames"] = wsFramesFamily
	families["ws-worker"] = func(seed uint64, tier string, args []string) {
		if args[0] == "storm" {
			var c, p, g int
			fmt.Sscan(args[1], &c)
			fmt.Sscan(args[2], &p)
			fmt.Sscan(args[3], &g)
			stormWorker(c, p, g, args[4])
			return
		}
		wsWorker(args[0])
	}
}
