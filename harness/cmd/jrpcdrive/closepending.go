package main

import (
	"context"
	"encoding/json"
	"fmt"
	"net/http"
	"net/http/httptest"
	"strings"
	"sync"
	"time"

	"github.com/filecoin-project/go-jsonrpc"
	"github.com/gorilla/websocket"
)

// family "close-pending" (C18): calls whose response never becomes usable (the peer answers a subscribing call with
// something that is not a channel id, answers with a foreign id, or does not answer at all) are in flight when the
// closer is invoked: the closer returns and every one of those calls returns.

type closePendingObs struct {
	Answer      string `json:"answer"` // what the fake server replied to the call ("" = nothing)
	Method      string `json:"method"`
	EarlyReturn bool   `json:"returned_before_close"`
	Returned    bool   `json:"returned_after_close"`
	CloserOK    bool   `json:"closer_returned"`
	Err         string `json:"err,omitempty"`
	Oracle      string `json:"oracle_fail,omitempty"`
	// the hook trace of the client connection, replayed through Conn.step like the traces of family conn
	Scenario string                 `json:"scenario"`
	Params   map[string]interface{} `json:"params"`
	Events   []tev                  `json:"events"`
	Calls    []*callRec             `json:"calls"`
}

func closePendingCase(method, answer string) (o closePendingObs) {
	o = closePendingObs{Answer: answer, Method: method, Scenario: "close-pending", Params: map[string]interface{}{"method": method, "answer": answer}, Calls: []*callRec{}}
	tr := newTracer()
	tr.install()
	defer func() {
		time.Sleep(5 * time.Millisecond)
		o.Events = tr.snapshot()
		tr.uninstall()
	}()
	up := websocket.Upgrader{}
	reqs := make(chan map[string]interface{}, 16)
	var connMu sync.Mutex
	var conn *websocket.Conn
	ts := httptest.NewServer(http.HandlerFunc(func(w http.ResponseWriter, r *http.Request) {
		c, err := up.Upgrade(w, r, nil)
		if err != nil {
			return
		}
		connMu.Lock()
		conn = c
		connMu.Unlock()
		for {
			_, msg, err := c.ReadMessage()
			if err != nil {
				return
			}
			var m map[string]interface{}
			if json.Unmarshal(msg, &m) == nil {
				reqs <- m
			}
		}
	}))
	defer ts.Close()
	var cl clientProxy
	closer, err := jsonrpc.NewMergeClient(context.Background(), "ws"+strings.TrimPrefix(ts.URL, "http"), "H", []interface{}{&cl}, nil,
		jsonrpc.WithNoReconnect(), jsonrpc.WithPingInterval(0))
	if err != nil {
		o.Oracle = "client construction failed: " + err.Error()
		return o
	}
	done := make(chan error, 1)
	go func() {
		var err error
		if method == "Sub" {
			_, err = cl.Sub(context.Background())
		} else {
			_, err = cl.Block(context.Background())
		}
		done <- err
	}()
	var id interface{}
	select {
	case m := <-reqs:
		id = m["id"]
	case <-time.After(3 * time.Second):
		o.Oracle = "the request never reached the peer"
	}
	if answer != "" && o.Oracle == "" {
		idb, _ := json.Marshal(id)
		frame := strings.ReplaceAll(answer, "$ID", string(idb))
		connMu.Lock()
		_ = conn.WriteMessage(websocket.TextMessage, []byte(frame))
		connMu.Unlock()
	}
	time.Sleep(40 * time.Millisecond)
	select {
	case err := <-done:
		o.EarlyReturn = true
		o.Returned = true
		if err != nil {
			o.Err = err.Error()
		}
	default:
	}
	closed := make(chan struct{})
	go func() { closer(); close(closed) }()
	select {
	case <-closed:
		o.CloserOK = true
	case <-time.After(3 * time.Second):
	}
	if !o.Returned {
		select {
		case err := <-done:
			o.Returned = true
			if err != nil {
				o.Err = err.Error()
			}
		case <-time.After(3 * time.Second):
		}
	}
	if len(o.Err) > 200 {
		o.Err = o.Err[:200]
	}
	switch {
	case o.Oracle != "":
	case !o.CloserOK:
		o.Oracle = fmt.Sprintf("the closer did not return (call %s in flight, peer had answered %q)", method, answer)
	case !o.Returned:
		o.Oracle = fmt.Sprintf("the closer returned but the call %s that was in flight (peer had answered %q) never returned", method, answer)
	}
	return o
}

func init() {
	families["close-pending"] = func(seed uint64, tier string, args []string) {
		answers := []string{
			"",
			`{"jsonrpc":"2.0","id":$ID,"result":"not-a-channel-id"}`,
			`{"jsonrpc":"2.0","id":$ID,"result":-1}`,
			`{"jsonrpc":"2.0","id":$ID,"result":1.5}`,
			`{"jsonrpc":"2.0","id":$ID,"result":{"ch":1}}`,
			`{"jsonrpc":"2.0","id":$ID,"result":[1]}`,
			`{"jsonrpc":"2.0","id":$ID,"result":18446744073709551616}`,
			`{"jsonrpc":"2.0","id":99999,"result":1}`,
			`{"jsonrpc":"2.0","id":$ID,"result":true}`,
		}
		for _, m := range []string{"Sub", "Block"} {
			for _, a := range answers {
				emit(closePendingCase(m, a))
			}
		}
	}
}
