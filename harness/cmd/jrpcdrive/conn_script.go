package main

import (
	"context"
	"fmt"
	"strings"
	"sync"
	"time"
)

// ---- scripted subscription lifetimes (C06 C07 C08): subscriptions of one client opened, fed, ended, cancelled and cut
// off by a connection loss in an arbitrary interleaving. After every step each subscription that is still open on a
// healthy connection and was not cancelled by its caller must be untouched: handler context live, channel open, values
// still arriving, closing when its handler closes.
//
// script items: "oX" open subscription X (value 0 is produced at once), "pX" let X's handler produce value 1,
// "eX" let X's handler finish and close its channel, "cX" the caller cancels X's context, "F" the connection is lost
// (FIN) and the client reconnects.
type scriptSub struct {
	name      string
	tok       int
	cancel    context.CancelFunc
	gate      chan struct{}
	gateOnce  sync.Once
	pushed    bool
	cancelled bool
	ended     bool
	dead      bool // its connection was lost
}

func (s *scriptSub) live() bool { return !s.cancelled && !s.ended && !s.dead }

func scenSubScript(script []string) *connRun {
	e := newConnEnv(connOpts{})
	e.watchCtx = true
	params := map[string]interface{}{"script": strings.Join(script, " ")}
	subs := map[string]*scriptSub{}
	var order []*scriptSub
	var gmu sync.Mutex
	gates := map[int]chan struct{}{}
	e.prodGate = func(token, i int) {
		if i != 1 {
			return
		}
		gmu.Lock()
		g := gates[token]
		gmu.Unlock()
		if g != nil {
			<-g
		}
	}
	seen := func(point string, tok int, val ...int) bool {
		for _, ev := range e.tr.snapshot() {
			if ev.Point == point && len(ev.Args) > 0 && fmt.Sprint(ev.Args[0]) == fmt.Sprint(tok) {
				if len(val) == 0 || (len(ev.Args) > 1 && fmt.Sprint(ev.Args[1]) == fmt.Sprint(val[0])) {
					return true
				}
			}
		}
		return false
	}
	wait := func(d time.Duration, point string, tok int, val ...int) bool {
		deadline := time.Now().Add(d)
		for {
			if seen(point, tok, val...) {
				return true
			}
			if time.Now().After(deadline) {
				return false
			}
			time.Sleep(2 * time.Millisecond)
		}
	}
	oracle := ""
	fail := func(format string, a ...interface{}) {
		if oracle == "" {
			oracle = fmt.Sprintf(format, a...)
		}
	}
	// warm-up
	w := e.call("echo", context.Background())
	e.waitEv(2*time.Second, func(ev tev) bool { return ev.Point == "call.return" && fmt.Sprint(ev.Args[0]) == fmt.Sprint(w) })
	done := 0
	for si, item := range script {
		if oracle != "" {
			break
		}
		done = si + 1
		op, name := item[:1], item[1:]
		s := subs[name]
		switch op {
		case "o":
			e.nextTok++
			tok := int(e.nextTok)
			s = &scriptSub{name: name, tok: tok, gate: make(chan struct{})}
			subs[name] = s
			order = append(order, s)
			gmu.Lock()
			gates[tok] = s.gate
			gmu.Unlock()
			e.hold(tok)
			ctx, cancel := context.WithCancel(context.Background())
			s.cancel = cancel
			e.tr.ev("call.issue", tok, "sub")
			var ch <-chan int
			var err error
			if name == strings.ToLower(name) {
				// lower-case names: the subscribing method has the channel as its only result
				ch = e.cl.SubOnly(ctx, tok, 2)
				if ch == nil {
					err = fmt.Errorf("nil channel")
				}
			} else {
				ch, err = e.cl.Sub(ctx, tok, 2)
			}
			if err != nil {
				e.tr.ev("call.return", tok, "other:"+err.Error())
				fail("step %d (%s): opening subscription %s failed: %v", si, item, name, err)
				s.dead = true
				break
			}
			e.tr.ev("call.return", tok, "ok")
			go func() {
				for v := range ch {
					e.tr.ev("cons.recv", tok, v)
				}
				e.tr.ev("cons.closed", tok)
			}()
			if !wait(2*time.Second, "cons.recv", tok, tok*1000) {
				fail("step %d (%s): the first value of subscription %s never reached its channel", si, item, name)
			}
		case "p":
			s.gateOnce.Do(func() { close(s.gate) })
			if s.live() && !s.pushed {
				if !wait(2*time.Second, "cons.recv", s.tok, s.tok*1000+1) {
					fail("step %d (%s): subscription %s is open on a healthy connection and was not cancelled, yet the value its handler sent never reached its channel", si, item, name)
				}
			}
			s.pushed = true
		case "e":
			wasLive := s.live()
			s.gateOnce.Do(func() { close(s.gate) })
			e.release(s.tok)
			if wasLive {
				if !wait(2*time.Second, "cons.closed", s.tok) {
					fail("step %d (%s): the handler of subscription %s closed its channel but the caller's channel was not closed", si, item, name)
				} else if !seen("cons.recv", s.tok, s.tok*1000+1) {
					fail("step %d (%s): subscription %s was closed without its second value", si, item, name)
				}
			}
			s.pushed, s.ended = true, true
		case "c":
			wasLive := s.live()
			e.tr.ev("ctx.cancel", s.tok)
			s.cancel()
			if wasLive {
				if !wait(2*time.Second, "h.ctxwatch", s.tok) {
					fail("step %d (%s): subscription %s was cancelled by its caller but its handler context was not", si, item, name)
				}
				if !wait(2*time.Second, "cons.closed", s.tok) {
					fail("step %d (%s): subscription %s was cancelled by its caller but its channel was not closed", si, item, name)
				}
			}
			s.cancelled = true
		case "F":
			e.proxy.current().kill(faultFIN)
			var lost []*scriptSub
			for _, x := range order {
				if x.live() {
					lost = append(lost, x)
				}
				if !x.ended && !x.cancelled {
					x.dead = true
				}
			}
			if !e.waitEv(3*time.Second, evIs("redial.swap", nil)) {
				fail("step %d (F): the client did not reconnect", si)
			}
			for _, x := range lost {
				if !wait(2*time.Second, "cons.closed", x.tok) {
					fail("step %d (F): the channel of subscription %s was not closed when its connection was lost", si, x.name)
				}
			}
			// the swap event precedes the restart of the reader: let a probe round-trip before going on
			pr := e.call("echo", context.Background())
			e.waitEv(3*time.Second, func(ev tev) bool { return ev.Point == "call.return" && fmt.Sprint(ev.Args[0]) == fmt.Sprint(pr) })
		}
		time.Sleep(15 * time.Millisecond)
		for _, x := range order {
			if !x.live() {
				continue
			}
			if seen("h.ctxwatch", x.tok) {
				fail("after step %d (%s): the handler context of subscription %s was cancelled although its caller did not cancel it and its connection is healthy", si, item, x.name)
			}
			if seen("cons.closed", x.tok) {
				fail("after step %d (%s): the channel of subscription %s was closed although neither its handler closed it nor its caller cancelled nor was its connection lost", si, item, x.name)
			}
		}
	}
	params["steps_done"] = done
	for _, x := range order {
		x.gateOnce.Do(func() { close(x.gate) })
	}
	e.releaseAllHolds()
	e.waitCalls(3 * time.Second)
	r := e.finish("subscript", params)
	for _, x := range order {
		x.cancel()
	}
	if r.Oracle == "" {
		r.Oracle = oracle
	}
	if r.Oracle == "" {
		// every channel handed to the caller has been closed by now (the client is closed)
		for _, x := range order {
			if !wait(time.Second, "cons.closed", x.tok) {
				r.Oracle = fmt.Sprintf("the channel of subscription %s was never closed although the client was closed", x.name)
			}
		}
	}
	return r
}

func subScripts(seed uint64, tier string) [][]string {
	f := strings.Fields
	out := [][]string{
		f("oA oB cA oC cC pB eB"), // a subscription opened after an earlier one ended, then cancelled: the older one is untouched
		f("oA oB eA oC eC pB cB"), // same with handler-side closes
		f("oA oB oC cB oD pA cD pC eA eC"),
		f("oA F oB cA pB eB"), // the old subscription's context is cancelled after the reconnect: the new one (same channel id) lives
		f("oA oB F oC oD cB pC cA pD eC eD"),
		f("oA pA F oB F oC cA cB pC eC"),
		f("oA eA F oB pB cB"),
		f("ox oB px cB ex"), // a subscribing method whose only result is the channel
		f("oA oy ey pA F oz pz ez"),
	}
	n := 4
	if tier == "thorough" {
		n = 60
	}
	r := newRng(seed ^ 0x5c21)
	for i := 0; i < n; i++ {
		var s []string
		names := []string{}
		state := map[string]int{} // 0 open, 1 pushed, 2 finished (ended or cancelled)
		faults := 0
		steps := 6 + r.intn(8)
		for len(s) < steps {
			k := r.intn(10)
			var open []string
			for _, nm := range names {
				if state[nm] < 2 {
					open = append(open, nm)
				}
			}
			switch {
			case k < 3 && len(names) < 6 || len(open) == 0 && len(names) < 6:
				nm := string(rune('A' + len(names)))
				names = append(names, nm)
				state[nm] = 0
				s = append(s, "o"+nm)
			case k == 3 && faults < 2:
				faults++
				s = append(s, "F")
			case len(open) > 0:
				nm := open[r.intn(len(open))]
				switch r.intn(3) {
				case 0:
					if state[nm] == 0 {
						state[nm] = 1
						s = append(s, "p"+nm)
					} else {
						state[nm] = 2
						s = append(s, "e"+nm)
					}
				case 1:
					state[nm] = 2
					s = append(s, "e"+nm)
				case 2:
					state[nm] = 2
					s = append(s, "c"+nm)
				}
			default:
				s = append(s, "F")
				faults++
				if faults > 3 {
					steps = len(s)
				}
			}
		}
		// whoever is still open is fed and ended at the end
		for _, nm := range names {
			if state[nm] < 2 {
				s = append(s, "e"+nm)
			}
		}
		out = append(out, s)
	}
	return out
}

func init() {
	connExtra = append(connExtra, func(which string, seed uint64, tier string) {
		if which == "all" || which == "subscript" {
			for _, s := range subScripts(seed, tier) {
				emit(scenSubScript(s))
			}
		}
	})
}
