package main

import (
	"bytes"
	"context"
	"encoding/json"
	"fmt"
	"math/big"
	"net/http/httptest"
	"regexp"
	"strconv"
	"strings"
	"unicode/utf8"
)

// family "http-bodies": HTTP request bodies from a JSON-RPC grammar and its mutations, through
// RPCServer.ServeHTTP (httptest recorder) and RPCServer.HandleRequest.

type methodInfo struct {
	name   string
	params []string // int str bool ints any ; "raw" = RawParams
}

var stdMethods = []methodInfo{
	{"Noop", nil}, {"Const", nil}, {"Err", nil}, {"ErrNil", nil}, {"ValErr", []string{"bool"}}, {"EchoInt", []string{"int"}},
	{"Add", []string{"int", "int"}}, {"EchoStr", []string{"str"}}, {"Not", []string{"bool"}}, {"Sum", []string{"ints"}},
	{"Raw1", []string{"any"}}, {"RawP", []string{"raw"}}, {"Panic", nil}, {"PanicInt", []string{"int"}}, {"Ctx", []string{"int"}},
	{"Chan", nil}, {"CodeErr", []string{"int"}}, {"PanicNilMap", nil}, {"PanicDeref", nil}, {"PanicCustom", nil}, {"PanicAbort", nil}, {"PanicOpaque", nil}, {"PanicCoded", nil},
}

var intPool = []string{"0", "1", "-1", "42", "-0", "9007199254740991", "-9007199254740991", "9223372036854775807", "-9223372036854775808", "123456789"}
var badIntPool = []string{"1.5", "1e2", "9223372036854775808", "\"5\"", "true", "[1]", "{}", "1.0"}
var strPool = []string{`""`, `"a"`, `"hello world"`, `"<script>&amp;"`, `"line\nbreak\ttab"`, `"q\"uote\\back"`, `"é中"`, `"é中😀"`, `"😀"`, `"\u0001\u001f"`, `"a/b\/c"`, `" "`}
var anyPool = []string{`null`, `1`, `"s"`, `true`, `[1,"a",null]`, `{"k":[1,2],"j":{"x":null}}`, `1.25`, `-2.5e-1`, `[]`, `{}`, `"<>"`}
var idPool = []string{`1`, `0`, `-7`, `42`, `9007199254740991`, `1.5`, `0.25`, `1e3`, `-2.5e-1`, `"a"`, `""`, `"id with space"`, `"é"`, `"7"`, `"q\"x"`, `12345678`, `2.5E+2`}
var badIdPool = []string{`true`, `false`, `[1]`, `{"a":1}`, `[]`, `{}`}

type genReq struct {
	text   string
	idText string // "" = absent/null (notification)
	badID  bool
	valid  bool // decodes into the request struct without type errors
	runs   int  // 1: the handler must run; 0: it must not; -1: not predicted by the generator
}

func (r *rng) pick(xs []string) string { return xs[r.intn(len(xs))] }

func genArg(r *rng, ty string, ok bool) string {
	switch ty {
	case "int":
		if ok {
			if r.chance(10) {
				return "null"
			}
			return r.pick(intPool)
		}
		return r.pick(badIntPool)
	case "str":
		if ok {
			if r.chance(10) {
				return "null"
			}
			return r.pick(strPool)
		}
		return r.pick([]string{"1", "true", "[]", "{}"})
	case "bool":
		if ok {
			return r.pick([]string{"true", "false", "null"})
		}
		return r.pick([]string{"1", "\"true\"", "[]", "0"})
	case "ints":
		if ok {
			return r.pick([]string{"[]", "null", "[1,2,3]", "[0]", "[-5,5,null]", "[9007199254740991,1]"})
		}
		return r.pick([]string{"[1.5]", "[\"a\"]", "1", "{}", "\"x\"", "[[1]]"})
	default:
		return r.pick(anyPool)
	}
}

func methodName(fmtIdx int, m string) string {
	return formatterOf(fmtIdx)("H", m)
}

func genRequest(r *rng, fmtIdx int) genReq {
	g := genReq{valid: true, runs: -1}
	var members []string
	known := false
	// method
	mi := stdMethods[r.intn(len(stdMethods))]
	mtext := ""
	switch c := r.intn(100); {
	case c < 70:
		mtext = fmt.Sprintf("%q", methodName(fmtIdx, mi.name))
		known = true
	case c < 78:
		mtext = r.pick([]string{`"Alias.Const"`, `"Alias.Missing"`, `"A2"`, `"H.EchoInt"`, `"H.Const"`, `"H.const"`, `"Const"`, `"const"`, `"H_Const"`})
	case c < 86:
		mtext = r.pick([]string{`"H.Nope"`, `""`, `"h.Const"`, `"H.CONST"`, `"xrpc.cancel"`, `"xrpc.ch.val"`, `"H.Const "`, `"H..Const"`, `".Const"`, `"H."`})
	case c < 90:
		mtext = "null"
	case c < 93:
		mtext = r.pick([]string{"5", "true", "[]", "{}"})
		g.valid = false
	default:
		mtext = "" // absent
	}
	if mtext != "" {
		key := "method"
		if r.chance(4) {
			key = r.pick([]string{"Method", "METHOD", "mEthod"})
		}
		members = append(members, fmt.Sprintf("%q:%s", key, mtext))
	}
	isRaw := len(mi.params) == 1 && mi.params[0] == "raw"
	setRuns := func(v int) {
		if known {
			g.runs = v
			if mi.name == "Chan" {
				g.runs = 0
			}
		}
	}
	// params
	switch c := r.intn(100); {
	case c < 55: // right arity, right types
		setRuns(1)
		var as []string
		for _, t := range mi.params {
			if t == "raw" {
				as = []string{r.pick(anyPool), r.pick(intPool)}
				break
			}
			as = append(as, genArg(r, t, true))
		}
		if len(mi.params) == 1 && mi.params[0] == "raw" && r.chance(40) {
			members = append(members, `"params":`+r.pick(anyPool))
		} else if len(as) == 0 && r.chance(50) {
			if r.chance(50) {
				members = append(members, `"params":null`)
			}
		} else {
			members = append(members, `"params":[`+strings.Join(as, ",")+`]`)
		}
	case c < 70: // wrong arity
		setRuns(0)
		if isRaw {
			setRuns(1)
		}
		n := len(mi.params) + 1
		if len(mi.params) > 0 && r.bool() {
			n = len(mi.params) - 1
		}
		if r.chance(20) {
			n = len(mi.params) + 2
		}
		var as []string
		for i := 0; i < n; i++ {
			as = append(as, r.pick(anyPool))
		}
		members = append(members, `"params":[`+strings.Join(as, ",")+`]`)
	case c < 85: // right arity, one wrong type
		setRuns(0)
		if len(mi.params) == 0 || isRaw || mi.params[0] == "any" {
			setRuns(1)
		}
		var as []string
		bad := -1
		if len(mi.params) > 0 {
			bad = r.intn(len(mi.params))
		}
		for i, t := range mi.params {
			as = append(as, genArg(r, t, i != bad))
		}
		members = append(members, `"params":[`+strings.Join(as, ",")+`]`)
	case c < 92:
		pv := r.pick([]string{`{}`, `{"a":1}`, `"x"`, `5`, `true`, `null`, `[]`})
		members = append(members, `"params":`+pv)
		setRuns(0)
		if isRaw || ((pv == "null" || pv == "[]") && len(mi.params) == 0) {
			setRuns(1)
		}
	default:
		setRuns(0)
		if isRaw || len(mi.params) == 0 {
			setRuns(1)
		}
	}
	// id
	switch c := r.intn(100); {
	case c < 60:
		g.idText = r.pick(idPool)
		members = append(members, `"id":`+g.idText)
	case c < 68:
		members = append(members, `"id":null`)
	case c < 76:
		g.badID = true
		if g.runs >= 0 {
			g.runs = 0
		}
		g.idText = r.pick(badIdPool)
		members = append(members, `"id":`+g.idText)
	case c < 80: // duplicate id: later wins
		first := r.pick(idPool)
		g.idText = r.pick(idPool)
		members = append(members, `"id":`+first, `"ID":`+g.idText)
	default:
	}
	// jsonrpc
	switch c := r.intn(100); {
	case c < 70:
		members = append(members, `"jsonrpc":"2.0"`)
	case c < 78:
		members = append(members, `"jsonrpc":`+r.pick([]string{`"1.0"`, `null`, `""`}))
	case c < 82:
		members = append(members, `"jsonrpc":`+r.pick([]string{`2`, `true`, `[]`}))
		g.valid = false
	default:
	}
	// meta / unknown
	if r.chance(6) {
		members = append(members, `"meta":`+r.pick([]string{`{"a":"b"}`, `null`, `{}`}))
	} else if r.chance(3) {
		members = append(members, `"meta":`+r.pick([]string{`5`, `{"a":1}`, `"x"`, `[]`}))
		g.valid = false
	}
	if r.chance(8) {
		members = append(members, r.pick([]string{`"extra":1`, `"result":5`, `"error":null`, `"x":{"id":99}`}))
	}
	// shuffle
	for i := len(members) - 1; i > 0; i-- {
		j := r.intn(i + 1)
		members[i], members[j] = members[j], members[i]
	}
	// duplicate-id order must be preserved: regenerate order if both id keys present and swapped
	if strings.Contains(strings.Join(members, ","), `"ID":`) {
		var a, b int = -1, -1
		for i, m := range members {
			if strings.HasPrefix(m, `"id":`) {
				a = i
			}
			if strings.HasPrefix(m, `"ID":`) {
				b = i
			}
		}
		if a > b && a >= 0 && b >= 0 {
			members[a], members[b] = members[b], members[a]
		}
	}
	sep := ","
	if r.chance(15) {
		sep = r.pick([]string{", ", " ,\n", ",\t"})
	}
	g.text = "{" + strings.Join(members, sep) + "}"
	return g
}

var padPool = []string{" ", "\n", "\t", "\r\n", "  \n", "\v", "\f", " ", "\u0085", " \t\r\n\v\f "}

var mutAlphabet = []byte("{}[]:,\"\\ 0a-.eE+tfn")

func mutate(r *rng, b []byte) []byte {
	if len(b) == 0 {
		return []byte(r.pick([]string{"x", "{", "[", "]", "null", "0"}))
	}
	switch r.intn(9) {
	case 0: // truncate
		return b[:r.intn(len(b))]
	case 1: // delete one byte
		i := r.intn(len(b))
		return append(append([]byte{}, b[:i]...), b[i+1:]...)
	case 2: // insert an ASCII byte
		i := r.intn(len(b) + 1)
		c := mutAlphabet[r.intn(len(mutAlphabet))]
		return append(append(append([]byte{}, b[:i]...), c), b[i:]...)
	case 3: // replace a byte
		i := r.intn(len(b))
		c := mutAlphabet[r.intn(len(mutAlphabet))]
		o := append([]byte{}, b...)
		o[i] = c
		return o
	case 4: // trailing garbage
		return append(append([]byte{}, b...), []byte(r.pick([]string{" x", "]", "}", ",", " 1", " {}", "[]", " null", "\x00"}))...)
	case 5: // two values
		return append(append(append([]byte{}, b...), ' '), b...)
	case 6: // duplicate a slice
		i := r.intn(len(b))
		j := i + r.intn(len(b)-i)
		return append(append(append([]byte{}, b[:j]...), b[i:j]...), b[j:]...)
	case 7: // leading garbage
		return append([]byte(r.pick([]string{"x", ",", "]", "}", "\x00", "\xef\xbb\xbf"})), b...)
	default: // wrap
		return append(append([]byte("["), b...), ']')
	}
}

type httpCase struct {
	Kind        string   `json:"kind"` // structured | mutated | special | size
	Fmt         int      `json:"fmt"`
	Max         int64    `json:"max"`  // -1 = default
	Via         string   `json:"via"`  // servehttp | handlerequest
	Body        string   `json:"body"` // hex
	Status      int      `json:"status"`
	Reply       string   `json:"reply"` // hex
	Invs        []invRec `json:"invs"`
	Expect      []string `json:"expect,omitempty"` // structured only: per request "id:<text>" | "notif" | "badid"
	Runs        int      `json:"expect_runs"`      // structured only: number of handler executions the generator predicts, -1 unknown
	Batch       bool     `json:"batch"`
	Oracle      string   `json:"oracle_fail,omitempty"`
	Escaped     string   `json:"escaped_panic,omitempty"`
	OutOfDomain bool     `json:"out_of_domain,omitempty"` // body is not valid UTF-8, or carries a numeric id that float64 cannot hold exactly (Go decodes ids into float64: such an id is echoed rounded or refused; the property quantifies over ids it can represent): outside the model's fidelity domain (still run, still judged by the direct oracle)
}

func hexs(b []byte) string { return fmt.Sprintf("%x", b) }

type serverSet struct {
	l    *invLog
	srvs map[[2]int64]interface {
		HandleRequest(ctx context.Context, r interface{ Read([]byte) (int, error) }, w interface{ Write([]byte) (int, error) })
	}
}

func runHTTPCase(l *invLog, c *httpCase, body []byte) {
	srv := newStdServer(c.Fmt, c.Max, l)
	l.take()
	c.Body = hexs(body)
	defer func() {
		if p := recover(); p != nil {
			c.Invs = l.take()
			c.Escaped = fmt.Sprint(p)
			c.Oracle = "a panic escaped the library into the hosting process: " + c.Escaped
		}
	}()
	if c.Via == "handlerequest" {
		var out bytes.Buffer
		srv.HandleRequest(context.Background(), bytes.NewReader(body), &out)
		c.Status = 0
		c.Reply = hexs(out.Bytes())
	} else {
		req := httptest.NewRequest("POST", "/rpc", bytes.NewReader(body))
		rec := httptest.NewRecorder()
		srv.ServeHTTP(rec, req)
		c.Status = rec.Code
		c.Reply = hexs(rec.Body.Bytes())
	}
	c.Invs = l.take()
	c.OutOfDomain = !utf8.Valid(body) || inexactID(body)
	c.Oracle = httpOracle(c, body)
}

// direct oracle for C09/C10/C12/C13 (independent of the Coq model)
func httpOracle(c *httpCase, body []byte) string {
	reply, _ := hexDecode(c.Reply)
	if len(bytes.TrimSpace(reply)) == 0 {
		// empty reply: only for bodies made solely of notifications; for structured bodies we know
		if c.Kind == "structured" {
			for _, e := range c.Expect {
				if e != "notif" {
					return "empty reply although the body holds a request that is not a notification: " + e
				}
			}
		}
		return ""
	}
	var v interface{}
	dec := json.NewDecoder(bytes.NewReader(reply))
	if err := dec.Decode(&v); err != nil {
		return "reply is not a JSON value: " + err.Error()
	}
	if dec.More() {
		return "reply holds more than one JSON value"
	}
	checkObj := func(o interface{}) (id interface{}, isErr bool, code float64, msg string) {
		m, ok := o.(map[string]interface{})
		if !ok {
			return nil, false, 0, "response is not an object"
		}
		if m["jsonrpc"] != "2.0" {
			return nil, false, 0, "response without jsonrpc 2.0"
		}
		if _, ok := m["id"]; !ok {
			return nil, false, 0, "response without id member"
		}
		_, hr := m["result"]
		e, he := m["error"]
		if hr == he {
			return nil, false, 0, "response must carry exactly one of result / error"
		}
		if he {
			em, ok := e.(map[string]interface{})
			if !ok {
				return nil, false, 0, "error member is not an object"
			}
			cf, ok := em["code"].(float64)
			if !ok {
				return nil, false, 0, "error without numeric code"
			}
			if _, ok := em["message"].(string); !ok {
				return nil, false, 0, "error without message"
			}
			return m["id"], true, cf, ""
		}
		return m["id"], false, 0, ""
	}
	var elems []interface{}
	if arr, ok := v.([]interface{}); ok {
		if !c.Batch && c.Kind == "structured" {
			return "array reply to a single request"
		}
		elems = arr
	} else {
		if c.Batch && c.Kind == "structured" && c.Status == 200 {
			return "non-array reply to a batch"
		}
		elems = []interface{}{v}
	}
	// the protocol errors the property names, for bodies within the size limit: nothing but white space is an empty
	// request (-32600), a body that is not JSON text is a parse error (-32700)
	if _, isArr := v.([]interface{}); !isArr && (c.Max < 0 || int64(len(body)) <= c.Max) && utf8.Valid(body) {
		tb := bytes.TrimSpace(body)
		_, isErr, code, bad := checkObj(v)
		if bad == "" {
			switch {
			case len(tb) == 0 && !(isErr && code == -32600):
				return fmt.Sprintf("an empty request (%d bytes of white space) must be answered with -32600, got error=%v code=%v", len(body), isErr, code)
			case len(tb) > 0 && !json.Valid(tb) && !(isErr && code == -32700):
				return fmt.Sprintf("a body that is not JSON must be answered with -32700, got error=%v code=%v", isErr, code)
			}
		}
	}
	var gotIDs []string
	for _, e := range elems {
		id, isErr, code, bad := checkObj(e)
		if bad != "" {
			return bad
		}
		tb := bytes.TrimSpace(body)
		looksBatch := len(tb) > 0 && tb[0] == '[' && tb[len(tb)-1] == ']'
		if isErr && (code == -32700 || code == -32600 || code == -32601 || code == -32602) && !looksBatch && len(c.Invs) > 0 {
			return fmt.Sprintf("a handler ran although the request was rejected with %v", code)
		}
		if id != nil {
			b, _ := json.Marshal(id)
			gotIDs = append(gotIDs, string(b))
		}
	}
	if c.Kind == "structured" && c.Status == 200 {
		var want []string
		for _, e := range c.Expect {
			if strings.HasPrefix(e, "id:") {
				var iv interface{}
				_ = json.Unmarshal([]byte(e[3:]), &iv)
				b, _ := json.Marshal(iv)
				want = append(want, string(b))
			}
		}
		if strings.Join(want, "\x00") != strings.Join(gotIDs, "\x00") {
			return fmt.Sprintf("ids of id-bearing requests %v are not echoed one-to-one in order: got %v", want, gotIDs)
		}
		// one response object per request that is not a notification: a request whose id cannot be used (object, array,
		// boolean) is answered too, with id null
		answered := 0
		for _, e := range c.Expect {
			if e != "notif" {
				answered++
			}
		}
		// (a notification that cannot be dispatched is answered with an id-null error as well, so there may be more)
		if c.Batch && len(elems) < answered {
			return fmt.Sprintf("the batch holds %d request(s) that are not notifications (%v) but the reply holds only %d response object(s)", answered, c.Expect, len(elems))
		}
	}
	// a handler that panicked: its caller's error says so (whatever the panic's payload was, a registered error type included)
	if !c.Batch && len(elems) == 1 && len(c.Invs) == 1 && strings.HasPrefix(c.Invs[0].Name, "Panic") {
		if m, ok := elems[0].(map[string]interface{}); ok {
			em, _ := m["error"].(map[string]interface{})
			msg, _ := em["message"].(string)
			if em == nil || !strings.Contains(msg, "panic") {
				return fmt.Sprintf("handler %s panicked but its caller's reply does not mention a panic: %s", c.Invs[0].Name, truncate(string(reply), 200))
			}
		}
	}
	// an alias is followed for one hop only: "A2" names the alias "Alias.Const" (itself an alias, not a method) and
	// "Alias.Missing" names a method that does not exist; neither may run anything
	if !c.Batch && len(elems) == 1 {
		var rq struct {
			Method string `json:"method"`
		}
		if json.Unmarshal(bytes.TrimSpace(body), &rq) == nil && (rq.Method == "A2" || rq.Method == "Alias.Missing") {
			_, isErr, code, _ := checkObj(elems[0])
			if len(c.Invs) > 0 || !isErr {
				return fmt.Sprintf("method %q is an alias whose target is not a registered method: it must be refused and run nothing (ran %d, error=%v code=%v)", rq.Method, len(c.Invs), isErr, code)
			}
		}
	}
	if c.Kind == "structured" && c.Runs >= 0 && len(c.Invs) != c.Runs {
		return fmt.Sprintf("%d handler executions, but by arity/type/method/id of the generated requests exactly %d must run", len(c.Invs), c.Runs)
	}
	if c.Kind == "size" {
		if int64(len(body)) > c.Max && (len(c.Invs) > 0 || len(elems) != 1) {
			return "oversize body was not refused without running a handler"
		}
	}
	return ""
}

func hexDecode(s string) ([]byte, error) {
	b := make([]byte, len(s)/2)
	_, err := fmt.Sscanf(s, "%x", &b)
	return b, err
}

func httpBodiesFamily(seed uint64, tier string, args []string) {
	l := &invLog{}
	r := newRng(seed)
	n := 1500
	if tier == "thorough" {
		n = 40000
	}
	emitCase := func(c *httpCase, body []byte) {
		runHTTPCase(l, c, body)
		emit(c)
	}
	// corpus: the witnesses of the repaired defects and a few fixed shapes run first
	corpus := []string{
		`[{"jsonrpc":"2.0","method":"H.Noop"},{"jsonrpc":"2.0","id":1,"method":"H.Const"}]`,
		`[{"jsonrpc":"2.0","id":1,"method":"H.Const"},{"jsonrpc":"2.0","method":"H.Noop"}]`,
		`[{"jsonrpc":"2.0","id":true,"method":"H.Const"}]`,
		`[{"jsonrpc":"2.0","id":1,"method":"H.Const"},{"id":[1],"method":"H.Const"},{"id":"z","method":"H.Const"}]`,
		`{"jsonrpc":"2.0","id":9,"method":"H.Const"} trailing`,
		`{"jsonrpc":"2.0","id":9,"method":"H.Const"}{"jsonrpc":"2.0","id":10,"method":"H.Const"}`,
		`[{"method":"H.Noop"},{"method":"H.Noop"}]`,
		`{"method":"H.Noop"}`, `{"method":"H.Panic"}`, `{"id":1,"method":"H.PanicAbort"}`, `{"id":"x","method":"H.PanicNilMap"}`, `[{"id":1,"method":"H.PanicDeref"},{"id":2,"method":"H.Const"},{"method":"H.PanicCustom"},{"id":3,"method":"H.PanicCustom"}]`, `{"id":3,"method":"H.Panic"}`, `{"id":4,"method":"H.PanicOpaque"}`, `{"id":41,"method":"H.PanicCoded"}`, `[{"id":42,"method":"H.PanicCoded"},{"id":43,"method":"H.CodeErr","params":[3]}]`, `[{"id":5,"method":"H.PanicOpaque"},{"id":6,"method":"H.Const"}]`, `[{"method":"H.Panic"},{"id":1,"method":"H.Const"}]`,
		`[]`, ``, `   `, `[ ]`, `{}`, `null`, `[null]`, `5`, `"x"`, `[1,2]`, `[[]]`, `{"id":5,"method":7}`, `{"id":[1],"method":7}`,
		`{"id":1,"method":"H.Const","params":[1,2]}`, `{"id":1,"method":"H.Const","params":{"a":1}}`, `{"id":1,"method":"H.Const","params":"x"}`,
		`{"id":1,"method":"H.Chan"}`, `{"id":1,"method":"H.CodeErr","params":[5]}`, `{"id":1,"method":"H.EchoInt","params":[7]}`,
		`{"id":1,"method":"Alias.Const"}`, `{"id":1,"method":"A2"}`, `{"id":1,"method":"Alias.Missing"}`,
		" {\"id\":1,\"method\":\"H.Const\"}\u0085", "\v[{\"id\":1,\"method\":\"H.Const\"}]\f",
		`[{"id":1,"method":"H.Const"}] x ]`, `[{"id":1,"method":"H.Const"}`, `{"id":1,"method":"H.Const"}]`,
	}
	for _, sc := range []string{"", "AAAA", strings.Repeat("A", 39) + "=", strings.Repeat("A", 44), strings.Repeat("QUJD", 16), strings.Repeat("A", 400), "!!!not-base64"} {
		corpus = append(corpus, fmt.Sprintf(`{"jsonrpc":"2.0","id":77,"method":"H.Const","meta":{"SpanContext":%q}}`, sc))
		corpus = append(corpus, fmt.Sprintf(`[{"jsonrpc":"2.0","id":78,"method":"H.Const","meta":{"SpanContext":%q}},{"jsonrpc":"2.0","id":79,"method":"H.Const"}]`, sc))
	}
	for i, b := range corpus {
		emitCase(&httpCase{Kind: "special", Runs: -1, Fmt: 0, Max: -1, Via: []string{"servehttp", "handlerequest"}[i%2]}, []byte(b))
	}
	for i := 0; i < n; i++ {
		fmtIdx := 0
		if r.chance(40) {
			fmtIdx = r.intn(5)
		}
		c := &httpCase{Fmt: fmtIdx, Max: -1, Via: "servehttp"}
		if r.chance(15) {
			c.Via = "handlerequest"
		}
		var body string
		runs := 0
		addRuns := func(g genReq) {
			if g.runs < 0 || runs < 0 {
				runs = -1
			} else {
				runs += g.runs
			}
		}
		batch := r.chance(35)
		c.Batch = batch
		allValid := true
		if batch {
			k := 1 + r.intn(5)
			var parts []string
			for j := 0; j < k; j++ {
				g := genRequest(r, fmtIdx)
				parts = append(parts, g.text)
				c.Expect = append(c.Expect, expectOf(g))
				addRuns(g)
				allValid = allValid && g.valid
			}
			body = "[" + strings.Join(parts, r.pick([]string{",", ", ", ",\n"})) + "]"
		} else {
			g := genRequest(r, fmtIdx)
			body = g.text
			c.Expect = []string{expectOf(g)}
			addRuns(g)
			allValid = g.valid
		}
		if r.chance(25) {
			body = r.pick(padPool) + body
		}
		if r.chance(25) {
			body = body + r.pick(padPool)
		}
		c.Kind = "structured"
		c.Runs = runs
		if !allValid {
			c.Runs = -1
			c.Kind = "typeerror" // decodes with a type error: answered with one parse error
			c.Expect = nil
		}
		b := []byte(body)
		if r.chance(22) {
			b = mutate(r, b)
			if r.chance(30) {
				b = mutate(r, b)
			}
			c.Kind = "mutated"
			c.Runs = -1
			c.Expect = nil
		}
		emitCase(c, b)
	}
	// size boundary (C10): limits x sizes {L-1, L, L+1}, padded with JSON or with white space
	base := `{"jsonrpc":"2.0","id":1,"method":"H.Const"}`
	for _, L := range []int64{0, 1, 43, 64, 4096} {
		for _, d := range []int64{-1, 0, 1, 2} {
			size := L + d
			if size < 0 {
				continue
			}
			for _, mode := range []string{"ws-tail", "ws-head", "string", "garbage"} {
				var body []byte
				switch mode {
				case "ws-tail":
					if size < int64(len(base)) {
						body = []byte(base)[:size]
					} else {
						body = append([]byte(base), bytes.Repeat([]byte(" "), int(size)-len(base))...)
					}
				case "ws-head":
					if size < int64(len(base)) {
						body = bytes.Repeat([]byte("\n"), int(size))
					} else {
						body = append(bytes.Repeat([]byte("\n"), int(size)-len(base)), []byte(base)...)
					}
				case "string":
					pre := `{"jsonrpc":"2.0","id":1,"method":"H.EchoStr","params":["`
					post := `"]}`
					if size < int64(len(pre)+len(post)) {
						continue
					}
					body = []byte(pre + strings.Repeat("a", int(size)-len(pre)-len(post)) + post)
				default:
					body = bytes.Repeat([]byte("x"), int(size))
				}
				for _, via := range []string{"servehttp", "handlerequest"} {
					emitCase(&httpCase{Kind: "size", Runs: -1, Fmt: 0, Max: L, Via: via}, body)
				}
			}
		}
	}
}

func expectOf(g genReq) string {
	if g.badID {
		return "badid"
	}
	if g.idText == "" {
		return "notif"
	}
	return "id:" + g.idText
}

func init() { families["http-bodies"] = httpBodiesFamily }

var idLit = regexp.MustCompile(`(?i)"id"\s*:\s*(-?[0-9][0-9.eE+-]*)`)

// inexactID: some "id" member holds a number literal that does not survive float64 (out of range, or echoed as a different decimal)
func inexactID(body []byte) bool {
	for _, m := range idLit.FindAllSubmatch(body, -1) {
		lit := string(m[1])
		f, err := strconv.ParseFloat(lit, 64)
		if err != nil {
			return true
		}
		want, ok := new(big.Rat).SetString(lit)
		if !ok {
			continue // not a number literal after all: the decoder rejects the body, nothing to round
		}
		// the id is echoed as the shortest decimal that reads back as f
		if got, ok := new(big.Rat).SetString(strconv.FormatFloat(f, 'g', -1, 64)); !ok || got.Cmp(want) != 0 {
			return true
		}
	}
	return false
}
