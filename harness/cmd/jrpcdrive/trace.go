package main

import (
	"encoding/json"
	"fmt"
	"reflect"
	"sync"
	"time"

	"github.com/filecoin-project/go-jsonrpc"
)

// Trace logger: the library's vhook() observation points call back here. Events are appended under one
// mutex, so the log order is a total order consistent with every happens-before edge between hooks that
// sit inside the same critical section. The same callback serves as gate (block a hook point until
// released) and as yield point (seeded delay injection).

type tev struct {
	T     int64         `json:"t"` // nanoseconds since the tracer was created (monotonic)
	Seq   int           `json:"seq"`
	Point string        `json:"p"`
	Conn  string        `json:"c"` // label of the first hook argument: ws-client#1, ws-server#2, client#1, handler#1, harness
	Args  []interface{} `json:"a"`
}

type gate struct {
	point string
	pred  func(conn string, args []interface{}) bool
	hit   chan struct{} // closed when a goroutine arrives at the gate
	open  chan struct{} // close to release
	once  sync.Once
	used  bool
}

type tracer struct {
	mu     sync.Mutex
	evs    []tev
	labels map[uintptr]string
	counts map[string]int
	gates  []*gate
	yield  func(point string) time.Duration
	hits   map[string]int
	t0     time.Time
}

func newTracer() *tracer {
	return &tracer{labels: map[uintptr]string{}, counts: map[string]int{}, hits: map[string]int{}, t0: time.Now()}
}

func (t *tracer) label(c interface{}) string {
	v := reflect.ValueOf(c)
	if v.Kind() != reflect.Ptr {
		return "other"
	}
	p := v.Pointer()
	if l, ok := t.labels[p]; ok {
		return l
	}
	k := jsonrpc.VerifConnKind(c)
	t.counts[k]++
	l := fmt.Sprintf("%s#%d", k, t.counts[k])
	t.labels[p] = l
	return l
}

func canon(a interface{}) interface{} {
	switch v := a.(type) {
	case nil, string, bool, int, int64, uint64, float64:
		return v
	case reflect.Value:
		if !v.IsValid() {
			return nil
		}
		if v.CanInterface() {
			return canon(v.Interface())
		}
		return fmt.Sprint(v)
	case []reflect.Value:
		out := make([]interface{}, 0, len(v))
		for _, x := range v {
			if x.IsValid() && x.CanInterface() {
				if _, isCtx := x.Interface().(interface{ Done() <-chan struct{} }); isCtx {
					continue
				}
				out = append(out, canon(x.Interface()))
			}
		}
		return out
	case error:
		return v.Error()
	default:
		b, err := json.Marshal(v)
		if err == nil && len(b) < 200 {
			var x interface{}
			if json.Unmarshal(b, &x) == nil {
				return x
			}
		}
		return fmt.Sprintf("%T", a)
	}
}

func (t *tracer) hook(point string, args ...interface{}) {
	var conn string
	var rest []interface{}
	t.mu.Lock()
	if len(args) > 0 {
		conn = t.label(args[0])
		for _, a := range args[1:] {
			rest = append(rest, canon(a))
		}
	}
	t.evs = append(t.evs, tev{T: int64(time.Since(t.t0)), Seq: len(t.evs), Point: point, Conn: conn, Args: rest})
	t.hits[point]++
	var g *gate
	for _, x := range t.gates {
		if !x.used && x.point == point && (x.pred == nil || x.pred(conn, rest)) {
			x.used = true
			g = x
			break
		}
	}
	y := t.yield
	t.mu.Unlock()
	if g != nil {
		close(g.hit)
		<-g.open
	}
	if y != nil {
		if d := y(point); d > 0 {
			time.Sleep(d)
		}
	}
}

// evEnd records the end of a handler together with whether its context was cancelled, sampled inside the tracer's lock: the
// library's observation points are logged under the same lock, so "live" logged after a point that follows a cancellation
// means live after that cancellation
func (t *tracer) evEnd(token int, ctx interface{ Err() error }) {
	t.mu.Lock()
	t.evs = append(t.evs, tev{T: int64(time.Since(t.t0)), Seq: len(t.evs), Point: "h.end", Conn: "harness", Args: []interface{}{token, ctx.Err() != nil}})
	t.mu.Unlock()
}

// harness-side event
func (t *tracer) ev(point string, args ...interface{}) {
	t.mu.Lock()
	t.evs = append(t.evs, tev{T: int64(time.Since(t.t0)), Seq: len(t.evs), Point: point, Conn: "harness", Args: args})
	t.mu.Unlock()
}

// arm a gate: the next hook hit at `point` satisfying pred blocks until release() is called.
func (t *tracer) gate(point string, pred func(conn string, args []interface{}) bool) *gate {
	g := &gate{point: point, pred: pred, hit: make(chan struct{}), open: make(chan struct{})}
	t.mu.Lock()
	t.gates = append(t.gates, g)
	t.mu.Unlock()
	return g
}

func (g *gate) release() { g.once.Do(func() { close(g.open) }) }
func (g *gate) wait(d time.Duration) bool {
	select {
	case <-g.hit:
		return true
	case <-time.After(d):
		return false
	}
}

func (t *tracer) releaseAll() {
	t.mu.Lock()
	gs := t.gates
	t.mu.Unlock()
	for _, g := range gs {
		g.release()
	}
}

func (t *tracer) snapshot() []tev {
	t.mu.Lock()
	defer t.mu.Unlock()
	out := make([]tev, len(t.evs))
	copy(out, t.evs)
	return out
}

func (t *tracer) install() { jsonrpc.VerifSetHook(t.hook) }

// uninstall waits until the hooks have been quiet for a moment (goroutines of the finished scenario winding
// down), so that the next scenario's tracer does not see their events
func (t *tracer) uninstall() {
	last := -1
	for i := 0; i < 100; i++ {
		t.mu.Lock()
		n := len(t.evs)
		t.mu.Unlock()
		if n == last {
			break
		}
		last = n
		time.Sleep(4 * time.Millisecond)
	}
	// ... and until no goroutine labelled for a connection of this scenario is left
	for i := 0; i < 150; i++ {
		if labelledGoroutines("wsserver")+labelledGoroutines("wsclient") == 0 {
			break
		}
		time.Sleep(4 * time.Millisecond)
	}
	jsonrpc.VerifSetHook(nil)
}
