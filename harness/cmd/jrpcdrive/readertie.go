package main

import (
	"bytes"
	"context"
	"encoding/json"
	"fmt"
	"io"
	"net/http/httptest"
	"sync"
	"sync/atomic"
	"time"

	"github.com/filecoin-project/go-jsonrpc"
	"github.com/filecoin-project/go-jsonrpc/httpio"
	"github.com/google/uuid"
)

// reader ties (C20): "whichever of the upload and the RPC request reaches the server first" includes the tie. The
// upload handler and the RPC handler are entered from a common start gate with a random skew of 0..12 microseconds
// either way, thousands of times; every meeting must hand the handler exactly the uploaded bytes and complete the upload.

type readerTie struct {
	Meetings int    `json:"tie_meetings"`
	Workers  int    `json:"workers"`
	Lost     int    `json:"lost"`
	SkewNs   int64  `json:"first_lost_skew_ns"`
	Detail   string `json:"first_lost,omitempty"`
	Oracle   string `json:"oracle_fail,omitempty"`
}

type tieHandler struct{}

func (tieHandler) ReadAll(ctx context.Context, r io.Reader) (string, error) {
	b, err := io.ReadAll(r)
	if err != nil {
		return "", err
	}
	return string(b), nil
}

func spin(d time.Duration) {
	for t0 := time.Now(); time.Since(t0) < d; {
	}
}

func readerTies(seed uint64, meetings, workers int) readerTie {
	hnd, decOpt := httpio.ReaderParamDecoder()
	srv := jsonrpc.NewServer(decOpt)
	srv.Register("R", tieHandler{})
	out := readerTie{Meetings: 0, Workers: workers}
	var done, lost int64
	var mu sync.Mutex
	var wg sync.WaitGroup
	per := meetings / workers
	for w := 0; w < workers; w++ {
		wg.Add(1)
		go func(w int) {
			defer wg.Done()
			r := newRng(seed*31 + uint64(w) + 1)
			for i := 0; i < per && atomic.LoadInt64(&lost) == 0; i++ {
				u := uuid.New()
				payload := fmt.Sprintf("payload-%d-%d-%s", w, i, u.String()[:8])
				skew := time.Duration(r.intn(12000)) * time.Nanosecond
				uploadLate := r.intn(2) == 0
				ctx, cancel := context.WithTimeout(context.Background(), 2*time.Second)
				upReq := httptest.NewRequest("POST", "/rpc/streams/v0/push/"+u.String(), bytes.NewReader([]byte(payload))).WithContext(ctx)
				upRec := httptest.NewRecorder()
				body := fmt.Sprintf(`{"jsonrpc":"2.0","id":1,"method":"R.ReadAll","params":[%q]}`, u.String())
				rpcReq := httptest.NewRequest("POST", "/rpc", bytes.NewReader([]byte(body))).WithContext(ctx)
				rpcRec := httptest.NewRecorder()
				start := make(chan struct{})
				var pair sync.WaitGroup
				pair.Add(2)
				go func() {
					defer pair.Done()
					<-start
					if uploadLate {
						spin(skew)
					}
					hnd(upRec, upReq)
				}()
				go func() {
					defer pair.Done()
					<-start
					if !uploadLate {
						spin(skew)
					}
					srv.ServeHTTP(rpcRec, rpcReq)
				}()
				close(start)
				pair.Wait()
				cancel()
				atomic.AddInt64(&done, 1)
				var resp struct {
					Result *string `json:"result"`
					Error  *struct {
						Message string `json:"message"`
					} `json:"error"`
				}
				_ = json.Unmarshal(rpcRec.Body.Bytes(), &resp)
				ok := resp.Result != nil && *resp.Result == payload && upRec.Code == 200
				if !ok {
					if atomic.AddInt64(&lost, 1) == 1 {
						mu.Lock()
						out.SkewNs = int64(skew)
						if uploadLate {
							out.SkewNs = -int64(skew)
						}
						em := ""
						if resp.Error != nil {
							em = resp.Error.Message
						}
						if len(em) > 200 {
							em = em[:200]
						}
						out.Detail = fmt.Sprintf("upload status %d, rpc reply %q (error %q)", upRec.Code, truncate(rpcRec.Body.String(), 120), em)
						mu.Unlock()
					}
				}
			}
		}(w)
	}
	wg.Wait()
	out.Meetings = int(done)
	out.Lost = int(lost)
	if out.Lost > 0 {
		out.Oracle = fmt.Sprintf("upload and RPC request for the same reader id entered the server %d ns apart (negative: upload later) and did not meet: %s (after %d meetings)", out.SkewNs, out.Detail, out.Meetings)
	}
	return out
}

func truncate(s string, n int) string {
	if len(s) > n {
		return s[:n]
	}
	return s
}
