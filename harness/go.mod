module verifharness

go 1.23.0

require (
	github.com/filecoin-project/go-jsonrpc v0.0.0
	github.com/google/uuid v1.1.1
	github.com/gorilla/mux v1.7.4
	github.com/gorilla/websocket v1.4.2
	golang.org/x/xerrors v0.0.0-20191204190536-9bdfabe68543
)

require (
	github.com/golang/groupcache v0.0.0-20190702054246-869f871628b6 // indirect
	github.com/ipfs/go-log/v2 v2.0.8 // indirect
	go.opencensus.io v0.22.3 // indirect
	go.uber.org/atomic v1.6.0 // indirect
	go.uber.org/multierr v1.5.0 // indirect
	go.uber.org/zap v1.14.1 // indirect
)

replace github.com/filecoin-project/go-jsonrpc => /repo
