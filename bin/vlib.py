"""Shared machinery of the checks (see DESIGN.md section 3).

Pipeline of every check:
  1. regenerate coq/gen/*.v from /repo (translator)          -> proof obligations over source facts
  2. make the Coq project (full .vo build, incremental)      -> proof obligations (theorems)
  3. build harness against /repo with -tags verif, run family -> observations (JSONL)
  4. write cases_*.v, coqc them                              -> correspondence (model vs implementation)
  5. verdict, violation search, evidence
"""
import fcntl
import hashlib
import json
import os
import re
import shutil
import subprocess
import sys
import time

VERIF = os.path.dirname(os.path.dirname(os.path.abspath(__file__)))
REPO = os.environ.get("VERIF_REPO", "/repo")
COQ = os.path.join(VERIF, "coq")
HARNESS = os.path.join(VERIF, "harness")
TOOLS = os.path.join(VERIF, "tools")

GOENV = dict(os.environ, GOFLAGS="-mod=mod", GOPROXY="off", GOSUMDB="off", GOTOOLCHAIN="local",
             CGO_ENABLED=os.environ.get("CGO_ENABLED", "1"))

FORBIDDEN = re.compile(r"\b(Admitted|admit|Axiom|Parameter|Parameters|Axioms|Conjecture|Unset Guard Checking|"
                       r"bypass_check|Admit Obligations|Unset Positivity Checking|Unset Universe Checking|"
                       r"native_compute)\b")


class Lock:
    def __init__(self, name=".build.lock"):
        self.path = os.path.join(VERIF, name)

    def __enter__(self):
        self.f = open(self.path, "w")
        fcntl.flock(self.f, fcntl.LOCK_EX)
        return self

    def __exit__(self, *a):
        fcntl.flock(self.f, fcntl.LOCK_UN)
        self.f.close()


def sh(cmd, cwd=None, env=None, timeout=None, input=None):
    """run, return (rc, stdout+stderr)"""
    try:
        p = subprocess.run(cmd, cwd=cwd, env=env, timeout=timeout, input=input,
                           stdout=subprocess.PIPE, stderr=subprocess.STDOUT, text=True,
                           shell=isinstance(cmd, str))
        return p.returncode, p.stdout
    except subprocess.TimeoutExpired as e:
        out = e.stdout or ""
        if isinstance(out, bytes):
            out = out.decode("utf-8", "replace")
        return 124, out + "\n[timeout after %ss]" % timeout


def write_if_changed(path, content):
    try:
        if open(path).read() == content:
            return False
    except FileNotFoundError:
        pass
    os.makedirs(os.path.dirname(path), exist_ok=True)
    tmp = path + ".tmp%d" % os.getpid()
    with open(tmp, "w") as f:
        f.write(content)
    os.replace(tmp, path)
    return True


# ---------------------------------------------------------------- translator

def build_translator():
    out = os.path.join(TOOLS, "bin", "gotocoq")
    rc, log = sh(["go", "build", "-o", out, "."], cwd=os.path.join(TOOLS, "gotocoq"), env=GOENV, timeout=600)
    if rc != 0:
        raise RuntimeError("building translator failed:\n" + log)
    return out


def regen():
    """Regenerate coq/gen/*.v from /repo's working tree. Returns (ok, log). Files are only rewritten when
    their content changes so that an unchanged tree costs no Coq rebuild."""
    exe = build_translator()
    tmpdir = os.path.join(VERIF, "scratch", "gen.%d" % os.getpid())
    os.makedirs(tmpdir, exist_ok=True)
    try:
        rc, log = sh([exe, "-repo", REPO, "-out", tmpdir], env=GOENV, timeout=300)
        if rc != 0:
            return False, log
        changed = []
        for fn in sorted(os.listdir(tmpdir)):
            if fn.endswith(".v"):
                if write_if_changed(os.path.join(COQ, "gen", fn), open(os.path.join(tmpdir, fn)).read()):
                    changed.append(fn)
        return True, log + ("\nregenerated: " + ", ".join(changed) if changed else "\ngen/*.v unchanged")
    finally:
        shutil.rmtree(tmpdir, ignore_errors=True)


# ---------------------------------------------------------------- coq

def coq_project_sync():
    """(re)write _CoqProject + Makefile when the set of .v files changed"""
    files = []
    for d in ("theories", "gen"):
        p = os.path.join(COQ, d)
        if os.path.isdir(p):
            files += sorted(os.path.join(d, f) for f in os.listdir(p) if f.endswith(".v"))
    content = "-Q theories JR\n-Q gen JRGen\n-arg -w -arg -notation-overridden,-deprecated-hint-without-locality,-deprecated-syntactic-definition\n" + "\n".join(files) + "\n"
    ch = write_if_changed(os.path.join(COQ, "_CoqProject"), content)
    if ch or not os.path.exists(os.path.join(COQ, "Makefile")):
        rc, log = sh(["coq_makefile", "-f", "_CoqProject", "-o", "Makefile"], cwd=COQ)
        if rc != 0:
            raise RuntimeError("coq_makefile failed: " + log)


def coq_make(targets=None, timeout=3000):
    """full .vo build of the given targets (or everything). Returns (ok, log)."""
    coq_project_sync()
    cmd = ["make", "-j16"]
    if targets:
        cmd += targets
    rc, log = sh(cmd, cwd=COQ, timeout=timeout)
    return rc == 0, log


def forbidden_scan():
    """grep gate: no Admitted/admit/Axiom/Parameter/... anywhere in the development"""
    hits = []
    for d in ("theories", "gen"):
        p = os.path.join(COQ, d)
        for fn in sorted(os.listdir(p)) if os.path.isdir(p) else []:
            if not fn.endswith(".v"):
                continue
            txt = open(os.path.join(p, fn)).read()
            txt = re.sub(r"\(\*.*?\*\)", "", txt, flags=re.S)
            for m in FORBIDDEN.finditer(txt):
                hits.append("%s/%s: %s" % (d, fn, m.group(0)))
    return hits


def theorems_in(props_file):
    txt = open(os.path.join(COQ, "theories", props_file)).read()
    txt = re.sub(r"\(\*.*?\*\)", "", txt, flags=re.S)
    return re.findall(r"^\s*(?:Theorem|Corollary)\s+([A-Za-z0-9_']+)", txt, flags=re.M)


def print_assumptions(module, names, extra_requires=()):
    """Returns dict theorem -> text printed by Print Assumptions"""
    d = os.path.join(COQ, "cases", "pa.%d" % os.getpid())
    os.makedirs(d, exist_ok=True)
    try:
        src = "From JR Require Import %s.\n" % module
        for n in names:
            src += 'Goal True. idtac "@@%s". exact I. Qed.\nPrint Assumptions %s.\n' % (n, n)
        open(os.path.join(d, "pa.v"), "w").write(src)
        rc, log = sh(["coqc", "-Q", os.path.join(COQ, "theories"), "JR", "-Q", os.path.join(COQ, "gen"), "JRGen", "pa.v"],
                     cwd=d, timeout=600)
        res = {}
        cur = None
        for line in log.splitlines():
            if line.startswith("@@"):
                cur = line[2:]
                res[cur] = ""
            elif cur is not None:
                res[cur] += line.strip() + " "
        return rc == 0, {k: v.strip() for k, v in res.items()}, log
    finally:
        shutil.rmtree(d, ignore_errors=True)


def run_cases(name, src, timeout=1200):
    """compile one cases file with coqc in a scratch dir; returns (rc, output)"""
    d = os.path.join(COQ, "cases", "%s.%d" % (name, os.getpid()))
    os.makedirs(d, exist_ok=True)
    try:
        open(os.path.join(d, name + ".v"), "w").write(src)
        return sh(["coqc", "-w", "-all", "-Q", os.path.join(COQ, "theories"), "JR", "-Q", os.path.join(COQ, "gen"), "JRGen",
                   name + ".v"], cwd=d, timeout=timeout)
    finally:
        shutil.rmtree(d, ignore_errors=True)


def run_cases_parallel(jobs, timeout=1200, workers=16):
    """jobs: list of (name, src). Returns list of (name, rc, out)."""
    from concurrent.futures import ThreadPoolExecutor
    with ThreadPoolExecutor(max_workers=workers) as ex:
        futs = [(n, ex.submit(run_cases, n, s, timeout)) for n, s in jobs]
        return [(n,) + f.result() for n, f in futs]


def parse_mismatch_list(out, var="M"):
    """Output of `Print M.` where M : list N / list nat, e.g. `M = [3%N; 17%N]` possibly wrapped."""
    m = re.search(r"^%s\s*=\s*(.*?)\n\s*:\s" % re.escape(var), out, flags=re.S | re.M)
    if not m:
        return None
    body = m.group(1)
    return [int(x) for x in re.findall(r"(\d+)(?:%N|%nat|%Z)?", body)] if "[" in body else None


# ---------------------------------------------------------------- coq term printers

def coq_string(s):
    """Coq string literal of a python str restricted to bytes; non-printable via String (ascii_of_nat) is avoided:
    we only use this for short ASCII test strings."""
    for ch in s:
        if ord(ch) < 32 or ord(ch) > 126:
            raise ValueError("non-printable in coq_string: %r" % s)
    return '"' + s.replace('"', '""') + '"'


def coq_list(items):
    return "[" + "; ".join(items) + "]"


def coq_option(x, f=lambda v: v):
    return "None" if x is None else "(Some %s)" % f(x)


def coq_bool(b):
    return "true" if b else "false"


def pack_bytes(b):
    """bytes -> Coq term of type (list int) : length first, then 7 bytes per Uint63 literal (big endian in the word).
    Decoded by JR.Bytes.unpack. See DESIGN.md section 3 (case encoding)."""
    words = ["%d" % len(b)]
    for i in range(0, len(b), 7):
        chunk = b[i:i + 7]
        chunk = chunk + b"\x00" * (7 - len(chunk))
        words.append("0x" + chunk.hex())
    return "[" + ";".join(words) + "]%uint63"


# ---------------------------------------------------------------- harness

def build_harness():
    out = os.path.join(HARNESS, "bin", "jrpcdrive")
    # the module is replaced by /repo in go.mod, so this always compiles the current working tree
    shutil.copyfile(os.path.join(REPO, "go.sum"), os.path.join(HARNESS, "go.sum.repo"))
    rc, log = sh(["go", "build", "-tags", "verif", "-o", out, "./cmd/jrpcdrive"], cwd=HARNESS, env=GOENV, timeout=900)
    return rc == 0, log, out


def build_harness_race():
    out = os.path.join(HARNESS, "bin", "jrpcdrive-race")
    rc, log = sh(["go", "build", "-race", "-tags", "verif", "-o", out, "./cmd/jrpcdrive"], cwd=HARNESS, env=GOENV, timeout=1200)
    return rc == 0, log, out


def run_family(exe, family, args=(), seed=1, tier="quick", timeout=900, extra_env=None):
    env = dict(GOENV, VERIF_SEED=str(seed), VERIF_TIER=tier)
    if extra_env:
        env.update(extra_env)
    try:
        p = subprocess.run([exe, family] + list(args), env=env, stdout=subprocess.PIPE, stderr=subprocess.PIPE, timeout=timeout)
    except subprocess.TimeoutExpired as te:
        # the harness did not finish: report it as a failed run (with what it had printed), never as a crash of the check
        class _P:
            returncode = -9
            stdout = te.stdout or b""
            stderr = (te.stderr or b"") + ("\nharness family %s did not finish within %ss" % (family, timeout)).encode()
        p = _P()
    cases = []
    bad = []
    # one record per "\n"-terminated line; str.splitlines() would also split at U+0085 / U+2028 inside JSON strings
    for raw in p.stdout.split(b"\n"):
        line = raw.decode("utf-8", "replace").strip(" \t\r\n")
        if not line:
            continue
        try:
            cases.append(json.loads(line))
        except Exception:
            bad.append(line[:200])
    return p.returncode, cases, p.stderr.decode("utf-8", "replace"), bad


def library_panic(stderr):
    """If the harness process died of a Go panic / runtime fatal error raised on a goroutine whose innermost frame outside
    the Go runtime and standard library is in the library (not in the harness), return the panic line; else None."""
    lines = stderr.splitlines()
    for i, l in enumerate(lines):
        if l.startswith("panic: ") or l.startswith("fatal error: "):
            started = False
            for f in lines[i + 1:i + 80]:
                f = f.strip()
                if f.startswith("goroutine "):
                    if started:
                        break
                    started = True
                    continue
                if not f or f.startswith(("[signal", "/", "\t")):
                    continue
                if f.startswith("github.com/filecoin-project/go-jsonrpc"):
                    return l[:300]
                if f.startswith(("main.", "verifharness", "created by main.")):
                    return None
                # runtime, standard library, third-party frames: keep walking outwards
            # the faulting goroutine never left the standard library (e.g. net/http's transport iterating a header map):
            # a data-race abort on an object the library handed to the standard library. The harness hands none of its own
            # maps to net/http, and does not die like this on the unchanged tree.
            if l.startswith("fatal error: concurrent map"):
                return l[:300] + " (faulting goroutine inside the standard library, on an object passed to it)"
            return None
    return None


# ---------------------------------------------------------------- known findings

def load_known():
    p = os.path.join(VERIF, "known_findings.json")
    try:
        return json.load(open(p))
    except FileNotFoundError:
        return []


def known_match(prop, signature):
    """signature: canonical string describing the failing input. Only 'known' entries suppress."""
    for k in load_known():
        if k.get("property") == prop and k.get("status") == "known" and k.get("signature") == signature:
            return k
    return None


# ---------------------------------------------------------------- result / evidence

TRUSTED_BASE = [
    "Coq 8.16.1 kernel (coqc full .vo build; vm_compute used for generated-table obligations and correspondence runs; no native_compute)",
    "translator tools/gotocoq (Go go/parser+go/ast: reports source facts; fails closed on unsupported syntax)",
    "correspondence harness harness/cmd/jrpcdrive + bin/check (runs /repo built with -tags verif, records observables, prints Coq terms)",
    "no extraction is used (models are evaluated inside Coq); no Extract Constant / Extract Inductive directives",
]


class Result:
    def __init__(self, prop, tier, seed):
        self.prop = prop
        self.tier = tier
        self.seed = seed
        self.t0 = time.time()
        self.obligations = 0
        self.discharged = 0
        self.failed_obligations = []   # (name, log)
        self.mismatches = []           # dicts describing correspondence breaks
        self.violations = []           # dicts: {what, case, signature}
        self.known = []
        self.coverage = {}
        self.assumptions = []
        self.notes = []
        self.print_assumptions = {}

    def add_cov(self, **kw):
        self.coverage.update(kw)


def finish(res, level="proof"):
    """Print verdict lines, write evidence, return exit code."""
    os.makedirs(os.path.join(VERIF, "evidence"), exist_ok=True)
    os.makedirs(os.path.join(VERIF, "replays"), exist_ok=True)
    rc = 0
    nviol = 0
    replay_path = os.path.join("replays", "%s-%d.json" % (res.prop, res.seed))
    unlisted = []
    for v in res.violations:
        k = known_match(res.prop, v.get("signature"))
        if k:
            print("KNOWN-FINDING: property=%s %s" % (res.prop, k.get("what", v.get("what"))))
            res.known.append(k.get("id"))
        else:
            unlisted.append(v)
    if unlisted:
        v = unlisted[0]
        json.dump({"property": res.prop, "kind": v.get("kind", "input"), "seed": res.seed, "tier": res.tier,
                   "what": v.get("what"), "case": v.get("case"), "family": v.get("family"),
                   "failed_obligations": [n for n, _ in res.failed_obligations],
                   "failed_obligation_details": [{"name": n, "log": clip(l)} for n, l in res.failed_obligations[:4]],
                   "mismatches": res.mismatches[:5],
                   "how_to_run": "bin/check %s --replay %s" % (res.prop, replay_path),
                   "all_violations": [{"what": x.get("what"), "signature": x.get("signature")} for x in unlisted[:20]]},
                  open(os.path.join(VERIF, replay_path), "w"), indent=1, default=str)
        print("VIOLATION property=%s replay=%s" % (res.prop, replay_path))
        for x in unlisted[:5]:
            print("  violation: %s" % x.get("what"))
        rc = 1
        nviol = len(unlisted)
    elif res.failed_obligations or res.mismatches:
        json.dump({"property": res.prop, "kind": "obligation" if res.failed_obligations else "correspondence",
                   "seed": res.seed, "tier": res.tier,
                   "failed_theorems_or_obligations": [{"name": n, "log": clip(l)} for n, l in res.failed_obligations],
                   "failed_correspondence": res.mismatches[:20],
                   "note": "the proof obligation / correspondence named here no longer checks against /repo's current source; "
                           "the violation search (direct oracle over all observations of this run and the targeted widening) "
                           "found no concrete failing input",
                   "how_to_run": "bin/check %s --tier %s" % (res.prop, res.tier)},
                  open(os.path.join(VERIF, replay_path), "w"), indent=1, default=str)
        print("VIOLATION property=%s replay=%s no-failing-input-found" % (res.prop, replay_path))
        for n, l in res.failed_obligations[:5]:
            print("  broken obligation: %s" % n)
        for m in res.mismatches[:5]:
            print("  broken correspondence: %s" % json.dumps(m, default=str)[:400])
        rc = 1
        nviol = 1
    cov = dict(res.coverage)
    cov.setdefault("obligations", res.obligations)
    cov.setdefault("discharged", res.discharged)
    cov.setdefault("checker_cmd", "make -C coq (coqc 8.16.1, full .vo) ; coqc cases_*.v (vm_compute)")
    cov.setdefault("trusted_base", TRUSTED_BASE)
    cov.setdefault("print_assumptions", res.print_assumptions)
    if res.notes:
        cov["notes"] = res.notes
    if res.known:
        cov["known_findings_hit"] = res.known
    ev = {"property_id": res.prop, "tier": res.tier, "seed": res.seed, "level": level, "coverage": cov,
          "assumptions": res.assumptions, "wall_s": round(time.time() - res.t0, 2), "violations": nviol}
    json.dump(ev, open(os.path.join(VERIF, "evidence", res.prop + ".json"), "w"), indent=1, default=str)
    if rc == 0:
        print("OK property=%s tier=%s obligations=%d/%d evaluations=%s wall=%.1fs" % (
            res.prop, res.tier, res.discharged, res.obligations, cov.get("evaluations"), time.time() - res.t0))
    return rc


def clip(l, head=2600, tail=1400):
    return l if len(l) <= head + tail else l[:head] + "\n[...]\n" + l[-tail:]


def theorem_at(relpath, line):
    """name of the theorem / lemma whose statement or proof contains the given line of a file under coq/"""
    try:
        lines = open(os.path.join(COQ, relpath)).read().split("\n")
    except OSError:
        return None
    for i in range(min(line, len(lines)) - 1, -1, -1):
        m = re.match(r"\s*(?:Theorem|Lemma|Corollary|Example|Definition)\s+([A-Za-z0-9_']+)", lines[i])
        if m:
            return m.group(1)
    return None


def skeleton_diff():
    """functions whose regenerated control / locking / shared-state skeleton (gen/Extracted.v effects_*) differs from the one
    the models were written against (theories/Skeletons.v), as unified diffs"""
    import difflib

    def lists(path, prefix):
        out = {}
        try:
            txt = open(path).read()
        except OSError:
            return out
        for name, body in re.findall(r"Definition %s(\w+) : list string :=\s*(\[.*?\])\." % prefix, txt, flags=re.S):
            out[name] = [x.replace('""', '"') for x in re.findall(r'"((?:[^"]|"")*)"', body)]
        return out
    gen = lists(os.path.join(COQ, "gen", "Extracted.v"), "effects_")
    hand = lists(os.path.join(COQ, "theories", "Skeletons.v"), "")
    parts = []
    for f in sorted(hand):
        if f in gen and gen[f] != hand[f]:
            d = list(difflib.unified_diff(hand[f], gen[f], "model was written against (%s)" % f, "/repo now (%s)" % f, lineterm="", n=2))
            parts.append("\n".join(d[:60]))
    return ("skeletons that changed:\n" + "\n".join(parts)) if parts else "(no function skeleton changed; see the coq error for the fact that did)"


def proof_step(res, props_module, extra_targets=()):
    """steps 1-2: regenerate tables, build Props_<id>.vo, count obligations, Print Assumptions."""
    with Lock():
        ok, log = regen()
        if not ok:
            res.failed_obligations.append(("translator (gen/*.v could not be regenerated from /repo)", log))
            res.obligations += 1
            return False
        hits = forbidden_scan()
        if hits:
            res.failed_obligations.append(("forbidden-word gate", "\n".join(hits)))
        names = theorems_in(props_module + ".v")
        res.obligations += len(names)
        # every correspondence library is rebuilt with the property's theorems: a cases file must never load a .vo that
        # predates the regenerated tables ("inconsistent assumptions" would be a false alarm of the machinery)
        allcases = sorted("theories/%s.vo" % f[:-2] for f in os.listdir(os.path.join(COQ, "theories")) if f.endswith("Cases.v"))
        ok, log = coq_make(sorted(set(["theories/%s.vo" % props_module] + list(extra_targets) + allcases)))
    if not ok:
        # which theorem? take the first error location
        m = re.search(r'File "\./([^"]+)", line (\d+)', log)
        where = "%s:%s" % (m.group(1), m.group(2)) if m else props_module
        thm = theorem_at(m.group(1), int(m.group(2))) if m else None
        detail = log
        if thm and ("code_skeletons" in thm or "source" in thm):
            detail = "theorem %s no longer holds of the regenerated facts.\n%s\n%s" % (thm, skeleton_diff(), log)
        res.failed_obligations.append(("coq build of %s failed at %s%s" % (props_module, where, " (theorem %s)" % thm if thm else ""), detail))
        return False
    ok, pa, palog = print_assumptions(props_module, names)
    if not ok:
        res.failed_obligations.append(("Print Assumptions run for %s" % props_module, palog))
        return False
    res.print_assumptions = pa
    bad = {k: v for k, v in pa.items() if "Closed under the global context" not in v}
    res.discharged += len(names)
    if bad:
        res.notes.append({"axioms_used": bad})
    res.add_cov(theorems=names)
    return True
