#!/usr/bin/env python3
"""Regenerates MANIFEST.json from the table below (one entry per property, claimed iff checks/<id>.py exists)."""
import json, os
V = os.path.dirname(os.path.dirname(os.path.abspath(__file__)))
BASE = ("Trusted: Coq 8.16.1 kernel + vm_compute (no native_compute); translator tools/gotocoq; correspondence harness (Go, -tags verif) + bin/check. "
        "Axioms: none (every theorem Closed under the global context; evidence.print_assumptions lists them per run). ")
T = {
 "C19": dict(text="Theorems in coq/theories/Props_C19.v over any permission universe with decidable equality: implementation invoked iff the required permission is in the effective set (attached, even empty, else defaults); denied => not invoked, zero value, error in last slot; construction rejects missing/unknown tags; HTTP handler classified into four exhaustive request classes. Tied to /repo by regenerated source facts (header/query names, prefix, status codes, tag name) and an exhaustive correspondence over the 3-permission universe of the property's quantifier.",
             note="Modelled, not verified: reflect.MakeFunc/MethodByName, http.Request.FormValue.", tech="Coq proof (Auth.v) + exhaustive model/implementation correspondence via vm_compute", ref="7 C19"),
 "C20": dict(text="Theorems in Props_C20.v for every byte type, payload, read pattern, transport chunking and every interleaving with net/http closing the body: received ++ remaining = payload (prefix, no panic); complete once EOF is reported; EOF sticky in every continuation; upload released iff the handler saw a read error or closed; either arrival order; isolation of the uuid rendezvous for any arrival sequence. Plus refutation witnesses of the two defects the model found (832f153, 2b21db9). Tied to /repo by the regenerated fact 'every close(w.wait) is under sync.Once' and by trace validation: every Read/Close the real handler observed (lengths 0..1MiB+1, 13 scripts, forced arrival orders, 2-8 concurrent calls) is replayed through Reader.step inside Coq.",
             note="Modelled, not verified: net/http request-body contract and chunking (environment choices of Reader.step), google/uuid freshness.", tech="Coq proof (Reader.v, invariants by induction over operation sequences) + trace validation of the implementation against the model", ref="7 C20"),
}
props = [json.loads(l) for l in open(os.path.join(V, "properties.jsonl"))]
claimed = [p["id"] for p in props if p["id"] in T and os.path.exists(os.path.join(V, "checks", p["id"] + ".py"))]
checks = []
for pid in claimed:
    t = T[pid]
    checks.append({"property_id": pid, "quick_cmd": "bin/check %s --tier quick" % pid, "thorough_cmd": "bin/check %s --tier thorough" % pid,
                   "evidence_file": "evidence/%s.json" % pid, "replay_cmd_template": "bin/check %s --replay {path}" % pid, "engine": "coq-models",
                   "level_claimed": {"category": "proof", "text": t["text"], "design_ref": "DESIGN.md " + t["ref"]},
                   "level_note": BASE + t["note"], "technique": t["tech"]})
na = [{"property_id": p["id"], "reason": "check under construction in this session (designed in DESIGN.md section 7; added as its model and harness family land)"} for p in props if p["id"] not in claimed]
hooks_commits = ["7c03d6e"] + [l.strip() for l in open(os.path.join(V, "MANIFEST.hooks")).read().split() if l.strip()] if os.path.exists(os.path.join(V, "MANIFEST.hooks")) else ["7c03d6e"]
m = {"version": 1, "setup_cmd": "bin/setup.sh",
     "hooks": {"guard": "verif", "enable": "go build -tags verif (harness/go.mod replaces github.com/filecoin-project/go-jsonrpc with /repo, so every check compiles /repo's working tree)",
               "baseline_off_cmd": "cd /repo && go test -vet=off -count=1 -timeout 25m ./...", "source_commits": sorted(set(hooks_commits), key=hooks_commits.index), "add_only": True},
     "engines": [{"name": "coq-models", "path": "coq/", "serves_properties": claimed, "kind_free_text": "Coq 8.16.1 models + theorems (theories/), regenerated source facts (gen/), correspondence cases evaluated with vm_compute"},
                 {"name": "gotocoq", "path": "tools/gotocoq", "serves_properties": claimed, "kind_free_text": "Go source -> Coq facts translator (go/parser, go/ast)"},
                 {"name": "jrpcdrive", "path": "harness/", "serves_properties": claimed, "kind_free_text": "Go harness running the real implementation (-tags verif) and recording observables"}],
     "checks": checks, "not_applicable": na, "notes": "see DESIGN.md; known_findings.json lists fixed/known findings; seeded/ holds confirmed breaking changes used to test the checks"}
json.dump(m, open(os.path.join(V, "MANIFEST.json"), "w"), indent=1)
print("claimed:", claimed)
