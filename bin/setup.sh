#!/bin/sh
# setup_cmd: build translator, harness, and the whole Coq development (full .vo build) from files on disk only.
set -e
cd "$(dirname "$0")/.."
export GOFLAGS=-mod=mod GOPROXY=off GOSUMDB=off GOTOOLCHAIN=local
mkdir -p tools/bin harness/bin evidence replays coq/cases scratch
python3 - <<'PY'
import sys, os
sys.path.insert(0, os.path.join(os.getcwd(), "bin"))
import vlib
ok, log = vlib.regen()
print(log[-2000:])
if not ok:
    sys.exit("translator failed")
hits = vlib.forbidden_scan()
if hits:
    sys.exit("forbidden words in the Coq development: %s" % hits)
ok, log = vlib.coq_make()
print(log[-3000:])
if not ok:
    sys.exit("coq build failed")
ok, log, exe = vlib.build_harness()
print(log[-2000:])
if not ok:
    sys.exit("harness build failed")
PY
echo setup-ok
