From Coq Require Import List NArith Bool Arith Lia Permutation.
Import ListNotations.
From JR Require Import Forwarder.

(* ---------- lists *)
Lemma put_cons_0 {A} (a x : A) l : put (a :: l) 0 x = x :: l.
Proof. reflexivity. Qed.
Lemma put_cons_S {A} (a x : A) l i : put (a :: l) (S i) x = a :: put l i x.
Proof. reflexivity. Qed.

Lemma put_app_lt {A} (l : list A) y i x : i < length l -> put (l ++ [y]) i x = put l i x ++ [y].
Proof.
  revert i. induction l as [|a l IH]; intros i H; simpl in H; [lia|].
  destruct i as [|i].
  - reflexivity.
  - cbn [app]. rewrite !put_cons_S. rewrite IH by lia. reflexivity.
Qed.

Lemma put_app_eq {A} (l : list A) y x : put (l ++ [y]) (length l) x = l ++ [x].
Proof.
  induction l as [|a l IH]; [reflexivity|]. cbn [app length]. rewrite put_cons_S, IH. reflexivity.
Qed.

Lemma swap_remove_snoc_lt {A} (l : list A) x i : i < length l -> swap_remove (l ++ [x]) i = put l i x.
Proof.
  intros H. unfold swap_remove. rewrite rev_app_distr. cbn [rev app]. rewrite put_app_lt by exact H.
  apply removelast_last.
Qed.

Lemma swap_remove_snoc_eq {A} (l : list A) x : swap_remove (l ++ [x]) (length l) = l.
Proof.
  unfold swap_remove. rewrite rev_app_distr. cbn [rev app]. rewrite put_app_eq. apply removelast_last.
Qed.

Lemma remove_nth_cons_S {A} (a : A) l i : remove_nth (S i) (a :: l) = a :: remove_nth i l.
Proof. reflexivity. Qed.

Lemma remove_nth_snoc_lt {A} (l : list A) x i : i < length l -> remove_nth i (l ++ [x]) = remove_nth i l ++ [x].
Proof.
  revert i. induction l as [|a l IH]; intros i H; simpl in H; [lia|].
  destruct i as [|i]; [reflexivity|]. cbn [app]. rewrite !remove_nth_cons_S, IH by lia. reflexivity.
Qed.

Lemma remove_nth_snoc_eq {A} (l : list A) x : remove_nth (length l) (l ++ [x]) = l.
Proof.
  induction l as [|a l IH]; [reflexivity|]. cbn [app length]. rewrite remove_nth_cons_S, IH. reflexivity.
Qed.

Lemma put_perm {A} (l : list A) i x : i < length l -> Permutation (put l i x) (remove_nth i l ++ [x]).
Proof.
  revert i. induction l as [|a l IH]; intros i H; simpl in H; [lia|].
  destruct i as [|i].
  - rewrite put_cons_0. unfold remove_nth. cbn [firstn skipn app]. apply Permutation_cons_append.
  - rewrite put_cons_S, remove_nth_cons_S. cbn [app]. apply perm_skip. apply IH. lia.
Qed.

(* swap-remove removes exactly the element at the index, up to order *)
Lemma swap_remove_perm {A} (l : list A) i : i < length l -> Permutation (swap_remove l i) (remove_nth i l).
Proof.
  destruct l as [|a l0] using rev_ind; [simpl; lia|]. clear IHl0.
  rewrite app_length. cbn [length]. intros H.
  destruct (Nat.eq_dec i (length l0)) as [->|Hn].
  - rewrite swap_remove_snoc_eq, remove_nth_snoc_eq. apply Permutation_refl.
  - rewrite swap_remove_snoc_lt by lia. rewrite remove_nth_snoc_lt by lia. apply put_perm. lia.
Qed.

Lemma swap_remove_length {A} (l : list A) i : i < length l -> length (swap_remove l i) = length l - 1.
Proof.
  intros H. rewrite (Permutation_length (swap_remove_perm l i H)). unfold remove_nth.
  rewrite app_length, firstn_length, skipn_length. lia.
Qed.

(* ---------- combine *)
Lemma combine_snoc {A B} (l1 : list A) (l2 : list B) x y :
  length l1 = length l2 -> combine (l1 ++ [x]) (l2 ++ [y]) = combine l1 l2 ++ [(x, y)].
Proof.
  revert l2. induction l1 as [|a l1 IH]; intros [|b l2] H; simpl in H; try discriminate; [reflexivity|].
  cbn [app combine]. rewrite IH by lia. reflexivity.
Qed.

Lemma combine_put {A B} (l1 : list A) (l2 : list B) i x y :
  length l1 = length l2 -> combine (put l1 i x) (put l2 i y) = put (combine l1 l2) i (x, y).
Proof.
  revert l2 i. induction l1 as [|a l1 IH]; intros [|b l2] i H; simpl in H; try discriminate.
  - destruct i; reflexivity.
  - destruct i as [|i]; [reflexivity|]. cbn [combine]. rewrite !put_cons_S. cbn [combine]. rewrite IH by lia. reflexivity.
Qed.

Lemma combine_swap_remove {A B} (l1 : list A) (l2 : list B) i :
  length l1 = length l2 -> i < length l1 ->
  combine (swap_remove l1 i) (swap_remove l2 i) = swap_remove (combine l1 l2) i.
Proof.
  intros Hl Hi.
  destruct l1 as [|x l1] using rev_ind; [simpl in Hi; lia|]. clear IHl1.
  destruct l2 as [|y l2] using rev_ind; [rewrite app_length in Hl; simpl in Hl; lia|]. clear IHl2.
  rewrite !app_length in Hl. cbn [length] in Hl. assert (Hl' : length l1 = length l2) by lia.
  rewrite app_length in Hi. cbn [length] in Hi.
  rewrite combine_snoc by exact Hl'.
  destruct (Nat.eq_dec i (length l1)) as [->|Hn].
  - rewrite swap_remove_snoc_eq. rewrite Hl'. rewrite swap_remove_snoc_eq.
    replace (length l2) with (length (combine l1 l2)) by (rewrite combine_length; lia).
    rewrite swap_remove_snoc_eq. reflexivity.
  - rewrite !swap_remove_snoc_lt by (try rewrite combine_length; lia). apply combine_put. exact Hl'.
Qed.

(* ---------- index_of *)
Lemma index_of_spec ch l i : index_of ch l = Some i -> nth_error l i = Some ch /\ i < length l.
Proof.
  revert i. induction l as [|x l IH]; intros i H; simpl in H; [discriminate|].
  destruct (N.eqb x ch) eqn:E.
  - injection H as <-. apply N.eqb_eq in E. subst. simpl. split; [reflexivity|lia].
  - destruct (index_of ch l) as [j|]; [|discriminate]. simpl in H. injection H as <-.
    destruct (IH j eq_refl) as [H1 H2]. simpl. split; [exact H1|lia].
Qed.

Lemma index_of_none ch l : index_of ch l = None -> ~ In ch l.
Proof.
  induction l as [|x l IH]; intros H; simpl in *; [tauto|].
  destruct (N.eqb x ch) eqn:E; [discriminate|]. apply N.eqb_neq in E.
  destruct (index_of ch l); [discriminate|]. intros [->|Hin]; [congruence|]. exact (IH eq_refl Hin).
Qed.

(* ---------- membership in the aligned slices *)
Lemma in_combine_nth {A B} (l1 : list A) (l2 : list B) i x y :
  nth_error l1 i = Some x -> nth_error l2 i = Some y -> In (x, y) (combine l1 l2).
Proof.
  revert l2 i. induction l1 as [|a l1 IH]; intros [|b l2] [|i] H1 H2; simpl in *; try discriminate.
  - injection H1 as ->. injection H2 as ->. left. reflexivity.
  - right. eapply IH; eassumption.
Qed.

Lemma nodup_combine_fun {B} (l1 : list N) (l2 : list B) x y y' :
  NoDup l1 -> In (x, y) (combine l1 l2) -> In (x, y') (combine l1 l2) -> y = y'.
Proof.
  revert l2. induction l1 as [|a l1 IH]; intros [|b l2] Hnd H1 H2; simpl in *; try tauto.
  inversion Hnd as [|? ? Hni Hnd']; subst.
  destruct H1 as [E1|H1], H2 as [E2|H2].
  - congruence.
  - injection E1 as -> ->. apply in_combine_l in H2. tauto.
  - injection E2 as -> ->. apply in_combine_l in H1. tauto.
  - eapply IH; eassumption.
Qed.

Lemma in_remove_nth {B} (l1 : list N) (l2 : list B) i ch c d :
  NoDup l1 -> length l1 = length l2 -> nth_error l1 i = Some ch ->
  (In (c, d) (remove_nth i (combine l1 l2)) <-> In (c, d) (combine l1 l2) /\ c <> ch).
Proof.
  revert l2 i. induction l1 as [|a l1 IH]; intros [|b l2] i Hnd Hl Hn; simpl in Hl; try discriminate.
  - destruct i; discriminate.
  - inversion Hnd as [|? ? Hni Hnd']; subst. destruct i as [|i].
    + simpl in Hn. injection Hn as ->. unfold remove_nth. cbn [combine firstn skipn app]. split.
      * intros H. split; [right; exact H|]. intros ->. apply in_combine_l in H. tauto.
      * intros [[E|H] Hne]; [injection E as -> ->; congruence|exact H].
    + simpl in Hn. cbn [combine]. rewrite remove_nth_cons_S. split.
      * intros [E|H].
        -- injection E as -> ->. split; [left; reflexivity|]. intros ->. apply nth_error_In in Hn. tauto.
        -- apply (IH l2 i Hnd' ltac:(lia) Hn) in H. destruct H as [H Hne]. split; [right; exact H|exact Hne].
      * intros [[E|H] Hne]; [left; exact E|]. right. apply (IH l2 i Hnd' ltac:(lia) Hn). split; assumption.
Qed.

(* ---------- the invariant *)
Definition Inv (s : fw) (m : N -> option N) : Prop :=
  length (chans s) = length (tags s) /\ NoDup (chans s) /\
  forall ch id, In (ch, id) (combine (chans s) (tags s)) <-> m ch = Some id.

Lemma inv_init : Inv fw0 empty.
Proof. repeat split; simpl; try constructor; try tauto; discriminate. Qed.

Lemma inv_lookup s m ch i :
  Inv s m -> index_of ch (chans s) = Some i -> nth_error (tags s) i = m ch /\ m ch <> None.
Proof.
  intros (Hl & Hnd & Hm) Hi. destruct (index_of_spec _ _ _ Hi) as [Hn Hlt].
  destruct (nth_error (tags s) i) as [id|] eqn:Ht.
  - pose proof (in_combine_nth _ _ _ _ _ Hn Ht) as Hin. apply Hm in Hin. rewrite Hin. split; [reflexivity|discriminate].
  - apply nth_error_None in Ht. lia.
Qed.

Lemma inv_registered s m ch : Inv s m -> m ch <> None -> index_of ch (chans s) <> None.
Proof.
  intros (Hl & Hnd & Hm) Hne Hi. destruct (m ch) as [id|] eqn:E; [|congruence].
  apply Hm in E. apply in_combine_l in E. exact (index_of_none _ _ Hi E).
Qed.

Lemma in_combine_exists {A B} (l1 : list A) (l2 : list B) x :
  length l1 = length l2 -> In x l1 -> exists y, In (x, y) (combine l1 l2).
Proof.
  revert l2. induction l1 as [|a l1 IH]; intros [|b l2] Hl Hin; simpl in *; try tauto; try discriminate.
  destruct Hin as [->|Hin].
  - exists b. left. reflexivity.
  - destruct (IH l2 ltac:(lia) Hin) as [y Hy]. exists y. right. exact Hy.
Qed.

Lemma inv_not_in s m ch : Inv s m -> m ch = None -> ~ In ch (chans s).
Proof.
  intros (Hl & Hnd & Hm) Hnone Hin. destruct (in_combine_exists _ _ _ Hl Hin) as [y Hy].
  apply Hm in Hy. congruence.
Qed.

Lemma inv_reg s m ch id :
  Inv s m -> m ch = None ->
  Inv {| chans := chans s ++ [ch]; tags := tags s ++ [id] |} (fun c => if N.eqb c ch then Some id else m c).
Proof.
  intros HI Hnone. pose proof (inv_not_in _ _ _ HI Hnone) as Hni. destruct HI as (Hl & Hnd & Hm).
  unfold Inv. cbn [chans tags]. split; [|split].
  - rewrite !app_length. simpl. lia.
  - apply (Permutation_NoDup (Permutation_cons_append (chans s) ch)). constructor; assumption.
  - intros c d. rewrite combine_snoc by exact Hl. rewrite in_app_iff. simpl.
    destruct (N.eqb c ch) eqn:E.
    + apply N.eqb_eq in E. subst c. split.
      * intros [H|[H|[]]]; [apply in_combine_l in H; tauto|injection H as ->; reflexivity].
      * intros H. injection H as ->. right. left. reflexivity.
    + apply N.eqb_neq in E. rewrite <- Hm. split.
      * intros [H|[H|[]]]; [exact H|injection H as -> ->; congruence].
      * intros H. left. exact H.
Qed.

Lemma inv_close s m ch i :
  Inv s m -> index_of ch (chans s) = Some i ->
  Inv {| chans := swap_remove (chans s) i; tags := swap_remove (tags s) i |} (fun c => if N.eqb c ch then None else m c).
Proof.
  intros (Hl & Hnd & Hm) Hi. destruct (index_of_spec _ _ _ Hi) as [Hn Hlt].
  unfold Inv. cbn [chans tags]. split; [|split].
  - rewrite !swap_remove_length by lia. lia.
  - apply (Permutation_NoDup (Permutation_sym (swap_remove_perm (chans s) i Hlt))).
    unfold remove_nth. rewrite <- (firstn_skipn i (chans s)) in Hnd.
    assert (Hsk : skipn i (chans s) = ch :: skipn (S i) (chans s)).
    { clear - Hn. revert i Hn. induction (chans s) as [|a l IH]; intros [|i] Hn; simpl in *; try discriminate.
      - injection Hn as ->. reflexivity.
      - apply IH. exact Hn. }
    rewrite Hsk in Hnd. apply NoDup_remove_1 in Hnd. exact Hnd.
  - intros c d. rewrite combine_swap_remove by assumption.
    assert (Hlt' : i < length (combine (chans s) (tags s))) by (rewrite combine_length; lia).
    split.
    + intros H. apply (Permutation_in _ (swap_remove_perm _ i Hlt')) in H.
      apply (in_remove_nth _ _ _ _ _ _ Hnd Hl Hn) in H. destruct H as [H Hne].
      apply N.eqb_neq in Hne. rewrite Hne. apply Hm. exact H.
    + destruct (N.eqb c ch) eqn:E; [discriminate|]. apply N.eqb_neq in E. intros H.
      apply (Permutation_in _ (Permutation_sym (swap_remove_perm _ i Hlt'))).
      apply (in_remove_nth _ _ _ _ _ _ Hnd Hl Hn). split; [apply Hm; exact H|exact E].
Qed.

(* ---------- the refinement: every well-formed history of registrations, closes and values, of any length *)
Theorem forwarder_refines : forall os s m,
  Inv s m -> wf_ops os m = true ->
  snd (run s os) = aouts os m /\ Inv (fst (run s os)) (amap os m).
Proof.
  induction os as [|o os IH]; intros s m HI Hwf.
  - simpl. split; [reflexivity|exact HI].
  - unfold run in *. cbn [frun]. destruct o as [ch id|ch|ch]; cbn [fstep wf_ops aouts amap] in *.
    + destruct (m ch) eqn:Em; [discriminate|].
      pose proof (inv_reg s m ch id HI Em) as HI'.
      specialize (IH _ _ HI' Hwf). destruct (frun BySwap BySwap _ os) as [s2 outs]. cbn [fst snd] in *.
      destruct IH as [IH1 IH2]. split; [rewrite IH1; reflexivity|exact IH2].
    + destruct (m ch) as [id|] eqn:Em; [|discriminate].
      destruct (index_of ch (chans s)) as [i|] eqn:Ei.
      * destruct (inv_lookup s m ch i HI Ei) as [Hout _].
        pose proof (inv_close s m ch i HI Ei) as HI'. cbn [remove_with].
        specialize (IH _ _ HI' Hwf). destruct (frun BySwap BySwap _ os) as [s2 outs]. cbn [fst snd] in *.
        destruct IH as [IH1 IH2]. split; [rewrite IH1, Hout, Em; reflexivity|exact IH2].
      * exfalso. apply (inv_registered s m ch HI); [rewrite Em; discriminate|exact Ei].
    + destruct (m ch) as [id|] eqn:Em; [|discriminate].
      destruct (index_of ch (chans s)) as [i|] eqn:Ei.
      * destruct (inv_lookup s m ch i HI Ei) as [Hout _].
        specialize (IH _ _ HI Hwf). destruct (frun BySwap BySwap s os) as [s2 outs]. cbn [fst snd] in *.
        destruct IH as [IH1 IH2]. split; [rewrite IH1, Hout, Em; reflexivity|exact IH2].
      * exfalso. apply (inv_registered s m ch HI); [rewrite Em; discriminate|exact Ei].
Qed.

(* the slices stay aligned and duplicate-free *)
Corollary forwarder_aligned : forall os, wf_ops os empty = true ->
  length (chans (fst (run fw0 os))) = length (tags (fst (run fw0 os))) /\ NoDup (chans (fst (run fw0 os))).
Proof.
  intros os H. destruct (forwarder_refines os fw0 empty inv_init H) as [_ (H1 & H2 & _)]. split; assumption.
Qed.

(* ---------- the variants that are not the code *)
(* the channel slice compacted in order, the id slice by swap (seeded change C07-a): the third stream's values go out
   under the second stream's id *)
Lemma refuted_mixed_removal :
  exists os, wf_ops os empty = true /\ snd (frun ByShift BySwap fw0 os) <> aouts os empty.
Proof. exists [FReg 10 1; FReg 20 2; FReg 30 3; FClose 10; FVal 20]%N. split; [reflexivity|]. vm_compute. discriminate. Qed.

(* a parallel slice that is not cut on a close (the request-id slice of seeded change C06-d) *)
Lemma refuted_untruncated :
  exists os, wf_ops os empty = true /\ snd (frun BySwap NotAtAll fw0 os) <> aouts os empty.
Proof. exists [FReg 10 1; FReg 20 2; FClose 10; FReg 30 3; FVal 30]%N. split; [reflexivity|]. vm_compute. discriminate. Qed.
