From Coq Require Import List NArith Bool Lia.
Import ListNotations.
From JR Require Import Rendezvous.

(* with atomic arrivals an entry, once made, is never replaced; every party holds the entry of its uuid *)
Definition RInv (s : rz) : Prop :=
  (forall p u ch, In (p, (u, ch)) (held s) -> assoc u (table s) = Some ch).

Lemma rinv_init : RInv rz0.
Proof. intros p u ch H. destruct H. Qed.

Lemma rinv_arrive s p u : RInv s -> RInv (rzstep s (Arrive p u)).
Proof.
  intros HI q v ch H. unfold rzstep in *. destruct (assoc u (table s)) as [c|] eqn:E; cbn [held table] in *.
  - destruct H as [H|H]; [injection H as <- <- <-; exact E|exact (HI _ _ _ H)].
  - destruct H as [H|H].
    + injection H as <- <- <-. simpl. rewrite N.eqb_refl. reflexivity.
    + simpl. destruct (N.eqb u v) eqn:Ev.
      * apply N.eqb_eq in Ev. subst v. rewrite (HI _ _ _ H) in E. discriminate.
      * exact (HI _ _ _ H).
Qed.

Lemma rinv_run_from es : forall s, only_arrive es = true -> RInv s -> RInv (fold_left rzstep es s).
Proof.
  induction es as [|e es IH]; intros s Ho HI; [exact HI|].
  simpl in Ho. apply andb_true_iff in Ho. destruct Ho as [He Ho]. destruct e as [p u| |]; try discriminate.
  cbn [fold_left]. apply IH; [exact Ho|]. apply rinv_arrive. exact HI.
Qed.

(* any number of parties and uuids, any order of arrival (ties are orders too): two parties of one uuid hold one channel *)
Theorem arrivals_meet : forall es p q u c1 c2,
  only_arrive es = true ->
  In (p, (u, c1)) (held (rzrun es)) -> In (q, (u, c2)) (held (rzrun es)) -> c1 = c2.
Proof.
  intros es p q u c1 c2 Ho H1 H2. pose proof (rinv_run_from es rz0 Ho rinv_init) as HI.
  pose proof (HI _ _ _ H1) as E1. pose proof (HI _ _ _ H2) as E2. congruence.
Qed.

(* the split variant: both parties look before either stores, and they end up on two channels *)
Lemma split_arrivals_miss :
  exists es c1 c2, In (1%N, (7%N, c1)) (held (rzrun es)) /\ In (2%N, (7%N, c2)) (held (rzrun es)) /\ c1 <> c2.
Proof.
  exists [Look 1 7; Look 2 7; Store 1 7; Store 2 7]%N, 0%N, 1%N. vm_compute. repeat split; auto. discriminate.
Qed.

Example arrivals_meet_nonvacuous :
  In (1%N, (7%N, 0%N)) (held (rzrun [Arrive 1 7; Arrive 3 9; Arrive 2 7]%N)) /\
  In (2%N, (7%N, 0%N)) (held (rzrun [Arrive 1 7; Arrive 3 9; Arrive 2 7]%N)).
Proof. vm_compute. auto. Qed.
