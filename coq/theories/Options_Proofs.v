From Coq Require Import List ZArith Bool Lia.
Import ListNotations.
From JR Require Import Options.
Open Scope Z_scope.

Lemma configure_from os : forall c,
  fold_left (apply_opt false) os c = {| ping := last_ping os (ping c); timeout := last_timeout os (timeout c) |}.
Proof.
  induction os as [|o os IH]; intros c; [destruct c; reflexivity|].
  cbn [fold_left]. rewrite IH. destruct o; reflexivity.
Qed.

(* what is configured is what is used: every option list, any length, any order, repetitions included *)
Theorem configured_is_used : forall os,
  configure false os = {| ping := last_ping os (ping kdefault); timeout := last_timeout os (timeout kdefault) |}.
Proof. intros os. apply configure_from. Qed.

(* in particular the order of the two options does not matter *)
Corollary option_order_irrelevant : forall p t,
  configure false [OPing p; OTimeout t] = configure false [OTimeout t; OPing p] /\
  configure false [OPing p; OTimeout t] = {| ping := p; timeout := t |}.
Proof. intros p t. split; reflexivity. Qed.

(* the clamping variant: a pair satisfying the documented constraint (ping < timeout / 2) gets another timeout, and
   which one depends on the order *)
Lemma clamp_refuted :
  let p := 50000000 in let t := 300000000 in
  2 * p < t /\ timeout (configure true [OTimeout t; OPing p]) = 11000000000 /\ timeout (configure true [OPing p; OTimeout t]) = 1100000000.
Proof. vm_compute. repeat split; reflexivity. Qed.
