From Coq Require Import List NArith ZArith Bool.
Import ListNotations.
From JR Require Import Stream AuthCases.

(* 0 accepted; 1 an event is not enabled (index); the prefix chain is also evaluated at the end (2 = violated) *)
Definition chain_ok (s : strm) : bool :=
  prefix_b (cons s) (deliv s) && prefix_b (deliv s) (fwd s) && prefix_b (fwd s) (tried s).

Definition scase_diag (es : list (N * sev)) : N * N :=
  match mrun_diag [] es 0 with
  | (_, Some i) => (1%N, i)
  | (m, None) => if forallb (fun ks => chain_ok (snd ks)) m then (0%N, 0%N) else (2%N, 0%N)
  end.
