(* C16 — Reverse calls reach the calling client and fail, not block, once it is gone.
   The wsConn code is role-agnostic: on the server the same loop / executor / closeInFlight serve the reverse
   client's requests, with connFactory = nil (no reconnect). So the requester theorems apply with roles swapped;
   they are restated here for the no-reconnect case. Statements only. *)
From Coq Require Import String.
From Coq Require Import List NArith Bool.
Import ListNotations.
From JR Require Import Conn Conn_Proofs Json Handle Handle_Proofs.
From JRGen Require Extracted.
Open Scope N_scope.

(* affinity by construction, as /repo's source has it now: handleWS builds the reverse client for the wsConn it has
   just created and serves the connection under the context that carries it (NewServer only stores the builder); the builder ties the client's request
   queue and exit signal to that connection; only handleWS ever builds one (so HTTP / custom contexts carry none);
   the client-side handler table is built with the client's formatter and alias table *)
Theorem c16_source_facts :
  (* the hand-over channel is unbuffered: a request that was handed over is in the loop's hands (registered, or failed) and
     none can be stranded in a queue when the loop ends; the response channel of a request holds one response, so
     delivering to it never blocks (closeInFlight under its lock, a response racing the caller's cancellation) *)
  JRGen.Extracted.requester_chan_makes =
    ["setupRequestChan: make(chan clientRequest)"; "setupRequestChan: make(chan clientResponse, 1)"; "sendRequest: make(chan clientResponse, 1)"]%string /\
  Extracted.reverse_binding = ["cl.exiting = conn.exiting"; "conn.requests = requests"]%string /\
  Extracted.callsites_reverseClientBuilder = ["NewServer(value)"; "handleWS"]%string /\
  Extracted.handleWS_builder_call = "ctx, err = s.reverseClientBuilder(ctx, wc)"%string /\
  Extracted.client_handler_setup = ["h.aliasedMethods = config.aliasedHandlerMethods"; "sc.methodNameFormatter = config.methodNamer"]%string /\
  (* the reverse client names methods with the formatter the server has when a connection is upgraded, whatever the
     order in which the options were listed *)
  Extracted.reverse_formatter_read_per_connection = true.
Proof. repeat split; reflexivity. Qed.

(* same correlation guarantees as forward calls (any number of pending reverse calls, any completion order) *)
Theorem c16_own_response : forall es s id c,
  run repaired_c init es = Some s -> lookup id (calls s) = Some c ->
  (In Genuine (mbox c) \/ got c = Some OGenuine) -> registered c = true.
Proof. intros es s id c H. exact (reachable_prov es s H id c). Qed.

Theorem c16_no_orphan : forall es s,
  run repaired_c init es = Some s ->
  forall id c, lookup id (calls s) = Some c -> waiting_empty c = true ->
     entry_is s id (attempts c) = true \/ exec_looked s id (attempts c) = true.
Proof. intros es s H. exact (proj1 (no_orphan_reachable es s H)). Qed.

(* once the client's connection is gone: the server-side loop exits (it cannot reconnect), which needs every pending
   reverse call to have been failed; later reverse calls are told so at once; nothing blocks *)
Theorem c16_fails_when_gone : forall v s s', step v s LoopExit = Some s' -> inflight s = [] /\ holding s = None.
Proof.
  intros v s s' H. unfold step in H. destruct (holding s); [discriminate|]. destruct (inflight s); [auto|discriminate].
Qed.

Theorem c16_later_reverse_calls_fail : forall s id rt s1,
  is_exited s = true -> step repaired_c s (CallStart id rt) = Some s1 ->
  exists s2, step repaired_c s1 (CallExiting id) = Some s2 /\ exists s3, step repaired_c s2 (CallReturn id OExiting) = Some s3.
Proof.
  intros s id rt s1 Hx H. unfold step in H. destruct (lookup id (calls s)) eqn:L; [discriminate|]. injection H as <-.
  unfold step. cbn [lnk set_calls calls]. unfold is_exited in *. cbn [lnk set_calls]. rewrite Hx.
  simpl. rewrite N.eqb_refl. simpl. eexists; split; [reflexivity|]. simpl. rewrite N.eqb_refl. simpl.
  destruct rt; eexists; reflexivity.
Qed.

(* same dispatch guarantees on the client-side handler table: aliases and tagged names resolve as on a server *)
Theorem c16_dispatch_alias : forall c name orig,
  assoc_b name (methods c) = None -> assoc_b name (aliases c) = Some orig -> resolve c name = assoc_b orig (methods c).
Proof. exact resolve_alias. Qed.

Theorem c16_dispatch_agree : forall f ns hs c h,
  find (fun h' => bytes_eqb (format f ns (h_name h)) (format f ns (h_name h'))) (rev hs) = Some h ->
  resolve (register f ns hs c) (format f ns (h_name h)) = Some h.
Proof. exact register_resolves. Qed.

Print Assumptions c16_source_facts.
Print Assumptions c16_own_response.
Print Assumptions c16_no_orphan.
Print Assumptions c16_fails_when_gone.
Print Assumptions c16_later_reverse_calls_fail.
Print Assumptions c16_dispatch_alias.
Print Assumptions c16_dispatch_agree.
