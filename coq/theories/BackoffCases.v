(* Correspondence side of the backoff model: Go's float64 result vs the exact rational model, tolerance 1ns + 1e-9 relative
   (float rounding of Pow, products and sums is modelled, not verified) *)
From Coq Require Import List ZArith QArith Bool NArith.
Import ListNotations.
From JR Require Import Backoff AuthCases.
From JRGen Require Extracted.
Open Scope Z_scope.

Record bcase := { bc_min : Z; bc_max : Z; bc_attempt : Z; bc_jit : Z; bc_got : Z }.

Definition bcase_ok (c : bcase) : bool :=
  let m := next Extracted.backoff_clamps_before_convert (bc_min c) (bc_max c) (bc_attempt c) (bc_jit c # 9007199254740992) in
  let d := Z.abs (m - bc_got c) in
  (d <=? 1 + Z.abs m / 1000000000).
