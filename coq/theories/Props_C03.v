(* C03 — No call hangs or gets a foreign result, whatever connection fault occurs.
   Model: Conn.v (requester LTS; events = the library's observation points, faults included as the
   reader-error / reconnect / redial / exit events they cause). Statements only; proofs in Conn_Proofs.v.
   "every call returns" is proved as orphan-freedom in every reachable state (safety half) — no waiting call is
   ever left without a party that will answer or fail it; that those parties act (the peer answers, the reader
   notices a dead socket) is the environment's liveness and is not modelled. *)
From Coq Require Import List NArith Bool String.
Import ListNotations.
From JR Require Import Conn Conn_Proofs.
From JRGen Require Extracted.
From JR Require Skeletons Conn_Progress.
Open Scope N_scope.

(* the two repairs the theorems assume are in /repo's source right now *)
Theorem c03_source_facts :
  Extracted.tryReconnect_marks_before_cif = true /\ Extracted.handleResponse_delete_guarded = true /\
  Extracted.callsites_closeInFlight = ["tryReconnect"; "handleWsConn"]%string /\
  Extracted.callsites_tryReconnect = ["handleWsConn"; "handleWsConn"]%string /\
  (* the caller's retry loop is left in four ways only (request could not be handed over / foreign id / undecodable
     result / the response is not a temporary connection error of a retry-tagged method) and otherwise sleeps the backoff
     and goes round again: whether it goes on never depends on the caller's context *)
  Extracted.retry_loop_leaves =
    ["if err != nil: return"; "if !fn.notify && resp.ID != req.ID: return";
     "if err := json.Unmarshal(resp.Result, val.Interface()); err != nil: return"; "if !retry: break"]%string /\
  Extracted.retry_loop_tail = ["vhook(""call.retry"", fn.client, req.ID, attempt)"; "time.Sleep(b.next(attempt))"]%string.
Proof. repeat split; reflexivity. Qed.

(* orphan-freedom, for every trace (any fault sequence, any schedule, any number of callers, retries included):
   a call that waits with an empty mailbox is registered in flight under its current attempt, or the executor
   has looked its response up and is about to deliver it; and requests are in flight only while the link is up
   or closeInFlight is about to fail them *)
Theorem c03_no_orphan : forall es s,
  run repaired_c init es = Some s ->
  (forall id c, lookup id (calls s) = Some c -> waiting_empty c = true ->
     entry_is s id (attempts c) = true \/ exec_looked s id (attempts c) = true) /\
  (inflight s <> [] -> is_up s = true \/ cif_pending s = true).
Proof. exact no_orphan_reachable. Qed.

(* between connections nothing is registered: a request taken in the reconnect window can only be failed fast *)
Theorem c03_window_closed : forall s id, is_up s = false -> step repaired_c s (LoopRegister id) = None.
Proof.
  intros s id H. unfold step. simpl strict_window. rewrite H. simpl.
  destruct (holding_is s id); reflexivity.
Qed.

(* and the link only comes back up once every request of the old connection has been failed *)
Theorem c03_swap_needs_clean_table : forall s s', step repaired_c s RedialSwap = Some s' -> inflight s = [] /\ cif_pending s = false.
Proof.
  intros s s' H. unfold step in H. destruct (is_redial s); [|discriminate]. simpl in H.
  destruct (cif_pending s); [discriminate|]. simpl in H. destruct (inflight s); [auto|discriminate].
Qed.

(* no foreign result: a genuine response reaches a call only if the call was registered under the id the
   response carried (the executor delivers to the request it looked up by that id) *)
Theorem c03_genuine_only_if_registered : forall es s id c,
  run repaired_c init es = Some s -> lookup id (calls s) = Some c ->
  (In Genuine (mbox c) \/ got c = Some OGenuine) -> registered c = true.
Proof. intros es s id c H. exact (reachable_prov es s H id c). Qed.

(* the two defects this model exhibited, as counterexamples of the unrepaired variants *)
Theorem c03_refuted_window_v0 :
  exists es s, run {| strict_window := false; own_delete := true |} init es = Some s /\ no_orphan s = false.
Proof. exact refuted_window. Qed.

Theorem c03_refuted_stale_delete_v0 :
  exists es s, run {| strict_window := true; own_delete := false |} init es = Some s /\ no_orphan s = false.
Proof. exact refuted_stale_delete. Qed.

(* non-vacuity: a fault while a call waits, a call inside the window, recovery *)
Example c03_ex : exists s,
  run repaired_c init [CallStart 1 false; LoopTake 1; LoopRegister 1; LoopSent 1 true; ReconnBegin; CifDeliver 1; CifCleared;
                       CallStart 2 false; LoopTake 2; LoopFailFast 2; RedialAttempt 0; RedialDialed true; RedialSwap;
                       CallRecv 1 true; CallReturn 1 OConnErr; CallRecv 2 true; CallReturn 2 OConnErr;
                       CallStart 3 false; LoopTake 3; LoopRegister 3; LoopSent 3 true; ExecLookup 3 true; ExecDeliver 3;
                       ExecDeleted 3 true; CallRecv 3 false; CallReturn 3 OGenuine] = Some s /\ no_orphan s = true.
Proof. eexists. split; [vm_compute; reflexivity|reflexivity]. Qed.

(* ---- progress (Conn_Progress.v). The library cannot go on for ever by itself: a measure mu over states (phases of the
   calls, in-flight entries, the executor's and the loop's hands, the redial state) is strictly decreased by every event
   the library performs on its own — taking, registering, writing or failing a request, delivering or dropping a response,
   closeInFlight, the redial's sleep and swap, a caller receiving and returning — so between two inputs of the environment
   (a new call, a response, a fault, a dial result, the close) at most mu steps happen, for every reachable state. *)
Theorem c03_internal_steps_decrease : forall s e s',
  Inv s -> step repaired_c s e = Some s' -> Conn_Progress.internal_in s e = true -> (Conn_Progress.mu s' < Conn_Progress.mu s)%nat.
Proof. exact Conn_Progress.internal_decreases. Qed.

Theorem c03_no_livelock : forall es s s',
  Inv s -> Looked s -> Conn_Progress.irun s es = Some s' -> (List.length es + Conn_Progress.mu s' <= Conn_Progress.mu s)%nat.
Proof. exact Conn_Progress.internal_run_bounded. Qed.

(* and when nothing internal is left to do (closeInFlight apart, which belongs to a fault or to the exit), in EVERY reachable
   state: each call has returned, or waits — registered in flight under its current attempt, its mailbox empty — for the
   peer's response, or is a retry-tagged caller that has just taken the connection error and is about to go round its
   retry loop. No other way of waiting exists: that is "no call hangs". *)
Theorem c03_quiescent_calls : forall s es id c,
  run repaired_c init es = Some s -> Conn_Progress.quiet s -> lookup id (calls s) = Some c ->
  ph c = PDone \/
  (ph c = PWait /\ mbox c = [] /\ entry_is s id (attempts c) = true) \/
  (ph c = PRecvd /\ got c = Some OConnErr /\ retry c = true).
Proof. exact Conn_Progress.quiescent_calls. Qed.

(* the functions this property's model is an abstraction of still have the control / locking / shared-state skeleton the
   model was written against (Skeletons.v, by hand; Extracted.v, regenerated from /repo) *)
Theorem c03_code_skeletons :
  JRGen.Extracted.effects_resetReadDeadline = JR.Skeletons.resetReadDeadline /\
  JRGen.Extracted.effects_handleResponse = JR.Skeletons.handleResponse /\
  JRGen.Extracted.effects_closeInFlight = JR.Skeletons.closeInFlight /\
  JRGen.Extracted.effects_tryReconnect = JR.Skeletons.tryReconnect /\
  JRGen.Extracted.effects_handleWsConn = JR.Skeletons.handleWsConn.
Proof. repeat split; reflexivity. Qed.

Print Assumptions c03_code_skeletons.
Print Assumptions c03_internal_steps_decrease.
Print Assumptions c03_no_livelock.
Print Assumptions c03_quiescent_calls.
Print Assumptions c03_source_facts.
Print Assumptions c03_no_orphan.
Print Assumptions c03_window_closed.
Print Assumptions c03_swap_needs_clean_table.
Print Assumptions c03_genuine_only_if_registered.
Print Assumptions c03_refuted_window_v0.
Print Assumptions c03_refuted_stale_delete_v0.
