From Coq Require Import String.
From Coq Require Import List NArith ZArith Bool Lia.
Import ListNotations.
From JR Require Import Json Json_Proofs Handle Handle_Proofs Errors.

(* ---------- the wire object *)
Lemma bs_neq_eqb a b : bytes_eqb a b = false -> a <> b.
Proof. intros H E. subst. rewrite bytes_eqb_refl in H. discriminate. Qed.

Lemma read_wire_json w : (Z.abs (we_code w) < 10 ^ 80)%Z -> we_data w <> Some JNull ->
  read_wire (wire_json w) = Some w.
Proof.
  intros Hc Hd. destruct w as [c m me d]. simpl in *. unfold read_wire, wire_json. cbn [we_code we_msg we_meta we_data].
  change (assoc_b (bs "code") ((bs "code", JNum (z_lit c)) :: _)) with (Some (JNum (z_lit c))).
  change (assoc_b (bs "message") ((bs "code", JNum (z_lit c)) :: (bs "message", JStr m) :: ?x)) with (Some (JStr m)).
  rewrite int_literal_z_lit by exact Hc.
  destruct me as [j|], d as [dj|]; cbn; try reflexivity.
  - destruct dj; try reflexivity. congruence.
  - destruct dj; try reflexivity. congruence.
Qed.

(* ---------- createError / val *)
Section Transport.
  Variable tycaps : tykey -> caps.
  Variable accept_codec : tykey -> wire_err -> bool.
  Variable accept_meta : tykey -> json -> bool.
  Notation VAL := (val tycaps accept_codec accept_meta).
  Notation RECV := (receive tycaps accept_codec accept_meta).

  (* nil iff nil, zero value beside an error, value intact otherwise *)
  Lemma error_iff_error s c zero r :
    (snd (RECV c zero (serve tycaps s r)) = None <-> snd r = None) /\
    (snd r <> None -> fst (RECV c zero (serve tycaps s r)) = zero) /\
    (snd r = None -> fst (RECV c zero (serve tycaps s r)) = fst r).
  Proof.
    destruct r as [v [e|]]; unfold serve, receive; simpl; repeat split; try congruence; intros; congruence.
  Qed.

  (* an error whose code the client has no entry for (or no table at all) arrives as the generic error, untouched *)
  Lemma unmapped_code_generic c w :
    (c = None \/ exists r, c = Some r /\ by_code r (we_code w) = None) -> VAL c w = CGeneric w.
  Proof. intros [->|(r & -> & H)]; simpl; [reflexivity|]. rewrite H. reflexivity. Qed.

  (* an error whose type the server has no entry for goes out with code 1 and the handler's message (plain types) *)
  Lemma unregistered_wire s e :
    is_codec (tycaps (ev_ty e)) = false ->
    (s = None \/ exists r, s = Some r /\ by_type r (ev_ty e) = None) ->
    we_code (create_error tycaps s e) = 1%Z /\ we_msg (create_error tycaps s e) = ev_msg e /\
    we_data (create_error tycaps s e) = None.
  Proof.
    intros Hc Hs. unfold create_error. rewrite Hc.
    assert (E : match s with Some r => match by_type r (ev_ty e) with Some c => c | None => 1%Z end | None => 1%Z end = 1%Z).
    { destruct Hs as [->|(r & -> & H)]; [reflexivity|]. rewrite H. reflexivity. }
    rewrite E. destruct (is_marshalable _); [destruct (ev_meta e)|]; simpl; auto.
  Qed.

  (* message always preserved for non-codec errors, whatever the tables *)
  Lemma message_preserved s e : is_codec (tycaps (ev_ty e)) = false -> we_msg (create_error tycaps s e) = ev_msg e.
  Proof. intros Hc. unfold create_error. rewrite Hc. destruct (is_marshalable _); [destruct (ev_meta e)|]; reflexivity. Qed.

  (* unregistered end to end *)
  Lemma unregistered_end_to_end s c e :
    is_codec (tycaps (ev_ty e)) = false -> is_marshalable (tycaps (ev_ty e)) = false ->
    (s = None \/ exists r, s = Some r /\ by_type r (ev_ty e) = None) ->
    (c = None \/ exists r, c = Some r /\ by_code r 1%Z = None) ->
    VAL c (create_error tycaps s e) = CGeneric {| we_code := 1; we_msg := ev_msg e; we_meta := None; we_data := None |}.
  Proof.
    intros Hc Hm Hs Hcl.
    assert (E : create_error tycaps s e = {| we_code := 1; we_msg := ev_msg e; we_meta := None; we_data := None |}).
    { unfold create_error. rewrite Hc, Hm. destruct Hs as [->|(r & -> & H)]; [reflexivity|]. rewrite H. reflexivity. }
    rewrite E. apply unmapped_code_generic. exact Hcl.
  Qed.

  (* marshalable type registered under the same code on both sides: exactly that type, holding what MarshalJSON produced *)
  Lemma registered_marshalable s c e code j rs rc :
    s = Some rs -> c = Some rc ->
    by_type rs (ev_ty e) = Some code -> by_code rc code = Some (ev_ty e) ->
    is_codec (tycaps (ev_ty e)) = false -> is_marshalable (tycaps (ev_ty e)) = true ->
    ev_meta e = Some j -> accept_meta (ev_ty e) j = true ->
    VAL c (create_error tycaps s e) = CTyped (ev_ty e) (Some (inr j)).
  Proof.
    intros -> -> Hs Hcd Hc Hm Hj Ha. unfold create_error. rewrite Hc, Hm, Hj, Hs. unfold val. cbn [we_code we_meta].
    rewrite Hcd, Hc, Hm, Ha. reflexivity.
  Qed.

  (* codec type: the code it supplies selects the client type; the type receives exactly the fields it produced *)
  Lemma registered_codec s c e code m d rc :
    c = Some rc -> is_codec (tycaps (ev_ty e)) = true -> ev_codec e = Some (code, m, d) ->
    by_code rc code = Some (ev_ty e) ->
    accept_codec (ev_ty e) {| we_code := code; we_msg := m; we_meta := None; we_data := d |} = true ->
    VAL c (create_error tycaps s e) =
      CTyped (ev_ty e) (Some (inl {| we_code := code; we_msg := m; we_meta := None; we_data := d |})).
  Proof.
    intros -> Hc He Hcd Ha. unfold create_error. rewrite Hc, He. unfold val. cbn [we_code]. rewrite Hcd, Hc, Ha. reflexivity.
  Qed.

  (* plain registered type: exactly that type (its zero value: it has nothing to carry content in) *)
  Lemma registered_plain s c e code rs rc :
    s = Some rs -> c = Some rc ->
    by_type rs (ev_ty e) = Some code -> by_code rc code = Some (ev_ty e) ->
    is_codec (tycaps (ev_ty e)) = false -> is_marshalable (tycaps (ev_ty e)) = false ->
    VAL c (create_error tycaps s e) = CTyped (ev_ty e) None.
  Proof.
    intros -> -> Hs Hcd Hc Hm. unfold create_error. rewrite Hc, Hm, Hs. unfold val. cbn [we_code we_meta]. rewrite Hcd, Hc. reflexivity.
  Qed.

  (* the type handed over is the registered one, in the registered form: never some other key *)
  Lemma typed_is_registered c w k p : VAL c w = CTyped k p -> exists r, c = Some r /\ by_code r (we_code w) = Some k.
  Proof.
    unfold val. destruct c as [r|]; [|discriminate]. destruct (by_code r (we_code w)) as [k'|] eqn:E; [|discriminate].
    intros H. exists r. split; [reflexivity|]. rewrite E. f_equal.
    destruct (is_codec (tycaps k')); [destruct (accept_codec k' w); [|discriminate]; injection H; intros; assumption|].
    destruct (we_meta w) as [j|]; [destruct (is_marshalable (tycaps k')); [destruct (accept_meta k' j); [|discriminate]|]|];
      injection H; intros; assumption.
  Qed.

  (* a failed conversion degrades to the generic error carrying everything that was on the wire *)
  Lemma failed_conversion_generic c w :
    (forall k, accept_codec k w = false) -> (forall k j, accept_meta k j = false) ->
    (exists k, VAL c w = CTyped k None) \/ VAL c w = CGeneric w.
  Proof.
    intros Hc Hm. unfold val. destruct c as [r|]; [|right; reflexivity]. destruct (by_code r (we_code w)) as [k|]; [|right; reflexivity].
    destruct (is_codec (tycaps k)); [rewrite Hc; right; reflexivity|].
    destruct (we_meta w) as [j|]; [|left; eauto]. destruct (is_marshalable (tycaps k)); [rewrite Hm; right; reflexivity|left; eauto].
  Qed.

  (* the payload handed to the user's conversion is the wire content itself *)
  Lemma typed_payload c w k p : VAL c w = CTyped k (Some p) -> p = inl w \/ exists j, we_meta w = Some j /\ p = inr j.
  Proof.
    unfold val. destruct c as [r|]; [|discriminate]. destruct (by_code r (we_code w)) as [k'|]; [|discriminate].
    destruct (is_codec (tycaps k')); [destruct (accept_codec k' w); [|discriminate]; intros H; injection H; auto|].
    destruct (we_meta w) as [j|]; [|discriminate]. destruct (is_marshalable (tycaps k')); [|discriminate].
    destruct (accept_meta k' j); [|discriminate]. intros H; injection H as _ <-. right. eauto.
  Qed.

  (* the codec wins on both sides for a type that is both codec and marshalable *)
  Lemma codec_precedence c w k rc :
    c = Some rc -> by_code rc (we_code w) = Some k -> is_codec (tycaps k) = true ->
    VAL c w = if accept_codec k w then CTyped k (Some (inl w)) else CGeneric w.
  Proof. intros -> H Hc. unfold val. rewrite H, Hc. reflexivity. Qed.
End Transport.

(* value and pointer registrations are different keys *)
Lemma value_pointer_distinct n c (r : registry_s) :
  by_type (register_s c {| ty_name := n; ty_ptr := false |} r) {| ty_name := n; ty_ptr := true |} =
  by_type r {| ty_name := n; ty_ptr := true |} /\
  by_type (register_s c {| ty_name := n; ty_ptr := true |} r) {| ty_name := n; ty_ptr := false |} =
  by_type r {| ty_name := n; ty_ptr := false |}.
Proof. unfold register_s. cbn [by_type]. unfold tykey_eqb. cbn [ty_name ty_ptr Bool.eqb]. rewrite !andb_false_r. split; reflexivity. Qed.

Lemma tykey_eqb_eq a b : tykey_eqb a b = true <-> a = b.
Proof.
  destruct a as [n p], b as [n' p']. unfold tykey_eqb; simpl. rewrite andb_true_iff, N.eqb_eq, eqb_true_iff.
  split; [intros [-> ->]; reflexivity|intros H; injection H; auto].
Qed.

(* Register stores the pair in both maps, a later registration overrides *)
Lemma register_lookup c k rs rc :
  by_type (register_s c k rs) k = Some c /\ by_code (register_c c k rc) c = Some k.
Proof.
  unfold register_s, register_c; simpl. rewrite Z.eqb_refl.
  assert (tykey_eqb k k = true) as -> by (apply tykey_eqb_eq; reflexivity). split; reflexivity.
Qed.

(* Error(): the prefix appears exactly in the reserved range *)
Lemma error_string_spec w :
  ((-32768 <= we_code w <= -32000)%Z -> error_string w = (bs "RPC error (" ++ z_lit (we_code w) ++ bs "): " ++ we_msg w)%list) /\
  (~ (-32768 <= we_code w <= -32000)%Z -> error_string w = we_msg w).
Proof.
  unfold error_string. split; intros H.
  - assert ((-32768 <=? we_code w)%Z && (we_code w <=? -32000)%Z = true) as -> by (apply andb_true_intro; split; apply Z.leb_le; lia). reflexivity.
  - destruct ((-32768 <=? we_code w)%Z && (we_code w <=? -32000)%Z) eqn:E; [|reflexivity].
    apply andb_prop in E. destruct E as [E1 E2]. apply Z.leb_le in E1, E2. lia.
Qed.

(* the Handle model's failing-handler response carries exactly the wire object *)
Lemma fail_outcome_wire w id :
  match fail_outcome w with
  | Fail c m x => pr_response {| rs_id := id; rs_body := RError c (MExact m) x; rs_rpc_error := false |} msg_default =
                  JObj [(bs "error", wire_json w); (bs "id", id); (bs "jsonrpc", JStr (bs "2.0"))]
  | _ => False
  end.
Proof. reflexivity. Qed.
