From Coq Require Import List NArith ZArith Bool Arith String.
Import ListNotations.
From JR Require Import Json Handle Frame.
From JRGen Require Extracted.
Open Scope N_scope.

(* with the guards in place no frame whatsoever makes the executor panic *)
Lemma cancel_no_crash t f : exec_builtin_cancel all_guards t f <> ECrash.
Proof.
  unfold exec_builtin_cancel. destruct (param_list (f_params f)) as [[|p0 ps]|]; simpl; try discriminate.
  destruct (normalize_id _); discriminate.
Qed.

Lemma chval_no_crash t f : exec_builtin_chval all_guards t f <> ECrash.
Proof.
  unfold exec_builtin_chval. destruct (param_list (f_params f)) as [ps|]; [|discriminate]. simpl.
  destruct ps as [|p0 [|p1 rest]]; simpl; try discriminate.
  destruct (as_uint64 p0); [|discriminate]. destruct (mem_z _ _); discriminate.
Qed.

Lemma chclose_no_crash t f : exec_builtin_chclose all_guards t f <> ECrash.
Proof.
  unfold exec_builtin_chclose. destruct (param_list (f_params f)) as [[|p0 ps]|]; simpl; try discriminate.
  destruct (as_uint64 p0); discriminate.
Qed.

Lemma exec_no_crash t b : exec_frame all_guards t b <> ECrash.
Proof.
  unfold exec_frame. destruct (parse b) as [v|]; [|discriminate].
  destruct (decode_frame v) as [f err]. destruct err; [discriminate|].
  destruct (normalize_id (f_id f)) as [id|]; [|discriminate].
  destruct (bytes_eqb _ []); [discriminate|].
  destruct (bytes_eqb _ (bs Extracted.wsCancel)); [apply cancel_no_crash|].
  destruct (bytes_eqb _ (bs Extracted.chValue)); [apply chval_no_crash|].
  destruct (bytes_eqb _ (bs Extracted.chClose)); [apply chclose_no_crash|].
  destruct (t_has_handler t); discriminate.
Qed.

(* a frame only ever touches the table entry it names: the effect depends on the tables only through the
   membership of that one id / channel id *)
Lemma exec_tables_frame g t1 t2 b :
  t_has_handler t1 = t_has_handler t2 ->
  (forall j, mem_json j (t_inflight t1) = mem_json j (t_inflight t2)) ->
  (forall j, mem_json j (t_handling t1) = mem_json j (t_handling t2)) ->
  (forall z, mem_z z (t_sinks t1) = mem_z z (t_sinks t2)) ->
  exec_frame g t1 b = exec_frame g t2 b.
Proof.
  intros Hh Hi Hg Hs. unfold exec_frame. destruct (parse b) as [v|]; [|reflexivity].
  destruct (decode_frame v) as [f err]. destruct err; [reflexivity|].
  destruct (normalize_id (f_id f)) as [id|]; [|reflexivity].
  destruct (bytes_eqb _ []). { destruct id; [rewrite Hi|]; reflexivity. }
  destruct (bytes_eqb _ (bs Extracted.wsCancel)).
  { unfold exec_builtin_cancel. destruct (param_list _) as [[|p0 ps]|]; try reflexivity.
    destruct (g_cancel_norm g).
    - destruct (normalize_id _) as [[j|]|]; try reflexivity. rewrite Hg. reflexivity.
    - destruct p0; try reflexivity; simpl; rewrite ?Hg; reflexivity. }
  destruct (bytes_eqb _ (bs Extracted.chValue)).
  { unfold exec_builtin_chval. destruct (param_list _) as [ps|]; [|reflexivity].
    destruct (g_val_len g && _)%bool; [reflexivity|]. destruct ps as [|p0 rest]; [reflexivity|].
    destruct (as_uint64 p0); [|reflexivity]. rewrite Hs. reflexivity. }
  destruct (bytes_eqb _ (bs Extracted.chClose)).
  { unfold exec_builtin_chclose. destruct (param_list _) as [[|p0 ps]|]; try reflexivity.
    destruct (as_uint64 p0); [|reflexivity]. rewrite Hs. reflexivity. }
  rewrite Hh. reflexivity.
Qed.

(* a call frame is handed to handler.handle unchanged, whatever hostile frames came before it *)
Lemma call_frame_effect g t b v f id :
  parse b = Some v -> decode_frame v = (f, false) -> normalize_id (f_id f) = Some id ->
  bytes_eqb (f_method f) [] = false ->
  bytes_eqb (f_method f) (bs Extracted.wsCancel) = false ->
  bytes_eqb (f_method f) (bs Extracted.chValue) = false ->
  bytes_eqb (f_method f) (bs Extracted.chClose) = false ->
  t_has_handler t = true ->
  exec_frame g t b = ECall {| r_id := id; r_method := f_method f; r_params := f_params f |}.
Proof.
  intros Hp Hd Hn H0 H1 H2 H3 Hh. unfold exec_frame. rewrite Hp, Hd, Hn. cbv zeta. cbn [f_method f_id f_params f_result f_error]. rewrite H0, H1, H2, H3, Hh. reflexivity.
Qed.

(* the defects repaired by d29ec76: without the guards single frames crash the executor *)
Lemma refuted_without_guards :
  let t := {| t_inflight := []; t_handling := []; t_sinks := [5%Z]; t_has_handler := true |} in
  exec_frame no_guards t (bs "{""method"":""xrpc.cancel"",""params"":[]}") = ECrash /\
  exec_frame no_guards t (bs "{""method"":""xrpc.cancel"",""params"":null}") = ECrash /\
  exec_frame no_guards t (bs "{""method"":""xrpc.cancel"",""params"":[[1]]}") = ECrash /\
  exec_frame no_guards t (bs "{""method"":""xrpc.ch.close"",""params"":[]}") = ECrash /\
  exec_frame no_guards t (bs "{""method"":""xrpc.ch.val"",""params"":[5]}") = ECrash.
Proof. vm_compute. repeat split. Qed.
