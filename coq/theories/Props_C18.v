(* C18 — Closing a client always completes and leaves nothing blocked (request side; channels: Props_C08).
   The closer is `close(stop); <-exiting`: Stop is a loop event that is enabled in every state, the loop then runs
   its deferred closeInFlight and exits. Statements only; proofs in Conn_Proofs.v. *)
From Coq Require Import List NArith Bool String.
Import ListNotations.
From JR Require Import Conn Conn_Proofs.
From JRGen Require Extracted.
From JR Require Skeletons Conn_Progress.
Open Scope N_scope.

(* closers as written in /repo: websocket waits for the loop to exit, http/custom just close their stop channel *)
Theorem c18_source_closers :
  Extracted.closer_bodies = [("NewCustomClient", "close(stop)"); ("httpClient", "close(stop)");
                             ("websocketClient", "close(stop); <-exiting")]%string.
Proof. reflexivity. Qed.

(* the loop exits only after every in-flight request has been failed (or answered) and while it holds none *)
Theorem c18_exit_needs_clean_table : forall v s s', step v s LoopExit = Some s' -> inflight s = [] /\ holding s = None.
Proof.
  intros v s s' H. unfold step in H. destruct (holding s); [discriminate|].
  destruct (inflight s); [auto|discriminate].
Qed.

(* so at exit (and ever after) every call that waits with an empty mailbox is one the executor is delivering to *)
Theorem c18_inflight_returned : forall es s,
  run repaired_c init es = Some s -> inflight s = [] ->
  forall id c, lookup id (calls s) = Some c -> waiting_empty c = true -> exec_looked s id (attempts c) = true.
Proof.
  intros es s H Hn id c L W. destruct (proj1 (no_orphan_reachable es s H) id c L W) as [E|E]; [|exact E].
  unfold entry_is in E. rewrite Hn in E. discriminate.
Qed.

(* after the exit: nothing is taken, registered, redialled or swapped in any more ... *)
Theorem c18_after_exit : forall s,
  is_exited s = true ->
  (forall id, step repaired_c s (LoopTake id) = None) /\ step repaired_c s LoopTakeOther = None /\
  (forall id, step repaired_c s (LoopRegister id) = None) /\ (forall n, step repaired_c s (RedialAttempt n) = None) /\
  step repaired_c s RedialSwap = None /\ step repaired_c s ReconnBegin = None.
Proof. exact after_exit. Qed.

(* ... at most the one dial that was already under way completes (its connection is never installed) ... *)
Theorem c18_at_most_one_late_dial : forall s ok s',
  is_exited s = true -> step repaired_c s (RedialDialed ok) = Some s' -> lnk s = ExitedDialing /\ lnk s' = Exited.
Proof.
  intros s ok s' Hx H. unfold step in H. unfold is_exited in Hx. destruct (lnk s); try discriminate.
  injection H as <-. auto.
Qed.

(* ... and a later call is told so instead of blocking *)
Theorem c18_later_calls_fail : forall s id rt s1,
  is_exited s = true -> step repaired_c s (CallStart id rt) = Some s1 ->
  exists s2, step repaired_c s1 (CallExiting id) = Some s2 /\
  exists s3, step repaired_c s2 (CallReturn id OExiting) = Some s3.
Proof.
  intros s id rt s1 Hx H. unfold step in H. destruct (lookup id (calls s)) eqn:L; [discriminate|]. injection H as <-.
  unfold step. cbn [lnk set_calls calls]. unfold is_exited in *. cbn [lnk set_calls]. rewrite Hx.
  simpl. rewrite N.eqb_refl. simpl. eexists; split; [reflexivity|]. simpl. rewrite N.eqb_refl. simpl.
  destruct rt; eexists; reflexivity.
Qed.

(* a response that cannot be used (a subscribing call answered with something that is not a channel id) is dropped by the
   executor after the lookup: nothing is sent to the caller and the request stays registered in flight, so the close
   (closeInFlight) still finds and fails it. With c03_no_orphan / c18_inflight_returned, which quantify over traces
   containing such events too, the call returns at the close. *)
Theorem c18_unusable_response_keeps_request : forall v s id s',
  step v s (ExecAbandon id) = Some s' -> inflight s' = inflight s /\ calls s' = calls s /\ exe s' = EIdle.
Proof.
  intros v s id s' H. simpl in H. destruct (exe s) as [|k att|]; try discriminate. destruct (N.eqb k id); [|discriminate].
  injection H as <-. repeat split.
Qed.

(* in every reachable state: while the executor holds the looked-up request of a call's current attempt and the call waits
   with an empty mailbox, the in-flight entry is there (so dropping the response at that point orphans nobody) *)
Theorem c18_looked_up_entry_present : forall es s id att c,
  run repaired_c init es = Some s -> exe s = ELooked id att -> lookup id (calls s) = Some c -> attempts c = att ->
  pending_empty c = true -> entry_is s id att = true.
Proof. intros es s id att c H. exact (reachable_looked es s H id att c). Qed.

Example c18_abandon_then_close : exists s,
  run repaired_c init [CallStart 1 false; LoopTake 1; LoopRegister 1; LoopSent 1 true; ExecLookup 1 true; ExecAbandon 1;
                       CifDeliver 1; CifCleared; LoopExit; CallRecv 1 true; CallReturn 1 OConnErr]%N = Some s /\ no_orphan s = true.
Proof. eexists. split; [vm_compute; reflexivity|reflexivity]. Qed.

(* after the loop has exited and closeInFlight is through, in every reachable state in which nothing internal is left to do:
   every call has returned (or is a retry-tagged caller on its way to be told that the client is gone) — nothing waits *)
Theorem c18_nothing_waits_after_exit : forall s es id c,
  run repaired_c init es = Some s -> Conn_Progress.quiet s -> is_exited s = true -> cif_pending s = false ->
  lookup id (calls s) = Some c ->
  ph c = PDone \/ (ph c = PRecvd /\ got c = Some OConnErr /\ retry c = true).
Proof. exact Conn_Progress.quiescent_after_exit. Qed.

(* the functions this property's model is an abstraction of still have the control / locking / shared-state skeleton the
   model was written against (Skeletons.v, by hand; Extracted.v, regenerated from /repo) *)
Theorem c18_code_skeletons :
  (* the hand-over channel is unbuffered: a request that was handed over is in the loop's hands (registered, or failed) and
     none can be stranded in a queue when the loop ends; the response channel of a request holds one response, so
     delivering to it never blocks (closeInFlight under its lock, a response racing the caller's cancellation) *)
  JRGen.Extracted.requester_chan_makes =
    ["setupRequestChan: make(chan clientRequest)"; "setupRequestChan: make(chan clientResponse, 1)"; "sendRequest: make(chan clientResponse, 1)"]%string /\
  JRGen.Extracted.effects_handleResponse = JR.Skeletons.handleResponse /\
  JRGen.Extracted.effects_closeInFlight = JR.Skeletons.closeInFlight /\
  JRGen.Extracted.effects_closeChans = JR.Skeletons.closeChans /\
  JRGen.Extracted.effects_handleWsConn = JR.Skeletons.handleWsConn /\
  JRGen.Extracted.effects_setupRequestChan = JR.Skeletons.setupRequestChan.
Proof. repeat split; reflexivity. Qed.

Print Assumptions c18_code_skeletons.
Print Assumptions c18_nothing_waits_after_exit.
Print Assumptions c18_unusable_response_keeps_request.
Print Assumptions c18_looked_up_entry_present.
Print Assumptions c18_source_closers.
Print Assumptions c18_exit_needs_clean_table.
Print Assumptions c18_inflight_returned.
Print Assumptions c18_after_exit.
Print Assumptions c18_at_most_one_late_dial.
Print Assumptions c18_later_calls_fail.
