From Coq Require Import List ZArith Bool Lia.
Import ListNotations.
From JR Require Import Keepalive.
Open Scope Z_scope.

Lemma max_gap_ge_best es : forall cur best, best <= max_gap es cur best.
Proof.
  induction es as [|e es IH]; intros cur best; simpl; [lia|].
  destruct e as [d|]; [apply IH|]. eapply Z.le_trans; [|apply IH]. lia.
Qed.

Lemma max_gap_ge_cur es : forall cur best, ticks_nonneg es = true -> cur <= max_gap es cur best.
Proof.
  induction es as [|e es IH]; intros cur best H; simpl; [lia|].
  destruct e as [d|]; simpl in H.
  - apply andb_prop in H. destruct H as [H1 H2]. apply Z.leb_le in H1. specialize (IH (cur + d) best H2). lia.
  - pose proof (max_gap_ge_best es 0 (Z.max cur best)). lia.
Qed.

(* healthy link: if no stretch without peer activity reaches the timeout, the deadline never fires *)
Lemma healthy_gen T es : forall s cur best,
  0 < T -> ticks_nonneg es = true -> fired s = false -> deadline s = now s - cur + T -> 0 <= cur ->
  max_gap es cur best < T -> fired (krun T s es) = false.
Proof.
  induction es as [|e es IH]; intros s cur best HT Hn Hf Hd Hc Hg; simpl in *; [exact Hf|].
  destruct e as [d|].
  - apply andb_prop in Hn. destruct Hn as [Hd0 Hn]. apply Z.leb_le in Hd0.
    pose proof (max_gap_ge_cur es (cur + d) best Hn) as Hb.
    eapply (IH _ (cur + d) best); simpl; auto; try lia.
    try (rewrite Hf; simpl; apply Z.leb_gt; lia).
  - unfold kstep. rewrite Hf. eapply (IH _ 0 (Z.max cur best)); simpl; auto; lia.
Qed.

Theorem healthy_never_expires T t0 es :
  0 < T -> ticks_nonneg es = true -> max_gap es 0 0 < T ->
  fired (krun T {| now := t0; deadline := t0 + T; fired := false |} es) = false.
Proof. intros HT Hn Hg. eapply healthy_gen with (cur := 0) (best := 0); simpl; auto; lia. Qed.

(* silent peer: with no further re-arming the deadline fires as soon as T has passed since the last one *)
Definition tick_sum (es : list kev) (a : Z) : Z := fold_left (fun a e => match e with Tick d => a + d | Reset => a end) es a.

Lemma tick_sum_shift es : forall a, tick_sum es a = a + tick_sum es 0.
Proof.
  induction es as [|x l IH]; intros a; [unfold tick_sum; simpl; lia|].
  destruct x as [d|].
  - change (tick_sum (Tick d :: l) a) with (tick_sum l (a + d)).
    change (tick_sum (Tick d :: l) 0) with (tick_sum l (0 + d)). rewrite IH, (IH (0 + d)). lia.
  - change (tick_sum (Reset :: l) a) with (tick_sum l a). change (tick_sum (Reset :: l) 0) with (tick_sum l 0). apply IH.
Qed.

Lemma tick_sum_nonneg es : ticks_nonneg es = true -> 0 <= tick_sum es 0.
Proof.
  induction es as [|x l IH]; simpl; intros H; [unfold tick_sum; simpl; lia|].
  destruct x as [d|]; simpl in H.
  - apply andb_prop in H. destruct H as [H1 H2]. apply Z.leb_le in H1.
    change (tick_sum (Tick d :: l) 0) with (tick_sum l (0 + d)). rewrite tick_sum_shift. specialize (IH H2). lia.
  - change (tick_sum (Reset :: l) 0) with (tick_sum l 0). apply IH; exact H.
Qed.

Lemma silent_gen T es : forall s, (forall e, In e es -> e <> Reset) -> ticks_nonneg es = true ->
  (fired s = false -> now s < deadline s) ->
  fired (krun T s es) = fired s || (deadline s <=? now s + tick_sum es 0).
Proof.
  induction es as [|e es IH]; intros s Hn Ht Hinv; simpl.
  - unfold tick_sum; simpl. rewrite Z.add_0_r. destruct (fired s) eqn:F; simpl; [reflexivity|].
    symmetry. apply Z.leb_gt. apply Hinv. reflexivity.
  - destruct e as [d|]; [|exfalso; apply (Hn Reset); [left; reflexivity|reflexivity]].
    simpl in Ht. apply andb_prop in Ht. destruct Ht as [Hd Ht]. apply Z.leb_le in Hd.
    rewrite IH; [|intros x Hx; apply Hn; right; exact Hx|exact Ht|].
    + simpl. change (tick_sum (Tick d :: es) 0) with (tick_sum es (0 + d)). rewrite ?Z.add_0_l. rewrite (tick_sum_shift es d).
      pose proof (tick_sum_nonneg es Ht) as G.
      destruct (fired s); simpl; [reflexivity|].
      destruct (deadline s <=? now s + d) eqn:E1; simpl.
      * symmetry. apply Z.leb_le. apply Z.leb_le in E1. lia.
      * f_equal. lia.
    + simpl. intros Hf. apply orb_false_iff in Hf. destruct Hf as [_ Hf]. apply Z.leb_gt in Hf. exact Hf.
Qed.

Theorem silent_detected T t0 es :
  0 < T -> (forall e, In e es -> e <> Reset) -> ticks_nonneg es = true ->
  T <= tick_sum es 0 ->
  fired (krun T {| now := t0; deadline := t0 + T; fired := false |} es) = true.
Proof.
  intros HT Hn Ht Hs. rewrite silent_gen; try assumption; [|simpl; lia]. simpl. apply Z.leb_le. lia.
Qed.

(* re-arming needs evidence that the peer is alive: never more resets than pieces of peer evidence, and none at all
   in a stretch that contains only our own writes *)
Lemma arun_credits es : forall c c', arun c es = Some c' -> (count_resets es + c' = count_peer es + c)%nat.
Proof.
  induction es as [|e es IH]; intros c c' H; simpl in H.
  - injection H as <-. reflexivity.
  - destruct (astep c e) as [c1|] eqn:Hs; [|discriminate]. specialize (IH c1 c' H).
    destruct e; simpl in Hs; try (injection Hs as <-); unfold count_resets, count_peer in *; simpl in *; try lia.
    destruct c; [discriminate|]. injection Hs as <-. lia.
Qed.

Theorem resets_bounded_by_peer_activity es c' : arun 0 es = Some c' -> (count_resets es <= count_peer es)%nat.
Proof. intros H. pose proof (arun_credits es 0 c' H). lia. Qed.

Theorem own_writes_never_rearm es : Forall (fun e => e = OwnWrite) es -> arun 0 (es ++ [ResetDeadline]) = None.
Proof.
  intros H. induction H as [|e es He _ IH]; simpl; [reflexivity|]. subst e. simpl. exact IH.
Qed.
