(* C17 — Keepalive keeps healthy links up and detects silent peers in bounded time. (partial)
   The logic is proved; real time, scheduling latency, network latency and gorilla's control-frame processing are
   premises: "the stretches without peer evidence stay below the timeout" is what a healthy link with
   ping interval < timeout/2 gives when round trip + reaction time stay below timeout/2; the harness samples it.
   Statements only; proofs in Keepalive_Proofs.v. *)
From Coq Require Import String.
From Coq Require Import List ZArith Bool.
Import ListNotations.
From JR Require Import Keepalive Keepalive_Proofs.
From JRGen Require Extracted.
From JR Require Skeletons Options Options_Proofs.
Open Scope Z_scope.

(* the read deadline is re-armed in exactly three places, all triggered by the peer (a frame was read, a ping/pong
   arrived, a long frame is still arriving); it is armed before the reader blocks; a ping is answered with a pong *)
Theorem c17_source_facts :
  (* a pong is written with a deadline of one second from now (never unbounded, never already past), and no write deadline
     is ever set on the connection itself *)
  JRGen.Extracted.write_control_calls = ["conn.WriteControl(websocket.PongMessage, []byte(appData), time.Now().Add(time.Second))"]%string /\
  JRGen.Extracted.write_deadline_calls = [] /\
  Extracted.callsites_resetReadDeadline = ["nextMessage"; "handleWsConn"; "autoResetReader(value)"]%string /\
  Extracted.nextMessage_resets_before_read = true /\ Extracted.ping_handler_answers_pong = true /\
  Extracted.default_client_ping_timeout = (5000000000, 30000000000) /\ Extracted.default_server_ping = 5000000000 /\
  (* a redialled connection gets its keepalive handlers after it has been installed (they are bound to c.conn) *)
  Extracted.redial_sets_up_pings_after_swap = true /\
  (* the configured timeout and ping intervals are what the connection uses: the options store their argument, nothing else *)
  Extracted.option_bodies = [("WithTimeout", ["c.timeout = d"]); ("WithPingInterval", ["c.pingInterval = d"]);
                             ("WithServerPingInterval", ["c.pingInterval = d"])]%string.
Proof. repeat split; reflexivity. Qed.

(* healthy link: for every trace (calls and idle periods of any length: they do not appear at all) in which no stretch
   without peer evidence reaches the timeout, the deadline never fires *)
Theorem c17_healthy_never_expires : forall T t0 es,
  0 < T -> ticks_nonneg es = true -> max_gap es 0 0 < T ->
  fired (krun T {| now := t0; deadline := t0 + T; fired := false |} es) = false.
Proof. exact healthy_never_expires. Qed.

(* silent peer: once nothing re-arms the deadline it fires as soon as T has passed since the last re-arming *)
Theorem c17_silent_detected : forall T t0 es,
  0 < T -> (forall e, In e es -> e <> Reset) -> ticks_nonneg es = true -> T <= tick_sum es 0 ->
  fired (krun T {| now := t0; deadline := t0 + T; fired := false |} es) = true.
Proof. exact silent_detected. Qed.

(* our own requests, responses and pings never extend the deadline: re-arming consumes peer evidence *)
Theorem c17_resets_only_on_peer_activity : forall es c', arun 0 es = Some c' -> (count_resets es <= count_peer es)%nat.
Proof. exact resets_bounded_by_peer_activity. Qed.

Theorem c17_own_writes_never_rearm : forall es, Forall (fun e => e = OwnWrite) es -> arun 0 (es ++ [ResetDeadline]) = None.
Proof. exact own_writes_never_rearm. Qed.

(* non-vacuity: pings every 20 with pongs coming back, timeout 100, over a long idle period *)
Example c17_ex : fired (krun 100 {| now := 0; deadline := 100; fired := false |}
                         [Tick 21; Reset; Tick 22; Reset; Tick 20; Reset; Tick 45; Reset; Tick 21; Reset]) = false
              /\ fired (krun 100 {| now := 0; deadline := 100; fired := false |} [Tick 21; Reset; Tick 60; Tick 41]) = true.
Proof. split; reflexivity. Qed.

(* ---- configuration (Options.v): what is configured is what is used. A client's keepalive parameters are the defaults with
   the options applied in the order listed; the options being plain setters (c17_source_facts), for EVERY option list the
   timeout is the argument of the last WithTimeout (else the default) and the ping interval that of the last
   WithPingInterval: the order of the two does not matter and no value is adjusted. *)
Theorem c17_configured_is_used : forall os,
  Options.configure false os =
    {| Options.ping := Options.last_ping os (Options.ping Options.kdefault);
       Options.timeout := Options.last_timeout os (Options.timeout Options.kdefault) |}.
Proof. exact Options_Proofs.configured_is_used. Qed.

Theorem c17_option_order_irrelevant : forall p t,
  Options.configure false [Options.OPing p; Options.OTimeout t] = Options.configure false [Options.OTimeout t; Options.OPing p] /\
  Options.configure false [Options.OPing p; Options.OTimeout t] = {| Options.ping := p; Options.timeout := t |}.
Proof. exact Options_Proofs.option_order_irrelevant. Qed.

(* the model's defaults are the code's *)
Theorem c17_defaults :
  (Options.ping Options.kdefault, Options.timeout Options.kdefault) = Extracted.default_client_ping_timeout.
Proof. reflexivity. Qed.

(* a WithTimeout that adjusts its argument by the ping interval current at that moment (seeded change C17-d): a pair
   satisfying the documented constraint gets another timeout, and which one depends on the order of the options *)
Theorem c17_refuted_clamping_option :
  let p := 50000000 in let t := 300000000 in
  2 * p < t /\ Options.timeout (Options.configure true [Options.OTimeout t; Options.OPing p]) = 11000000000 /\
  Options.timeout (Options.configure true [Options.OPing p; Options.OTimeout t]) = 1100000000.
Proof. exact Options_Proofs.clamp_refuted. Qed.

(* the functions this property's model is an abstraction of still have the control / locking / shared-state skeleton the
   model was written against (Skeletons.v, by hand; Extracted.v, regenerated from /repo) *)
Theorem c17_code_skeletons :
  JRGen.Extracted.effects_resetReadDeadline = JR.Skeletons.resetReadDeadline /\
  JRGen.Extracted.effects_setupPings = JR.Skeletons.setupPings /\
  JRGen.Extracted.effects_nextMessage = JR.Skeletons.nextMessage /\
  JRGen.Extracted.effects_handleWsConn = JR.Skeletons.handleWsConn.
Proof. repeat split; reflexivity. Qed.

Print Assumptions c17_code_skeletons.
Print Assumptions c17_configured_is_used.
Print Assumptions c17_option_order_irrelevant.
Print Assumptions c17_defaults.
Print Assumptions c17_refuted_clamping_option.
Print Assumptions c17_source_facts.
Print Assumptions c17_healthy_never_expires.
Print Assumptions c17_silent_detected.
Print Assumptions c17_resets_only_on_peer_activity.
Print Assumptions c17_own_writes_never_rearm.
