(* Correspondence side of C20: replays what the handler observed through the model (trace validation).
   Bytes are primitive 63-bit integers here (the model is polymorphic in the byte type); Uint63 is used on
   this side only, never in a property theorem. *)
From Coq Require Import List NArith Bool Arith Uint63.
Import ListNotations.
From JR Require Import Reader AuthCases.
From JRGen Require Extracted.

Local Open Scope uint63_scope.

(* the same payload generators as harness/cmd/jrpcdrive/reader.go:genPayload *)
Fixpoint gen_acc (fuel : nat) (kind seed i x : int) (acc : list int) : list int :=
  match fuel with
  | O => rev' acc
  | S f =>
      if kind =? 0 then gen_acc f kind seed (i + 1) x (0 :: acc)
      else if kind =? 1 then gen_acc f kind seed (i + 1) x (255 :: acc)
      else if kind =? 2 then gen_acc f kind seed (i + 1) x (((i + seed) mod 256) :: acc)
      else let x' := (x * 1103515245 + 12345) land 2147483647 in
           gen_acc f kind seed (i + 1) x' (((x' >> 16) land 255) :: acc)
  end.
Definition gen_payload (kind seed : int) (len : N) : list int :=
  gen_acc (N.to_nat len) kind seed 0 (seed land 2147483647) [].

Fixpoint adler_acc (l : list int) (a b : int) : int :=
  match l with
  | [] => (b << 16) lor a
  | x :: l' => let a' := (a + x) mod 65521 in adler_acc l' a' ((b + a') mod 65521)
  end.
Definition adler (l : list int) : int := adler_acc l 1 0.

Inductive oobs := OR (n k : N) (e : N) (sum : int) | OC.   (* e: 0 none, 1 EOF, 2 closed, 3 other *)
Definition err_code (e : rerr) : N := match e with NoErr => 0 | EOF => 1 | ErrClosed => 2 end%N.

(* which repairs the source text shows (the remembered error cannot be read off the text by the translator;
   the correspondence itself is what detects its loss) *)
Definition variant_in_source : variant :=
  {| once := forallb snd JRGen.Extracted.reader_wait_closes; keep_err := true |}.

(* a Read reporting the closed-body error although the handler never closed: net/http closed it after the
   upload completed; the model needs that environment event first *)
Definition maybe_srv_close (v : variant) (w : wrc int) (e : N) : wrc int :=
  if (N.eqb e 2) && negb (body_closed w) && wait_closed w then
    match step v w SrvClose with Some (w', _) => w' | None => w end
  else w.

Fixpoint replay (v : variant) (w : wrc int) (os : list oobs) : option (wrc int) :=
  match os with
  | [] => Some w
  | OR n k e sum :: os' =>
      let w := maybe_srv_close v w e in
      match step v w (Read (N.to_nat n) (N.to_nat k) (N.eqb e 1)) with
      | Some (w', ORead data e') =>
          if (N.eqb (err_code e') e) && (adler data =? sum) then replay v w' os' else None
      | _ => None
      end
  | OC :: os' =>
      match step v w Close with
      | Some (w', OClose) => replay v w' os'
      | _ => None
      end
  end.

Record rcase := { rc_kind : int; rc_seed : int; rc_len : N; rc_obs : list oobs; rc_panic : bool; rc_updone : bool }.

Definition rcase_ok (c : rcase) : bool :=
  negb (rc_panic c) &&
  match replay variant_in_source (wrc_init (gen_payload (rc_kind c) (rc_seed c) (rc_len c))) (rc_obs c) with
  | Some w => Bool.eqb (wait_closed w) (rc_updone c)
  | None => false
  end.
