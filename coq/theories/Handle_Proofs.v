From Coq Require Import List NArith ZArith Bool Arith Lia String.
Import ListNotations.
From JR Require Import Json Handle.
From JRGen Require Extracted.
Open Scope N_scope.

(* ---------- handle: what comes out, by case *)

Lemma handle_unknown c ok r :
  resolve c (r_method r) = None ->
  exists m, handle c ok r = (Some (rpc_error (r_id r) Extracted.rpcMethodNotFound m), []).
Proof. intros H. unfold handle. rewrite H. eexists; reflexivity. Qed.

Definition positional_args (r : request) : option (list json) :=
  match r_params r with
  | None => Some []
  | Some JNull => Some []
  | Some (JArr l) => Some l
  | Some _ => None
  end.

Lemma handle_bad_params c r h :
  resolve c (r_method r) = Some h -> is_chan h = false -> h_raw h = false -> positional_args r = None ->
  exists m, handle c false r = (Some (rpc_error (r_id r) Extracted.rpcParseError m), []).
Proof.
  intros H Hc Hr Hp. unfold handle. rewrite H, Hc, Hr. simpl.
  unfold positional_args in Hp. destruct (r_params r) as [[]|]; try discriminate; eexists; reflexivity.
Qed.

Lemma handle_wrong_arity c ok r h ps :
  resolve c (r_method r) = Some h -> (is_chan h && negb ok = false)%bool -> h_raw h = false ->
  positional_args r = Some ps -> List.length ps <> List.length (h_params h) ->
  exists m, handle c ok r = (Some (rpc_error (r_id r) Extracted.rpcInvalidParams m), []).
Proof.
  intros H Hc Hr Hp Hn. unfold handle. rewrite H, Hc, Hr. simpl.
  assert (E : (match r_params r with
               | None => inl [] | Some JNull => inl [] | Some (JArr l) => inl l | Some _ => inr tt end)
              = (inl ps : list json + unit)).
  { unfold positional_args in Hp. destruct (r_params r) as [[]|]; try discriminate; inversion Hp; reflexivity. }
  rewrite E. apply Nat.eqb_neq in Hn. rewrite Hn. simpl. eexists; reflexivity.
Qed.

Lemma handle_wrong_types c ok r h ps :
  resolve c (r_method r) = Some h -> (is_chan h && negb ok = false)%bool -> h_raw h = false ->
  positional_args r = Some ps -> List.length ps = List.length (h_params h) ->
  forallb (fun tp => accepts (fst tp) (snd tp)) (combine (h_params h) ps) = false ->
  exists m, handle c ok r = (Some (rpc_error (r_id r) Extracted.rpcParseError m), []).
Proof.
  intros H Hc Hr Hp Hn Hf. unfold handle. rewrite H, Hc, Hr. simpl.
  assert (E : (match r_params r with
               | None => inl [] | Some JNull => inl [] | Some (JArr l) => inl l | Some _ => inr tt end)
              = (inl ps : list json + unit)).
  { unfold positional_args in Hp. destruct (r_params r) as [[]|]; try discriminate; inversion Hp; reflexivity. }
  rewrite E. apply Nat.eqb_eq in Hn. rewrite Hn, Hf. simpl. eexists; reflexivity.
Qed.

(* an id-bearing request always gets exactly one response over HTTP, carrying that id *)
Lemma handle_id_bearing c r id :
  r_id r = Some id -> exists resp inv, handle c false r = (Some resp, inv) /\ rs_id resp = id.
Proof.
  intros Hid. unfold handle. rewrite Hid.
  destruct (resolve c (r_method r)) as [h|]; [|do 2 eexists; split; reflexivity].
  destruct (is_chan h) eqn:Hc; simpl; [do 2 eexists; split; reflexivity|].
  destruct (if h_raw h then _ else _) as [ps|[]]; [|do 2 eexists; split; reflexivity].
  destruct (negb (h_raw h) && negb (Nat.eqb _ _))%bool; [do 2 eexists; split; reflexivity|].
  destruct (negb (h_raw h) && negb (forallb _ _))%bool; [do 2 eexists; split; reflexivity|].
  destruct (h_fun h ps) as [v|code m extra|m].
  - do 2 eexists; split; reflexivity.
  - destruct (has_err_out h); do 2 eexists; split; reflexivity.
  - do 2 eexists; split; reflexivity.
Qed.

(* a notification produces nothing, or an error object with id null (unknown method, bad params, panic) *)
Lemma handle_notification c ok r :
  r_id r = None ->
  (exists inv, handle c ok r = (None, inv)) \/
  (exists code m inv, handle c ok r = (Some (rpc_error None code m), inv)).
Proof.
  intros Hid. unfold handle. rewrite Hid.
  destruct (resolve c (r_method r)) as [h|]; [|right; do 3 eexists; reflexivity].
  destruct (is_chan h && negb ok)%bool; [right; do 3 eexists; reflexivity|].
  destruct (if h_raw h then _ else _) as [ps|[]]; [|right; do 3 eexists; reflexivity].
  destruct (negb (h_raw h) && negb (Nat.eqb _ _))%bool; [right; do 3 eexists; reflexivity|].
  destruct (negb (h_raw h) && negb (forallb _ _))%bool; [right; do 3 eexists; reflexivity|].
  destruct (h_fun h ps) as [v|code m extra|m].
  - left. eexists; reflexivity.
  - left. eexists; reflexivity.
  - right. do 3 eexists; reflexivity.
Qed.

(* a handler runs at most once per request, and only the resolved one *)
Lemma handle_invocations c ok r o inv :
  handle c ok r = (o, inv) ->
  inv = [] \/ exists h ps, resolve c (r_method r) = Some h /\ inv = [(h_name h, ps)].
Proof.
  unfold handle.
  destruct (resolve c (r_method r)) as [h|]; [|intros H; inversion H; auto].
  destruct (is_chan h && negb ok)%bool; [intros H; inversion H; auto|].
  destruct (if h_raw h then _ else _) as [ps|[]]; [|intros H; inversion H; auto].
  destruct (negb (h_raw h) && negb (Nat.eqb _ _))%bool; [intros H; inversion H; auto|].
  destruct (negb (h_raw h) && negb (forallb _ _))%bool; [intros H; inversion H; auto|].
  intros H. right. exists h, ps. split; [reflexivity|].
  destruct (h_fun h ps); [destruct (r_id r); [destruct (is_chan h)|]| destruct (r_id r); [destruct (has_err_out h)|]|];
    inversion H; reflexivity.
Qed.

(* a panic is answered with an error that spells out the panic value *)
Lemma handle_panic c ok r h ps m :
  resolve c (r_method r) = Some h -> (is_chan h && negb ok = false)%bool ->
  (if h_raw h then Some [match r_params r with Some v => v | None => JNull end] else positional_args r) = Some ps ->
  (h_raw h = false -> List.length ps = List.length (h_params h) /\
                      forallb (fun tp => accepts (fst tp) (snd tp)) (combine (h_params h) ps) = true) ->
  h_fun h ps = Panic m ->
  handle c ok r = (Some (rpc_error (r_id r) 0%Z
     (MExact (q "fatal error calling '" ++ r_method r ++ q "': panic in rpc method '" ++ r_method r ++ q "': " ++ m))),
     [(h_name h, ps)]).
Proof.
  intros H Hc Hp Hok Hf. unfold handle. rewrite H, Hc.
  assert (E : (if h_raw h then inl [match r_params r with Some v => v | None => JNull end]
               else match r_params r with
                    | None => inl [] | Some JNull => inl [] | Some (JArr l) => inl l | Some _ => inr tt end)
              = (inl ps : list json + unit)).
  { destruct (h_raw h); [inversion Hp; reflexivity|].
    unfold positional_args in Hp. destruct (r_params r) as [[]|]; try discriminate; inversion Hp; reflexivity. }
  rewrite E. destruct (h_raw h) eqn:Hr; simpl.
  - rewrite Hf. reflexivity.
  - destruct (Hok eq_refl) as [Hl Ht]. apply Nat.eqb_eq in Hl. rewrite Hl, Ht. simpl. rewrite Hf. reflexivity.
Qed.

(* ---------- handle_http *)

Lemma http_oversize c body :
  (max_size c < Z.of_nat (List.length body))%Z ->
  exists m, handle_http c body = (500%Z, RSingle (rpc_error None Extracted.rpcParseError m), []).
Proof. intros H. unfold handle_http. apply Z.ltb_lt in H. rewrite H. eexists; reflexivity. Qed.

(* within the limit the limit itself plays no role *)
Lemma http_limit_irrelevant c1 c2 body :
  methods c1 = methods c2 -> aliases c1 = aliases c2 ->
  (Z.of_nat (List.length body) <= max_size c1)%Z -> (Z.of_nat (List.length body) <= max_size c2)%Z ->
  handle_http c1 body = handle_http c2 body.
Proof.
  intros Hm Ha H1 H2. unfold handle_http.
  assert (E1 : (max_size c1 <? Z.of_nat (List.length body))%Z = false) by (apply Z.ltb_ge; exact H1).
  assert (E2 : (max_size c2 <? Z.of_nat (List.length body))%Z = false) by (apply Z.ltb_ge; exact H2).
  rewrite E1, E2.
  assert (Hh : forall ok r, handle c1 ok r = handle c2 ok r).
  { intros ok r. unfold handle, resolve. rewrite Hm, Ha. reflexivity. }
  assert (He : forall r, handle_element c1 r = handle_element c2 r).
  { intros r. unfold handle_element. destruct (normalize_id (r_id r)); [apply Hh|reflexivity]. }
  destruct (trim_go body) as [|first rest]; [reflexivity|].
  destruct ((first =? 91) && _)%bool.
  - destruct (parse (first :: rest)) as [[]|]; try reflexivity.
    destruct (existsb snd (map decode_request l)); [reflexivity|].
    destruct l; [reflexivity|].
    assert (Hmap : forall L : list (request * bool),
              map (fun d => handle_element c1 (fst d)) L = map (fun d => handle_element c2 (fst d)) L)
      by (intros L; apply map_ext; intros d; apply He).
    rewrite Hmap. reflexivity.
  - destruct (parse (first :: rest)); [|reflexivity].
    destruct (decode_request j) as [r e]. destruct e; [reflexivity|]. rewrite He. reflexivity.
Qed.

Lemma http_empty c body :
  (Z.of_nat (List.length body) <= max_size c)%Z -> trim_go body = [] ->
  exists m, handle_http c body = (400%Z, RSingle (rpc_error None Extracted.rpcInvalidRequest m), []).
Proof.
  intros H Ht. unfold handle_http. apply Z.ltb_ge in H. rewrite H, Ht. eexists; reflexivity.
Qed.

Lemma http_malformed c body :
  (Z.of_nat (List.length body) <= max_size c)%Z -> trim_go body <> [] -> parse (trim_go body) = None ->
  exists m, handle_http c body = (500%Z, RSingle (rpc_error None Extracted.rpcParseError m), []).
Proof.
  intros H Hn Hp. unfold handle_http. apply Z.ltb_ge in H. rewrite H.
  destruct (trim_go body) as [|first rest]; [congruence|].
  rewrite Hp. destruct ((first =? 91) && _)%bool; eexists; reflexivity.
Qed.

(* the reply to a non-batch body is nothing or one response object; nothing only for a notification *)
Definition is_batch_body (b : bytes) : bool :=
  match b with first :: _ => (first =? 91) && (match last_byte b with Some 93 => true | _ => false end) | [] => false end.

Lemma http_single_shape c body st rp inv :
  is_batch_body (trim_go body) = false -> handle_http c body = (st, rp, inv) ->
  (exists r, rp = RSingle r) \/
  (rp = RNone /\ exists v r, parse (trim_go body) = Some v /\ decode_request v = (r, false) /\ r_id r = None).
Proof.
  intros Hb. unfold handle_http.
  destruct (Z.ltb _ _); [intros H; inversion H; left; eexists; reflexivity|].
  destruct (trim_go body) as [|first rest] eqn:Ht; [intros H; inversion H; left; eexists; reflexivity|].
  simpl in Hb. rewrite Hb.
  destruct (parse (first :: rest)) as [v|] eqn:Hp; [|intros H; inversion H; left; eexists; reflexivity].
  destruct (decode_request v) as [r e] eqn:Hd. destruct e; [intros H; inversion H; left; eexists; reflexivity|].
  unfold handle_element.
  destruct (normalize_id (r_id r)) as [id|] eqn:Hn; [|intros H; inversion H; left; eexists; reflexivity].
  destruct (handle c false _) as [o i] eqn:Hh.
  destruct o as [x|]; intros H; inversion H; subst; [left; eexists; reflexivity|].
  right. split; [reflexivity|]. exists v, r. repeat split; auto.
  destruct id as [idv|].
  - destruct (handle_id_bearing c {| r_id := Some idv; r_method := r_method r; r_params := r_params r |} idv eq_refl)
      as (resp & inv' & Hq & _). rewrite Hq in Hh. discriminate.
  - unfold normalize_id in Hn. destruct (r_id r) as [[]|]; try discriminate; reflexivity.
Qed.

(* batches: responses with a non-null id correspond one-to-one, in order, to the id-bearing requests *)
Definition valid_id (r : request) : option json :=
  match normalize_id (r_id r) with Some (Some id) => Some id | _ => None end.

Fixpoint ids_of_requests (l : list request) : list json :=
  match l with
  | [] => []
  | r :: rest => match valid_id r with Some id => id :: ids_of_requests rest | None => ids_of_requests rest end
  end.

Definition non_null (j : json) : bool := match j with JNull => false | _ => true end.

Lemma normalize_some_non_null r id : normalize_id (r_id r) = Some (Some id) -> non_null id = true.
Proof. unfold normalize_id. destruct (r_id r) as [[]|]; intros H; inversion H; reflexivity. Qed.

Lemma element_ids c (l : list request) :
  map rs_id (filter (fun x => non_null (rs_id x)) (somes (map (fun r => fst (handle_element c r)) l)))
  = ids_of_requests l.
Proof.
  induction l as [|r l IH]; [reflexivity|].
  simpl. unfold valid_id, handle_element at 1.
  destruct (normalize_id (r_id r)) as [[id|]|] eqn:Hn.
  - destruct (handle_id_bearing c {| r_id := Some id; r_method := r_method r; r_params := r_params r |} id eq_refl)
      as (resp & inv & Hq & Hid).
    rewrite Hq. simpl. rewrite Hid, (normalize_some_non_null _ _ Hn). simpl. rewrite Hid, IH. reflexivity.
  - destruct (handle_notification c false {| r_id := None; r_method := r_method r; r_params := r_params r |} eq_refl)
      as [[inv Hq]|(code & m & inv & Hq)]; rewrite Hq; simpl; exact IH.
  - simpl. exact IH.
Qed.

Lemma http_batch c body l :
  (Z.of_nat (List.length body) <= max_size c)%Z ->
  is_batch_body (trim_go body) = true -> parse (trim_go body) = Some (JArr l) -> l <> [] ->
  existsb snd (map decode_request l) = false ->
  exists rs inv, handle_http c body = (200%Z, RBatch rs, inv) /\
    map rs_id (filter (fun x => non_null (rs_id x)) rs) = ids_of_requests (map (fun v => fst (decode_request v)) l) /\
    (List.length rs <= List.length l)%nat.
Proof.
  intros H Hb Hp Hne He. unfold handle_http. apply Z.ltb_ge in H. rewrite H.
  destruct (trim_go body) as [|first rest]; [discriminate|]. simpl in Hb. rewrite Hb, Hp, He.
  destruct l as [|v l']; [congruence|].
  do 2 eexists. split; [reflexivity|]. split.
  - rewrite !map_map. rewrite <- (element_ids c). rewrite map_map. reflexivity.
  - rewrite !map_map.
    assert (G : forall (xs : list (option response)), (List.length (somes xs) <= List.length xs)%nat).
    { induction xs as [|[x|] xs IHx]; simpl; lia. }
    eapply Nat.le_trans; [apply G|]. rewrite map_length. apply Nat.le_refl.
Qed.

(* each batch element is handled on its own: what one element does is a function of that element alone *)
Lemma batch_elements_independent c (l1 l2 : list request) x :
  map (handle_element c) (l1 ++ x :: l2) = map (handle_element c) l1 ++ handle_element c x :: map (handle_element c) l2.
Proof. rewrite map_app. reflexivity. Qed.

(* ---------- the printed form of a response *)
Lemma pr_response_shape r f :
  (exists v, pr_response r f = JObj [(q "id", rs_id r); (q "jsonrpc", JStr (q "2.0")); (q "result", v)]) \/
  (exists e, pr_response r f = JObj [(q "error", JObj e); (q "id", rs_id r); (q "jsonrpc", JStr (q "2.0"))]).
Proof. unfold pr_response. destruct (rs_body r); [left|right]; eexists; reflexivity. Qed.

(* ---------- dispatch *)
Lemma resolve_direct c name h : assoc_b name (methods c) = Some h -> resolve c name = Some h.
Proof. intros H. unfold resolve. rewrite H. reflexivity. Qed.

Lemma resolve_alias c name orig :
  assoc_b name (methods c) = None -> assoc_b name (aliases c) = Some orig ->
  resolve c name = assoc_b orig (methods c).
Proof. intros H1 H2. unfold resolve. rewrite H1, H2. reflexivity. Qed.

Lemma resolve_none c name :
  assoc_b name (methods c) = None -> assoc_b name (aliases c) = None -> resolve c name = None.
Proof. intros H1 H2. unfold resolve. rewrite H1, H2. reflexivity. Qed.

Lemma bytes_eqb_refl a : bytes_eqb a a = true.
Proof. induction a as [|x a IH]; simpl; [reflexivity|]. rewrite N.eqb_refl, IH. reflexivity. Qed.

Lemma bytes_eqb_eq a b : bytes_eqb a b = true <-> a = b.
Proof.
  split; [|intros ->; apply bytes_eqb_refl].
  revert b; induction a as [|x a IH]; destruct b as [|y b]; simpl; intros H; try discriminate; [reflexivity|].
  apply andb_prop in H. destruct H as [H1 H2]. apply N.eqb_eq in H1. subst. f_equal. apply IH; exact H2.
Qed.

(* registering puts the binding in front: the last registration of a name wins *)
Lemma register_one_lookup f ns h c name :
  assoc_b name (methods (register f ns [h] c)) =
    if bytes_eqb name (format f ns (h_name h)) then Some h else assoc_b name (methods c).
Proof. reflexivity. Qed.

Lemma alias_lookup_methods a o c name : assoc_b name (methods (alias a o c)) = assoc_b name (methods c).
Proof. reflexivity. Qed.

(* namespaces do not leak: with a namespace-including built-in formatter, equal formatted names mean equal
   namespace and (case-folded-first-letter) method, provided namespaces contain no '.' *)
Fixpoint no_dot (s : bytes) : bool := match s with [] => true | c :: r => negb (c =? 46) && no_dot r end.

Lemma app_dot_inj ns1 ns2 m1 m2 :
  no_dot ns1 = true -> no_dot ns2 = true -> ns1 ++ 46 :: m1 = ns2 ++ 46 :: m2 -> ns1 = ns2 /\ m1 = m2.
Proof.
  revert ns2. induction ns1 as [|a ns1 IH]; intros ns2 H1 H2 He.
  - destruct ns2 as [|b ns2]; simpl in *.
    + inversion He; auto.
    + inversion He; subst. simpl in H2. discriminate.
  - destruct ns2 as [|b ns2]; simpl in *.
    + inversion He; subst. simpl in H1. discriminate.
    + inversion He; subst. apply andb_prop in H1. apply andb_prop in H2.
      destruct (IH ns2 (proj2 H1) (proj2 H2) H3) as [-> ->]. auto.
Qed.

Lemma format_injective low ns1 ns2 m1 m2 :
  no_dot ns1 = true -> no_dot ns2 = true ->
  format (Fmt true low) ns1 m1 = format (Fmt true low) ns2 m2 ->
  ns1 = ns2 /\ (if low then lower1 m1 = lower1 m2 else m1 = m2).
Proof.
  intros H1 H2 He. simpl in He. destruct low; apply (app_dot_inj _ _ _ _ H1 H2 He).
Qed.

(* client and server agree: what is registered under (f, ns) resolves under the name the client computes
   with the same (f, ns): the last registered method with that formatted name *)
Lemma find_app_some {A} (p : A -> bool) l1 l2 :
  find p (l1 ++ l2) = match find p l1 with Some x => Some x | None => find p l2 end.
Proof. induction l1 as [|x l1 IH]; simpl; [reflexivity|]. destruct (p x); [reflexivity|exact IH]. Qed.

Lemma assoc_fold_register f ns : forall (hs : list hspec) (acc : list (bytes * hspec)) name,
  assoc_b name (fold_left (fun a h => (format f ns (h_name h), h) :: a) hs acc) =
  match find (fun h => bytes_eqb name (format f ns (h_name h))) (rev hs) with
  | Some h => Some h
  | None => assoc_b name acc
  end.
Proof.
  induction hs as [|h hs IH]; intros acc name; simpl; [reflexivity|].
  rewrite IH, find_app_some. simpl.
  destruct (find _ (rev hs)); [reflexivity|].
  destruct (bytes_eqb name (format f ns (h_name h))); reflexivity.
Qed.

Lemma register_resolves f ns hs c h :
  find (fun h' => bytes_eqb (format f ns (h_name h)) (format f ns (h_name h'))) (rev hs) = Some h ->
  resolve (register f ns hs c) (format f ns (h_name h)) = Some h.
Proof.
  intros H. apply resolve_direct. unfold register; simpl. rewrite assoc_fold_register, H. reflexivity.
Qed.
