(* Byte-level JSON as encoding/json accepts it (RFC 8259 grammar, Go's scanner), a compact printer,
   exact decimal comparison of numbers. No proofs here. Bytes are N (0..255). *)
From Coq Require Import List NArith ZArith Bool Arith.
Import ListNotations.
Open Scope N_scope.

Definition byte := N.
Definition bytes := list byte.

Inductive json :=
| JNull
| JBool (b : bool)
| JNum (lit : bytes)            (* the literal as written (valid by construction when produced by the parser) *)
| JStr (s : bytes)              (* decoded content (UTF-8 bytes) *)
| JArr (l : list json)
| JObj (l : list (bytes * json)).

Fixpoint bytes_eqb (a b : bytes) : bool :=
  match a, b with
  | [], [] => true
  | x :: a', y :: b' => N.eqb x y && bytes_eqb a' b'
  | _, _ => false
  end.

(* ---- whitespace *)
Definition is_ws (c : byte) : bool := (c =? 32) || (c =? 9) || (c =? 10) || (c =? 13).
Fixpoint skip_ws (s : bytes) : bytes :=
  match s with
  | c :: r => if is_ws c then skip_ws r else s
  | [] => []
  end.

Definition is_digit (c : byte) : bool := (48 <=? c) && (c <=? 57).

(* ---- numbers per RFC 8259: optional minus, int (0 or nonzero-led digits), optional fraction, optional exponent; returns (literal, rest) *)
Fixpoint take_digits (s : bytes) : bytes * bytes :=
  match s with
  | c :: r => if is_digit c then let '(d, r') := take_digits r in (c :: d, r') else ([], s)
  | [] => ([], [])
  end.

Definition pnum (s : bytes) : option (bytes * bytes) :=
  let '(sign, s1) := match s with 45 :: r => ([45], r) | _ => ([], s) end in
  match s1 with
  | [] => None
  | c :: r1 =>
      if negb (is_digit c) then None else
      let '(intp, s2) := if c =? 48 then ([48], r1) else take_digits s1 in
      let fracr :=
        match s2 with
        | 46 :: r2 => let '(d, r3) := take_digits r2 in
                      match d with [] => None | _ => Some (46 :: d, r3) end
        | _ => Some ([], s2)
        end in
      match fracr with
      | None => None
      | Some (frac, s3) =>
          let expr :=
            match s3 with
            | e :: r4 =>
                if (e =? 101) || (e =? 69) then
                  let '(sg, r5) := match r4 with
                                   | 43 :: r => ([43], r)
                                   | 45 :: r => ([45], r)
                                   | _ => ([], r4) end in
                  let '(d, r6) := take_digits r5 in
                  match d with [] => None | _ => Some (e :: sg ++ d, r6) end
                else Some ([], s3)
            | [] => Some ([], s3)
            end in
          match expr with
          | None => None
          | Some (ex, s4) => Some (sign ++ intp ++ frac ++ ex, s4)
          end
      end
  end.

(* ---- strings *)
Definition hexval (c : byte) : option N :=
  if is_digit c then Some (c - 48)
  else if (97 <=? c) && (c <=? 102) then Some (c - 87)
  else if (65 <=? c) && (c <=? 70) then Some (c - 55)
  else None.

Definition hex4 (s : bytes) : option (N * bytes) :=
  match s with
  | a :: b :: c :: d :: r =>
      match hexval a, hexval b, hexval c, hexval d with
      | Some x, Some y, Some z, Some w => Some (x * 4096 + y * 256 + z * 16 + w, r)
      | _, _, _, _ => None
      end
  | _ => None
  end.

Definition utf8 (cp : N) : bytes :=
  if cp <? 128 then [cp]
  else if cp <? 2048 then [192 + cp / 64; 128 + cp mod 64]
  else if cp <? 65536 then [224 + cp / 4096; 128 + (cp / 64) mod 64; 128 + cp mod 64]
  else [240 + cp / 262144; 128 + (cp / 4096) mod 64; 128 + (cp / 64) mod 64; 128 + cp mod 64].

Definition replacement : bytes := [239; 191; 189]. (* U+FFFD *)

(* after the opening quote; returns decoded content and the rest after the closing quote *)
Fixpoint pstr (fuel : nat) (s : bytes) (acc : bytes) : option (bytes * bytes) :=
  match fuel with
  | O => None
  | S f =>
      match s with
      | [] => None
      | 34 :: r => Some (rev' acc, r)
      | 92 :: e :: r =>
          match e with
          | 34 => pstr f r (34 :: acc)
          | 92 => pstr f r (92 :: acc)
          | 47 => pstr f r (47 :: acc)
          | 98 => pstr f r (8 :: acc)
          | 102 => pstr f r (12 :: acc)
          | 110 => pstr f r (10 :: acc)
          | 114 => pstr f r (13 :: acc)
          | 116 => pstr f r (9 :: acc)
          | 117 =>
              match hex4 r with
              | None => None
              | Some (cp, r1) =>
                  if (55296 <=? cp) && (cp <? 56320) then
                    (* high surrogate: needs \uDC00..DFFF right after, else U+FFFD *)
                    match r1 with
                    | 92 :: 117 :: r2 =>
                        match hex4 r2 with
                        | Some (lo, r3) =>
                            if (56320 <=? lo) && (lo <? 57344)
                            then pstr f r3 (rev' (utf8 (65536 + (cp - 55296) * 1024 + (lo - 56320))) ++ acc)
                            else pstr f r1 (rev' replacement ++ acc)
                        | None => pstr f r1 (rev' replacement ++ acc)
                        end
                    | _ => pstr f r1 (rev' replacement ++ acc)
                    end
                  else if (56320 <=? cp) && (cp <? 57344) then pstr f r1 (rev' replacement ++ acc)
                  else pstr f r1 (rev' (utf8 cp) ++ acc)
              end
          | _ => None
          end
      | 92 :: [] => None
      | c :: r => if c <? 32 then None else pstr f r (c :: acc)
      end
  end.

(* ---- values *)
Fixpoint pval (fuel : nat) (s : bytes) : option (json * bytes) :=
  match fuel with
  | O => None
  | S f =>
      match skip_ws s with
      | 110 :: 117 :: 108 :: 108 :: r => Some (JNull, r)
      | 116 :: 114 :: 117 :: 101 :: r => Some (JBool true, r)
      | 102 :: 97 :: 108 :: 115 :: 101 :: r => Some (JBool false, r)
      | 34 :: r => match pstr (S (length r)) r [] with
                   | Some (str, r') => Some (JStr str, r')
                   | None => None
                   end
      | 91 :: r => match skip_ws r with
                   | 93 :: r' => Some (JArr [], r')
                   | _ => parr f r []
                   end
      | 123 :: r => match skip_ws r with
                    | 125 :: r' => Some (JObj [], r')
                    | _ => pobj f r []
                    end
      | c :: r => if is_digit c || (c =? 45)
                  then match pnum (c :: r) with Some (lit, r') => Some (JNum lit, r') | None => None end
                  else None
      | [] => None
      end
  end
with parr (fuel : nat) (s : bytes) (acc : list json) : option (json * bytes) :=
  match fuel with
  | O => None
  | S f =>
      match pval f s with
      | None => None
      | Some (v, r) =>
          match skip_ws r with
          | 44 :: r' => parr f r' (v :: acc)
          | 93 :: r' => Some (JArr (rev' (v :: acc)), r')
          | _ => None
          end
      end
  end
with pobj (fuel : nat) (s : bytes) (acc : list (bytes * json)) : option (json * bytes) :=
  match fuel with
  | O => None
  | S f =>
      match skip_ws s with
      | 34 :: r =>
          match pstr (S (length r)) r [] with
          | None => None
          | Some (k, r1) =>
              match skip_ws r1 with
              | 58 :: r2 =>
                  match pval f r2 with
                  | None => None
                  | Some (v, r3) =>
                      match skip_ws r3 with
                      | 44 :: r' => pobj f r' ((k, v) :: acc)
                      | 125 :: r' => Some (JObj (rev' ((k, v) :: acc)), r')
                      | _ => None
                      end
                  end
              | _ => None
              end
          end
      | _ => None
      end
  end.

(* one value then only whitespace: what json.Unmarshal / json.Valid accept *)
Definition parse (s : bytes) : option json :=
  match pval (S (length s)) s with
  | Some (v, r) => match skip_ws r with [] => Some v | _ => None end
  | None => None
  end.

(* ---- printer (compact). Escapes: quote, backslash, controls as \u00XX. *)
Definition hexdigit (n : N) : byte := if n <? 10 then 48 + n else 87 + n.
Fixpoint pr_str_body (s : bytes) : bytes :=
  match s with
  | [] => []
  | c :: r =>
      (if c =? 34 then [92; 34]
       else if c =? 92 then [92; 92]
       else if c <? 32 then [92; 117; 48; 48; hexdigit (c / 16); hexdigit (c mod 16)]
       else [c]) ++ pr_str_body r
  end.
Definition pr_str (s : bytes) : bytes := 34 :: pr_str_body s ++ [34].

Fixpoint print (v : json) : bytes :=
  match v with
  | JNull => [110; 117; 108; 108]
  | JBool true => [116; 114; 117; 101]
  | JBool false => [102; 97; 108; 115; 101]
  | JNum lit => lit
  | JStr s => pr_str s
  | JArr l =>
      91 :: (fix go (l : list json) : bytes :=
               match l with
               | [] => []
               | [x] => print x
               | x :: r => print x ++ 44 :: go r
               end) l ++ [93]
  | JObj l =>
      123 :: (fix go (l : list (bytes * json)) : bytes :=
                match l with
                | [] => []
                | [(k, x)] => pr_str k ++ 58 :: print x
                | (k, x) :: r => pr_str k ++ 58 :: print x ++ 44 :: go r
                end) l ++ [125]
  end.

(* ---- exact decimal value of a number literal: (mantissa, exponent), mantissa without trailing zeros *)
Fixpoint digits_val (d : bytes) (acc : Z) : Z :=
  match d with
  | [] => acc
  | c :: r => digits_val r (acc * 10 + Z.of_N (c - 48))
  end.

Fixpoint strip10 (fuel : nat) (m e : Z) : Z * Z :=
  match fuel with
  | O => (m, e)
  | S f => if Z.eqb m 0 then (0%Z, 0%Z)
           else if Z.eqb (Z.modulo m 10) 0 then strip10 f (Z.div m 10) (e + 1)%Z else (m, e)
  end.

Definition num_value (lit : bytes) : Z * Z :=
  let '(neg, s1) := match lit with 45 :: r => (true, r) | _ => (false, lit) end in
  let '(intp, s2) := take_digits s1 in
  let '(frac, s3) := match s2 with 46 :: r => take_digits r | _ => ([], s2) end in
  let ex := match s3 with
            | _ :: 45 :: r => (- digits_val (fst (take_digits r)) 0)%Z
            | _ :: 43 :: r => digits_val (fst (take_digits r)) 0
            | _ :: r => digits_val (fst (take_digits r)) 0
            | [] => 0%Z
            end in
  let m := digits_val (intp ++ frac) 0 in
  let '(m', e') := strip10 (S (length lit)) m (ex - Z.of_nat (length frac))%Z in
  ((if neg then - m' else m')%Z, e').

Definition num_eqb (a b : bytes) : bool :=
  let '(m1, e1) := num_value a in let '(m2, e2) := num_value b in Z.eqb m1 m2 && Z.eqb e1 e2.

(* structural equality with numbers compared by value (how replies are compared with the implementation's) *)
Fixpoint json_eqb (a b : json) : bool :=
  match a, b with
  | JNull, JNull => true
  | JBool x, JBool y => Bool.eqb x y
  | JNum x, JNum y => num_eqb x y
  | JStr x, JStr y => bytes_eqb x y
  | JArr x, JArr y =>
      (fix go (x y : list json) : bool :=
         match x, y with
         | [], [] => true
         | u :: x', v :: y' => json_eqb u v && go x' y'
         | _, _ => false
         end) x y
  | JObj x, JObj y =>
      (fix go (x y : list (bytes * json)) : bool :=
         match x, y with
         | [], [] => true
         | (k, u) :: x', (l, v) :: y' => bytes_eqb k l && json_eqb u v && go x' y'
         | _, _ => false
         end) x y
  | _, _ => false
  end.

(* integer literal (no fraction, no exponent) and its value: what encoding/json accepts into Go int types *)
Definition int_literal (lit : bytes) : option Z :=
  let '(neg, s1) := match lit with 45 :: r => (true, r) | _ => (false, lit) end in
  let '(d, r) := take_digits s1 in
  match d, r with
  | _ :: _, [] => Some (if neg then (- digits_val d 0)%Z else digits_val d 0)
  | _, _ => None
  end.

(* decimal text of an integer *)
Fixpoint pos_digits (fuel : nat) (n : N) (acc : bytes) : bytes :=
  match fuel with
  | O => acc
  | S f => if n <? 10 then (48 + n) :: acc else pos_digits f (n / 10) ((48 + n mod 10) :: acc)
  end.
Definition z_lit (z : Z) : bytes :=
  match z with
  | Z0 => [48]
  | Zpos p => pos_digits 80 (Npos p) []
  | Zneg p => 45 :: pos_digits 80 (Npos p) []
  end.

(* ASCII helpers for writing constants *)
From Coq Require Import String Ascii.
Fixpoint bs (s : string) : bytes :=
  match s with
  | EmptyString => []
  | String a r => N_of_ascii a :: bs r
  end.
