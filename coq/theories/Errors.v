(* Error transport: handler.createError (server), the JSONRPCError wire object, JSONRPCError.val (client), the two
   registries of errors.go. User code ((Un)MarshalJSON, To/FromJSONRPCError) enters as data: what it produced and
   whether it accepts what it is given. No proofs here. *)
From Coq Require Import String.
From Coq Require Import List NArith ZArith Bool.
Import ListNotations.
From JR Require Import Json Handle.

(* a Go error type as the registries see it: reflect.Type of the value the handler returned; *T and T are different keys *)
Record tykey := { ty_name : N; ty_ptr : bool }.
Definition tykey_eqb (a b : tykey) : bool := N.eqb (ty_name a) (ty_name b) && Bool.eqb (ty_ptr a) (ty_ptr b).

(* what the type can do (a property of the type, the same on both sides) *)
Record caps := { is_codec : bool; is_marshalable : bool }.

(* an error value returned by a handler *)
Record errval := {
  ev_ty : tykey;
  ev_msg : bytes;                              (* Error() *)
  ev_codec : option (Z * bytes * option json); (* ToJSONRPCError() = (code, message, data), None if it fails / not a codec *)
  ev_meta : option json                        (* MarshalJSON(), None if it fails / not marshalable *)
}.

Record wire_err := { we_code : Z; we_msg : bytes; we_meta : option json; we_data : option json }.

Definition registry_s := list (tykey * Z).      (* Errors.byType *)
Definition registry_c := list (Z * tykey).      (* Errors.byCode *)

Fixpoint by_type (r : registry_s) (k : tykey) : option Z :=
  match r with [] => None | (k', c) :: t => if tykey_eqb k k' then Some c else by_type t k end.
Fixpoint by_code (r : registry_c) (c : Z) : option tykey :=
  match r with [] => None | (c', k) :: t => if Z.eqb c c' then Some k else by_code t c end.

(* Errors.Register(c, new(T)) stores T under c in both maps; later registrations overwrite *)
Definition register_s (c : Z) (k : tykey) (r : registry_s) : registry_s := (k, c) :: r.
Definition register_c (c : Z) (k : tykey) (r : registry_c) : registry_c := (c, k) :: r.

(* handler.createError: `errors` may be nil (no registry configured) *)
Definition create_error (tycaps : tykey -> caps) (s : option registry_s) (e : errval) : wire_err :=
  let code := match s with
              | Some r => match by_type r (ev_ty e) with Some c => c | None => 1%Z end
              | None => 1%Z end in
  let base := {| we_code := code; we_msg := ev_msg e; we_meta := None; we_data := None |} in
  if is_codec (tycaps (ev_ty e)) then
    match ev_codec e with
    | Some (c, m, d) => {| we_code := c; we_msg := m; we_meta := None; we_data := d |}
    | None => base                              (* conversion failed: logged, generic error kept *)
    end
  else if is_marshalable (tycaps (ev_ty e)) then
    match ev_meta e with
    | Some j => {| we_code := code; we_msg := ev_msg e; we_meta := Some j; we_data := None |}
    | None => base
    end
  else base.

(* what the caller ends up with *)
Inductive client_err :=
| CGeneric (w : wire_err)                              (* *JSONRPCError carrying code, message, meta, data *)
| CTyped (k : tykey) (payload : option (wire_err + json)). (* an error of the registered type: what FromJSONRPCError /
                                                             UnmarshalJSON was given (inl / inr), None = zero value *)

(* JSONRPCError.val. accept_codec / accept_meta: does the user's conversion accept what it is given *)
Definition val (tycaps : tykey -> caps) (accept_codec : tykey -> wire_err -> bool) (accept_meta : tykey -> json -> bool)
           (c : option registry_c) (w : wire_err) : client_err :=
  match c with
  | None => CGeneric w
  | Some r =>
      match by_code r (we_code w) with
      | None => CGeneric w
      | Some k =>
          if is_codec (tycaps k) then
            if accept_codec k w then CTyped k (Some (inl w)) else CGeneric w
          else match we_meta w with
               | Some j => if is_marshalable (tycaps k) then
                             (if accept_meta k j then CTyped k (Some (inr j)) else CGeneric w)
                           else CTyped k None
               | None => CTyped k None
               end
      end
  end.

(* JSONRPCError.Error() *)
Definition error_string (w : wire_err) : bytes :=
  if (Z.leb (-32768) (we_code w) && Z.leb (we_code w) (-32000))%bool
  then (bs "RPC error (" ++ z_lit (we_code w) ++ bs "): " ++ we_msg w)%list
  else we_msg w.

(* the wire object, and reading it back *)
Definition wire_json (w : wire_err) : json :=
  JObj ((bs "code", JNum (z_lit (we_code w))) :: (bs "message", JStr (we_msg w)) ::
        (match we_meta w with Some j => [(bs "meta", j)] | None => [] end) ++
        (match we_data w with Some j => [(bs "data", j)] | None => [] end)).

Definition read_wire (j : json) : option wire_err :=
  match j with
  | JObj ms =>
      match assoc_b (bs "code") ms, assoc_b (bs "message") ms with
      | Some (JNum n), Some (JStr m) =>
          match int_literal n with
          | Some c => Some {| we_code := c; we_msg := m; we_meta := assoc_b (bs "meta") ms;
                              we_data := match assoc_b (bs "data") ms with Some JNull => None | d => d end |}
          | None => None
          end
      | _, _ => None
      end
  | _ => None
  end.

(* the whole path for one call: what the handler returned -> what the caller holds *)
Definition serve (tycaps : tykey -> caps) (s : option registry_s) (r : json * option errval) : json + wire_err :=
  match snd r with None => inl (fst r) | Some e => inr (create_error tycaps s e) end.

Definition receive (tycaps : tykey -> caps) accept_codec accept_meta (c : option registry_c) (zero : json)
           (x : json + wire_err) : json * option client_err :=
  match x with
  | inl v => (v, None)
  | inr w => (zero, Some (val tycaps accept_codec accept_meta c w))
  end.

(* the Handle model's view of a failing handler *)
Definition fail_outcome (w : wire_err) : Handle.outcome :=
  Handle.Fail (we_code w) (we_msg w)
    ((match we_meta w with Some j => [(bs "meta", j)] | None => [] end) ++
     (match we_data w with Some j => [(bs "data", j)] | None => [] end)).
