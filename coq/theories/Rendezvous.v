(* httpio.ReaderParamDecoder's rendezvous table, one level below Reader.v's `arrive`: the table maps a reader uuid to the
   channel on which the upload handler and the param decoder meet. Each party looks its uuid up and, if there is no
   entry, creates a channel and stores it; then the upload sends on the channel it holds and the decoder receives from
   the channel it holds: they meet iff they hold the same channel.
   `Arrive` is lookup-and-create as one step (the code: one critical section of readersLk, see c20_source_arrival_atomic);
   `Look` / `Store` split it in two (the variant in which the lookup is made under a read lock and the creation under
   the write lock without looking again). No proofs here. *)
From Coq Require Import List NArith Bool.
Import ListNotations.

Fixpoint assoc {A} (k : N) (l : list (N * A)) : option A :=
  match l with
  | [] => None
  | (k', v) :: t => if N.eqb k' k then Some v else assoc k t
  end.

Record rz := {
  table : list (N * N);              (* uuid -> channel *)
  fresh : N;                         (* next channel identity (make(chan)) *)
  held : list (N * (N * N));         (* party -> (uuid, channel it will use) *)
  looked : list (N * option N)       (* party -> result of a lookup whose store is still to come *)
}.
Definition rz0 : rz := {| table := []; fresh := 0; held := []; looked := [] |}.

Inductive rzev :=
| Arrive (p u : N)      (* party p (an upload or a decoder) arrives for uuid u: lookup and create in one step *)
| Look (p u : N)        (* split variant, first half *)
| Store (p u : N).      (* split variant, second half *)

Definition rzstep (s : rz) (e : rzev) : rz :=
  match e with
  | Arrive p u =>
      match assoc u (table s) with
      | Some ch => {| table := table s; fresh := fresh s; held := (p, (u, ch)) :: held s; looked := looked s |}
      | None => {| table := (u, fresh s) :: table s; fresh := N.succ (fresh s); held := (p, (u, fresh s)) :: held s; looked := looked s |}
      end
  | Look p u => {| table := table s; fresh := fresh s; held := held s; looked := (p, assoc u (table s)) :: looked s |}
  | Store p u =>
      match assoc p (looked s) with
      | Some (Some ch) => {| table := table s; fresh := fresh s; held := (p, (u, ch)) :: held s; looked := looked s |}
      | Some None => {| table := (u, fresh s) :: table s; fresh := N.succ (fresh s); held := (p, (u, fresh s)) :: held s; looked := looked s |}
      | None => s
      end
  end.

Definition rzrun (es : list rzev) : rz := fold_left rzstep es rz0.

Definition only_arrive (es : list rzev) : bool :=
  forallb (fun e => match e with Arrive _ _ => true | _ => false end) es.
