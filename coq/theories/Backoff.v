(* Model of util.go backoff.next over exact rationals; the float64 -> int64 conversion is written out as amd64
   performs it (out of range => the minimum int64). Float rounding of the arithmetic is modelled, not verified. *)
From Coq Require Import ZArith QArith Qround Qpower Bool.
Open Scope Z_scope.

(* time.Duration(f) on amd64: truncation towards zero; out-of-range values give the "integer indefinite" value *)
Definition to_duration (q : Q) : Z :=
  let t := if Qle_bool 0 q then Qfloor q else Qceiling q in
  if (t <? -9223372036854775808) || (9223372036854775807 <? t) then -9223372036854775808 else t.

Definition durf (minD : Z) (attempt : Z) (jit : Q) : Q :=
  (inject_Z minD * (3 # 2) ^ attempt + jit * inject_Z minD)%Q.

(* clamp_first = the code as repaired by 90d382b: compare in the float domain before converting *)
Definition next (clamp_first : bool) (minD maxD : Z) (attempt : Z) (jit : Q) : Z :=
  if attempt <? 0 then minD else
  let d := durf minD attempt jit in
  if clamp_first && Qle_bool (inject_Z maxD) d then maxD else
  let delay := to_duration d in
  if maxD <? delay then maxD else delay.
