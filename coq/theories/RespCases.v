From Coq Require Import List NArith Bool.
Import ListNotations.
From JR Require Import Resp AuthCases.
Open Scope N_scope.
Definition rcase_diag (es : list rev) : N * N :=
  match rrun_diag rinit es 0 with Some i => (1, i) | None => (0, 0) end.

(* for scenarios in which the connection has ended by the time the harness stops recording: the trace must reach
   the state in which every handler context is cancelled (2 = it does not) *)
Definition rcase_diag_end (es : list rev) (expect_end : bool) : N * N :=
  match rrun_diag rinit es 0 with
  | Some i => (1, i)
  | None => match rrun rinit es with
            | Some s => if expect_end && negb (ended s) then (2, 0) else (0, 0)
            | None => (1, 0)
            end
  end.
