(* Correspondence side for the request path (C09 C10 C12 C13 C11 C01): the handler table of
   harness/cmd/jrpcdrive/handlers.go as a model `config`, and the comparison of observed
   (status, reply bytes, invocation log) with Handle.handle_http. *)
From Coq Require Import List NArith ZArith Bool Arith String Uint63.
Import ListNotations.
From JR Require Import Json Handle Bytes AuthCases.
Open Scope N_scope.

(* handler-side view of a decoded parameter (what the Go method receives, re-marshalled) *)
Definition view (t : ty) (v : json) : json :=
  match t, v with
  | TInt, JNull => JNum [48]
  | TInt, JNum lit => match int_literal lit with Some z => JNum (z_lit z) | None => v end
  | TStr, JNull => JStr []
  | TBool, JNull => JBool false
  | TIntList, JArr l => JArr (map (fun x => match x with
                                            | JNull => JNum [48]
                                            | JNum lit => match int_literal lit with Some z => JNum (z_lit z) | None => x end
                                            | _ => x end) l)
  | _, _ => v
  end.

Definition as_int (v : json) : Z :=
  match v with JNum lit => match int_literal lit with Some z => z | None => 0%Z end | _ => 0%Z end.
(* Go int arithmetic wraps (two's complement, 64 bit) *)
Definition wrap64 (z : Z) : Z := ((z + 9223372036854775808) mod 18446744073709551616 - 9223372036854775808)%Z.
Definition zj (z : Z) : json := JNum (z_lit (wrap64 z)).
Definition arg (n : nat) (t : ty) (ps : list json) : json := view t (nth n ps JNull).

Definition mk name params raw out f : hspec :=
  {| h_name := q name; h_params := params; h_raw := raw; h_out := out; h_fun := f |}.

Definition std_handlers : list hspec := [
  mk "Noop" [] false ONone (fun _ => Ret JNull);
  mk "Const" [] false OVal (fun _ => Ret (zj 42));
  mk "Err" [] false OErr (fun _ => Fail 1 (q "boom <&> ""quoted""") []);
  mk "ErrNil" [] false OErr (fun _ => Ret JNull);
  mk "ValErr" [TBool] false OValErr
     (fun ps => match arg 0 TBool ps with JBool true => Fail 1 (q "bad") [] | _ => Ret (zj 7) end);
  mk "EchoInt" [TInt] false OVal (fun ps => Ret (arg 0 TInt ps));
  mk "Add" [TInt; TInt] false OVal (fun ps => Ret (zj (as_int (arg 0 TInt ps) + as_int (arg 1 TInt ps))));
  mk "EchoStr" [TStr] false OVal (fun ps => Ret (arg 0 TStr ps));
  mk "Not" [TBool] false OVal (fun ps => Ret (match arg 0 TBool ps with JBool b => JBool (negb b) | _ => JBool true end));
  mk "Sum" [TIntList] false OVal
     (fun ps => Ret (zj (match arg 0 TIntList ps with JArr l => fold_left (fun a x => (a + as_int x)%Z) l 0%Z | _ => 0%Z end)));
  mk "Raw1" [TAny] false OVal (fun ps => Ret (nth 0 ps JNull));
  mk "RawP" [] true OValErr (fun ps => Ret (nth 0 ps JNull));
  mk "Panic" [] false ONone (fun _ => Panic (q "kaboom"));
  mk "PanicInt" [TInt] false OVal (fun ps => Panic ((q "perr " ++ match arg 0 TInt ps with JNum l => l | _ => [] end)%list));
  mk "PanicNilMap" [] false ONone (fun _ => Panic (q "assignment to entry in nil map"));
  mk "PanicDeref" [] false OVal (fun _ => Panic (q "runtime error: invalid memory address or nil pointer dereference"));
  mk "PanicCustom" [] false ONone (fun _ => Panic (q "{%!s(int=3)}"));
  mk "PanicAbort" [] false ONone (fun _ => Panic (q "net/http: abort Handler"));
  mk "PanicOpaque" [] false ONone (fun _ => Panic (q "{%!s(chan int=<nil>) reindex}"));
  mk "PanicCoded" [] false ONone (fun _ => Panic (q "coded"));
  mk "Ctx" [TInt] false OVal (fun ps => Ret (zj (as_int (arg 0 TInt ps) + 1)));
  mk "Chan" [] false OChan (fun _ => Ret JNull);
  mk "CodeErr" [TInt] false OErr
     (fun ps => Fail 7 (q "coded") [(q "meta", JObj [(q "N", arg 0 TInt ps)])])
].

Definition std_config (f : formatter) (maxsz : Z) : config :=
  alias (q "H.EchoInt") (q "H.Const")
   (alias (q "A2") (q "Alias.Const")
     (alias (q "Alias.Missing") (q "H.Nope")
       (alias (q "Alias.Const") (format f (q "H") (q "Const"))
         (register f (q "H") std_handlers {| max_size := maxsz; methods := []; aliases := [] |})))).

(* ---- comparison *)
Fixpoint contains (needle hay : bytes) : bool :=
  match hay with
  | [] => match needle with [] => true | _ => false end
  | _ :: r => bytes_eqb needle (firstn (List.length needle) hay) || contains needle r
  end.

Definition msg_match (m : msgspec) (obs : bytes) : bool :=
  match m with MAny => true | MExact s => bytes_eqb s obs | MContains s => contains s obs end.

Definition resp_match (r : response) (o : json) : bool :=
  match rs_body r, o with
  | RResult v, JObj [(k1, id); (k2, JStr ver); (k3, res)] =>
      bytes_eqb k1 (q "id") && bytes_eqb k2 (q "jsonrpc") && bytes_eqb k3 (q "result")
      && json_eqb id (rs_id r) && bytes_eqb ver (q "2.0") && json_eqb v res
  | RError code m extra, JObj [(k1, JObj ((c1, JNum ocode) :: (c2, JStr omsg) :: oextra)); (k2, id); (k3, JStr ver)] =>
      bytes_eqb k1 (q "error") && bytes_eqb k2 (q "id") && bytes_eqb k3 (q "jsonrpc")
      && bytes_eqb c1 (q "code") && bytes_eqb c2 (q "message")
      && json_eqb id (rs_id r) && bytes_eqb ver (q "2.0")
      && num_eqb ocode (z_lit code) && msg_match m omsg && json_eqb (JObj extra) (JObj oextra)
  | _, _ => false
  end.

Fixpoint all2 {A B} (f : A -> B -> bool) (a : list A) (b : list B) : bool :=
  match a, b with
  | [], [] => true
  | x :: a', y :: b' => f x y && all2 f a' b'
  | _, _ => false
  end.

Definition reply_match (rp : reply) (obs : bytes) : bool :=
  match rp with
  | RNone => match obs with [] => true | _ => false end
  | RSingle r => match parse obs with Some o => resp_match r o | None => false end
  | RBatch rs => match parse obs with Some (JArr os) => all2 resp_match rs os | _ => false end
  end.

(* invocation log: observed as (method name, JSON array of the received arguments) *)
Definition inv_match (h_types : bytes -> list ty) (m : invocation) (o : bytes * bytes) : bool :=
  bytes_eqb (fst m) (fst o) &&
  match parse (snd o) with
  | Some (JArr l) => all2 json_eqb (map (fun tv => view (fst tv) (snd tv)) (combine (h_types (fst m)) (snd m))) l
                     || (match h_types (fst m) with [] => all2 json_eqb (snd m) l | _ => false end)
  | _ => false
  end.

Definition std_types (name : bytes) : list ty :=
  match find (fun h => bytes_eqb (h_name h) name) std_handlers with Some h => h_params h | None => [] end.

Record hcase := {
  hc_fmt : formatter; hc_max : Z; hc_body : list int;
  hc_status : Z; hc_reply : list int; hc_invs : list (list int * list int) }.

Definition hcase_ok (c : hcase) : bool :=
  let '(st, rp, invs) := handle_http (std_config (hc_fmt c) (hc_max c)) (unpack (hc_body c)) in
  Z.eqb st (hc_status c) && reply_match rp (unpack (hc_reply c))
  && all2 (inv_match std_types) invs (map (fun p => (unpack (fst p), unpack (snd p))) (hc_invs c)).

(* HandleRequest writes to a plain io.Writer: no HTTP status there (recorded as 200 by the harness) *)
Definition hcase_ok_nostatus (c : hcase) : bool :=
  let '(st, rp, invs) := handle_http (std_config (hc_fmt c) (hc_max c)) (unpack (hc_body c)) in
  (Z.eqb st (hc_status c) || Z.eqb (hc_status c) 0) && reply_match rp (unpack (hc_reply c))
  && all2 (inv_match std_types) invs (map (fun p => (unpack (fst p), unpack (snd p))) (hc_invs c)).

(* which part disagrees (for diagnostics): 1 status, 2 reply, 4 invocations *)
Definition hcase_diag (c : hcase) : N :=
  let '(st, rp, invs) := handle_http (std_config (hc_fmt c) (hc_max c)) (unpack (hc_body c)) in
  (if Z.eqb st (hc_status c) then 0 else 1) + (if reply_match rp (unpack (hc_reply c)) then 0 else 2)
  + (if all2 (inv_match std_types) invs (map (fun p => (unpack (fst p), unpack (snd p))) (hc_invs c)) then 0 else 4).
