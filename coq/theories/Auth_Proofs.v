From Coq Require Import List String Bool Ascii Lia.
Import ListNotations.
From JR Require Import Auth.
Open Scope string_scope.

Section Proofs.
  Variable perm : Type.
  Variable perm_eqb : perm -> perm -> bool.
  Hypothesis perm_eqb_spec : forall a b, perm_eqb a b = true <-> a = b.
  Variable V : Type.
  Variable zeroV : V.

  Lemma has_perm_In attached dflt p :
    has_perm perm perm_eqb attached dflt p = true <-> In p (effective perm attached dflt).
  Proof.
    unfold has_perm. rewrite existsb_exists. split.
    - intros [c [Hin Heq]]. apply perm_eqb_spec in Heq. subst. exact Hin.
    - intros Hin. exists p. split; [exact Hin | apply perm_eqb_spec; reflexivity].
  Qed.

  Lemma runs_iff attached dflt required sh impl :
    (exists r, proxy_call perm perm_eqb V zeroV attached dflt required sh impl = Ran r)
    <-> In required (effective perm attached dflt).
  Proof.
    unfold proxy_call. rewrite <- has_perm_In.
    destruct (has_perm perm perm_eqb attached dflt required); split; intros H.
    - reflexivity.
    - eexists; reflexivity.
    - destruct H as [r H]; discriminate.
    - discriminate.
  Qed.

  Lemma ran_passes_through attached dflt required sh impl r :
    proxy_call perm perm_eqb V zeroV attached dflt required sh impl = Ran r -> r = impl.
  Proof. unfold proxy_call. destruct (has_perm _ _ _ _ _); intros H; inversion H; reflexivity. Qed.

  Lemma denied_shape attached dflt required sh impl :
    ~ In required (effective perm attached dflt) ->
    proxy_call perm perm_eqb V zeroV attached dflt required sh impl =
      Denied (match sh with ShErr => RErr true | ShValErr => RValErr zeroV true end).
  Proof.
    intros Hn. unfold proxy_call.
    destruct (has_perm perm perm_eqb attached dflt required) eqn:E.
    - apply has_perm_In in E. contradiction.
    - destruct sh; reflexivity.
  Qed.

  Lemma attached_empty_overrides dflt required sh impl :
    exists r, proxy_call perm perm_eqb V zeroV (Some []) dflt required sh impl = Denied r.
  Proof. unfold proxy_call, has_perm; simpl. eexists; reflexivity. Qed.

  (* construction *)
  Variable is_empty_tag : perm -> bool.
  Lemma build_ok_iff valid tags :
    proxy_build perm perm_eqb is_empty_tag valid tags = BuildOk <->
    Forall (fun t => is_empty_tag t = false /\ In t valid) tags.
  Proof.
    unfold proxy_build. generalize 0 as i. induction tags as [|t rest IH]; intros i; simpl.
    - split; intros _; [constructor | reflexivity].
    - destruct (is_empty_tag t) eqn:Et.
      + split; [discriminate|]. intros H; inversion H as [|? ? [H1 _] _]; subst. congruence.
      + destruct (existsb (fun v => perm_eqb t v) valid) eqn:Ex.
        * rewrite IH. split.
          -- intros H. constructor; [|exact H]. split; [exact Et|].
             apply existsb_exists in Ex. destruct Ex as [v [Hv Hq]]. apply perm_eqb_spec in Hq. subst; exact Hv.
          -- intros H; inversion H; assumption.
        * split; [discriminate|]. intros H; inversion H as [|? ? [_ Hin] _]; subst.
          assert (existsb (fun v => perm_eqb t v) valid = true) as C.
          { apply existsb_exists. exists t. split; [exact Hin| apply perm_eqb_spec; reflexivity]. }
          congruence.
  Qed.

  (* HTTP handler *)
  Lemma has_prefix_app p s : has_prefix p (p ++ s) = true.
  Proof. induction p as [|a p IH]; simpl; [reflexivity|]. rewrite Ascii.eqb_refl, IH. reflexivity. Qed.
  Lemma drop_app p s : drop (String.length p) (p ++ s) = s.
  Proof. induction p as [|a p IH]; simpl; [reflexivity|exact IH]. Qed.
  Lemma is_empty_false_app p s : p <> "" -> is_empty (p ++ s) = false.
  Proof. destruct p; [congruence|reflexivity]. Qed.

  Variable verify : string -> option (list perm).

  Lemma decide_bearer t :
    auth_decide perm (bearer ++ t) verify =
      match verify t with Some ps => HNext (Some ps) [t] | None => H401 [t] end.
  Proof.
    unfold auth_decide. rewrite has_prefix_app, drop_app. reflexivity.
  Qed.

  Lemma http_no_token : auth_http perm "" "" verify = HNext None [].
  Proof. reflexivity. Qed.

  Lemma http_bearer_header t q :
    auth_http perm (bearer ++ t) q verify =
      match verify t with Some ps => HNext (Some ps) [t] | None => H401 [t] end.
  Proof. unfold auth_http. change (token_of (bearer ++ t) q) with (bearer ++ t). apply decide_bearer. Qed.

  Lemma http_query_token q : q <> "" ->
    auth_http perm "" q verify =
      match verify q with Some ps => HNext (Some ps) [q] | None => H401 [q] end.
  Proof.
    intros Hq. unfold auth_http. destruct q as [|a q]; [congruence|].
    change (token_of "" (String a q)) with (bearer ++ String a q). apply decide_bearer.
  Qed.

  Lemma http_malformed hdr q : hdr <> "" -> has_prefix bearer hdr = false ->
    auth_http perm hdr q verify = H401 [].
  Proof.
    intros Hh Hp. unfold auth_http. destruct hdr as [|a h]; [congruence|].
    change (token_of (String a h) q) with (String a h). unfold auth_decide.
    change (is_empty (String a h)) with false. cbv iota. rewrite Hp. reflexivity.
  Qed.

  (* the complete classification: every request falls in exactly one of the four cases above *)
  Lemma http_cases hdr q :
    (hdr = "" /\ q = "") \/ (hdr = "" /\ q <> "") \/
    (exists t, hdr = bearer ++ t) \/ (hdr <> "" /\ has_prefix bearer hdr = false).
  Proof.
    destruct hdr as [|a h].
    - destruct q; [left; auto | right; left; split; [reflexivity|discriminate]].
    - right; right. destruct (has_prefix bearer (String a h)) eqn:E.
      + left. exists (drop (String.length bearer) (String a h)).
        clear -E. generalize dependent (String a h). generalize bearer.
        induction s as [|c p IH]; intros s E; simpl; [reflexivity|].
        destruct s as [|d s]; simpl in E; [discriminate|].
        apply andb_prop in E. destruct E as [E1 E2]. apply Ascii.eqb_eq in E1. subst. f_equal. apply IH; exact E2.
      + right. split; [discriminate|reflexivity].
  Qed.
End Proofs.
