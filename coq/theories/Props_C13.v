(* C13 — A panicking handler fails only its own call (request-path half; confinement between concurrent
   calls on one WebSocket connection is the per-call independence of the connection model, see Props_C02).
   Statements only; proofs in Handle_Proofs.v. *)
From Coq Require Import List NArith ZArith Bool String.
Import ListNotations.
From JR Require Import Json Handle Handle_Proofs.
From JRGen Require Extracted.
From JR Require Skeletons.

(* reflect's Call has exactly one call site, inside doCall, whose first statement is a deferred recover();
   doCall is called from handle only *)
Theorem c13_source_recover :
  Extracted.callsites_Call = ["doCall"]%string /\ Extracted.callsites_doCall = ["handle"]%string /\
  Extracted.doCall_first_stmt_is_deferred_recover = true /\
  (* connections and calls share no mutable package-level state: the package-level variables are these (none is a map,
     slice or channel) and no function assigns, indexes into, deletes from or takes the address of one *)
  Extracted.package_vars = ["DefaultMethodNameFormatter"; "_defaultHTTPClient"; "connectionTypeCtxKey"; "contextType"; "debugTrace";
    "errorCodecRT"; "errorType"; "log"; "marshalableRT"; "maxQueuedFrames"; "onReadDeadlineResetInterval"; "rtRawParams"; "upgrader"]%string /\
  Extracted.package_state_mutations = [].
Proof. repeat split; reflexivity. Qed.

(* the caller of a panicking method gets an error whose message spells out the panic value; exactly that
   handler ran, once *)
Theorem c13_reply_mentions_panic : forall c ok r h ps m,
  resolve c (r_method r) = Some h -> (is_chan h && negb ok = false)%bool ->
  (if h_raw h then Some [match r_params r with Some v => v | None => JNull end] else positional_args r) = Some ps ->
  (h_raw h = false -> List.length ps = List.length (h_params h) /\
                      forallb (fun tp => accepts (fst tp) (snd tp)) (combine (h_params h) ps) = true) ->
  h_fun h ps = Panic m ->
  handle c ok r = (Some (rpc_error (r_id r) 0%Z
     (MExact (q "fatal error calling '" ++ r_method r ++ q "': panic in rpc method '" ++ r_method r ++ q "': " ++ m))),
     [(h_name h, ps)]).
Proof. exact handle_panic. Qed.

(* confinement inside a batch: every element's outcome is a function of that element alone, so the
   responses and invocations of all other elements are what they would be without the panicking one *)
Theorem c13_confined_in_batch : forall c (l1 l2 : list request) x,
  map (handle_element c) (l1 ++ x :: l2) = map (handle_element c) l1 ++ handle_element c x :: map (handle_element c) l2.
Proof. exact batch_elements_independent. Qed.

(* the functions this property's model is an abstraction of still have the control / locking / shared-state skeleton the
   model was written against (Skeletons.v, by hand; Extracted.v, regenerated from /repo) *)
Theorem c13_code_skeletons :
  JRGen.Extracted.effects_doCall = JR.Skeletons.doCall /\
  JRGen.Extracted.effects_handleCall = JR.Skeletons.handleCall.
Proof. repeat split; reflexivity. Qed.

Print Assumptions c13_code_skeletons.
Print Assumptions c13_source_recover.
Print Assumptions c13_reply_mentions_panic.
Print Assumptions c13_confined_in_batch.
