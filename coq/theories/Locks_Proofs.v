From Coq Require Import List Bool Arith Lia.
Import ListNotations.
From JR Require Import Locks.

Lemma nth_set_same {A} (l : list A) i x : i < length l -> nth_error (set_nth i x l) i = Some x.
Proof. revert i. induction l as [|y l IH]; intros i H; simpl in *; [lia|]. destruct i; simpl; [reflexivity|apply IH; lia]. Qed.

Lemma nth_set_other {A} (l : list A) i j x : i <> j -> nth_error (set_nth i x l) j = nth_error l j.
Proof.
  revert i j. induction l as [|y l IH]; intros i j H; simpl.
  - destruct i; reflexivity.
  - destruct i, j; simpl; try reflexivity; try congruence. apply IH. congruence.
Qed.

Lemma nth_some_lt {A} (l : list A) i x : nth_error l i = Some x -> i < length l.
Proof. intros H. apply nth_error_Some. congruence. Qed.

Definition Excl (st : list thr) : Prop :=
  forall i j ti tj, nth_error st i = Some ti -> nth_error st j = Some tj -> snd ti = true -> snd tj = true -> i = j.
Definition WL (st : list thr) : Prop := forall i t, nth_error st i = Some t -> wl (snd t) (fst t) = true.

Lemma lock_free_all st : lock_free st = true -> forall i t, nth_error st i = Some t -> snd t = false.
Proof.
  unfold lock_free. intros H i t Hn. rewrite forallb_forall in H. apply nth_error_In in Hn.
  specialize (H t Hn). destruct (snd t); [discriminate|reflexivity].
Qed.

Lemma tstep_inv st i st' o : Excl st -> WL st -> tstep st i = Some (st', o) -> Excl st' /\ WL st'.
Proof.
  intros HE HW H. unfold tstep in H. destruct (nth_error st i) as [[p h]|] eqn:Hi; [|discriminate].
  pose proof (nth_some_lt _ _ _ Hi) as Hlt. pose proof (HW i _ Hi) as Hw. simpl in Hw.
  destruct p as [|[] r]; try discriminate.
  - (* acquire *) destruct (lock_free st) eqn:Hf; [|discriminate]. injection H as <- <-.
    pose proof (lock_free_all st Hf) as Hall. split.
    + intros a b ta tb Ha Hb Sa Sb.
      destruct (Nat.eq_dec i a) as [<-|Na]; destruct (Nat.eq_dec i b) as [<-|Nb]; auto.
      * rewrite nth_set_other in Hb by exact Nb. rewrite (Hall b tb Hb) in Sb. discriminate.
      * rewrite nth_set_other in Ha by exact Na. rewrite (Hall a ta Ha) in Sa. discriminate.
      * rewrite nth_set_other in Ha by exact Na. rewrite (Hall a ta Ha) in Sa. discriminate.
    + intros a t Ha. destruct (Nat.eq_dec i a) as [<-|Na].
      * rewrite nth_set_same in Ha by exact Hlt. injection Ha as <-. simpl. apply andb_prop in Hw. apply Hw.
      * rewrite nth_set_other in Ha by exact Na. apply (HW a t Ha).
  - (* release *) injection H as <- <-. apply andb_prop in Hw. destruct Hw as [Hh Hr]. split.
    + intros a b ta tb Ha Hb Sa Sb.
      destruct (Nat.eq_dec i a) as [<-|Na].
      * rewrite nth_set_same in Ha by exact Hlt. injection Ha as <-. discriminate.
      * destruct (Nat.eq_dec i b) as [<-|Nb].
        -- rewrite nth_set_same in Hb by exact Hlt. injection Hb as <-. discriminate.
        -- rewrite nth_set_other in Ha by exact Na. rewrite nth_set_other in Hb by exact Nb. eapply HE; eauto.
    + intros a t Ha. destruct (Nat.eq_dec i a) as [<-|Na].
      * rewrite nth_set_same in Ha by exact Hlt. injection Ha as <-. exact Hr.
      * rewrite nth_set_other in Ha by exact Na. apply (HW a t Ha).
  - (* write *) injection H as <- <-. apply andb_prop in Hw. destruct Hw as [Hh Hr]. split.
    + intros a b ta tb Ha Hb Sa Sb.
      assert (G : forall c tc, nth_error (set_nth i (r, h) st) c = Some tc -> snd tc = true ->
                  exists tc', nth_error st c = Some tc' /\ snd tc' = true).
      { intros c tc Hc Sc. destruct (Nat.eq_dec i c) as [<-|Nc].
        - rewrite nth_set_same in Hc by exact Hlt. injection Hc as <-. exists (LWrite :: r, h). auto.
        - rewrite nth_set_other in Hc by exact Nc. eauto. }
      destruct (G a ta Ha Sa) as (xa & Xa & Ya). destruct (G b tb Hb Sb) as (xb & Xb & Yb). eapply HE; eauto.
    + intros a t Ha. destruct (Nat.eq_dec i a) as [<-|Na].
      * rewrite nth_set_same in Ha by exact Hlt. injection Ha as <-. exact Hr.
      * rewrite nth_set_other in Ha by exact Na. apply (HW a t Ha).
  - (* other *) injection H as <- <-. split.
    + intros a b ta tb Ha Hb Sa Sb.
      assert (G : forall c tc, nth_error (set_nth i (r, h) st) c = Some tc -> snd tc = true ->
                  exists tc', nth_error st c = Some tc' /\ snd tc' = true).
      { intros c tc Hc Sc. destruct (Nat.eq_dec i c) as [<-|Nc].
        - rewrite nth_set_same in Hc by exact Hlt. injection Hc as <-. exists (LOther :: r, h). auto.
        - rewrite nth_set_other in Hc by exact Nc. eauto. }
      destruct (G a ta Ha Sa) as (xa & Xa & Ya). destruct (G b tb Hb Sb) as (xb & Xb & Yb). eapply HE; eauto.
    + intros a t Ha. destruct (Nat.eq_dec i a) as [<-|Na].
      * rewrite nth_set_same in Ha by exact Hlt. injection Ha as <-. exact Hw.
      * rewrite nth_set_other in Ha by exact Na. apply (HW a t Ha).
Qed.

(* whoever writes holds the lock, and nobody else does *)
Lemma write_exclusive st i st' : Excl st -> WL st -> tstep st i = Some (st', LWrite) ->
  nth i (map snd st) false = true /\ forall j, j <> i -> nth j (map snd st) false = false.
Proof.
  intros HE HW H. unfold tstep in H. destruct (nth_error st i) as [[p h]|] eqn:Hi; [|discriminate].
  pose proof (HW i _ Hi) as Hw. simpl in Hw.
  destruct p as [|[] r]; try discriminate; try (destruct (lock_free st); discriminate).
  apply andb_prop in Hw. destruct Hw as [Hh _]. subst h. split.
  - erewrite nth_indep with (d' := snd (@nil lop, false)); [|rewrite map_length; eapply nth_some_lt; eauto].
    rewrite map_nth. erewrite nth_error_nth; eauto. reflexivity.
  - intros j Hj. destruct (nth_error st j) as [tj|] eqn:Hjn.
    + erewrite nth_indep with (d' := snd (@nil lop, false)); [|rewrite map_length; eapply nth_some_lt; eauto].
      rewrite map_nth. erewrite nth_error_nth; eauto.
      destruct (snd tj) eqn:S; [|reflexivity]. exfalso. apply Hj. eapply HE; eauto.
    + apply nth_overflow. rewrite map_length. apply nth_error_None. exact Hjn.
Qed.

(* every schedule, any number of threads: in the executed trace every write is made by the one lock holder *)
Theorem exec_writes_exclusive sched : forall st, Excl st -> WL st ->
  Forall (fun ev => match ev with
                    | (i, LWrite, holders) => nth i holders false = true /\ forall j, j <> i -> nth j holders false = false
                    | _ => True end) (fst (exec st sched)).
Proof.
  induction sched as [|i sched IH]; intros st HE HW; simpl; [constructor|].
  destruct (tstep st i) as [[st' o]|] eqn:Hs; [|apply IH; assumption].
  destruct (tstep_inv st i st' o HE HW Hs) as [HE' HW'].
  destruct (exec st' sched) as [tr fin] eqn:Hx. simpl. constructor.
  - destruct o; auto. eapply write_exclusive; eauto.
  - specialize (IH st' HE' HW'). rewrite Hx in IH. exact IH.
Qed.

Lemma initial_ok (progs : list (list lop)) :
  forallb (wl false) progs = true -> Excl (map (fun p => (p, false)) progs) /\ WL (map (fun p => (p, false)) progs).
Proof.
  intros H. split.
  - intros i j ti tj Hi Hj Si Sj. apply nth_error_In in Hi. apply in_map_iff in Hi. destruct Hi as (p & <- & _). discriminate.
  - intros i t Hi. apply nth_error_In in Hi. apply in_map_iff in Hi. destruct Hi as (p & <- & Hin). simpl.
    rewrite forallb_forall in H. apply H. exact Hin.
Qed.
