From Coq Require Import List NArith ZArith Bool Arith Lia.
Import ListNotations.
From JR Require Import Stream.

Definition Prefix (a b : list Z) : Prop := exists t, b = a ++ t.

Lemma prefix_refl a : Prefix a a.
Proof. exists []. rewrite app_nil_r. reflexivity. Qed.

Lemma prefix_nil a : Prefix [] a.
Proof. exists a. reflexivity. Qed.

Lemma prefix_grow_up a b x : Prefix a b -> Prefix a (b ++ [x]).
Proof. intros [t ->]. exists (t ++ [x]). rewrite app_assoc. reflexivity. Qed.

Lemma prefix_trans a b c : Prefix a b -> Prefix b c -> Prefix a c.
Proof. intros [t ->] [u ->]. exists (t ++ u). rewrite app_assoc. reflexivity. Qed.

Lemma prefix_length a b : Prefix a b -> length a <= length b.
Proof. intros [t ->]. rewrite app_length. lia. Qed.

Lemma prefix_same_length a b : Prefix a b -> length a = length b -> a = b.
Proof.
  intros [t ->] H. rewrite app_length in H. assert (length t = 0) by lia. destruct t; [rewrite app_nil_r; reflexivity|discriminate].
Qed.

Lemma prefix_firstn a b : Prefix a b -> a = firstn (length a) b.
Proof. intros [t ->]. rewrite firstn_app, Nat.sub_diag, firstn_all. simpl. rewrite app_nil_r. reflexivity. Qed.

(* taking the next element of the upstream list keeps the prefix relation *)
Lemma prefix_next v have up : Prefix have up -> next_is v have up = true -> Prefix (have ++ [v]) up.
Proof.
  intros [t ->] H. unfold next_is in H. apply andb_prop in H. destruct H as [Hl Hv].
  apply Nat.ltb_lt in Hl. apply Z.eqb_eq in Hv. rewrite app_length in Hl.
  destruct t as [|x t]; [simpl in Hl; lia|].
  rewrite app_nth2 in Hv by lia. rewrite Nat.sub_diag in Hv. simpl in Hv. subst x.
  exists t. rewrite <- app_assoc. reflexivity.
Qed.

Record SInv (s : strm) : Prop := {
  si_cd : Prefix (cons s) (deliv s);
  si_df : Prefix (deliv s) (fwd s);
  si_ft : Prefix (fwd s) (tried s);
  si_sent : sent s <= length (tried s);
  si_fclosed : fclosed s = true -> pclosed s = true /\ length (fwd s) = sent s;
  si_server : how s = ByServer -> sink s = SClosed /\ fclosed s = true /\ (length (deliv s) = length (fwd s) \/ ctxc s = true);
  si_inval : sink s <> SOpen -> inval s = false;
  si_cclosed : cclosed s = true -> ctxc s = true \/ (sink s = SClosed /\ length (cons s) = length (deliv s))
}.

Lemma sinv0 : SInv s0.
Proof. constructor; simpl; intros; try discriminate; try apply prefix_nil; auto. Qed.

Ltac gd H := repeat match type of H with
  | (if ?b then _ else _) = Some _ => let E := fresh "G" in destruct b eqn:E; try discriminate
  | match ?x with _ => _ end = Some _ => let E := fresh "G" in destruct x eqn:E; try discriminate
  end.

Ltac bools := repeat match goal with
  | H : (_ && _)%bool = true |- _ => apply andb_prop in H; destruct H
  | H : (_ || _)%bool = false |- _ => apply orb_false_iff in H; destruct H
  | H : negb _ = true |- _ => apply negb_true_iff in H
  | H : negb _ = false |- _ => apply negb_false_iff in H
  | H : Nat.eqb _ _ = true |- _ => apply Nat.eqb_eq in H
  | H : Nat.ltb _ _ = true |- _ => apply Nat.ltb_lt in H
  end.

Theorem sstep_inv s e s' : SInv s -> sstep s e = Some s' -> SInv s'.
Proof.
  intros I H. destruct I as [I1 I2 I3 I4 I5 I6 I7 I8].
  destruct e; simpl in H; gd H; injection H as <-; bools; constructor; simpl; auto;
    try (apply prefix_grow_up; assumption);
    try (apply prefix_next; assumption);
    try (rewrite app_length; simpl; lia);
    try (intros; discriminate);
    try congruence.
  all: try (intros Hq; specialize (I5 Hq); destruct I5; split; [assumption|rewrite ?app_length in *; simpl in *; lia]).
  all: try (intros Hq; destruct (I6 Hq) as (Q1 & Q2 & Q3); congruence).
  all: try (intros Hq; destruct (I8 Hq) as [Q|[Q1 Q2]]; [left; assumption|right; split; [congruence|rewrite ?app_length in *; simpl in *; try lia; try congruence]]).
  all: try (intros Hq; destruct (I6 Hq) as (Q1 & Q2 & [Q3|Q3]); repeat split; auto; rewrite ?app_length in *; simpl in *; try (left; lia); try congruence).
  all: try (intros _; auto; fail).
  all: try tauto.
  all: try (intros Hq; destruct (I5 Hq); congruence).
  all: try (match goal with
            | Hi : inval _ = true |- _ =>
                first [ intros Hq; destruct (I6 Hq) as (Q1 & _); rewrite I7 in Hi by (rewrite Q1; discriminate); discriminate
                      | intros Hq; destruct (I8 Hq) as [Q|[Q1 Q2]]; [left; assumption|rewrite I7 in Hi by (rewrite Q1; discriminate); discriminate]
                      | exfalso; match goal with Hh : how _ = ByServer |- _ => destruct (I6 Hh) as (Q1 & _); rewrite I7 in Hi by (rewrite Q1; discriminate); discriminate end ]
            end).
  all: try (intros _; repeat split; auto;
            match goal with Hg : (_ || _)%bool = true |- _ => apply orb_prop in Hg; destruct Hg as [Hg|Hg]; [left; apply Nat.eqb_eq; exact Hg|right; exact Hg] end).
  all: try (intros _;
            match goal with Hg : (_ || _)%bool = true |- _ => apply orb_prop in Hg; destruct Hg as [Hg|Hg]; [left; exact Hg|right] end;
            bools; split; [reflexivity|assumption]).
  all: try (exfalso; match goal with Hi : inval _ = true, Q : sink _ = SClosed |- _ => rewrite I7 in Hi by (rewrite Q; discriminate); discriminate end).
  all: try (intros _; match goal with Hg : (_ || _)%bool = true |- _ => apply orb_prop in Hg; destruct Hg as [Hg|Hg]; [left; exact Hg|right] end;
            match goal with Hg : (_ && _)%bool = true |- _ => apply andb_prop in Hg; destruct Hg as [Hg1 Hg2] end;
            split; [destruct (sink s); try discriminate; reflexivity|apply Nat.eqb_eq; assumption]).
Qed.

Theorem srun_inv es : forall s s', SInv s -> srun s es = Some s' -> SInv s'.
Proof.
  induction es as [|e es IH]; intros s s' I H; simpl in H.
  - injection H as <-. exact I.
  - destruct (sstep s e) as [s1|] eqn:Hs; [|discriminate]. eapply IH; [eapply sstep_inv; eauto|exact H].
Qed.

(* order, no duplicate, nothing foreign, under every cause and race: what the consumer has is a prefix of what the
   sink accepted, of what the forwarder took, of what the producer offered *)
Theorem prefix_chain es s : srun s0 es = Some s ->
  Prefix (cons s) (deliv s) /\ Prefix (deliv s) (fwd s) /\ Prefix (fwd s) (tried s) /\ Prefix (cons s) (tried s).
Proof.
  intros H. pose proof (srun_inv es s0 s sinv0 H) as I. destruct I as [I1 I2 I3 _ _ _ _ _].
  repeat split; auto. eapply prefix_trans; [exact I1|]. eapply prefix_trans; eauto.
Qed.

(* lossless: closed by the handler's close, not cancelled: the consumer got every value the producer saw accepted *)
Theorem lossless_on_close es s : srun s0 es = Some s ->
  cclosed s = true -> ctxc s = false -> how s = ByServer -> cons s = firstn (sent s) (tried s).
Proof.
  intros H Hc Hx Hh. pose proof (srun_inv es s0 s sinv0 H) as I. destruct I as [I1 I2 I3 I4 I5 I6 I7 I8].
  destruct (I8 Hc) as [Q|[Q1 Q2]]; [congruence|].
  destruct (I6 Hh) as (_ & Hf & [Q3|Q3]); [|congruence].
  destruct (I5 Hf) as [_ Q4].
  assert (P : Prefix (cons s) (tried s)) by (eapply prefix_trans; [exact I1|]; eapply prefix_trans; eauto).
  rewrite (prefix_firstn _ _ P) at 1. f_equal. lia.
Qed.

(* closed exactly once, nothing after the close *)
Theorem closed_is_final s e s' : cclosed s = true -> sstep s e = Some s' -> cclosed s' = true /\ cons s' = cons s.
Proof.
  intros Hc H. destruct e; simpl in H; gd H; try (injection H as <-); simpl; auto; rewrite Hc in *; simpl in *; try discriminate.
Qed.

Theorem no_second_close s : cclosed s = true -> sstep s ConsClosed = None /\ forall v, sstep s (ConsRecv v) = None.
Proof. intros Hc. simpl. rewrite Hc. simpl. auto. Qed.

(* the response announcing a channel precedes its first value *)
Theorem value_needs_registration s v s' : sstep s (OchVal v) = Some s' -> reg s = true.
Proof. simpl. destruct (reg s); [reflexivity|discriminate]. Qed.

(* a stalled consumer blocks nobody: forwarding, the executor handing values to the sink, and closing do not
   depend on what the consumer has taken *)
Definition with_cons (s : strm) (c : list Z) : strm :=
  {| tried := tried s; sent := sent s; pclosed := pclosed s; alloc := alloc s; reg := reg s; fwd := fwd s;
     fclosed := fclosed s; sink := sink s; how := how s; inval := inval s; deliv := deliv s; ctxc := ctxc s;
     cons := c; cclosed := cclosed s |}.

Theorem consumer_independent s c e :
  match e with ConsRecv _ | ConsClosed => True | _ =>
    sstep (with_cons s c) e = option_map (fun s' => with_cons s' c) (sstep s e) end.
Proof.
  destruct e; simpl; auto;
    repeat match goal with |- context [if ?b then _ else _] => destruct b end;
    try reflexivity; destruct (sink s); reflexivity.
Qed.

(* streams are independent: an event of one stream leaves every other stream untouched *)
Lemma get_put_other ch ch' x m : ch' <> ch -> get ch' (put ch x m) = get ch' m.
Proof.
  intros Hn. induction m as [|[k y] m IH]; simpl.
  - destruct (N.eqb ch ch') eqn:E; [apply N.eqb_eq in E; congruence|reflexivity].
  - destruct (N.eqb k ch) eqn:E; simpl.
    + apply N.eqb_eq in E. subst k. destruct (N.eqb ch ch') eqn:E2; [apply N.eqb_eq in E2; congruence|reflexivity].
    + destruct (N.eqb k ch'); [reflexivity|exact IH].
Qed.

Lemma get_put_same ch x m : get ch (put ch x m) = x.
Proof.
  induction m as [|[k y] m IH]; simpl; [rewrite N.eqb_refl; reflexivity|].
  destruct (N.eqb k ch) eqn:E; simpl; [rewrite E; reflexivity|rewrite E; exact IH].
Qed.

Theorem streams_independent m ch e m' ch' : mstep m (ch, e) = Some m' -> ch' <> ch -> get ch' m' = get ch' m.
Proof.
  unfold mstep; simpl. destruct (sstep (get ch m) e); [|discriminate]. intros H Hn. injection H as <-.
  apply get_put_other. exact Hn.
Qed.

(* ... and every stream of a multi-stream run satisfies the single-stream invariant *)
Theorem mrun_inv es : forall m m', (forall ch, SInv (get ch m)) -> mrun m es = Some m' -> forall ch, SInv (get ch m').
Proof.
  induction es as [|[c e] es IH]; intros m m' I H ch; simpl in H.
  - injection H as <-. apply I.
  - unfold mstep in H. simpl in H. destruct (sstep (get c m) e) as [s1|] eqn:Hs; [|discriminate].
    eapply IH; [|exact H]. intros ch0. destruct (N.eq_dec ch0 c) as [->|Hn].
    + rewrite get_put_same. eapply sstep_inv; eauto.
    + rewrite get_put_other by exact Hn. apply I.
Qed.

Theorem mrun_prefix es m ch : mrun [] es = Some m -> Prefix (cons (get ch m)) (tried (get ch m)).
Proof.
  intros H. assert (I0 : forall c, SInv (get c [])) by (intros c; exact sinv0).
  destruct (mrun_inv es [] m I0 H ch) as [I1 I2 I3 _ _ _ _ _].
  eapply prefix_trans; [exact I1|]. eapply prefix_trans; eauto.
Qed.
