(* Mutual exclusion of the write side of a connection, for any number of goroutines and any schedule, given the
   per-path lock discipline the translator extracts (gen/LockTable.v); plus the boolean obligations evaluated over
   that table. No proofs here (Locks_Proofs.v). *)
From Coq Require Import List Bool Arith String ZArith.
Import ListNotations.

(* one goroutine = a straight-line path of operations; only the write lock matters for the theorem *)
Inductive lop := LAcq | LRel | LWrite | LOther.

(* the sequential discipline of one path: never writes without the lock, never re-acquires, never releases what it
   does not hold *)
Fixpoint wl (h : bool) (p : list lop) : bool :=
  match p with
  | [] => true
  | LAcq :: r => negb h && wl true r
  | LRel :: r => h && wl false r
  | LWrite :: r => h && wl h r
  | LOther :: r => wl h r
  end.

Definition thr := (list lop * bool)%type.          (* remaining path, holds the write lock *)

Definition lock_free (st : list thr) : bool := forallb (fun t => negb (snd t)) st.

Fixpoint set_nth {A} (n : nat) (x : A) (l : list A) : list A :=
  match n, l with
  | O, _ :: r => x :: r
  | S k, y :: r => y :: set_nth k x r
  | _, [] => []
  end.

(* thread i takes its next step; what it did is returned as the event *)
Definition tstep (st : list thr) (i : nat) : option (list thr * lop) :=
  match nth_error st i with
  | Some (LAcq :: r, h) => if lock_free st then Some (set_nth i (r, true) st, LAcq) else None   (* blocks *)
  | Some (LRel :: r, h) => Some (set_nth i (r, false) st, LRel)
  | Some (LWrite :: r, h) => Some (set_nth i (r, h) st, LWrite)
  | Some (LOther :: r, h) => Some (set_nth i (r, h) st, LOther)
  | _ => None
  end.

(* a schedule is a list of thread indices; the executed trace records (thread, op, who held the lock then) *)
Fixpoint exec (st : list thr) (sched : list nat) : list (nat * lop * list bool) * list thr :=
  match sched with
  | [] => ([], st)
  | i :: r => match tstep st i with
              | Some (st', o) => let '(tr, fin) := exec st' r in ((i, o, map snd st) :: tr, fin)
              | None => exec st r       (* a blocked or finished thread: the scheduler picks again *)
              end
  end.

(* ---- obligations over the generated table *)
Open Scope string_scope.
Definition row := (string * string * string * list string * Z)%type.
Definition r_fn (r : row) := fst (fst (fst (fst r))).
Definition r_op (r : row) := snd (fst (fst (fst r))).
Definition r_what (r : row) := snd (fst (fst r)).
Definition r_locks (r : row) := snd (fst r).

Definition mem_s (x : string) (l : list string) : bool := existsb (String.eqb x) l.

Definition conn_writes_locked (rows : list row) : bool :=
  forallb (fun r => if String.eqb (r_op r) "conn-write" || String.eqb (r_op r) "conn-swap" then mem_s "c.writeLk" (r_locks r) else true) rows.

Definition guard_of (op : string) : option string :=
  if String.eqb op "map:inflight" then Some "c.inflightLk"
  else if String.eqb op "map:handling" then Some "c.handlingLk"
  else if String.eqb op "map:chanHandlers" then Some "c.chanHandlersLk"
  else if String.eqb op "map:incomingErr" then Some "c.errLk"
  else None.

(* initialisation of the three tables at the top of handleWsConn happens before any goroutine of the connection exists *)
Definition is_init (r : row) : bool :=
  String.eqb (r_fn r) "handleWsConn" && String.eqb (r_what r) "assign" && match r_locks r with [] => true | _ => false end.

Definition maps_guarded (rows : list row) : bool :=
  forallb (fun r => match guard_of (r_op r) with
                    | Some g => mem_s g (r_locks r) || is_init r
                    | None => true end) rows
  && Nat.eqb (List.length (filter (fun r => match guard_of (r_op r) with Some _ => is_init r | None => false end) rows)) 3.

(* every invocation of a channel handler's sink callback (value delivery in handleChanMessage, close in handleChanClose
   and closeChans) is made under that handler's mutex, and all three sites are there: a value in delivery and the closing
   of the sink cannot overlap *)
Definition sink_callbacks_locked (rows : list row) : bool :=
  forallb (fun r => if String.eqb (r_op r) "sink-callback" then mem_s "hnd.lk" (r_locks r) else true) rows.
Definition sink_callback_sites (rows : list row) : list string :=
  map r_fn (filter (fun r => String.eqb (r_op r) "sink-callback") rows).

(* lock-order graph: an edge held -> acquired for every acquisition made while holding another mutex *)
Definition lock_name (op : string) : option string :=
  if String.eqb (substring 0 5 op) "lock:" then Some (substring 5 (String.length op - 5) op) else None.
Definition lock_edges (rows : list row) : list (string * string) :=
  flat_map (fun r => match lock_name (r_op r) with Some m => map (fun h => (h, m)) (r_locks r) | None => [] end) rows.

Fixpoint reach (fuel : nat) (es : list (string * string)) (from to : string) : bool :=
  match fuel with
  | O => false
  | S f => existsb (fun e => String.eqb (fst e) from && (String.eqb (snd e) to || reach f es (snd e) to)) es
  end.
Definition lock_order_acyclic (rows : list row) : bool :=
  let es := lock_edges rows in forallb (fun e => negb (reach (S (List.length es)) es (snd e) (fst e)) && negb (String.eqb (fst e) (snd e))) es.

(* the write lock is never acquired by a path that already holds it *)
Definition no_reentrant_writeLk (rows : list row) : bool :=
  forallb (fun r => if String.eqb (r_op r) "lock:c.writeLk" then negb (mem_s "c.writeLk" (r_locks r)) else true) rows.

(* the delegated response writer (handler.go lazyWriter): the goroutine that holds the lock and the handler goroutine
   that writes through it form one logical writer whose path is acquire, writes, release *)
Definition lazy_path (n : nat) : list lop := LAcq :: repeat LWrite n ++ [LRel].
