(* C12 — Dispatch by formatted name, then alias; bad arity or types never run a handler.
   Statements only; proofs in Handle_Proofs.v. *)
From Coq Require Import List NArith ZArith Bool String.
Import ListNotations.
From JR Require Import Json Handle Handle_Proofs.
From JRGen Require Extracted.
From JR Require Skeletons.

(* resolution is: the direct entry; else the direct entry of the alias target (one hop); else not found *)
Theorem c12_direct : forall c name h, assoc_b name (methods c) = Some h -> resolve c name = Some h.
Proof. exact resolve_direct. Qed.

Theorem c12_alias : forall c name orig,
  assoc_b name (methods c) = None -> assoc_b name (aliases c) = Some orig ->
  resolve c name = assoc_b orig (methods c).
Proof. exact resolve_alias. Qed.

Theorem c12_not_found : forall c ok r,
  assoc_b (r_method r) (methods c) = None -> assoc_b (r_method r) (aliases c) = None ->
  exists m, handle c ok r = (Some (rpc_error (r_id r) Extracted.rpcMethodNotFound m), []).
Proof. intros c ok r H1 H2. apply handle_unknown. apply resolve_none; assumption. Qed.

(* a direct name wins over an alias of the same spelling, whatever the alias table says *)
Theorem c12_direct_beats_alias : forall c a orig name h,
  assoc_b name (methods c) = Some h -> resolve (alias a orig c) name = Some h.
Proof. intros c a orig name h H. apply resolve_direct. exact H. Qed.

(* the last registration of a formatted name wins; other names are untouched *)
Theorem c12_register_lookup : forall f ns h c name,
  assoc_b name (methods (register f ns [h] c)) =
    if bytes_eqb name (format f ns (h_name h)) then Some h else assoc_b name (methods c).
Proof. exact register_one_lookup. Qed.

(* client and server sharing formatter and namespace agree on the method *)
Theorem c12_client_server_agree : forall f ns hs c h,
  find (fun h' => bytes_eqb (format f ns (h_name h)) (format f ns (h_name h'))) (rev hs) = Some h ->
  resolve (register f ns hs c) (format f ns (h_name h)) = Some h.
Proof. exact register_resolves. Qed.

(* namespaces never leak into one another (namespace-including built-in formatters, namespaces without '.') *)
Theorem c12_no_namespace_leak : forall low ns1 ns2 m1 m2,
  no_dot ns1 = true -> no_dot ns2 = true ->
  format (Fmt true low) ns1 m1 = format (Fmt true low) ns2 m2 ->
  ns1 = ns2 /\ (if low then lower1 m1 = lower1 m2 else m1 = m2).
Proof. exact format_injective. Qed.

(* wrong number of positional params, params that are not an array, or a param that does not decode into
   the declared type: an error and no handler runs *)
Theorem c12_arity : forall c ok r h ps,
  resolve c (r_method r) = Some h -> (is_chan h && negb ok = false)%bool -> h_raw h = false ->
  positional_args r = Some ps -> List.length ps <> List.length (h_params h) ->
  exists m, handle c ok r = (Some (rpc_error (r_id r) Extracted.rpcInvalidParams m), []).
Proof. exact handle_wrong_arity. Qed.

Theorem c12_types : forall c ok r h ps,
  resolve c (r_method r) = Some h -> (is_chan h && negb ok = false)%bool -> h_raw h = false ->
  positional_args r = Some ps -> List.length ps = List.length (h_params h) ->
  forallb (fun tp => accepts (fst tp) (snd tp)) (combine (h_params h) ps) = false ->
  exists m, handle c ok r = (Some (rpc_error (r_id r) Extracted.rpcParseError m), []).
Proof. exact handle_wrong_types. Qed.

Theorem c12_params_not_array : forall c r h,
  resolve c (r_method r) = Some h -> is_chan h = false -> h_raw h = false -> positional_args r = None ->
  exists m, handle c false r = (Some (rpc_error (r_id r) Extracted.rpcParseError m), []).
Proof. exact handle_bad_params. Qed.

(* client-side naming: the method put on the wire is the formatter applied to the client's namespace and the field
   name, replaced only by an explicit method tag (regenerated from client.go makeRpcFunc) *)
Theorem c12_source_facts :
  Extracted.method_name_assignments = ["name = c.methodNameFormatter(c.namespace, f.Name)"; "name = tag"]%string /\
  (* the server's reverse client reads the server's formatter when a connection is upgraded, not when the option is
     applied: the order of the server options does not matter for the names of reverse calls *)
  Extracted.reverse_formatter_read_per_connection = true.
Proof. split; reflexivity. Qed.

(* the functions this property's model is an abstraction of still have the control / locking / shared-state skeleton the
   model was written against (Skeletons.v, by hand; Extracted.v, regenerated from /repo) *)
Theorem c12_code_skeletons :
  JRGen.Extracted.effects_handle = JR.Skeletons.handle.
Proof. repeat split; reflexivity. Qed.

Print Assumptions c12_code_skeletons.
Print Assumptions c12_source_facts.
Print Assumptions c12_direct.
Print Assumptions c12_alias.
Print Assumptions c12_not_found.
Print Assumptions c12_direct_beats_alias.
Print Assumptions c12_register_lookup.
Print Assumptions c12_client_server_agree.
Print Assumptions c12_no_namespace_leak.
Print Assumptions c12_arity.
Print Assumptions c12_types.
Print Assumptions c12_params_not_array.
