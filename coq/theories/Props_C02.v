(* C02 — Each concurrent call completes exactly once and with its own response.
   Model: Conn.v, any number of callers, responses in any order. Statements only. *)
From Coq Require Import List NArith Bool String.
Import ListNotations.
From JR Require Import Conn Conn_Proofs.
From JRGen Require Extracted.
From JR Require Skeletons.
Open Scope N_scope.

(* ids of distinct calls are distinct: a second call under an id in use is not a behaviour of the model
   (and every recorded trace is checked against it) *)
Theorem c02_fresh_ids : forall v s id rt s', step v s (CallStart id rt) = Some s' -> lookup id (calls s) = None.
Proof. intros v s id rt s' H. unfold step in H. destruct (lookup id (calls s)); [discriminate|reflexivity]. Qed.

(* own response: a response is delivered only to the request looked up under the id the response carries ... *)
Theorem c02_deliver_needs_lookup : forall v s id s',
  step v s (ExecDeliver id) = Some s' -> exists att, exe s = ELooked id att.
Proof.
  intros v s id s' H. unfold step in H. destruct (exe s) as [|k att|]; try discriminate.
  destruct (k =? id) eqn:E; [|discriminate]. apply N.eqb_eq in E. subst. eauto.
Qed.

Theorem c02_lookup_by_id : forall v s id s' att,
  step v s (ExecLookup id true) = Some s' -> exe s' = ELooked id att -> find_att id (inflight s) = Some att.
Proof.
  intros v s id s' att H He. unfold step in H. destruct (exe s); try discriminate.
  destruct (find_att id (inflight s)) as [a|]; [|discriminate]. injection H as <-. simpl in He. congruence.
Qed.

(* ... and a genuine response reaches a call only if that call registered itself under that id *)
Theorem c02_own_response : forall es s id c,
  run repaired_c init es = Some s -> lookup id (calls s) = Some c ->
  (In Genuine (mbox c) \/ got c = Some OGenuine) -> registered c = true.
Proof. intros es s id c H. exact (reachable_prov es s H id c). Qed.

(* a response whose id is not in flight (never was, or its call has already been answered) changes nothing *)
Theorem c02_unknown_response_ignored : forall v s id s', step v s (ExecLookup id false) = Some s' -> s' = s.
Proof.
  intros v s id s' H. unfold step in H. destruct (exe s); try discriminate.
  destruct (find_att id (inflight s)); [discriminate|]. congruence.
Qed.

(* exactly once: a call that has returned never returns again, and takes at most one response per attempt *)
Theorem c02_returns_once : forall v s id c o,
  lookup id (calls s) = Some c -> ph c = PDone -> step v s (CallReturn id o) = None.
Proof. intros v s id c o L P. unfold step. rewrite L, P. reflexivity. Qed.

Theorem c02_one_receive_per_attempt : forall v s id c ce,
  lookup id (calls s) = Some c -> got c <> None -> step v s (CallRecv id ce) = None.
Proof. intros v s id c ce L G. unfold step. rewrite L. destruct (ph c); try reflexivity. destruct (got c); [reflexivity|congruence]. Qed.

(* no response is dropped: a waiting call keeps a responsible party until it has its response (orphan-freedom) *)
Theorem c02_not_dropped : forall es s,
  run repaired_c init es = Some s ->
  forall id c, lookup id (calls s) = Some c -> waiting_empty c = true ->
     entry_is s id (attempts c) = true \/ exec_looked s id (attempts c) = true.
Proof. intros es s H. exact (proj1 (no_orphan_reachable es s H)). Qed.

(* the single-request transports (HTTP: one connection per call; custom) and the generated function itself: whatever a
   peer or an intermediary answers, a response — result or error alike — is handed to a call only if it carries that
   call's id. `accept` is the test the three sites make; ids are compared after normalisation. *)
Section SingleRequest.
  Variable id : Type.
  Variable id_eqb : id -> id -> bool.
  Hypothesis id_eqb_eq : forall a b, id_eqb a b = true <-> a = b.
  Definition accept (notify : bool) (req_id resp_id : option id) : bool :=
    notify || match req_id, resp_id with
              | Some a, Some b => id_eqb a b
              | None, None => true
              | _, _ => false end.
  Theorem c02_single_request_own_response : forall req_id resp_id,
    accept false req_id resp_id = true -> resp_id = req_id.
  Proof.
    intros [a|] [b|] H; simpl in H; try discriminate; [|reflexivity]. apply id_eqb_eq in H. congruence.
  Qed.
End SingleRequest.

Theorem c02_source_facts :
  Extracted.response_id_checks =
    ["NewCustomClient: resp.ID != cr.req.ID"; "httpClient: resp.ID != cr.req.ID"; "handleRpcCall: !fn.notify && resp.ID != req.ID"]%string /\
  (* the connection loop waits on the callers' request channel itself in every iteration, next to incoming frames *)
  nth 1 Extracted.selects_handleWsConn [] =
    ["r, ok := <-c.incoming"; "rerr := <-c.readError"; "<-ctx.Done()"; "req := <-c.requests"; "<-c.pongs"; "<-timeoutCh"; "<-c.stop"]%string /\
  (* a caller hands its request over, or learns that the connection is gone: nothing else *)
  nth 0 Extracted.selects_setupRequestChan [] = ["requests <- cr"; "<-c.exiting"]%string.
Proof. repeat split; reflexivity. Qed.

(* any number of calls in flight: whether the loop can take the next queued request does not depend on how many requests
   are registered and unanswered (nor on anything else about them) *)
Theorem c02_take_enabled_under_any_load : forall v s id c,
  is_exited s = false -> holding s = None -> lookup id (calls s) = Some c -> ph c = PEnq ->
  exists s', step v s (LoopTake id) = Some s' /\ inflight s' = inflight s.
Proof.
  intros v s id c He Hh Hl Hp. simpl. rewrite He, Hh, Hl, Hp. eexists. split; reflexivity.
Qed.

(* the premises are met in a reachable state with requests in flight *)
Example c02_take_premises_reachable :
  exists s c, run repaired_c init [CallStart 1 false; LoopTake 1; LoopRegister 1; LoopSent 1 true; CallStart 2 false; LoopTake 2;
                                   LoopRegister 2; LoopSent 2 true; CallStart 3 true]%N = Some s /\
    is_exited s = false /\ holding s = None /\ lookup 3%N (calls s) = Some c /\ ph c = PEnq /\ List.length (inflight s) = 2%nat.
Proof. vm_compute. eexists. eexists. repeat split. Qed.

(* the functions this property's model is an abstraction of still have the control / locking / shared-state skeleton the
   model was written against (Skeletons.v, by hand; Extracted.v, regenerated from /repo) *)
Theorem c02_code_skeletons :
  (* over HTTP every call builds its own request with its own copy of the header object the application passed in: concurrent
     calls of one client share no map *)
  JRGen.Extracted.http_header_assignment = ["hreq.Header = requestHeader.Clone()"]%string /\
  (* the hand-over channel is unbuffered: a request that was handed over is in the loop's hands (registered, or failed) and
     none can be stranded in a queue when the loop ends; the response channel of a request holds one response, so
     delivering to it never blocks (closeInFlight under its lock, a response racing the caller's cancellation) *)
  JRGen.Extracted.requester_chan_makes =
    ["setupRequestChan: make(chan clientRequest)"; "setupRequestChan: make(chan clientResponse, 1)"; "sendRequest: make(chan clientResponse, 1)"]%string /\
  JRGen.Extracted.effects_handleResponse = JR.Skeletons.handleResponse /\
  JRGen.Extracted.effects_handleWsConn = JR.Skeletons.handleWsConn /\
  JRGen.Extracted.effects_setupRequestChan = JR.Skeletons.setupRequestChan.
Proof. repeat split; reflexivity. Qed.

Print Assumptions c02_code_skeletons.
Print Assumptions c02_fresh_ids.
Print Assumptions c02_deliver_needs_lookup.
Print Assumptions c02_lookup_by_id.
Print Assumptions c02_own_response.
Print Assumptions c02_unknown_response_ignored.
Print Assumptions c02_returns_once.
Print Assumptions c02_one_receive_per_attempt.
Print Assumptions c02_not_dropped.
Print Assumptions c02_single_request_own_response.
Print Assumptions c02_source_facts.
Print Assumptions c02_take_enabled_under_any_load.
