(* C07 — Channel streams are ordered, lossless, duplicate-free and mutually independent.
   Model: Stream.v (producer, forwarder, wire, executor, sink, consumer; one record per stream).
   Statements only; proofs in Stream_Proofs.v. Quantified over all event traces: any number of values, any
   producer/consumer speeds, any interleaving with other streams. *)
From Coq Require Import String.
From Coq Require Import List NArith ZArith Bool.
Import ListNotations.
From JR Require Import Stream Stream_Proofs.
From JRGen Require Extracted.
From JR Require Skeletons Forwarder Forwarder_Proofs ReadPipe ReadPipe_Proofs.

Theorem c07_source_facts :
  Extracted.chValue = "xrpc.ch.val"%string /\ Extracted.chClose = "xrpc.ch.close"%string /\
  Extracted.guard_val_len = true /\ Extracted.guard_close_len = true /\
  (* the client's sink pump waits on exactly three things: the subscription's context, the next accepted value, the
     consumer taking the oldest buffered one; what is buffered leaves only through the third (ConsRecv) or the first *)
  Extracted.outchan_select_cases =
    ["reflect.SelectRecv reflect.ValueOf(ctx.Done())"; "reflect.SelectRecv reflect.ValueOf(incoming)"; "reflect.SelectSend ch";
     "case 0"; "case 1"; "case 2"]%string.
Proof. repeat split; reflexivity. Qed.

(* same order, each exactly once, nothing foreign: at every moment what the consumer has received is a prefix of
   what the sink accepted, of what the forwarder took, of what the handler offered *)
Theorem c07_prefix_order : forall es s, srun s0 es = Some s ->
  Prefix (cons s) (deliv s) /\ Prefix (deliv s) (fwd s) /\ Prefix (fwd s) (tried s) /\ Prefix (cons s) (tried s).
Proof. exact prefix_chain. Qed.

(* lossless: when the caller's channel closes because the handler closed its own (no cancellation), the caller has
   received every value the handler had sent before closing *)
Theorem c07_lossless_on_close : forall es s, srun s0 es = Some s ->
  cclosed s = true -> ctxc s = false -> how s = ByServer -> cons s = firstn (sent s) (tried s).
Proof. exact lossless_on_close. Qed.

(* on the wire the response announcing a channel precedes that channel's first value, however early the handler sends *)
Theorem c07_response_before_first_value : forall s v s', sstep s (OchVal v) = Some s' -> reg s = true.
Proof. exact value_needs_registration. Qed.

(* concurrent subscriptions never see each other's values: an event of one stream leaves all other streams untouched,
   and every stream of a multi-stream run keeps the prefix property *)
Theorem c07_streams_independent : forall m ch e m' ch', mstep m (ch, e) = Some m' -> ch' <> ch -> get ch' m' = get ch' m.
Proof. exact streams_independent. Qed.

Theorem c07_isolation : forall es m ch, mrun [] es = Some m -> Prefix (cons (get ch m)) (tried (get ch m)).
Proof. exact mrun_prefix. Qed.

(* a subscriber that stops reading blocks neither the forwarder nor the executor: none of their steps looks at
   what the consumer has taken (unary responses behind a channel value in the executor queue therefore proceed) *)
Theorem c07_stalled_consumer : forall s c e,
  match e with ConsRecv _ | ConsClosed => True | _ =>
    sstep (with_cons s c) e = option_map (fun s' => with_cons s' c) (sstep s e) end.
Proof. exact consumer_independent. Qed.

Example c07_ex : exists s,
  srun s0 [OchAlloc; ProdTry 7; OchReg; OchVal 7; ProdSent; ProdTry 8; ChReg; ChVal; SinkVal 7; OchVal 8; ProdSent; ProdClose;
           ConsRecv 7; OchClose; ChVal; SinkVal 8; ChClose; ConsRecv 8; ConsClosed]%Z = Some s /\ cons s = [7; 8]%Z /\ how s = ByServer.
Proof. eexists. split; [vm_compute; reflexivity|split; reflexivity]. Qed.

(* ---- the forwarder's bookkeeping (Forwarder.v): `cases` and `caseToID` as two parallel slices, registration appends to
   both, a closed channel is removed from both by swap-remove, a value goes out tagged with the id at its case's index.
   For EVERY history of registrations, closes and values, of any length (channels registered only while not registered,
   closes and values only from registered channels — what reflect.Select can report): every value and every close
   notification leaves under the id its channel was registered with; the specification is a finite map. *)
Theorem c07_forwarder_tags : forall os,
  Forwarder.wf_ops os Forwarder.empty = true ->
  snd (Forwarder.run Forwarder.fw0 os) = Forwarder.aouts os Forwarder.empty.
Proof. intros os H. exact (proj1 (Forwarder_Proofs.forwarder_refines os _ _ Forwarder_Proofs.inv_init H)). Qed.

(* the two slices stay aligned and hold no channel twice *)
Theorem c07_forwarder_aligned : forall os, Forwarder.wf_ops os Forwarder.empty = true ->
  length (Forwarder.chans (fst (Forwarder.run Forwarder.fw0 os))) = length (Forwarder.tags (fst (Forwarder.run Forwarder.fw0 os))) /\
  NoDup (Forwarder.chans (fst (Forwarder.run Forwarder.fw0 os))).
Proof. exact Forwarder_Proofs.forwarder_aligned. Qed.

(* swap-remove removes exactly the slot at the index, up to order *)
Theorem c07_swap_remove_is_removal : forall (A : Type) (l : list A) i, i < length l ->
  Permutation.Permutation (Forwarder.swap_remove l i) (Forwarder.remove_nth i l).
Proof. exact @Forwarder_Proofs.swap_remove_perm. Qed.

(* variants that are not the code: the channel slice compacted in order while the id slice is swapped (seeded change
   C07-a), a parallel slice that is not cut (the request-id slice of seeded change C06-d) *)
Theorem c07_refuted_mixed_removal :
  exists os, Forwarder.wf_ops os Forwarder.empty = true /\
    snd (Forwarder.frun Forwarder.ByShift Forwarder.BySwap Forwarder.fw0 os) <> Forwarder.aouts os Forwarder.empty.
Proof. exact Forwarder_Proofs.refuted_mixed_removal. Qed.

Theorem c07_refuted_untruncated_slice :
  exists os, Forwarder.wf_ops os Forwarder.empty = true /\
    snd (Forwarder.frun Forwarder.BySwap Forwarder.NotAtAll Forwarder.fw0 os) <> Forwarder.aouts os Forwarder.empty.
Proof. exact Forwarder_Proofs.refuted_untruncated. Qed.

Example c07_forwarder_nonvacuous :
  Forwarder.wf_ops [Forwarder.FReg 10 1; Forwarder.FReg 20 2; Forwarder.FReg 30 3; Forwarder.FVal 30; Forwarder.FClose 10;
                    Forwarder.FVal 30; Forwarder.FVal 20; Forwarder.FClose 30; Forwarder.FReg 40 4; Forwarder.FVal 40]%N Forwarder.empty = true /\
  snd (Forwarder.run Forwarder.fw0 [Forwarder.FReg 10 1; Forwarder.FReg 20 2; Forwarder.FReg 30 3; Forwarder.FVal 30; Forwarder.FClose 10;
                    Forwarder.FVal 30; Forwarder.FVal 20; Forwarder.FClose 30; Forwarder.FReg 40 4; Forwarder.FVal 40]%N)
    = [None; None; None; Some 3; Some 1; Some 3; Some 2; Some 3; None; Some 4]%N.
Proof. split; reflexivity. Qed.

(* ---- the wire-to-executor FIFO the stream model uses implicitly (ReadPipe.v): for EVERY trace of the read pipeline the
   executor takes frames in the order they came off the wire, none twice, and every frame read off the wire is executed,
   queued, in the pipeline, or was lost with its connection (its body could not be read) *)
Theorem c07_frames_executed_in_wire_order : forall db es s, ReadPipe.rrun db ReadPipe.rp0 es = Some s ->
  Sorted.StronglySorted lt (ReadPipe.executed s) /\
  (forall f, f < ReadPipe.nextf s ->
     In f (ReadPipe.executed s) \/ In f (ReadPipe.queue s) \/ In f (ReadPipe.in_pipe s) \/ In f (ReadPipe.lost s)).
Proof. exact ReadPipe_Proofs.frames_in_wire_order. Qed.

(* the functions this property's model is an abstraction of still have the control / locking / shared-state skeleton the
   model was written against (Skeletons.v, by hand; Extracted.v, regenerated from /repo) *)
Theorem c07_code_skeletons :
  JRGen.Extracted.effects_handleOutChans = JR.Skeletons.handleOutChans /\
  JRGen.Extracted.effects_handleChanMessage = JR.Skeletons.handleChanMessage /\
  JRGen.Extracted.effects_handleChanClose = JR.Skeletons.handleChanClose /\
  JRGen.Extracted.effects_makeOutChan = JR.Skeletons.makeOutChan.
Proof. repeat split; reflexivity. Qed.

Print Assumptions c07_code_skeletons.
Print Assumptions c07_frames_executed_in_wire_order.
Print Assumptions c07_forwarder_tags.
Print Assumptions c07_forwarder_aligned.
Print Assumptions c07_swap_remove_is_removal.
Print Assumptions c07_refuted_mixed_removal.
Print Assumptions c07_refuted_untruncated_slice.
Print Assumptions c07_source_facts.
Print Assumptions c07_prefix_order.
Print Assumptions c07_lossless_on_close.
Print Assumptions c07_response_before_first_value.
Print Assumptions c07_streams_independent.
Print Assumptions c07_isolation.
Print Assumptions c07_stalled_consumer.
