(* options.go: a client configuration is the defaults with the options applied in the order they are listed. The two
   keepalive options, as the code has them (plain setters, see c17_source_facts option_bodies) and as a clamping variant
   in which WithTimeout looks at the ping interval current at that moment. No proofs here. *)
From Coq Require Import List ZArith Bool.
Import ListNotations.
Open Scope Z_scope.

Record kcfg := { ping : Z; timeout : Z }.
Definition kdefault : kcfg := {| ping := 5000000000; timeout := 30000000000 |}.

Inductive kopt := OPing (d : Z) | OTimeout (d : Z).

Definition apply_opt (clamp : bool) (c : kcfg) (o : kopt) : kcfg :=
  match o with
  | OPing d => {| ping := d; timeout := timeout c |}
  | OTimeout d =>
      let safe := 2 * ping c + 1000000000 in
      {| ping := ping c; timeout := if clamp && (0 <? d) && (d <? safe) then safe else d |}
  end.

Definition configure (clamp : bool) (os : list kopt) : kcfg := fold_left (apply_opt clamp) os kdefault.

(* the value an option list gives to one parameter: the argument of its last occurrence, else the default *)
Fixpoint last_ping (os : list kopt) (d : Z) : Z :=
  match os with [] => d | OPing x :: t => last_ping t x | _ :: t => last_ping t d end.
Fixpoint last_timeout (os : list kopt) (d : Z) : Z :=
  match os with [] => d | OTimeout x :: t => last_timeout t x | _ :: t => last_timeout t d end.
