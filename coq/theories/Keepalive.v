(* Keepalive: the read deadline and the events that extend it (websocket.go resetReadDeadline and its three call
   sites, setupPings, the idle timer). Discrete time in nanoseconds. No proofs here. *)
From Coq Require Import List ZArith Bool.
Import ListNotations.
Open Scope Z_scope.

(* ---- the deadline clock: time passes, peer activity re-arms the deadline, the deadline fires when reached *)
Record kst := { now : Z; deadline : Z; fired : bool }.

Inductive kev :=
| Tick (d : Z)      (* d nanoseconds pass *)
| Reset.            (* resetReadDeadline: deadline := now + T *)

Definition kstep (T : Z) (s : kst) (e : kev) : kst :=
  match e with
  | Tick d => let n := now s + d in
              {| now := n; deadline := deadline s; fired := fired s || (deadline s <=? n) |}
  | Reset => if fired s then s else {| now := now s; deadline := now s + T; fired := false |}
  end.

Definition krun (T : Z) (s : kst) (es : list kev) : kst := fold_left (kstep T) es s.

(* the longest stretch of time without a reset in a trace (the trace starts right after a reset) *)
Fixpoint max_gap (es : list kev) (cur best : Z) : Z :=
  match es with
  | [] => Z.max cur best
  | Tick d :: r => max_gap r (cur + d) best
  | Reset :: r => max_gap r 0 (Z.max cur best)
  end.

Fixpoint ticks_nonneg (es : list kev) : bool :=
  match es with [] => true | Tick d :: r => (0 <=? d) && ticks_nonneg r | Reset :: r => ticks_nonneg r end.

(* ---- which events may re-arm the deadline: only evidence that the peer is alive *)
Inductive aev :=
| ConnUp            (* a connection was installed: handleWsConn start / redial swap starts a reader *)
| PeerData          (* a data frame arrived (reader.msg) *)
| PeerControl       (* a ping or pong arrived (ping.recv / pong.recv) *)
| OwnWrite          (* we wrote a request, a response or a ping *)
| LongRead          (* autoResetReader: the peer is still sending a large frame *)
| ResetDeadline.    (* deadline.reset *)

(* credits: each piece of peer evidence allows one re-arming; our own writes allow none *)
Definition astep (credits : nat) (e : aev) : option nat :=
  match e with
  | ConnUp | PeerData | PeerControl | LongRead => Some (S credits)
  | OwnWrite => Some credits
  | ResetDeadline => match credits with O => None | S c => Some c end
  end.

Fixpoint arun (credits : nat) (es : list aev) : option nat :=
  match es with [] => Some credits | e :: r => match astep credits e with Some c => arun c r | None => None end end.

Fixpoint arun_diag (credits : nat) (es : list aev) (i : N) : option N :=
  match es with [] => None | e :: r => match astep credits e with Some c => arun_diag c r (i + 1)%N | None => Some i end end.

Definition count_resets (es : list aev) : nat := length (filter (fun e => match e with ResetDeadline => true | _ => false end) es).
Definition count_peer (es : list aev) : nat :=
  length (filter (fun e => match e with ConnUp | PeerData | PeerControl | LongRead => true | _ => false end) es).
