(* C15 — When a connection ends the server cancels its handlers and lets go of it.
   Model: Resp.v; the writer hand-over of handler.go (lazyWriter) as a three-state machine. Statements only. *)
From Coq Require Import List NArith Bool String.
Import ListNotations.
From JR Require Import Resp Resp_Proofs.
From JRGen Require Extracted.
From JR Require Skeletons.
Open Scope N_scope.

Theorem c15_source_facts :
  (* the hand-over channel is unbuffered: a request that was handed over is in the loop's hands (registered, or failed) and
     none can be stranded in a queue when the loop ends; the response channel of a request holds one response, so
     delivering to it never blocks (closeInFlight under its lock, a response racing the caller's cancellation) *)
  JRGen.Extracted.requester_chan_makes =
    ["setupRequestChan: make(chan clientRequest)"; "setupRequestChan: make(chan clientResponse, 1)"; "sendRequest: make(chan clientResponse, 1)"]%string /\
  (* a pong is written with a deadline of one second from now (never unbounded, never already past), and no write deadline
     is ever set on the connection itself *)
  JRGen.Extracted.write_control_calls = ["conn.WriteControl(websocket.PongMessage, []byte(appData), time.Now().Add(time.Second))"]%string /\
  JRGen.Extracted.write_deadline_calls = [] /\
  Extracted.lazywriter_has_failed_arm = true /\
  Extracted.callsites_closeInFlight = ["tryReconnect"; "handleWsConn"]%string /\
  Extracted.handleCall_ctx_derivation = "context.WithCancel(ctx)"%string /\
  (* a streaming handler hands its channel over to the forwarder in one select that also waits for the end of the connection *)
  Extracted.selects_handleChanOut = [["c.registerCh <- outChanReg{reqID: req, chID: id, ch: ch}"; "<-c.exiting"]]%string.
Proof. repeat split; reflexivity. Qed.

(* the end of the connection cancels the context of every handler: those still registered by closeInFlight,
   and all of them — kept subscriptions and notifications included — by the cancellation of the connection context *)
Theorem c15_cif_cancels_registered : forall s s' id,
  rstep s SCifCancelled = Some s' -> memn id (handling s) = true -> is_cancelled s' id = true /\ handling s' = [].
Proof. exact cif_cancels_registered. Qed.

Theorem c15_exit_cancels_all : forall s s', rstep s SExit = Some s' -> forall id, is_cancelled s' id = true.
Proof. exact exit_cancels_all. Qed.

Theorem c15_server_shutdown_cancels_all : forall s s', rstep s SCtxCancelled = Some s' -> forall id, is_cancelled s' id = true.
Proof. exact ctx_cancel_cancels_all. Qed.

Theorem c15_exit_after_cif : forall s s', rstep s SExit = Some s' -> handling s = [].
Proof. intros s s' H. simpl in H. destruct (handling s); [reflexivity|discriminate]. Qed.

(* a notification's handler can only be cancelled by the connection *)
Theorem c15_notification_ctx : forall s s', rstep s HCtxDoneNote = Some s' -> ended s = true.
Proof. exact notification_ctx_only_by_connection. Qed.

(* letting go: a handler finishing after the connection is gone must not wait for a writer for ever.
   lazyWriter.Write as a machine: the acquisition attempt either hands over a writer or (fb0f742) reports failure *)
Inductive lw := LWAcquired | LWFailed | LWStuck.
Definition lw_write (has_failed_arm : bool) (writer_obtained : bool) : lw :=
  if writer_obtained then LWAcquired else if has_failed_arm then LWFailed else LWStuck.

Theorem c15_writer_never_stuck : forall writer_obtained, lw_write true writer_obtained <> LWStuck.
Proof. intros []; discriminate. Qed.

Theorem c15_refuted_v0 : lw_write false false = LWStuck.
Proof. reflexivity. Qed.

(* letting go, second place: the hand-over of a handler's channel to the forwarding goroutine (handleChanOut). The
   forwarder may be busy for good (blocked in a write to a dead peer, or gone); the connection's end is announced by
   closing `exiting`, before the hand-over is attempted or at any later moment. waits_both = the two alternatives sit
   in one select (regenerated: c15_source_facts); otherwise `exiting` is looked at once, on entry. *)
Inductive ho := HODone | HOReleased | HOStuck.
Definition handoff (waits_both exiting_on_entry exiting_later forwarder_receives : bool) : ho :=
  if waits_both then
    if forwarder_receives then HODone else if exiting_on_entry || exiting_later then HOReleased else HOStuck
  else
    if exiting_on_entry then HOReleased else if forwarder_receives then HODone else HOStuck.

Theorem c15_handoff_released_at_connection_end : forall e0 e1 f,
  e0 || e1 = true -> handoff true e0 e1 f <> HOStuck.
Proof. intros [] [] []; simpl; intros H; try discriminate H; discriminate. Qed.

(* the hand-over can only wait while the connection lives and the forwarder is busy *)
Theorem c15_handoff_stuck_only_while_connected : forall e0 e1 f,
  handoff true e0 e1 f = HOStuck -> e0 = false /\ e1 = false /\ f = false.
Proof. intros [] [] []; simpl; intros H; try discriminate H; auto. Qed.

Theorem c15_refuted_check_on_entry_only : handoff false false true false = HOStuck.
Proof. reflexivity. Qed.

(* the functions this property's model is an abstraction of still have the control / locking / shared-state skeleton the
   model was written against (Skeletons.v, by hand; Extracted.v, regenerated from /repo) *)
Theorem c15_code_skeletons :
  JRGen.Extracted.effects_closeInFlight = JR.Skeletons.closeInFlight /\
  JRGen.Extracted.effects_handleCall = JR.Skeletons.handleCall /\
  JRGen.Extracted.effects_handleChanOut = JR.Skeletons.handleChanOut /\
  JRGen.Extracted.effects_handleOutChans = JR.Skeletons.handleOutChans.
Proof. repeat split; reflexivity. Qed.

Print Assumptions c15_code_skeletons.
Print Assumptions c15_source_facts.
Print Assumptions c15_handoff_released_at_connection_end.
Print Assumptions c15_handoff_stuck_only_while_connected.
Print Assumptions c15_refuted_check_on_entry_only.
Print Assumptions c15_cif_cancels_registered.
Print Assumptions c15_exit_cancels_all.
Print Assumptions c15_server_shutdown_cancels_all.
Print Assumptions c15_exit_after_cif.
Print Assumptions c15_notification_ctx.
Print Assumptions c15_writer_never_stuck.
Print Assumptions c15_refuted_v0.
