(* C15 — When a connection ends the server cancels its handlers and lets go of it.
   Model: Resp.v; the writer hand-over of handler.go (lazyWriter) as a three-state machine. Statements only. *)
From Coq Require Import List NArith Bool String.
Import ListNotations.
From JR Require Import Resp Resp_Proofs.
From JRGen Require Extracted.
Open Scope N_scope.

Theorem c15_source_facts :
  Extracted.lazywriter_has_failed_arm = true /\
  Extracted.callsites_closeInFlight = ["tryReconnect"; "handleWsConn"]%string /\
  Extracted.handleCall_ctx_derivation = "context.WithCancel(ctx)"%string.
Proof. repeat split; reflexivity. Qed.

(* the end of the connection cancels the context of every handler: those still registered by closeInFlight,
   and all of them — kept subscriptions and notifications included — by the cancellation of the connection context *)
Theorem c15_cif_cancels_registered : forall s s' id,
  rstep s SCifCancelled = Some s' -> memn id (handling s) = true -> is_cancelled s' id = true /\ handling s' = [].
Proof. exact cif_cancels_registered. Qed.

Theorem c15_exit_cancels_all : forall s s', rstep s SExit = Some s' -> forall id, is_cancelled s' id = true.
Proof. exact exit_cancels_all. Qed.

Theorem c15_server_shutdown_cancels_all : forall s s', rstep s SCtxCancelled = Some s' -> forall id, is_cancelled s' id = true.
Proof. exact ctx_cancel_cancels_all. Qed.

Theorem c15_exit_after_cif : forall s s', rstep s SExit = Some s' -> handling s = [].
Proof. intros s s' H. simpl in H. destruct (handling s); [reflexivity|discriminate]. Qed.

(* a notification's handler can only be cancelled by the connection *)
Theorem c15_notification_ctx : forall s s', rstep s HCtxDoneNote = Some s' -> ended s = true.
Proof. exact notification_ctx_only_by_connection. Qed.

(* letting go: a handler finishing after the connection is gone must not wait for a writer for ever.
   lazyWriter.Write as a machine: the acquisition attempt either hands over a writer or (fb0f742) reports failure *)
Inductive lw := LWAcquired | LWFailed | LWStuck.
Definition lw_write (has_failed_arm : bool) (writer_obtained : bool) : lw :=
  if writer_obtained then LWAcquired else if has_failed_arm then LWFailed else LWStuck.

Theorem c15_writer_never_stuck : forall writer_obtained, lw_write true writer_obtained <> LWStuck.
Proof. intros []; discriminate. Qed.

Theorem c15_refuted_v0 : lw_write false false = LWStuck.
Proof. reflexivity. Qed.

Print Assumptions c15_source_facts.
Print Assumptions c15_cif_cancels_registered.
Print Assumptions c15_exit_cancels_all.
Print Assumptions c15_server_shutdown_cancels_all.
Print Assumptions c15_exit_after_cif.
Print Assumptions c15_notification_ctx.
Print Assumptions c15_writer_never_stuck.
Print Assumptions c15_refuted_v0.
