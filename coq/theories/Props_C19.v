(* C19 — Permission checks: a method runs iff the caller holds its permission.
   Only statements; proofs are in Auth_Proofs.v. *)
From Coq Require Import List String Bool.
Import ListNotations.
From Coq Require Import ZArith.
From JR Require Import Auth Auth_Proofs.
From JRGen Require Extracted.
From JR Require Skeletons.
Open Scope string_scope.

Section C19.
  (* any permission universe with a decidable equality (Go: string ==) *)
  Variable perm : Type.
  Variable perm_eqb : perm -> perm -> bool.
  Hypothesis perm_eqb_spec : forall a b, perm_eqb a b = true <-> a = b.
  Variable V : Type.
  Variable zeroV : V.
  Variable is_empty_tag : perm -> bool.
  Variable verify : string -> option (list perm).

  (* the implementation is invoked iff the required permission is in the caller's effective set:
     the attached set when one was attached (even the empty one), the defaults otherwise *)
  Theorem c19_runs_iff : forall attached dflt required sh impl,
    (exists r, proxy_call perm perm_eqb V zeroV attached dflt required sh impl = Ran r)
    <-> In required (match attached with Some l => l | None => dflt end).
  Proof. exact (runs_iff perm perm_eqb perm_eqb_spec V zeroV). Qed.

  (* when invoked, the implementation's results are passed through unchanged *)
  Theorem c19_ran_passes_through : forall attached dflt required sh impl r,
    proxy_call perm perm_eqb V zeroV attached dflt required sh impl = Ran r -> r = impl.
  Proof. exact (ran_passes_through perm perm_eqb V zeroV). Qed.

  (* otherwise: not invoked, permission error in the last slot, zero value in the value slot *)
  Theorem c19_denied_shape : forall attached dflt required sh impl,
    ~ In required (match attached with Some l => l | None => dflt end) ->
    proxy_call perm perm_eqb V zeroV attached dflt required sh impl =
      Denied (match sh with ShErr => RErr true | ShValErr => RValErr zeroV true end).
  Proof. exact (denied_shape perm perm_eqb perm_eqb_spec V zeroV). Qed.

  (* an attached empty set overrides non-empty defaults *)
  Theorem c19_attached_empty_overrides : forall dflt required sh impl,
    exists r, proxy_call perm perm_eqb V zeroV (Some []) dflt required sh impl = Denied r.
  Proof. exact (attached_empty_overrides perm perm_eqb V zeroV). Qed.

  (* construction succeeds iff every field has a non-empty, known perm tag *)
  Theorem c19_construction : forall valid tags,
    proxy_build perm perm_eqb is_empty_tag valid tags = BuildOk <->
    Forall (fun t => is_empty_tag t = false /\ In t valid) tags.
  Proof. exact (build_ok_iff perm perm_eqb perm_eqb_spec is_empty_tag). Qed.

  (* HTTP handler: the four exhaustive request classes and what happens in each *)
  Theorem c19_http_classes : forall hdr q,
    (hdr = "" /\ q = "") \/ (hdr = "" /\ q <> "") \/
    (exists t, hdr = bearer ++ t) \/ (hdr <> "" /\ has_prefix bearer hdr = false).
  Proof. exact http_cases. Qed.

  Theorem c19_http_no_token : auth_http perm "" "" verify = HNext None [].
  Proof. exact (http_no_token perm verify). Qed.

  Theorem c19_http_bearer_header : forall t q,
    auth_http perm (bearer ++ t) q verify =
      match verify t with Some ps => HNext (Some ps) [t] | None => H401 [t] end.
  Proof. exact (http_bearer_header perm verify). Qed.

  Theorem c19_http_query_token : forall q, q <> "" ->
    auth_http perm "" q verify =
      match verify q with Some ps => HNext (Some ps) [q] | None => H401 [q] end.
  Proof. exact (http_query_token perm verify). Qed.

  Theorem c19_http_malformed : forall hdr q, hdr <> "" -> has_prefix bearer hdr = false ->
    auth_http perm hdr q verify = H401 [].
  Proof. exact (http_malformed perm verify). Qed.
End C19.

(* the facts of auth/handler.go and auth/auth.go the model rests on, regenerated from /repo on every run *)
Theorem c19_source_facts :
  JRGen.Extracted.auth_header_names = ["Authorization"] /\
  JRGen.Extracted.auth_query_names = ["token"] /\
  JRGen.Extracted.auth_has_prefix_args = [bearer] /\
  JRGen.Extracted.auth_trim_prefix_args = [bearer] /\
  JRGen.Extracted.auth_status_codes = [401%Z; 401%Z] /\
  JRGen.Extracted.auth_tag_names = ["perm"].
Proof. repeat split; reflexivity. Qed.

(* non-vacuity: concrete instances over strings *)
Example c19_ex_run :
  proxy_call string String.eqb nat 0 None ["read"; "write"] "write" ShValErr (RValErr 7 false)
  = Ran (RValErr 7 false).
Proof. reflexivity. Qed.
Example c19_ex_denied :
  proxy_call string String.eqb nat 0 (Some []) ["read"; "write"] "write" ShValErr (RValErr 7 false)
  = Denied (RValErr 0 true).
Proof. reflexivity. Qed.

(* the functions this property's model is an abstraction of still have the control / locking / shared-state skeleton the
   model was written against (Skeletons.v, by hand; Extracted.v, regenerated from /repo) *)
Theorem c19_code_skeletons :
  JRGen.Extracted.effects_auth_ServeHTTP = JR.Skeletons.auth_ServeHTTP.
Proof. repeat split; reflexivity. Qed.

Print Assumptions c19_code_skeletons.
Print Assumptions c19_runs_iff.
Print Assumptions c19_ran_passes_through.
Print Assumptions c19_denied_shape.
Print Assumptions c19_attached_empty_overrides.
Print Assumptions c19_construction.
Print Assumptions c19_http_classes.
Print Assumptions c19_http_no_token.
Print Assumptions c19_http_bearer_header.
Print Assumptions c19_http_query_token.
Print Assumptions c19_http_malformed.
Print Assumptions c19_source_facts.
