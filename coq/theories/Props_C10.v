(* C10 — No peer input can crash or wedge the process; oversize bodies are refused.
   Statements only; proofs in Frame_Proofs.v and Handle_Proofs.v. *)
From Coq Require Import List NArith ZArith Bool String.
Import ListNotations.
From JR Require Import Json Handle Handle_Proofs Frame Frame_Proofs.
From JRGen Require Extracted.
From JR Require Skeletons ReadPipe ReadPipe_Proofs.

(* the guards the crash-freedom proof relies on are in /repo's source right now: every params[i] of the three
   built-in methods is preceded by a length check that returns, and the cancel id goes through normalizeID
   before it is used as a map key; the dispatch table of handleFrame is the one modelled *)
Theorem c10_source_guards :
  Extracted.guard_cancel_len = true /\ Extracted.guard_cancel_norm = true /\
  Extracted.guard_val_len = true /\ Extracted.guard_close_len = true /\
  Extracted.handleFrame_table = [("lit:", "c.handleResponse"); ("const:xrpc.cancel", "c.cancelCtx");
     ("const:xrpc.ch.val", "c.handleChanMessage"); ("const:xrpc.ch.close", "c.handleChanClose");
     ("default", "c.handleCall")]%string /\
  map (fun f => snd (fst (fst f))) Extracted.fields_frame = ["jsonrpc"; "id"; "meta"; "method"; "params"; "result"; "error"]%string /\
  (* other connections are unaffected: the executor's tables are fields of the connection, and the package has no mutable
     package-level state a frame could reach (no function assigns, indexes into, deletes from or takes the address of a
     package-level variable) *)
  Extracted.package_state_mutations = [].
Proof. repeat split; reflexivity. Qed.

(* no byte string whatsoever, in any state of the connection tables, makes the frame executor panic *)
Theorem c10_no_crash : forall t b, exec_frame all_guards t b <> ECrash.
Proof. exact exec_no_crash. Qed.

(* ... and so no sequence of frames does *)
Theorem c10_no_crash_sequence : forall (ts : list tables) (bs : list bytes),
  Forall (fun e => e <> ECrash) (map (fun tb => exec_frame all_guards (fst tb) (snd tb)) (combine ts bs)).
Proof.
  intros ts bs. apply Forall_forall. intros e Hin. apply in_map_iff in Hin.
  destruct Hin as [[t b] [<- _]]. apply exec_no_crash.
Qed.

(* a frame touches only the table entry it names: two table states that agree on membership give the same effect *)
Theorem c10_frame_rule : forall g t1 t2 b,
  t_has_handler t1 = t_has_handler t2 ->
  (forall j, mem_json j (t_inflight t1) = mem_json j (t_inflight t2)) ->
  (forall j, mem_json j (t_handling t1) = mem_json j (t_handling t2)) ->
  (forall z, mem_z z (t_sinks t1) = mem_z z (t_sinks t2)) ->
  exec_frame g t1 b = exec_frame g t2 b.
Proof. exact exec_tables_frame. Qed.

(* a valid call frame is handed to the handler unchanged in whatever table state hostile frames left behind *)
Theorem c10_still_serves : forall g t b v f id,
  parse b = Some v -> decode_frame v = (f, false) -> normalize_id (f_id f) = Some id ->
  bytes_eqb (f_method f) [] = false ->
  bytes_eqb (f_method f) (bs Extracted.wsCancel) = false ->
  bytes_eqb (f_method f) (bs Extracted.chValue) = false ->
  bytes_eqb (f_method f) (bs Extracted.chClose) = false ->
  t_has_handler t = true ->
  exec_frame g t b = ECall {| r_id := id; r_method := f_method f; r_params := f_params f |}.
Proof. exact call_frame_effect. Qed.

(* HTTP size limit, exactly at the boundary: one byte over is refused without running a handler;
   at or below the limit the limit plays no role *)
Theorem c10_oversize_refused : forall c body,
  (max_size c < Z.of_nat (List.length body))%Z ->
  exists m, handle_http c body = (500%Z, RSingle (rpc_error None Extracted.rpcParseError m), []).
Proof. exact http_oversize. Qed.

Theorem c10_within_limit : forall c1 c2 body,
  methods c1 = methods c2 -> aliases c1 = aliases c2 ->
  (Z.of_nat (List.length body) <= max_size c1)%Z -> (Z.of_nat (List.length body) <= max_size c2)%Z ->
  handle_http c1 body = handle_http c2 body.
Proof. exact http_limit_irrelevant. Qed.

(* the remote crashes repaired by d29ec76 *)
Theorem c10_refuted_without_guards :
  let t := {| t_inflight := []; t_handling := []; t_sinks := [5%Z]; t_has_handler := true |} in
  exec_frame no_guards t (bs "{""method"":""xrpc.cancel"",""params"":[]}") = ECrash /\
  exec_frame no_guards t (bs "{""method"":""xrpc.cancel"",""params"":null}") = ECrash /\
  exec_frame no_guards t (bs "{""method"":""xrpc.cancel"",""params"":[[1]]}") = ECrash /\
  exec_frame no_guards t (bs "{""method"":""xrpc.ch.close"",""params"":[]}") = ECrash /\
  exec_frame no_guards t (bs "{""method"":""xrpc.ch.val"",""params"":[5]}") = ECrash.
Proof. exact refuted_without_guards. Qed.

(* ---- the read side as a token-passing pipeline (ReadPipe.v): nextMessage -> c.incoming -> loop -> readFrame ->
   frameExecQueue -> executor. For EVERY trace of the pipeline (any frames, any failures, any number of reconnects) the
   token is never dropped: a reader is armed, or a frame is on its way to the queue, or the failure is on its way to the
   loop — no input leaves the connection deaf. Tied to the source by c10_code_skeletons (readFrame, nextMessage) and by
   the replay of the reader events of every connection-scenario trace. *)
Theorem c10_reader_never_unarmed : forall es s,
  ReadPipe.rrun false ReadPipe.rp0 es = Some s -> ReadPipe.tk s <> ReadPipe.TNone.
Proof. exact ReadPipe_Proofs.reader_never_unarmed. Qed.

(* the variant that returns on a blank frame before enqueueing it and before re-arming the reader (seeded change C10-d): one
   blank frame, and nothing but emptying the queue is enabled any more *)
Theorem c10_refuted_drop_without_rearm :
  exists es s, ReadPipe.rrun true ReadPipe.rp0 es = Some s /\ ReadPipe.tk s = ReadPipe.TNone /\
    forall e, e <> ReadPipe.XTake -> ReadPipe.rstep true s e = None.
Proof. exact ReadPipe_Proofs.refuted_drop_blank. Qed.

(* the functions this property's model is an abstraction of still have the control / locking / shared-state skeleton the
   model was written against (Skeletons.v, by hand; Extracted.v, regenerated from /repo) *)
Theorem c10_code_skeletons :
  JRGen.Extracted.effects_readFrame = JR.Skeletons.readFrame /\
  JRGen.Extracted.effects_handleFrame = JR.Skeletons.handleFrame /\
  JRGen.Extracted.effects_handleReader = JR.Skeletons.handleReader /\
  JRGen.Extracted.effects_nextMessage = JR.Skeletons.nextMessage.
Proof. repeat split; reflexivity. Qed.

Print Assumptions c10_code_skeletons.
Print Assumptions c10_reader_never_unarmed.
Print Assumptions c10_refuted_drop_without_rearm.
Print Assumptions c10_source_guards.
Print Assumptions c10_no_crash.
Print Assumptions c10_no_crash_sequence.
Print Assumptions c10_frame_rule.
Print Assumptions c10_still_serves.
Print Assumptions c10_oversize_refused.
Print Assumptions c10_within_limit.
Print Assumptions c10_refuted_without_guards.
