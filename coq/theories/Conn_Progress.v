(* Progress half of the requester model: a measure that every library-internal event strictly decreases, so that the
   library cannot go on for ever without input from its environment (new calls, responses, faults, dial results, close),
   and a characterisation of the states in which nothing internal is left to do. *)
From Coq Require Import List NArith Bool Arith Lia.
Import ListNotations.
From JR Require Import Conn Conn_Proofs.
Open Scope N_scope.

(* events the library performs by itself; the others are the environment's (a caller starts a call or a notification,
   a response arrives, a fault is noticed, a dial returns, the loop is told to stop, a caller goes round its retry loop
   after a connection error) *)
Definition internal (e : ev) : bool :=
  match e with
  | LoopTake _ | LoopFailFast _ | LoopRegister _ | LoopSent _ _ | LoopSentOther
  | ExecDeliver _ | ExecDeleted _ _ | ExecAbandon _ | CifDeliver _ | CifCleared
  | RedialSwap | RedialAttempt _ | CallRecv _ _ | CallExiting _ | CallReturn _ _ => true
  | _ => false
  end.

Definition wcall (c : call) : nat :=
  match ph c with
  | PEnq => 8
  | PTaken => if registered c then 4 else 6
  | PWait => 3
  | PRecvd => 1
  | PDone => 0
  end.
Fixpoint wcalls (l : list (N * call)) : nat := match l with [] => 0 | (_, c) :: r => wcall c + wcalls r end.
Definition wexe (x : exec) : nat := match x with EIdle => 0 | ELooked _ _ => 2 | EDelivered _ _ => 1 end.
Definition wlink (s : st) : nat :=
  (match lnk s with Redial => 3 | _ => 0 end) + (if cif_pending s then 1 else 0) + (if slept s then 0 else match lnk s with Redial => 1 | _ => 0 end).
Definition whold (s : st) : nat := match holding s with Some _ => 1 | None => 0 end.

Definition mu (s : st) : nat := (wcalls (calls s) + length (inflight s) + wexe (exe s) + wlink s + whold s)%nat.

(* internal, as far as the measure is concerned: CifCleared ends a closeInFlight that tryReconnect began (the one at the
   loop's exit finds cif_pending already false and changes nothing) *)
Definition internal_in (s : st) (e : ev) : bool :=
  match e with CifCleared => cif_pending s | _ => internal e end.

Lemma wcalls_update id c c' l : lookup id l = Some c -> (wcalls (update id c' l) + wcall c = wcalls l + wcall c')%nat.
Proof.
  induction l as [|[k x] l IH]; simpl; [discriminate|]. destruct (k =? id) eqn:E.
  - intros H. injection H as ->. simpl. lia.
  - intros H. simpl. specialize (IH H). lia.
Qed.

Lemma remove_id_le id l : (length (remove_id id l) <= length l)%nat.
Proof. induction l as [|[k a] l IH]; simpl; [lia|]. destruct (k =? id); simpl; lia. Qed.

Lemma remove_id_lt id l a : find_att id l = Some a -> (length (remove_id id l) < length l)%nat.
Proof.
  induction l as [|[k x] l IH]; simpl; [discriminate|]. destruct (k =? id) eqn:E.
  - intros _. pose proof (remove_id_le id l). lia.
  - intros H. simpl. specialize (IH H). lia.
Qed.

Ltac mu_proj := unfold mu, wlink, whold; cbn [calls inflight lnk cif_pending holding exe redial_n slept set_calls set_inflight set_link set_holding set_exe set_dial].

(* every internal event strictly decreases the measure *)
Theorem internal_decreases s e s' :
  Inv s -> step repaired_c s e = Some s' -> internal_in s e = true -> (mu s' < mu s)%nat.
Proof.
  intros I H Hi. destruct e; try discriminate Hi; unfold step in H; simpl strict_window in H; simpl own_delete in H.
  - (* LoopTake *)
    destruct (is_exited s); [discriminate|]. destruct (holding s) eqn:Hh; [discriminate|].
    destruct (lookup id (calls s)) as [c|] eqn:L; [|discriminate]. destruct (ph c) eqn:P; try discriminate.
    injection H as <-. mu_proj. rewrite Hh. pose proof (wcalls_update id c (with_ph PTaken c) _ L) as W.
    unfold wcall in W. simpl in W. rewrite P in W. destruct (registered c); lia.
  - (* LoopFailFast *)
    destruct (holding_is s id) eqn:Hh; [|discriminate]. destruct (lookup id (calls s)) as [c|] eqn:L; [|discriminate].
    injection H as <-. destruct (inv_holding s I id Hh) as (x & Hx & Px). rewrite L in Hx. injection Hx as <-.
    mu_proj. unfold holding_is in Hh. destruct (holding s) as [[k|]|]; try discriminate.
    pose proof (wcalls_update id c (with_ph PWait (push ConnErr c)) _ L) as W. unfold wcall in W. simpl in W. rewrite Px in W.
    destruct (registered c); lia.
  - (* LoopRegister *)
    destruct (holding_is s id) eqn:Hh; [|discriminate]. simpl in H. destruct (is_up s); [|discriminate]. simpl in H.
    destruct (mem_id id (inflight s)); [discriminate|]. simpl in H.
    destruct (lookup id (calls s)) as [c|] eqn:L; [|discriminate]. destruct (registered c) eqn:Rg; [discriminate|]. injection H as <-.
    destruct (inv_holding s I id Hh) as (x & Hx & Px). rewrite L in Hx. injection Hx as <-.
    mu_proj. pose proof (wcalls_update id c (set_registered c) _ L) as W. unfold wcall in W. simpl in W. rewrite Px, Rg in W.
    simpl. lia.
  - (* LoopSent *)
    destruct (holding_is s id) eqn:Hh; [|discriminate]. destruct (lookup id (calls s)) as [c|] eqn:L; [|discriminate].
    destruct (registered c) eqn:Rg; [|discriminate]. injection H as <-.
    destruct (inv_holding s I id Hh) as (x & Hx & Px). rewrite L in Hx. injection Hx as <-.
    mu_proj. unfold holding_is in Hh. destruct (holding s) as [[k|]|]; try discriminate.
    pose proof (wcalls_update id c (sent c) _ L) as W. unfold wcall in W. simpl in W. rewrite Px, Rg in W. lia.
  - (* LoopSentOther *)
    destruct (holding s) as [[k|]|] eqn:Hh; try discriminate. injection H as <-. mu_proj. rewrite Hh. lia.
  - (* ExecDeliver *)
    destruct (exe s) as [|k att|] eqn:Hex; try discriminate. destruct (k =? id); [|discriminate].
    destruct (lookup id (calls s)) as [c|] eqn:L; [|discriminate]. injection H as <-. mu_proj. rewrite Hex.
    pose proof (wcalls_update id c (push_att att Genuine c) _ L) as W.
    assert (E : wcall (push_att att Genuine c) = wcall c).
    { unfold push_att. destruct (Nat.eqb att (attempts c)); reflexivity. }
    rewrite E in W. simpl. lia.
  - (* ExecDeleted *)
    destruct (exe s) as [| |k att] eqn:Hex; try discriminate. destruct (k =? id); [|discriminate].
    destruct (Bool.eqb deleted _); [|discriminate].
    destruct (match find_att id (inflight s) with Some a => Nat.eqb a att | None => false end);
      injection H as <-; mu_proj; rewrite Hex; simpl; [pose proof (remove_id_le id (inflight s))|]; lia.
  - (* ExecAbandon *)
    destruct (exe s) as [|k att|] eqn:Hex; try discriminate. destruct (k =? id); [|discriminate]. injection H as <-.
    mu_proj. rewrite Hex. simpl. lia.
  - (* CifDeliver *)
    destruct (holding s) eqn:Hh; [discriminate|]. destruct (find_att id (inflight s)) as [att|] eqn:Hf; [|discriminate].
    destruct (lookup id (calls s)) as [c|] eqn:L; [|discriminate]. injection H as <-. mu_proj. rewrite Hh.
    pose proof (wcalls_update id c (push_att att ConnErr c) _ L) as W.
    assert (E : wcall (push_att att ConnErr c) = wcall c).
    { unfold push_att. destruct (Nat.eqb att (attempts c)); reflexivity. }
    rewrite E in W. pose proof (remove_id_lt id (inflight s) att Hf). lia.
  - (* CifCleared *)
    simpl in Hi. destruct (holding s) eqn:Hh; [discriminate|]. destruct (nil_b (inflight s)); [|discriminate]. injection H as <-.
    mu_proj. rewrite Hh, Hi. destruct (lnk s), (slept s); simpl; lia.
  - (* RedialSwap *)
    unfold is_redial in H. destruct (lnk s) eqn:Hl; simpl in H; try discriminate.
    destruct (cif_pending s) eqn:Hc; simpl in H; [discriminate|]. destruct (nil_b (inflight s)); [|discriminate]. injection H as <-.
    mu_proj. rewrite Hl, Hc. destruct (slept s), (holding s); simpl; lia.
  - (* RedialAttempt *)
    unfold is_redial in H. destruct (lnk s) eqn:Hl; simpl in H; try discriminate.
    destruct (Nat.eqb n (redial_n s)); simpl in H; [|discriminate]. destruct (slept s) eqn:Hs; simpl in H; [discriminate|].
    injection H as <-. mu_proj. rewrite Hl, Hs. destruct (cif_pending s), (holding s); simpl; lia.
  - (* CallRecv *)
    destruct (lookup id (calls s)) as [c|] eqn:L; [|discriminate]. destruct (ph c) eqn:P; try discriminate.
    destruct (got c); [discriminate|]. destruct (existsb _ _); [|discriminate]. injection H as <-. mu_proj.
    pose proof (wcalls_update id c (received (if conn_err then ConnErr else Genuine) c) _ L) as W.
    unfold wcall in W. simpl in W. rewrite P in W. lia.
  - (* CallExiting *)
    destruct (is_exited s); [|discriminate]. destruct (lookup id (calls s)) as [c|] eqn:L; [|discriminate].
    destruct (ph c) eqn:P; try discriminate. injection H as <-. mu_proj.
    pose proof (wcalls_update id c (exited c) _ L) as W. unfold wcall in W. simpl in W. rewrite P in W. lia.
  - (* CallReturn *)
    destruct (lookup id (calls s)) as [c|] eqn:L; [|discriminate]. destruct (ph c) eqn:P; try discriminate.
    destruct (got c); [|discriminate]. destruct (outcome_eqb _ _ && _)%bool; [|discriminate]. injection H as <-. mu_proj.
    pose proof (wcalls_update id c (with_ph PDone c) _ L) as W. unfold wcall in W. simpl in W. rewrite P in W. lia.
Qed.

(* ---------- no livelock: a run of internal events is at most mu long *)
Fixpoint irun (s : st) (es : list ev) : option st :=
  match es with
  | [] => Some s
  | e :: r => if internal_in s e then match step repaired_c s e with Some s' => irun s' r | None => None end else None
  end.

Theorem internal_run_bounded : forall es s s',
  Inv s -> Looked s -> irun s es = Some s' -> (length es + mu s' <= mu s)%nat.
Proof.
  induction es as [|e es IH]; intros s s' I Lk H; simpl in H.
  - injection H as <-. simpl. lia.
  - destruct (internal_in s e) eqn:Hi; [|discriminate]. destruct (step repaired_c s e) as [s1|] eqn:Hs; [|discriminate].
    pose proof (internal_decreases s e s1 I Hs Hi) as D.
    pose proof (step_inv s e s1 I Lk Hs) as I1. pose proof (looked_step s e s1 I Lk Hs) as L1.
    specialize (IH s1 s' I1 L1 H). simpl. lia.
Qed.

(* ---------- what a caller has taken, by phase *)
Definition got_ok (c : call) : Prop :=
  match ph c with
  | PEnq | PTaken | PWait => got c = None
  | PRecvd => got c <> None
  | PDone => True
  end.
Definition GotInv (s : st) : Prop := forall id c, lookup id (calls s) = Some c -> got_ok c.

Lemma gotinv_init : GotInv init.
Proof. intros id c H. discriminate. Qed.

Lemma gotinv_step s e s' : Inv s -> GotInv s -> step repaired_c s e = Some s' -> GotInv s'.
Proof.
  intros I G H id c' Hc'. pose proof (step_call_change s e s' id H) as Ch. rewrite Hc' in Ch.
  remember (lookup id (calls s)) as o eqn:Ho. remember (Some c') as o' eqn:Ho'. symmetry in Ho.
  destruct Ch as [x|rt|c Hp|c Hh|c Hu|c Hr Hh|c att He|c att Hf|c r Hp Hin|c Hp He|c Hgo Hrt|c Hp]; try (injection Ho' as <-).
  - subst x. eapply G; eauto.
  - reflexivity.
  - pose proof (G id c Ho) as Gc. unfold got_ok in *. rewrite Hp in Gc. simpl. exact Gc.
  - (* fail-fast happens to the request the loop holds: phase PTaken *)
    pose proof (G id c Ho) as Gc. destruct (inv_holding s I id Hh) as (x & Hx & Px). rewrite Ho in Hx. injection Hx as <-.
    unfold got_ok in *. rewrite Px in Gc. simpl. exact Gc.
  - pose proof (G id c Ho) as Gc. unfold got_ok in *. simpl. exact Gc.
  - pose proof (G id c Ho) as Gc. destruct (inv_holding s I id Hh) as (x & Hx & Px). rewrite Ho in Hx. injection Hx as <-.
    unfold got_ok in *. rewrite Px in Gc. simpl. exact Gc.
  - pose proof (G id c Ho) as Gc. unfold got_ok, push_att in *. destruct (Nat.eqb att (attempts c)); simpl; exact Gc.
  - pose proof (G id c Ho) as Gc. unfold got_ok, push_att in *. destruct (Nat.eqb att (attempts c)); simpl; exact Gc.
  - unfold got_ok. simpl. discriminate.
  - unfold got_ok. simpl. discriminate.
  - unfold got_ok. simpl. reflexivity.
  - unfold got_ok. simpl. exact Logic.I.
Qed.

Lemma run_all : forall l a b, Inv a -> Looked a -> GotInv a -> run repaired_c a l = Some b -> Inv b /\ Looked b /\ GotInv b.
Proof.
  induction l as [|e l IH]; intros a b I Lk Gi H; simpl in H.
  - injection H as <-. auto.
  - destruct (step repaired_c a e) as [a1|] eqn:Hs; [|discriminate].
    eapply IH; [eapply step_inv; eauto|eapply looked_step; eauto|eapply gotinv_step; eauto|exact H].
Qed.

Theorem reachable_all es s : run repaired_c init es = Some s -> Inv s /\ Looked s /\ GotInv s.
Proof. intros H. eapply run_all; [exact inv_init|exact looked_init|exact gotinv_init|exact H]. Qed.

(* ---------- quiescence: nothing internal is left to do (closeInFlight apart, which belongs to a fault or to the exit) *)
Definition quiet (s : st) : Prop :=
  forall e, internal_in s e = true -> (forall id, e <> CifDeliver id) -> step repaired_c s e = None.

(* in a reachable quiescent state on a live link every call has returned, or waits — registered in flight under its current
   attempt, nothing in its mailbox — for the peer's response, or is a retry-tagged call that has just taken the connection
   error and is about to go round its retry loop *)
Theorem quiescent_calls s es id c :
  run repaired_c init es = Some s -> quiet s ->
  lookup id (calls s) = Some c ->
  ph c = PDone \/
  (ph c = PWait /\ mbox c = [] /\ entry_is s id (attempts c) = true) \/
  (ph c = PRecvd /\ got c = Some OConnErr /\ retry c = true).
Proof.
  intros Hr Q L. destruct (reachable_all es s Hr) as (I & Lk & Gi).
  pose proof (Gi id c L) as Gc. unfold got_ok in Gc.
  (* the loop holds nothing and the executor is idle *)
  assert (Hh : holding s = None).
  { destruct (holding s) as [[k|]|] eqn:E; [| |reflexivity].
    - exfalso. assert (Hk : holding_is s k = true) by (unfold holding_is; rewrite E; apply N.eqb_refl).
      destruct (inv_holding s I k Hk) as (x & Lx & Px).
      pose proof (Q (LoopFailFast k) eq_refl ltac:(intros; discriminate)) as N.
      unfold step in N. rewrite Hk, Lx in N. discriminate.
    - exfalso. pose proof (Q LoopSentOther eq_refl ltac:(intros; discriminate)) as N. unfold step in N. rewrite E in N. discriminate. }
  assert (He : exe s = EIdle).
  { destruct (exe s) as [|k att|k att] eqn:E; [reflexivity| |].
    - exfalso. pose proof (Q (ExecAbandon k) eq_refl ltac:(intros; discriminate)) as N. unfold step in N. rewrite E, N.eqb_refl in N. discriminate.
    - exfalso. set (own := match find_att k (inflight s) with Some a => Nat.eqb a att | None => false end).
      pose proof (Q (ExecDeleted k own) eq_refl ltac:(intros; discriminate)) as N. unfold step in N. simpl own_delete in N.
      rewrite E, N.eqb_refl in N. fold own in N. rewrite Bool.eqb_reflx in N. destruct own; discriminate. }
  destruct (ph c) eqn:P.
  - (* PEnq: the loop could take it, or — after the exit — the caller is told so *)
    exfalso. destruct (is_exited s) eqn:Hx.
    + pose proof (Q (CallExiting id) eq_refl ltac:(intros; discriminate)) as N. unfold step in N. rewrite Hx, L, P in N. discriminate.
    + pose proof (Q (LoopTake id) eq_refl ltac:(intros; discriminate)) as N. unfold step in N. rewrite Hx, Hh, L, P in N. discriminate.
  - (* PTaken: the loop would be holding it *)
    exfalso. destruct (inv_phase s I id c L) as (_ & _ & P3 & _). specialize (P3 P). unfold holding_is in P3. rewrite Hh in P3. discriminate.
  - (* PWait *)
    right. left. destruct (mbox c) as [|r m] eqn:M.
    + split; [reflexivity|]. split; [reflexivity|].
      destruct (inv_phase s I id c L) as (_ & P2 & _).
      assert (Rg : registered c = true).
      { destruct (registered c) eqn:R; [reflexivity|]. exfalso. apply (P2 P eq_refl). exact M. }
      assert (Pe : pending_empty c = true) by (unfold pending_empty; rewrite Rg, P, M; reflexivity).
      destruct (inv_orphan s I id c L Pe) as [Ho|Ho]; [exact Ho|].
      unfold exec_looked in Ho. rewrite He in Ho. discriminate.
    + (* something is in the mailbox: the caller could take it *)
      exfalso. pose proof (Q (CallRecv id (match r with ConnErr => true | Genuine => false end)) eq_refl ltac:(intros; discriminate)) as N.
      unfold step in N. rewrite L, P, Gc, M in N. destruct r; simpl in N; discriminate.
  - (* PRecvd *)
    destruct (got c) as [g|] eqn:Gg; [|congruence].
    destruct (retry c && outcome_eqb g OConnErr)%bool eqn:Rt.
    + right. right. apply andb_true_iff in Rt. destruct Rt as [R1 R2]. destruct g; try discriminate. auto.
    + exfalso. pose proof (Q (CallReturn id g) eq_refl ltac:(intros; discriminate)) as N. unfold step in N. rewrite L, P, Gg in N.
      assert (E : outcome_eqb g g = true) by (destruct g; reflexivity). rewrite E, Rt in N. discriminate.
  - left. reflexivity.
Qed.

(* after the loop has exited and closeInFlight is through, nothing waits any more: every call has returned (or is a
   retry-tagged caller on its way to be told that the client is gone) *)
Corollary quiescent_after_exit s es id c :
  run repaired_c init es = Some s -> quiet s -> is_exited s = true -> cif_pending s = false ->
  lookup id (calls s) = Some c ->
  ph c = PDone \/ (ph c = PRecvd /\ got c = Some OConnErr /\ retry c = true).
Proof.
  intros Hr Q Hx Hc L. destruct (quiescent_calls s es id c Hr Q L) as [H|[(P & M & E)|H]]; [left; exact H| |right; exact H].
  exfalso. destruct (reachable_all es s Hr) as (I & _ & _).
  unfold entry_is in E. destruct (find_att id (inflight s)) eqn:F; [|discriminate].
  assert (Hne : inflight s <> []) by (intros Z; rewrite Z in F; discriminate).
  destruct (inv_link s I Hne) as [U|U]; [|congruence].
  unfold is_up, is_exited in *. destruct (lnk s); discriminate.
Qed.

(* and such a state exists: the premises are not vacuous *)
Example quiescent_example : exists s,
  run repaired_c init [CallStart 1 false; LoopTake 1; LoopRegister 1; LoopSent 1 true; CallStart 2 false; LoopTake 2; LoopRegister 2;
                       LoopSent 2 true; ExecLookup 2 true; ExecDeliver 2; ExecDeleted 2 true; CallRecv 2 false; CallReturn 2 OGenuine] = Some s /\
  is_exited s = false /\ mu s = 4%nat.
Proof. eexists. split; [vm_compute; reflexivity|]. split; reflexivity. Qed.
