From Coq Require Import String.
From Coq Require Import List NArith ZArith Bool Arith Lia.
Import ListNotations.
From JR Require Import Json Handle Errors Call.
From JRGen Require Extracted.
Local Open Scope nat_scope.

Lemma set_nth_length {A} n (x : A) l : List.length (set_nth n x l) = List.length l.
Proof. revert n; induction l as [|y l IH]; intros [|n]; simpl; auto. Qed.

Lemma set_nth_app {A} (pre : list A) x y rest : set_nth (List.length pre) x (pre ++ y :: rest) = pre ++ x :: rest.
Proof. induction pre as [|p pre IH]; simpl; congruence. Qed.

Lemma map_nth_seq_shift {A} (l : list A) : forall (pre : list A) d,
  map (fun i => nth (i + List.length pre) (pre ++ l) d) (seq 0 (List.length l)) = l.
Proof.
  induction l as [|x l IH]; intros pre d; [reflexivity|].
  cbn [List.length seq map]. f_equal.
  - rewrite app_nth2 by lia. replace (0 + List.length pre - List.length pre) with 0 by lia. reflexivity.
  - rewrite <- seq_shift, map_map. rewrite <- (IH (pre ++ [x]) d) at 2. apply map_ext. intros i.
    rewrite <- app_assoc. simpl. rewrite app_length. simpl. f_equal. lia.
Qed.

Lemma Forall2_len {A B} (R : A -> B -> Prop) l r : Forall2 R l r -> List.length l = List.length r.
Proof. induction 1; simpl; congruence. Qed.

Section P.
  Context {val ty : Type}.
  Variable ty_eqb : ty -> ty -> bool.
  Variable marshal : val -> option json.
  Variable unmarshal : ty -> json -> option val.
  Variable zero : ty -> val.
  Variable type_of : val -> ty.
  Variable encoders : list (ty * (val -> option val)).
  Variable decoders : list (ty * (json -> option val)).
  Variable tycaps : tykey -> caps.
  Variable accept_codec : tykey -> wire_err -> bool.
  Variable accept_meta : tykey -> json -> bool.
  Variable serrs : option registry_s.
  Variable cerrs : option registry_c.

  Notation ENC := (encode_arg ty_eqb marshal type_of encoders).
  Notation DEC := (decode_param ty_eqb unmarshal decoders).
  Notation CALLP := (call_params ty_eqb unmarshal decoders).
  Notation FILL := (fill_params ty_eqb unmarshal decoders).
  Notation CALL := (call ty_eqb marshal unmarshal zero type_of encoders decoders tycaps accept_codec accept_meta serrs cerrs).
  Notation FINISH := (client_finish unmarshal zero tycaps accept_codec accept_meta cerrs).
  Notation RESPOND := (respond marshal tycaps serrs).
  Notation SER := (serialize_params ty_eqb marshal type_of encoders).

  (* shared signature: optional leading context, then typed positional parameters *)
  Definition hc (c : bool) : nat := if c then 1 else 0.
  Definition ctx_ins (c : bool) : list (@inty ty) := if c then [InCtx] else [].
  Definition ctx_args (c : bool) : list (@arg val) := if c then [ACtx] else [].
  Definition ctx_cvals (c : bool) : list (@cval val) := if c then [CCtx] else [].
  Definition client_type (c : bool) (ts : list ty) (outs : list (@outty ty)) : ftype :=
    {| f_ins := ctx_ins c ++ map InTy ts; f_outs := outs |}.
  Definition server_type (c : bool) (ts : list ty) (outs : list (@outty ty)) : ftype :=
    {| f_ins := InRecv :: ctx_ins c ++ map InTy ts; f_outs := outs |}.

  (* the JSON round trip of an argument on its way to a parameter of type t (custom encoder / decoder included) *)
  Definition round_trip (t : ty) (v : val) : option val :=
    match ENC (AVal v) with Some j => DEC (InTy t) j | None => None end.

  Lemma make_rpc_func_ok c ts outs vo eo n notify :
    process_func_out outs = Some (vo, eo, n) -> (vo <> None -> notify = false) ->
    make_rpc_func (client_type c ts outs) notify =
      Some {| rf_type := client_type c ts outs; rf_nout := n; rf_valout := vo; rf_errout := eo;
              rf_hasctx := hc c; rf_raw := false; rf_notify := notify |}.
  Proof.
    intros H Hn. unfold make_rpc_func. cbn [f_outs client_type]. rewrite H.
    assert (E : match vo with Some _ => notify | None => false end = false).
    { destruct vo; [apply Hn; discriminate|reflexivity]. }
    rewrite E. destruct c, ts; reflexivity.
  Qed.

  Lemma scan_raw_typed ts : forall i, scan_raw i (map (@InTy ty) ts) false = Some false.
  Proof. induction ts as [|t ts IH]; intros i; simpl; auto. Qed.

  Lemma register_method_ok c ts outs vo eo n :
    process_func_out outs = Some (vo, eo, n) ->
    register_method (server_type c ts outs) =
      Some {| mh_recvs := map InTy ts; mh_nparams := List.length ts; mh_hasctx := hc c; mh_raw := false;
              mh_valout := vo; mh_errout := eo |}.
  Proof.
    intros H. unfold register_method. cbn [f_ins f_outs server_type]. rewrite H.
    assert (Hh : (if (2 <=? List.length (InRecv :: ctx_ins c ++ map InTy ts)) &&
                     is_ctx (nth_error (InRecv :: ctx_ins c ++ map InTy ts) 1) then 1 else 0) = hc c).
    { destruct c, ts; reflexivity. }
    rewrite Hh.
    assert (Hn : List.length (InRecv :: ctx_ins c ++ map InTy ts) - 1 - hc c = List.length ts).
    { destruct c; simpl; rewrite map_length; lia. }
    rewrite Hn.
    assert (Hr : map (fun i => nth (i + 1 + hc c) (InRecv :: ctx_ins c ++ map InTy ts) InRecv) (seq 0 (List.length ts)) = map InTy ts).
    { rewrite <- (map_length (@InTy ty) ts).
      rewrite <- (map_nth_seq_shift (map InTy ts) (InRecv :: ctx_ins c) InRecv) at 2.
      apply map_ext. intros i. f_equal. destruct c; simpl; lia. }
    rewrite Hr, scan_raw_typed. reflexivity.
  Qed.

  Lemma serialize_typed fn c vs :
    rf_raw fn = false -> rf_hasctx fn = hc c ->
    SER fn (ctx_args c ++ map AVal vs) = option_map (fun l => Some (JArr l)) (all_some (map (fun v => ENC (AVal v)) vs)).
  Proof.
    intros Hr Hh. unfold serialize_params. rewrite Hr, Hh.
    assert (E : skipn (hc c) (ctx_args c ++ map (@AVal val) vs) = map AVal vs) by (destruct c; reflexivity).
    rewrite E, map_map. reflexivity.
  Qed.

  (* the loop writes each decoded parameter at its own index: nothing shifts, nothing is skipped *)
  Lemma fill_ok h ps : forall (ws done : list val) (pre : list cval),
    List.length pre = 1 + mh_hasctx h ->
    (forall i w, nth_error ws i = Some w ->
       DEC (nth (List.length done + i) (mh_recvs h) InRecv) (nth (List.length done + i) ps JNull) = Some w) ->
    FILL h ps (List.length done) (List.length ws) (pre ++ map CVal done ++ repeat CUnset (List.length ws)) =
      inr (pre ++ map CVal done ++ map CVal ws).
  Proof.
    induction ws as [|w ws IH]; intros done pre Hp Hd; [reflexivity|].
    cbn [List.length fill_params repeat].
    rewrite <- (Nat.add_0_r (List.length done)) at 1 2. rewrite (Hd 0 w eq_refl).
    assert (E : List.length done + 1 + mh_hasctx h = List.length (pre ++ map CVal done)).
    { rewrite app_length, map_length. lia. }
    rewrite E. rewrite app_assoc. rewrite set_nth_app.
    replace (S (List.length done)) with (List.length (done ++ [w])) by (rewrite app_length; simpl; lia).
    specialize (IH (done ++ [w]) pre Hp).
    rewrite map_app in IH. simpl map in IH. rewrite <- !app_assoc in IH. simpl app in IH.
    rewrite <- app_assoc. simpl app. rewrite IH.
    - reflexivity.
    - intros i w' Hi. rewrite app_length. simpl. replace (List.length done + 1 + i) with (List.length done + S i) by lia.
      apply Hd. exact Hi.
  Qed.

  Lemma all_some_map {A B} (f : A -> option B) (l : list A) (r : list B) :
    Forall2 (fun a b => f a = Some b) l r -> all_some (map f l) = Some r.
  Proof. induction 1 as [|a b l r H _ IH]; simpl; [reflexivity|]. rewrite H, IH. reflexivity. Qed.

  Lemma has_unset_expected c (ws : list val) : has_unset (CRecv :: ctx_cvals c ++ map CVal ws) = false.
  Proof.
    unfold has_unset. simpl. destruct c; simpl; induction ws as [|w ws IH]; simpl; auto.
  Qed.

  (* call_params for a well-formed typed request *)
  Lemma call_params_typed c (ts : list ty) vo eo (js : list json) (ws : list val) :
    Forall2 (fun tj w => DEC (InTy (fst tj)) (snd tj) = Some w) (combine ts js) ws ->
    List.length js = List.length ts ->
    CALLP {| mh_recvs := map InTy ts; mh_nparams := List.length ts; mh_hasctx := hc c; mh_raw := false;
             mh_valout := vo; mh_errout := eo |} (Some (JArr js)) = inr (CRecv :: ctx_cvals c ++ map CVal ws).
  Proof.
    intros HF Hl. unfold call_params. cbn [mh_raw mh_nparams mh_hasctx mh_recvs].
    rewrite Hl, Nat.eqb_refl. cbn [negb].
    assert (Hw : List.length ws = List.length ts).
    { apply Forall2_len in HF. rewrite combine_length in HF. lia. }
    set (h := {| mh_recvs := map InTy ts; mh_nparams := List.length ts; mh_hasctx := hc c; mh_raw := false;
                 mh_valout := vo; mh_errout := eo |}).
    assert (Hb : (if Nat.eqb (hc c) 1 then set_nth 1 CCtx (set_nth 0 CRecv (repeat CUnset (1 + hc c + List.length ts)))
                  else set_nth 0 (@CRecv val) (repeat CUnset (1 + hc c + List.length ts))) =
                 (CRecv :: ctx_cvals c) ++ map CVal [] ++ repeat CUnset (List.length ws)).
    { rewrite Hw. destruct c; reflexivity. }
    rewrite Hb. rewrite <- Hw.
    change 0 with (List.length (@nil val)).
    rewrite (fill_ok h js ws [] (CRecv :: ctx_cvals c)).
    - reflexivity.
    - destruct c; reflexivity.
    - intros i w Hi. cbn [List.length Nat.add mh_recvs h].
      assert (Hi' : i < List.length ws) by (apply nth_error_Some; congruence).
      (* positional view of the Forall2 *)
      revert i w Hi Hi'. clear Hb. revert js Hl HF Hw. generalize ws as W. induction ts as [|t ts IH]; intros W js Hl HF Hw i w Hi Hi'.
      + destruct W; [destruct i; discriminate|simpl in Hw; lia].
      + destruct js as [|j js]; [simpl in Hl; lia|]. simpl in HF. inversion HF as [|? ? ? ? H1 H2]; subst.
        destruct i as [|i]; simpl in *.
        * injection Hi as <-. exact H1.
        * apply (IH l' js); auto; lia.
  Qed.

  Lemma round_trip_split : forall (ts : list ty) (vs ws : list val),
    List.length vs = List.length ts ->
    Forall2 (fun tv w => round_trip (fst tv) (snd tv) = Some w) (combine ts vs) ws ->
    exists js, Forall2 (fun v j => ENC (AVal v) = Some j) vs js /\
               Forall2 (fun tj w => DEC (InTy (fst tj)) (snd tj) = Some w) (combine ts js) ws /\
               List.length js = List.length ts.
  Proof.
    induction ts as [|t ts IH]; intros vs ws Hl HF.
    - destruct vs; [|discriminate]. simpl in HF. inversion HF; subst. exists []. repeat split; constructor.
    - destruct vs as [|v vs]; [discriminate|]. simpl in HF. inversion HF as [|? w ? ws' H1 H2]; subst.
      simpl in Hl. injection Hl as Hl. destruct (IH vs ws' Hl H2) as (js & A & B & C).
      unfold round_trip in H1. cbn [fst snd] in H1. destruct (ENC (AVal v)) as [j|] eqn:Ej; [|discriminate].
      exists (j :: js). repeat split.
      + constructor; assumption.
      + simpl. constructor; assumption.
      + simpl. congruence.
  Qed.

  (* ---------- the handler runs exactly once, with the round trip of the arguments in their positions, and the caller
     receives what the response to its results decodes to *)
  Theorem call_transparent c ts vs ws outs vo eo n notify (m : method) :
    process_func_out outs = Some (vo, eo, n) -> (vo <> None -> notify = false) ->
    List.length vs = List.length ts ->
    Forall2 (fun tv w => round_trip (fst tv) (snd tv) = Some w) (combine ts vs) ws ->
    forall fn h, make_rpc_func (client_type c ts outs) notify = Some fn -> register_method (server_type c ts outs) = Some h ->
    CALL fn h m (ctx_args c ++ map AVal vs) =
      (FINISH fn (RESPOND h notify (m (CRecv :: ctx_cvals c ++ map CVal ws))), [CRecv :: ctx_cvals c ++ map CVal ws]).
  Proof.
    intros Hp Hn Hl HF fn h Hfn Hh.
    rewrite (make_rpc_func_ok c ts outs vo eo n notify Hp Hn) in Hfn. injection Hfn as <-.
    rewrite (register_method_ok c ts outs vo eo n Hp) in Hh. injection Hh as <-.
    destruct (round_trip_split ts vs ws Hl HF) as (js & A & B & C).
    unfold call.
    rewrite (serialize_typed {| rf_type := client_type c ts outs; rf_nout := n; rf_valout := vo; rf_errout := eo;
                                rf_hasctx := hc c; rf_raw := false; rf_notify := notify |} c vs eq_refl eq_refl).
    rewrite (all_some_map _ vs js A). cbn [option_map].
    unfold server_call. rewrite (call_params_typed c ts vo eo js ws B C).
    rewrite has_unset_expected. cbn [rf_notify]. reflexivity.
  Qed.

  (* ---------- a refusal on the server (non-array params, wrong count, a parameter that does not decode): the method
     is not run, the caller gets the zero value and a non-nil error *)
  Theorem refused_not_invoked h m notify params code :
    CALLP h params = inl code ->
    server_call ty_eqb marshal unmarshal decoders tycaps serrs h m notify params = (Some (SRpc code), []).
  Proof. intros H. unfold server_call. rewrite H. reflexivity. Qed.

  Lemma finish_rpc_valerr fn t code :
    rf_nout fn = 2 -> rf_valout fn = Some 0 -> rf_errout fn = Some 1 -> f_outs (rf_type fn) = [OutVal t; OutErr] ->
    FINISH fn (Some (SRpc code)) = [OVal (zero t); OErrv (Some (EHandler (Errors.val tycaps accept_codec accept_meta cerrs (rpc_wire code))))].
  Proof.
    intros H1 H2 H3 H4. unfold client_finish, process_response, out_val_type. rewrite H1, H2, H3, H4. reflexivity.
  Qed.

  (* ---------- outcomes by shape. fnv = the descriptor make_rpc_func builds *)
  Definition fn_of c ts outs n vo eo notify : rpcfunc :=
    {| rf_type := client_type c ts outs; rf_nout := n; rf_valout := vo; rf_errout := eo; rf_hasctx := hc c; rf_raw := false; rf_notify := notify |}.
  Definition h_of c (ts : list ty) vo eo : mhandler :=
    {| mh_recvs := map InTy ts; mh_nparams := List.length ts; mh_hasctx := hc c; mh_raw := false; mh_valout := vo; mh_errout := eo |}.

  (* (value, error) *)
  Theorem outcome_valerr c ts t (r : option (list oret)) :
    let fn := fn_of c ts [OutVal t; OutErr] 2 (Some 0) (Some 1) false in
    let h := h_of c ts (Some 0) (Some 1) in
    (forall v j v', r = Some [RVal v; RErr None] -> marshal v = Some j -> unmarshal t j = Some v' ->
       FINISH fn (RESPOND h false r) = [OVal v'; OErrv None]) /\
    (forall v e, r = Some [RVal v; RErr (Some e)] ->
       FINISH fn (RESPOND h false r) =
         [OVal (zero t); OErrv (Some (EHandler (Errors.val tycaps accept_codec accept_meta cerrs (create_error tycaps serrs e))))]) /\
    (r = None ->
       FINISH fn (RESPOND h false r) =
         [OVal (zero t); OErrv (Some (EHandler (Errors.val tycaps accept_codec accept_meta cerrs (rpc_wire 0))))]).
  Proof.
    cbv zeta. repeat split.
    - intros v j v' -> Hm Hu. unfold respond, client_finish, process_response, out_val_type; simpl. rewrite Hm. simpl. rewrite Hu. reflexivity.
    - intros v e ->. reflexivity.
    - intros ->. reflexivity.
  Qed.

  (* value only *)
  Theorem outcome_val c ts t (r : option (list oret)) :
    let fn := fn_of c ts [OutVal t] 1 (Some 0) None false in
    let h := h_of c ts (Some 0) None in
    (forall v j v', r = Some [RVal v] -> marshal v = Some j -> unmarshal t j = Some v' ->
       FINISH fn (RESPOND h false r) = [OVal v']) /\
    (r = None -> FINISH fn (RESPOND h false r) = [OVal (zero t)]).
  Proof.
    cbv zeta. split.
    - intros v j v' -> Hm Hu. unfold respond, client_finish, process_response, out_val_type; simpl. rewrite Hm. simpl. rewrite Hu. reflexivity.
    - intros ->. reflexivity.
  Qed.

  (* error only, and nothing; notify=true only here (no value out) *)
  Theorem outcome_err c ts (r : option (list oret)) :
    let fn := fn_of c ts [OutErr] 1 None (Some 0) false in
    let h := h_of c ts None (Some 0) in
    (r = Some [RErr None] -> FINISH fn (RESPOND h false r) = [OErrv None]) /\
    (forall e, r = Some [RErr (Some e)] ->
       FINISH fn (RESPOND h false r) = [OErrv (Some (EHandler (Errors.val tycaps accept_codec accept_meta cerrs (create_error tycaps serrs e))))]) /\
    (r = None -> FINISH fn (RESPOND h false r) = [OErrv (Some (EHandler (Errors.val tycaps accept_codec accept_meta cerrs (rpc_wire 0))))]).
  Proof. cbv zeta. repeat split; [intros -> | intros e -> | intros ->]; reflexivity. Qed.

  Theorem outcome_none c ts (r : option (list oret)) :
    FINISH (fn_of c ts [] 0 None None false) (RESPOND (h_of c ts None None) false r) = [].
  Proof. destruct r as [outs|]; reflexivity. Qed.

  (* a notification: nothing comes back whatever the method did (unless it panicked: rpcError still answers) *)
  Theorem outcome_notify c ts outs' :
    FINISH (fn_of c ts [OutErr] 1 None (Some 0) true) (RESPOND (h_of c ts None (Some 0)) true (Some outs')) = [OErrv None].
  Proof. reflexivity. Qed.

  (* processFuncOut: exactly the four supported shapes, everything else panics at construction *)
  Theorem process_func_out_spec (outs : list (@outty ty)) :
    match outs with
    | [] => process_func_out outs = Some (None, None, 0)
    | [OutErr] => process_func_out outs = Some (None, Some 0, 1)
    | [OutVal _] => process_func_out outs = Some (Some 0, None, 1)
    | [_; OutErr] => process_func_out outs = Some (Some 0, Some 1, 2)
    | _ => process_func_out outs = None
    end.
  Proof. destruct outs as [|[t|] [|[t'|] [|x r]]]; reflexivity. Qed.

  (* ---------- raw params: the method receives exactly the params member the caller passed *)
  Definition client_type_raw c outs : ftype := {| f_ins := ctx_ins c ++ [@InRaw ty]; f_outs := outs |}.
  Definition server_type_raw c outs : ftype := {| f_ins := InRecv :: ctx_ins c ++ [@InRaw ty]; f_outs := outs |}.

  Theorem raw_transparent c outs vo eo n (j : option json) (m : method) :
    process_func_out outs = Some (vo, eo, n) ->
    forall fn h, make_rpc_func (client_type_raw c outs) false = Some fn -> register_method (server_type_raw c outs) = Some h ->
    CALL fn h m (ctx_args c ++ [ARaw j]) =
      (FINISH fn (RESPOND h false (m (CRecv :: ctx_cvals c ++ [CRawP j]))), [CRecv :: ctx_cvals c ++ [CRawP j]]).
  Proof.
    intros Hp fn h Hfn Hh. unfold make_rpc_func in Hfn. cbn [f_outs client_type_raw] in Hfn. rewrite Hp in Hfn.
    unfold register_method in Hh. cbn [f_outs f_ins server_type_raw] in Hh. rewrite Hp in Hh.
    destruct c; cbn in Hfn, Hh; destruct vo; injection Hfn as <-; injection Hh as <-; reflexivity.
  Qed.
End P.
