(* Case-data decoding: bytes arrive packed 7 per primitive 63-bit integer (see DESIGN.md section 3).
   Uint63 is used on the correspondence side only. *)
From Coq Require Import List NArith Uint63.
Import ListNotations.

Local Open Scope uint63_scope.

Definition bit_n (x : int) (mask : int) (v : N) : N := if (x land mask) =? 0 then 0%N else v.
Definition byte_to_N (x : int) : N :=
  (bit_n x 128 128 + bit_n x 64 64 + bit_n x 32 32 + bit_n x 16 16 + bit_n x 8 8 + bit_n x 4 4 + bit_n x 2 2 + bit_n x 1 1)%N.

Definition word7 (w : int) : list N :=
  [byte_to_N ((w >> 48) land 255); byte_to_N ((w >> 40) land 255); byte_to_N ((w >> 32) land 255);
   byte_to_N ((w >> 24) land 255); byte_to_N ((w >> 16) land 255); byte_to_N ((w >> 8) land 255); byte_to_N (w land 255)].

Fixpoint nat_of_int_acc (fuel : nat) (x : int) (acc : nat) (unit_ : nat) : nat :=
  match fuel with
  | O => acc
  | S f => if x =? 0 then acc
           else nat_of_int_acc f (x >> 1) (if (x land 1) =? 0 then acc else acc + unit_) (unit_ + unit_)
  end.
Definition nat_of_int (x : int) : nat := nat_of_int_acc 40 x 0 1.

Definition unpack (ws : list int) : list N :=
  match ws with
  | len :: rest => firstn (nat_of_int len) (flat_map word7 rest)
  | [] => []
  end.
