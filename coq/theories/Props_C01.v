(* C01 — Remote calls are transparent: args in, results out, on every transport.
   Statements only; proofs in Call_Proofs.v. The model (Call.v) is the typed call path with the reflection code's index
   arithmetic explicit; encoding/json and user code are section variables, so "the JSON round trip of v at type t" is by
   definition marshal v >>= unmarshal t (custom encoder / decoder included: round_trip). *)
From Coq Require Import String.
From Coq Require Import List NArith ZArith Bool Arith.
Import ListNotations.
From JR Require Import Json Handle Handle_Proofs Errors Call Call_Proofs.
From JRGen Require Extracted.
From JR Require Skeletons.
Local Open Scope nat_scope.

(* the positional skeletons of the seven functions as they are in /repo now: every index, slice and make expression,
   every encoding/json and reflect.New/Zero/ValueOf call, the signature tests of makeRpcFunc / register / processFuncOut *)
Theorem c01_source_facts :
  Extracted.skeleton_register =
    ["funcType.NumIn()"; "funcType.In(1)"; "funcType.NumIn() - 1 - hasCtx"; "funcType.NumIn() - 1"; "make([]reflect.Type, ins)"; "funcType.In(i + 1 + hasCtx)"; "i + 1 + hasCtx"; "i + 1"; "recvs[i]"; "method.Type.In(i + 1 + hasCtx)"; "s.methods[s.methodNameFormatter(namespace, method.Name)]"]%string /\
  Extracted.skeleton_handle =
    ["s.methods[req.Method]"; "s.aliasedMethods[req.Method]"; "s.methods[aliasTo]"; "make([]reflect.Value, 1 + handler.hasCtx + handler.nParams)"; "1 + handler.hasCtx + handler.nParams"; "1 + handler.hasCtx"; "callParams[0]"; "callParams[1]"; "reflect.ValueOf(ctx)"; "callParams[1 + handler.hasCtx]"; "reflect.ValueOf(RawParams(req.Params))"; "json.Unmarshal(req.Params, &ps)"; "handler.paramReceivers[i]"; "s.paramDecoders[typ]"; "reflect.New(typ)"; "json.NewDecoder(bytes.NewReader(ps[i].data)).Decode(rp.Interface())"; "json.NewDecoder(bytes.NewReader(ps[i].data))"; "ps[i]"; "reflect.ValueOf(rp.Interface())"; "reflect.Zero(typ)"; "callParams[i + 1 + handler.hasCtx]"; "i + 1 + handler.hasCtx"; "i + 1"; "callResult[handler.errOut]"; "callResult[handler.valOut]"; "json.NewEncoder(w).Encode(resp)"; "json.NewEncoder(w)"]%string /\
  Extracted.skeleton_handleRpcCall =
    ["json.RawMessage(args[fn.hasCtx].Interface().(RawParams))"; "args[fn.hasCtx]"; "make([]param, len(args) - fn.hasCtx)"; "len(args) - fn.hasCtx"; "args[fn.hasCtx:]"; "fn.client.paramEncoders[arg.Type()]"; "params[i]"; "json.Marshal(params)"; "args[0]"; "reflect.New(fn.ftyp.Out(fn.valOut))"; "json.Unmarshal(resp.Result, val.Interface())"]%string /\
  Extracted.skeleton_makeRpcFunc =
    ["ftyp.Out(fun.valOut).Kind()"; "ftyp.Out(fun.valOut)"; "ftyp.NumIn()"; "ftyp.In(0)"; "ftyp.In(fun.hasCtx)"; "fun.hasCtx + 1"]%string /\
  Extracted.decisions_makeRpcFunc =
    ["if ftyp.Kind() != reflect.Func"; "if ok"; "if fun.valOut != -1 && fun.notify"; "if ftyp.NumIn() > 0 && ftyp.In(0) == contextType"; "if ftyp.NumIn() > fun.hasCtx && ftyp.In(fun.hasCtx) == rtRawParams"; "if ftyp.NumIn() > fun.hasCtx + 1"]%string /\
  Extracted.decisions_register =
    ["if funcType.NumIn() >= 2 && funcType.In(1) == contextType"; "if hasRawParams && i > 0"; "if funcType.In(i + 1 + hasCtx) == rtRawParams"]%string /\
  Extracted.skeleton_processResponse =
    ["make([]reflect.Value, fn.nout)"; "out[fn.valOut]"; "out[fn.errOut]"; "reflect.New(errorType).Elem()"; "reflect.New(errorType)"]%string /\
  Extracted.skeleton_processError =
    ["make([]reflect.Value, fn.nout)"; "out[fn.valOut]"; "reflect.New(fn.ftyp.Out(fn.valOut)).Elem()"; "reflect.New(fn.ftyp.Out(fn.valOut))"; "out[fn.errOut]"; "reflect.New(errorType).Elem()"; "reflect.New(errorType)"; "reflect.ValueOf(&ErrClient{err})"]%string /\
  Extracted.skeleton_processFuncOut =
    ["switch n"; "case 0"; "case 1"; "case 2"; "default"; "if funcType.Out(0) == errorType"; "if funcType.Out(1) != errorType"; "funcType.NumOut()"; "funcType.Out(0)"; "funcType.Out(1)"]%string /\
  Extracted.skeleton_param_marshal =
    ["if p.v.Kind() == reflect.Invalid"; "json.Marshal(p.v.Interface())"]%string /\
  (* the wire structs of a call: member names, types and which members may be left out (params never is: a raw-params
     method called with nil raw params sends `null`) *)
  Extracted.fields_request = [("Jsonrpc", "jsonrpc", "string", false); ("ID", "id", "interface{}", true); ("Method", "method", "string", false);
     ("Params", "params", "json.RawMessage", false); ("Meta", "meta", "map[string]string", true)]%string /\
  Extracted.fields_clientResponse = [("Jsonrpc", "jsonrpc", "string", false); ("Result", "result", "json.RawMessage", false);
     ("ID", "id", "interface{}", false); ("Error", "error", "*JSONRPCError", true)]%string.
Proof. repeat split; reflexivity. Qed.

Section C01.
  Context {val ty : Type}.
  Variable ty_eqb : ty -> ty -> bool.
  Variable marshal : val -> option json.
  Variable unmarshal : ty -> json -> option val.
  Variable zero : ty -> val.
  Variable type_of : val -> ty.
  Variable encoders : list (ty * (val -> option val)).
  Variable decoders : list (ty * (json -> option val)).
  Variable tycaps : tykey -> caps.
  Variable accept_codec : tykey -> wire_err -> bool.
  Variable accept_meta : tykey -> json -> bool.
  Variable serrs : option registry_s.
  Variable cerrs : option registry_c.

  Notation CALL := (call ty_eqb marshal unmarshal zero type_of encoders decoders tycaps accept_codec accept_meta serrs cerrs).
  Notation FINISH := (client_finish unmarshal zero tycaps accept_codec accept_meta cerrs).
  Notation RESPOND := (respond marshal tycaps serrs).
  Notation RT := (round_trip ty_eqb marshal unmarshal type_of encoders decoders).

  (* for every shared signature (optional leading context, any number of typed positional parameters, any of the supported
     result shapes) and every argument tuple whose members survive the JSON round trip: the registered method runs exactly
     once, with the receiver, the context and the round trip of each argument in its own position, and the caller receives
     what the response to the method's results decodes to *)
  Theorem c01_call_transparent : forall c ts vs ws outs vo eo n notify (m : method),
    process_func_out outs = Some (vo, eo, n) -> (vo <> None -> notify = false) ->
    List.length vs = List.length ts ->
    Forall2 (fun tv w => RT (fst tv) (snd tv) = Some w) (combine ts vs) ws ->
    forall fn h, make_rpc_func (client_type c ts outs) notify = Some fn -> register_method (server_type c ts outs) = Some h ->
    CALL fn h m (ctx_args c ++ map AVal vs) =
      (FINISH fn (RESPOND h notify (m (CRecv :: ctx_cvals c ++ map CVal ws))), [CRecv :: ctx_cvals c ++ map CVal ws]).
  Proof. exact (call_transparent ty_eqb marshal unmarshal zero type_of encoders decoders tycaps accept_codec accept_meta serrs cerrs). Qed.

  (* raw params: the method receives exactly the params member the caller passed *)
  Theorem c01_raw_transparent : forall c outs vo eo n (j : option json) (m : method),
    process_func_out outs = Some (vo, eo, n) ->
    forall fn h, make_rpc_func (client_type_raw c outs) false = Some fn -> register_method (server_type_raw c outs) = Some h ->
    CALL fn h m (ctx_args c ++ [ARaw j]) =
      (FINISH fn (RESPOND h false (m (CRecv :: ctx_cvals c ++ [CRawP j]))), [CRecv :: ctx_cvals c ++ [CRawP j]]).
  Proof. exact (raw_transparent ty_eqb marshal unmarshal zero type_of encoders decoders tycaps accept_codec accept_meta serrs cerrs). Qed.

  (* what the caller receives, by result shape: the round trip of the value and a nil error, or the zero value and a
     non-nil error (the method's own, or the fatal error of a panic) *)
  Theorem c01_outcome_valerr : forall c ts t (r : option (list oret)),
    let fn := fn_of c ts [OutVal t; OutErr] 2 (Some 0) (Some 1) false in
    let h := h_of c ts (Some 0) (Some 1) in
    (forall v j v', r = Some [RVal v; RErr None] -> marshal v = Some j -> unmarshal t j = Some v' ->
       FINISH fn (RESPOND h false r) = [OVal v'; OErrv None]) /\
    (forall v e, r = Some [RVal v; RErr (Some e)] ->
       FINISH fn (RESPOND h false r) =
         [OVal (zero t); OErrv (Some (EHandler (Errors.val tycaps accept_codec accept_meta cerrs (create_error tycaps serrs e))))]) /\
    (r = None ->
       FINISH fn (RESPOND h false r) =
         [OVal (zero t); OErrv (Some (EHandler (Errors.val tycaps accept_codec accept_meta cerrs (rpc_wire 0))))]).
  Proof. exact (outcome_valerr marshal unmarshal zero tycaps accept_codec accept_meta serrs cerrs). Qed.

  Theorem c01_outcome_val : forall c ts t (r : option (list oret)),
    let fn := fn_of c ts [OutVal t] 1 (Some 0) None false in
    let h := h_of c ts (Some 0) None in
    (forall v j v', r = Some [RVal v] -> marshal v = Some j -> unmarshal t j = Some v' ->
       FINISH fn (RESPOND h false r) = [OVal v']) /\
    (r = None -> FINISH fn (RESPOND h false r) = [OVal (zero t)]).
  Proof. exact (outcome_val marshal unmarshal zero tycaps accept_codec accept_meta serrs cerrs). Qed.

  Theorem c01_outcome_err : forall c ts (r : option (list oret)),
    let fn := fn_of c ts [OutErr] 1 None (Some 0) false in
    let h := h_of c ts None (Some 0) in
    (r = Some [RErr None] -> FINISH fn (RESPOND h false r) = [OErrv None]) /\
    (forall e, r = Some [RErr (Some e)] ->
       FINISH fn (RESPOND h false r) = [OErrv (Some (EHandler (Errors.val tycaps accept_codec accept_meta cerrs (create_error tycaps serrs e))))]) /\
    (r = None -> FINISH fn (RESPOND h false r) = [OErrv (Some (EHandler (Errors.val tycaps accept_codec accept_meta cerrs (rpc_wire 0))))]).
  Proof. exact (outcome_err marshal unmarshal zero tycaps accept_codec accept_meta serrs cerrs). Qed.

  Theorem c01_outcome_none : forall c ts (r : option (list oret)),
    FINISH (fn_of c ts [] 0 None None false) (RESPOND (h_of c ts None None) false r) = [].
  Proof. exact (outcome_none marshal unmarshal zero tycaps accept_codec accept_meta serrs cerrs). Qed.

  (* a server-side refusal (params not an array, wrong count, a parameter that does not decode): the method is not run
     and the caller gets the zero value and a non-nil error *)
  Theorem c01_refused_not_invoked : forall h m notify params code,
    call_params ty_eqb unmarshal decoders h params = inl code ->
    server_call ty_eqb marshal unmarshal decoders tycaps serrs h m notify params = (Some (SRpc code), []).
  Proof. exact (refused_not_invoked ty_eqb marshal unmarshal decoders tycaps serrs). Qed.

  Theorem c01_refusal_outcome : forall fn t code,
    rf_nout fn = 2 -> rf_valout fn = Some 0 -> rf_errout fn = Some 1 -> f_outs (rf_type fn) = [OutVal t; OutErr] ->
    FINISH fn (Some (SRpc code)) = [OVal (zero t); OErrv (Some (EHandler (Errors.val tycaps accept_codec accept_meta cerrs (rpc_wire code))))].
  Proof. exact (finish_rpc_valerr unmarshal zero tycaps accept_codec accept_meta cerrs). Qed.

  (* the loop over the parameters writes each one at its own index (any number of parameters, context or not) *)
  Theorem c01_positions : forall h ps (ws done : list val) (pre : list cval),
    List.length pre = 1 + mh_hasctx h ->
    (forall i w, nth_error ws i = Some w ->
       decode_param ty_eqb unmarshal decoders (nth (List.length done + i) (mh_recvs h) InRecv) (nth (List.length done + i) ps JNull) = Some w) ->
    fill_params ty_eqb unmarshal decoders h ps (List.length done) (List.length ws) (pre ++ map CVal done ++ repeat CUnset (List.length ws)) =
      inr (pre ++ map CVal done ++ map CVal ws).
  Proof. exact (fill_ok ty_eqb unmarshal decoders). Qed.
End C01.

(* the four supported result shapes, everything else is rejected when the client / server is built *)
Theorem c01_process_func_out : forall (ty : Type) (outs : list (@outty ty)),
  match outs with
  | [] => process_func_out outs = Some (None, None, 0)
  | [OutErr] => process_func_out outs = Some (None, Some 0, 1)
  | [OutVal _] => process_func_out outs = Some (Some 0, None, 1)
  | [_; OutErr] => process_func_out outs = Some (Some 0, Some 1, 2)
  | _ => process_func_out outs = None
  end.
Proof. intros ty. exact (@process_func_out_spec ty). Qed.

(* the descriptors both sides derive from one signature *)
Theorem c01_descriptors : forall (ty : Type) c (ts : list ty) outs vo eo n notify,
  process_func_out outs = Some (vo, eo, n) -> (vo <> None -> notify = false) ->
  make_rpc_func (client_type c ts outs) notify =
    Some {| rf_type := client_type c ts outs; rf_nout := n; rf_valout := vo; rf_errout := eo;
            rf_hasctx := hc c; rf_raw := false; rf_notify := notify |} /\
  register_method (server_type c ts outs) =
    Some {| mh_recvs := map InTy ts; mh_nparams := List.length ts; mh_hasctx := hc c; mh_raw := false;
            mh_valout := vo; mh_errout := eo |}.
Proof. intros ty c ts outs vo eo n notify H1 H2. split; [apply make_rpc_func_ok; assumption|eapply register_method_ok; eassumption]. Qed.

(* one formatter on both sides: the name the client sends resolves to the method registered under it, whatever the
   formatter (Handle.v, C12); the transport does not appear in Call.call or Handle.handle at all (only the channel
   capability does, for channel-returning methods: C07) *)
Theorem c01_shared_formatter : forall f ns hs c h,
  find (fun h' => bytes_eqb (format f ns (h_name h)) (format f ns (h_name h'))) (rev hs) = Some h ->
  resolve (register f ns hs c) (format f ns (h_name h)) = Some h.
Proof. exact register_resolves. Qed.

Theorem c01_transport_independent : forall c r,
  (forall h, resolve c (r_method r) = Some h -> is_chan h = false) ->
  handle c false r = handle c true r.
Proof.
  intros c r H. unfold handle. destruct (resolve c (r_method r)) as [h|] eqn:E; [|reflexivity].
  rewrite (H h eq_refl). reflexivity.
Qed.

(* non-vacuity: a (ctx, int, string) -> (string, error) signature over JSON values meets the hypotheses *)
Example c01_nonvacuous :
  let mar (v : json) := Some v in
  let unm (t : bool) (j : json) := Some j in
  fst (call Bool.eqb mar unm (fun _ => JNull) (fun _ => true) [] [] (fun _ => {| is_codec := false; is_marshalable := false |})
         (fun _ _ => true) (fun _ _ => true) None None
         (fn_of true [true; false] [OutVal true; OutErr] 2 (Some 0) (Some 1) false)
         (h_of true [true; false] (Some 0) (Some 1))
         (fun cps => match cps with [CRecv; CCtx; CVal a; CVal b] => Some [RVal (JArr [a; b]); RErr None] | _ => None end)
         [ACtx; AVal (JNum (bs "7")); AVal (JStr (bs "x"))])
  = [OVal (JArr [JNum (bs "7"); JStr (bs "x")]); OErrv None].
Proof. reflexivity. Qed.

(* the functions this property's model is an abstraction of still have the control / locking / shared-state skeleton the
   model was written against (Skeletons.v, by hand; Extracted.v, regenerated from /repo) *)
Theorem c01_code_skeletons :
  JRGen.Extracted.effects_handle = JR.Skeletons.handle.
Proof. repeat split; reflexivity. Qed.

Print Assumptions c01_code_skeletons.
Print Assumptions c01_source_facts.
Print Assumptions c01_call_transparent.
Print Assumptions c01_raw_transparent.
Print Assumptions c01_outcome_valerr.
Print Assumptions c01_outcome_val.
Print Assumptions c01_outcome_err.
Print Assumptions c01_outcome_none.
Print Assumptions c01_refused_not_invoked.
Print Assumptions c01_refusal_outcome.
Print Assumptions c01_positions.
Print Assumptions c01_process_func_out.
Print Assumptions c01_descriptors.
Print Assumptions c01_shared_formatter.
Print Assumptions c01_transport_independent.
