(* C20 — Reader parameters stream byte-exact and honour the io.Reader contract.
   Statements only; proofs in Reader_Proofs.v. `repaired` = the code as it is now: close(w.wait) under
   sync.Once (re-checked against /repo by c20_source_once) and the first read error remembered.
   All theorems hold for every byte type, payload, read pattern, chunking by the transport and every
   interleaving with net/http closing the body behind the handler (SrvClose). *)
From Coq Require Import List NArith ZArith Bool String.
Import ListNotations.
From JR Require Import Reader Reader_Proofs.
From JR Require Rendezvous Rendezvous_Proofs.
From JRGen Require Extracted.

(* every close(w.wait) in httpio sits inside a sync.Once.Do callback, and there are exactly the two sites modelled *)
Theorem c20_source_once :
  JRGen.Extracted.reader_wait_closes = [("Read"%string, true); ("Close"%string, true)].
Proof. reflexivity. Qed.

(* an arrival (of either party) is one atomic step of the rendezvous model (arrive_all): in the code each of the two
   looks its uuid up and creates the missing entry inside one critical section of readersLk, and nothing stores to the
   table outside of one *)
Theorem c20_source_arrival_atomic :
  JRGen.Extracted.reader_rendezvous_sections =
    [["ch, found := readers[u]"; "if !found { ch = make(chan *waitReadCloser); readers[u] = ch }"];
     ["ch, found := readers[u]"; "if !found { ch = make(chan *waitReadCloser); readers[u] = ch }"]]%string /\
  JRGen.Extracted.reader_table_stores_outside_lock = 0%Z.
Proof. split; reflexivity. Qed.

(* ---- the rendezvous table itself (Rendezvous.v), one level below `arrive`: uuid -> channel; each party looks its uuid up
   and creates the missing entry, then uses the channel it holds. With lookup-and-create as ONE step (the code:
   c20_source_arrival_atomic) any number of parties and uuids arriving in any order — ties are orders — end up, per uuid,
   on one channel: the upload and the request meet whichever comes first. *)
Theorem c20_arrivals_meet : forall es p q u c1 c2,
  Rendezvous.only_arrive es = true ->
  In (p, (u, c1)) (Rendezvous.held (Rendezvous.rzrun es)) -> In (q, (u, c2)) (Rendezvous.held (Rendezvous.rzrun es)) -> c1 = c2.
Proof. exact Rendezvous_Proofs.arrivals_meet. Qed.

(* the variant with the lookup and the creation in two steps (seeded change C20-d): both look, both create, two channels *)
Theorem c20_refuted_split_arrival :
  exists es c1 c2, In (1%N, (7%N, c1)) (Rendezvous.held (Rendezvous.rzrun es)) /\
                   In (2%N, (7%N, c2)) (Rendezvous.held (Rendezvous.rzrun es)) /\ c1 <> c2.
Proof. exact Rendezvous_Proofs.split_arrivals_miss. Qed.

(* what the handler's reads returned so far, followed by what is still to come, is exactly the payload
   (so: a prefix, nothing invented, duplicated or reordered), and no operation panics *)
Theorem c20_bytes_exact_prefix : forall (byte : Type) (payload : list byte) ops w' obs,
  run repaired (wrc_init payload) ops = Some (w', obs) ->
  received obs ++ rest w' = payload /\ has_panic obs = false.
Proof. intros byte. exact received_prefix. Qed.

(* once EOF has been reported the handler has seen exactly the payload *)
Theorem c20_bytes_exact_on_eof : forall (byte : Type) (payload : list byte) ops w' obs,
  run repaired (wrc_init payload) ops = Some (w', obs) -> saw_eof obs = true -> received obs = payload.
Proof. intros byte. exact received_all_on_eof. Qed.

(* EOF is sticky: after an EOF was reported, every further Read in every continuation (any buffer sizes,
   Close, the server closing the body once the upload request completed) reports (0, EOF) *)
Theorem c20_eof_sticky : forall (byte : Type) (payload : list byte) ops1 ops2 w1 w2 obs1 obs2,
  run repaired (wrc_init payload) ops1 = Some (w1, obs1) -> saw_eof obs1 = true ->
  run repaired w1 ops2 = Some (w2, obs2) ->
  Forall read_is_empty_eof obs2.
Proof. intros byte. exact eof_sticky_run. Qed.

(* the uploading request is released exactly when the handler saw a read error (EOF included) or closed the reader *)
Theorem c20_upload_released_iff : forall (byte : Type) (payload : list byte) ops w obs,
  run repaired (wrc_init payload) ops = Some (w, obs) ->
  wait_closed w = existsb (fun o => match o with ORead _ NoErr => false | OSrv => false | _ => true end) obs.
Proof. intros byte. exact upload_released_iff. Qed.

(* whichever of upload and request arrives first, the handler gets that upload *)
Theorem c20_either_order : forall (byte : Type) u (pl : list byte) who,
  matched (arrive_all [Upload u pl; Decode u who]) = [(who, pl)] /\
  matched (arrive_all [Decode u who; Upload u pl]) = [(who, pl)].
Proof. intros byte. exact pair_either_order. Qed.

(* isolation: in any arrival sequence of any number of uploads and decodes, what a handler is handed was
   uploaded under the very uuid it asked for (uuids are fresh per call: google/uuid, assumed) *)
Theorem c20_isolation : forall (byte : Type) (ps : list (party byte)) who pl,
  In (who, pl) (matched (arrive_all ps)) -> exists u, In (Upload u pl) ps /\ In (Decode u who) ps.
Proof. intros byte. exact matched_sound. Qed.

(* the two defects found with this model (repaired by 832f153 and 2b21db9): without the Once, Close after EOF
   panics; without the remembered error, a Read after the upload completed reports a non-EOF error after EOF *)
Theorem c20_refuted_without_once :
  exists ops w l, run {| once := false; keep_err := true |} (wrc_init [1%N; 2%N]) ops = Some (w, l) /\ has_panic l = true.
Proof. exact refuted_without_once. Qed.

Theorem c20_refuted_without_keep_err :
  exists ops w l, run {| once := true; keep_err := false |} (wrc_init [1%N; 2%N]) ops = Some (w, l) /\
                  l = [ORead [1%N; 2%N] EOF; OSrv; ORead [] ErrClosed].
Proof. exact refuted_without_keep_err. Qed.

(* non-vacuity *)
Example c20_ex : exists w obs,
  run repaired (wrc_init [5;6;7]%N) [Read 2 2 false; Read 2 1 false; Read 2 0 false; SrvClose; Read 1 0 false; Close] = Some (w, obs)
  /\ received obs = [5;6;7]%N /\ saw_eof obs = true /\ wait_closed w = true.
Proof. eexists. eexists. vm_compute. repeat split. Qed.

Print Assumptions c20_source_once.
Print Assumptions c20_source_arrival_atomic.
Print Assumptions c20_arrivals_meet.
Print Assumptions c20_refuted_split_arrival.
Print Assumptions c20_bytes_exact_prefix.
Print Assumptions c20_bytes_exact_on_eof.
Print Assumptions c20_eof_sticky.
Print Assumptions c20_upload_released_iff.
Print Assumptions c20_either_order.
Print Assumptions c20_isolation.
Print Assumptions c20_refuted_without_once.
Print Assumptions c20_refuted_without_keep_err.
