(* Correspondence side of the error transport model (C11): the error kinds and registration tables of
   harness/cmd/jrpcdrive/errorsfam.go, and the comparison of what the caller observed with
   Errors.receive (Errors.serve ...). *)
From Coq Require Import String.
From Coq Require Import List NArith ZArith Bool Uint63.
Import ListNotations.
From JR Require Import Json Handle Bytes AuthCases HttpCases Errors.
From JRGen Require Extracted.

(* type ids as in errorsfam.go: 1 plainVal 2 plainPtr 3 marshErr 4 codecErr 5 bothErr 6 failUnmarshal 7 failFrom
   8 *errors.errorString 10 valReg 11 *fmt.wrapError (wrapping a registered error: itself unregistered) *)
Definition tk (n : N) (p : bool) : tykey := {| ty_name := n; ty_ptr := p |}.
Definition reg_key (kind : N) : tykey :=      (* regType(kind): what Register(c, new(...)) stores *)
  match kind with 1%N => tk 1 false | 10%N => tk 10 false | 15%N => tk 15 false | k => tk k true end.

(* capabilities follow the method set of the pointer type (all these types use pointer receivers for the conversions;
   the value types have none) *)
Definition caps_of (k : tykey) : caps :=
  match ty_name k with
  | 3%N => {| is_codec := false; is_marshalable := true |}
  | 4%N => {| is_codec := true; is_marshalable := false |}
  | 5%N => {| is_codec := true; is_marshalable := true |}
  | 6%N => {| is_codec := false; is_marshalable := true |}
  | 7%N => {| is_codec := true; is_marshalable := false |}
  | 13%N => {| is_codec := true; is_marshalable := false |}
  | 14%N => {| is_codec := true; is_marshalable := false |}
  | 15%N => {| is_codec := true; is_marshalable := false |}
  | _ => {| is_codec := false; is_marshalable := false |}
  end.
(* on the server the capabilities are those of the error value's own dynamic type: kind 15 is returned as a value whose
   reading half (FromJSONRPCError) has a pointer receiver, so the value type is not a full codec there; the client builds a
   pointer to the registered type and asks that (caps_of) *)
Definition caps_srv (k : tykey) : caps :=
  match ty_name k with 15%N => {| is_codec := false; is_marshalable := false |} | _ => caps_of k end.
Definition acc_codec (k : tykey) (_ : wire_err) : bool := negb (N.eqb (ty_name k) 7).
(* UnmarshalJSON of marshErr / bothErr decodes an object into a struct; failUnmarshal always refuses *)
Definition acc_meta (k : tykey) (j : json) : bool :=
  match ty_name k with
  | 6%N => false
  | _ => match j with JObj _ | JNull => true | _ => false end
  end.

Definition zn (z : Z) : json := JNum (z_lit z).

(* mkErr(kind, msg, n) *)
Definition mk_err (kind : N) (msg : bytes) (n : Z) : option errval :=
  let ev k c m := Some {| ev_ty := k; ev_msg := msg; ev_codec := c; ev_meta := m |} in
  match kind with
  | 0%N => None
  | 1%N => ev (tk 1 false) None None
  | 2%N => ev (tk 2 true) None None
  | 3%N => ev (tk 3 true) None (Some (JObj [(bs "M", JStr msg); (bs "N", zn n)]))
  | 4%N => ev (tk 4 true) (Some ((40 + n mod 3)%Z, msg, Some (JObj [(bs "n", zn n)]))) None
  | 5%N => ev (tk 5 true) (Some (45%Z, msg, Some (JArr [zn n; JStr (bs "d")]))) (Some (JObj [(bs "X", zn n)]))
  | 6%N => ev (tk 6 true) None (Some (JStr msg))
  | 7%N => ev (tk 7 true) (Some (44%Z, msg, None)) None
  | 8%N => ev (tk 8 true) None None
  | 9%N => ev (tk 10 true) None None
  | 10%N => ev (tk 10 false) None None
  | 13%N => ev (tk 13 true) (Some (46%Z, msg, Some (JStr (bs "payload-" ++ z_lit n)%list))) None
  (* a codec error whose own wire message is empty while its Error() text is not: the codec's fields travel, not Error() *)
  | 14%N => Some {| ev_ty := tk 14 true; ev_msg := (bs "emc: " ++ msg)%list;
                    ev_codec := Some (47%Z, [], Some (JStr (bs "d-" ++ z_lit n)%list)); ev_meta := None |}
  | 15%N => ev (tk 15 false) None None
  | 11%N | 12%N => Some {| ev_ty := tk 11 true; ev_msg := (bs "ctx: " ++ msg)%list; ev_codec := None; ev_meta := None |}
  | _ => None
  end.

(* buildErrors: NewErrors() then Register for each row; NewErrors pre-registers the connection error under -1111111
   on the client side only (type id 99) *)
Definition build_s (tab : option (list (Z * N))) : option registry_s :=
  option_map (fun t => fold_left (fun r row => register_s (fst row) (reg_key (snd row)) r) t []) tab.
Definition build_c (tab : option (list (Z * N))) : option registry_c :=
  option_map (fun t => fold_left (fun r row => register_c (fst row) (reg_key (snd row)) r) t
                         [(Extracted.eTempWSError, tk 99 true)]) tab.

(* what the harness reports for the error it holds: dynamic type, Error(), a JSON rendering of its fields *)
Record ecase := {
  ec_kind : N; ec_msg : list int; ec_n : Z; ec_valerr : bool;
  ec_sreg : option (list (Z * N)); ec_creg : option (list (Z * N));
  ec_nil : bool; ec_ty : N; ec_ptr : bool;           (* ec_ty 0 = *JSONRPCError *)
  ec_errstr : list int; ec_fields : list int; ec_val : Z }.

Definition field (k : string) (j : json) : json :=
  match j with JObj ms => match assoc_b (bs k) ms with Some v => v | None => JNull end | _ => JNull end.
Definition opt_json (o : option json) : json := match o with Some j => j | None => JNull end.

(* the fields an error of type k shows after being filled from payload p *)
Definition expect_fields (k : tykey) (p : option (wire_err + json)) (obs : json) : bool :=
  match ty_name k, p with
  | 3%N, Some (inr j) => json_eqb obs (JObj [(bs "M", match field "M" j with JNull => JStr [] | v => v end);
                                             (bs "N", match field "N" j with JNull => zn 0 | v => v end)])
  | 3%N, None => json_eqb obs (JObj [(bs "M", JStr []); (bs "N", zn 0)])
  | (4%N | 13%N | 14%N | 15%N), Some (inl w) => json_eqb (field "code" obs) (zn (we_code w)) && json_eqb (field "message" obs) (JStr (we_msg w))
                         && json_eqb (field "data" obs) (opt_json (we_data w))
  | 5%N, Some (inl w) => json_eqb (field "code" obs) (zn (we_code w)) && json_eqb (field "message" obs) (JStr (we_msg w))
                         && json_eqb (field "data" obs) (opt_json (we_data w)) && json_eqb (field "X" obs) (zn 0)
  | (1%N | 2%N | 6%N | 7%N | 10%N), None => json_eqb obs (JObj [(bs "M", JStr [])])
  | _, _ => false
  end.

Definition ecase_ok (c : ecase) : bool :=
  let msg := unpack (ec_msg c) in
  let r := (zn 5, mk_err (ec_kind c) msg (ec_n c)) in
  let '(v, e) := receive caps_of acc_codec acc_meta (build_c (ec_creg c)) (zn 0)
                   (serve caps_srv (build_s (ec_sreg c)) r) in
  (if ec_valerr c then json_eqb v (zn (ec_val c)) else true) &&
  match e with
  | None => ec_nil c
  | Some (CGeneric w) =>
      negb (ec_nil c) && N.eqb (ec_ty c) 0 &&
      bytes_eqb (unpack (ec_errstr c)) (error_string w) &&
      match parse (unpack (ec_fields c)) with Some o => json_eqb o (wire_json w) | None => false end
  | Some (CTyped k p) =>
      negb (ec_nil c) && N.eqb (ec_ty c) (ty_name k) && Bool.eqb (ec_ptr c) (ty_ptr k) &&
      match parse (unpack (ec_fields c)) with Some o => expect_fields k p o | None => false end
  end.
