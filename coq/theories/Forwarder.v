(* The forwarder's bookkeeping (websocket.go handleOutChans): two parallel slices after the two internal select cases —
   `cases` (the handlers' output channels) and `caseToID` (the channel ids the peer knows them by). A registration
   appends to both; when an output channel is closed its slot is overwritten with the last slot and both slices are
   cut by one (swap-remove); a value received on the case at index i goes out tagged caseToID[i].
   Channels are abstract handles (N). No proofs here. *)
From Coq Require Import List NArith Bool Arith.
Import ListNotations.

Record fw := { chans : list N; tags : list N }.
Definition fw0 : fw := {| chans := []; tags := [] |}.

(* l[i] = x *)
Definition put {A} (l : list A) (i : nat) (x : A) : list A := firstn i l ++ x :: skipn (S i) l.
(* l[i] = l[len-1]; l = l[:len-1] *)
Definition swap_remove {A} (l : list A) (i : nat) : list A :=
  match rev l with
  | [] => []
  | x :: _ => removelast (put l i x)
  end.
(* order-preserving removal (what the code does not do; used by the refuted variants and the specification) *)
Definition remove_nth {A} (i : nat) (l : list A) : list A := firstn i l ++ skipn (S i) l.

Fixpoint index_of (ch : N) (l : list N) : option nat :=
  match l with
  | [] => None
  | x :: t => if N.eqb x ch then Some 0 else option_map S (index_of ch t)
  end.

Inductive fop :=
| FReg (ch id : N)       (* a handler's channel is registered under channel id `id` *)
| FClose (ch : N)        (* reflect.Select reports channel ch closed *)
| FVal (ch : N).         (* reflect.Select received a value on channel ch *)

(* how the two slices are maintained on a close: both by swap (the code), or one of them otherwise (the variants) *)
Inductive removal := BySwap | ByShift | NotAtAll.
Definition remove_with {A} (r : removal) (l : list A) (i : nat) : list A :=
  match r with BySwap => swap_remove l i | ByShift => remove_nth i l | NotAtAll => l end.

(* one step; the output is the tag a value / close notification goes out with *)
Definition fstep (rc rt : removal) (s : fw) (o : fop) : fw * option N :=
  match o with
  | FReg ch id => ({| chans := chans s ++ [ch]; tags := tags s ++ [id] |}, None)
  | FClose ch =>
      match index_of ch (chans s) with
      | Some i => ({| chans := remove_with rc (chans s) i; tags := remove_with rt (tags s) i |}, nth_error (tags s) i)
      | None => (s, None)
      end
  | FVal ch =>
      match index_of ch (chans s) with
      | Some i => (s, nth_error (tags s) i)
      | None => (s, None)
      end
  end.

Definition step := fstep BySwap BySwap.

Fixpoint frun (rc rt : removal) (s : fw) (os : list fop) : fw * list (option N) :=
  match os with
  | [] => (s, [])
  | o :: t => let '(s1, out) := fstep rc rt s o in let '(s2, outs) := frun rc rt s1 t in (s2, out :: outs)
  end.
Definition run := frun BySwap BySwap.

(* specification: a finite map from channel to id *)
Fixpoint amap (os : list fop) (m : N -> option N) : N -> option N :=
  match os with
  | [] => m
  | FReg ch id :: t => amap t (fun c => if N.eqb c ch then Some id else m c)
  | FClose ch :: t => amap t (fun c => if N.eqb c ch then None else m c)
  | FVal _ :: t => amap t m
  end.
Definition empty : N -> option N := fun _ => None.

(* specification of the outputs: a value or a close goes out under the id its channel was registered with *)
Fixpoint aouts (os : list fop) (m : N -> option N) : list (option N) :=
  match os with
  | [] => []
  | FReg ch id :: t => None :: aouts t (fun c => if N.eqb c ch then Some id else m c)
  | FClose ch :: t => m ch :: aouts t (fun c => if N.eqb c ch then None else m c)
  | FVal ch :: t => m ch :: aouts t m
  end.

(* well-formed histories: a channel is registered only while it is not registered (every handler call makes a fresh
   channel; Go channel identity), closes and values only come from registered channels (reflect.Select only reports
   cases that are in the slice) *)
Fixpoint wf_ops (os : list fop) (m : N -> option N) : bool :=
  match os with
  | [] => true
  | FReg ch id :: t => match m ch with None => wf_ops t (fun c => if N.eqb c ch then Some id else m c) | Some _ => false end
  | FClose ch :: t => match m ch with Some _ => wf_ops t (fun c => if N.eqb c ch then None else m c) | None => false end
  | FVal ch :: t => match m ch with Some _ => wf_ops t m | None => false end
  end.
