(* Correspondence side for the requester LTS: traces recorded from the implementation are replayed. *)
From Coq Require Import List NArith Bool.
Import ListNotations.
From JR Require Import Conn AuthCases.
Open Scope N_scope.

Definition variant_in_use : cvariant := repaired_c.

Record tcase := { tc_events : list ev; tc_outcomes : list (N * outcome) (* black-box: what each call returned *) }.

(* 0 = accepted and observables agree; 1 = an event is not enabled in the model; 2 = final outcomes differ;
   3 = orphan-freedom fails in some visited state (cannot happen for accepted strict traces: theorem) *)
Fixpoint visit (s : st) (es : list ev) : option st * bool :=
  match es with
  | [] => (Some s, no_orphan s)
  | e :: r => match step variant_in_use s e with
              | Some s' => let '(f, ok) := visit s' r in (f, ok && no_orphan s)
              | None => (None, true)
              end
  end.

Definition tcase_diag (c : tcase) : N * N :=
  match run_diag variant_in_use init (tc_events c) 0 with
  | (_, Some i) => (1, i)
  | (s, None) =>
      if forallb (fun io => match Conn.lookup (fst io) (calls s) with
                            | Some cl => match got cl with Some g => outcome_eqb g (snd io) | None => false end
                            | None => false end) (tc_outcomes c)
      then (if snd (visit init (tc_events c)) then (0, 0) else (3, 0))
      else (2, 0)
  end.
Definition tcase_ok (c : tcase) : bool := N.eqb (fst (tcase_diag c)) 0.
