(* C08 — Every client channel terminates: closed once, nothing after close, prefix only.
   Model: Stream.v with the four causes (handler closes, subscription cancelled, connection lost / about to be
   redialled = closeChans, client stopped = closeChans). Statements only; proofs in Stream_Proofs.v. *)
From Coq Require Import String.
From Coq Require Import List NArith ZArith Bool Lia.
Import ListNotations.
From JR Require Import Stream Stream_Proofs Locks.
From JRGen Require Extracted LockTable.
From JR Require Skeletons.
Import LockTable.

Theorem c08_source_facts :
  Extracted.callsites_closeChans = ["tryReconnect"; "handleWsConn"]%string /\
  (* the sink callback is invoked at exactly three sites, each time under the channel handler's own mutex: a value in
     delivery and the closing of the sink never overlap (regenerated lock table) *)
  sink_callbacks_locked lock_rows = true /\
  sink_callback_sites lock_rows = ["handleChanMessage"; "handleChanClose"; "closeChans"]%string /\
  (* the pump that closes the caller's channel ends for two reasons only: the context (case 0), or drained after the
     sink was closed; it has no third way out *)
  Extracted.outchan_select_cases =
    ["reflect.SelectRecv reflect.ValueOf(ctx.Done())"; "reflect.SelectRecv reflect.ValueOf(incoming)"; "reflect.SelectSend ch";
     "case 0"; "case 1"; "case 2"]%string.
Proof. repeat split; vm_compute; reflexivity. Qed.

(* in the model: the connection-side close of a sink is not enabled while a value is inside the sink callback *)
Theorem c08_close_not_during_delivery : forall s s', sstep s CcClose = Some s' -> inval s = true -> ctxc s = true.
Proof.
  intros s s' H Hi. unfold sstep in H. destruct (sink s); try discriminate. rewrite Hi in H.
  destruct (ctxc s); [reflexivity|discriminate].
Qed.

(* prefix only, under every cause and every race: nothing invented, duplicated or reordered *)
Theorem c08_prefix_always : forall es s, srun s0 es = Some s -> Prefix (cons s) (tried s).
Proof. intros es s H. exact (proj2 (proj2 (proj2 (prefix_chain es s H)))). Qed.

(* closed exactly once, nothing delivered after the close *)
Theorem c08_closed_is_final : forall s e s', cclosed s = true -> sstep s e = Some s' -> cclosed s' = true /\ cons s' = cons s.
Proof. exact closed_is_final. Qed.

Theorem c08_no_second_close : forall s, cclosed s = true -> sstep s ConsClosed = None /\ forall v, sstep s (ConsRecv v) = None.
Proof. exact no_second_close. Qed.

(* termination, as enabledness + a decreasing measure: whenever a cause has occurred the steps that lead to the
   close are enabled, and the only thing left to wait for is the consumer taking what was already accepted *)
Theorem c08_conn_loss_closes_entry : forall s, sink s = SOpen -> (inval s = false \/ ctxc s = true) ->
  exists s', sstep s CcClose = Some s' /\ sink s' = SClosed.
Proof.
  intros s H G. simpl. rewrite H.
  assert (E : inval s && negb (ctxc s) = false) by (destruct G as [-> | ->]; [reflexivity|apply andb_false_r]).
  rewrite E. eexists. split; reflexivity.
Qed.

Theorem c08_cancel_closes : forall s, ctxc s = true -> cclosed s = false -> exists s', sstep s ConsClosed = Some s' /\ cclosed s' = true.
Proof. intros s H1 H2. simpl. rewrite H1, H2. simpl. eexists. split; reflexivity. Qed.

Theorem c08_drain_then_close : forall s, sink s = SClosed -> cclosed s = false -> Prefix (cons s) (deliv s) ->
  (length (cons s) < length (deliv s) ->
     exists s', sstep s (ConsRecv (nth (length (cons s)) (deliv s) 0%Z)) = Some s' /\ length (deliv s') - length (cons s') < length (deliv s) - length (cons s)) /\
  (length (cons s) = length (deliv s) -> exists s', sstep s ConsClosed = Some s' /\ cclosed s' = true).
Proof.
  intros s Hs Hc Hp. split.
  - intros Hl. simpl. rewrite Hc. unfold next_is. apply Nat.ltb_lt in Hl. rewrite Hl, Z.eqb_refl. simpl.
    eexists. split; [reflexivity|]. simpl. rewrite app_length. simpl. apply Nat.ltb_lt in Hl. lia.
  - intros Hl. simpl. rewrite Hc, Hs, Hl, Nat.eqb_refl. simpl. rewrite orb_true_r. eexists. split; reflexivity.
Qed.

(* a close notification from the server is only acted on after all forwarded values were handed to the sink *)
Theorem c08_server_close_after_values : forall s s', sstep s ChClose = Some s' ->
  fclosed s = true /\ (length (deliv s) = length (fwd s) \/ ctxc s = true).
Proof.
  intros s s' H. simpl in H. destruct (sink s); try discriminate. destruct (fclosed s); [|discriminate]. simpl in H.
  destruct (Nat.eqb (length (deliv s)) (length (fwd s))) eqn:E; simpl in H.
  - apply Nat.eqb_eq in E. auto.
  - destruct (ctxc s); [auto|discriminate].
Qed.

(* the functions this property's model is an abstraction of still have the control / locking / shared-state skeleton the
   model was written against (Skeletons.v, by hand; Extracted.v, regenerated from /repo) *)
Theorem c08_code_skeletons :
  JRGen.Extracted.effects_handleChanMessage = JR.Skeletons.handleChanMessage /\
  JRGen.Extracted.effects_handleChanClose = JR.Skeletons.handleChanClose /\
  JRGen.Extracted.effects_closeChans = JR.Skeletons.closeChans /\
  JRGen.Extracted.effects_makeOutChan = JR.Skeletons.makeOutChan /\
  JRGen.Extracted.effects_handleCtxAsync = JR.Skeletons.handleCtxAsync.
Proof. repeat split; reflexivity. Qed.

Print Assumptions c08_code_skeletons.
Print Assumptions c08_source_facts.
Print Assumptions c08_close_not_during_delivery.
Print Assumptions c08_prefix_always.
Print Assumptions c08_closed_is_final.
Print Assumptions c08_no_second_close.
Print Assumptions c08_conn_loss_closes_entry.
Print Assumptions c08_cancel_closes.
Print Assumptions c08_drain_then_close.
Print Assumptions c08_server_close_after_values.
