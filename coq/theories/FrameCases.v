(* Correspondence side for the frame executor (C10, ws half of C09): harness family `ws-frames`. *)
From Coq Require Import List NArith ZArith Bool Arith String Uint63.
Import ListNotations.
From JR Require Import Json Handle Frame Bytes AuthCases HttpCases.
From JRGen Require Extracted.
Open Scope N_scope.

Definition src_guards : guards :=
  {| g_cancel_len := Extracted.guard_cancel_len; g_cancel_norm := Extracted.guard_cancel_norm;
     g_val_len := Extracted.guard_val_len; g_close_len := Extracted.guard_close_len |}.

Definition srv_tables : tables := {| t_inflight := []; t_handling := []; t_sinks := []; t_has_handler := true |}.
Definition srv_config : config := std_config (Fmt true false) Extracted.default_max_request_size.

Inductive expect := XResp (r : response) | XChan (id : json).

Definition expect_of (b : bytes) : list expect * list invocation * bool :=
  match exec_frame src_guards srv_tables b with
  | ECall r =>
      let '(o, inv) := handle srv_config true r in
      (match o, r_id r with
       | Some resp, None => []          (* a notification's writer is io.Discard on WebSocket: nothing is sent *)
       | Some resp, Some _ => [XResp resp]
       | None, Some id => match inv with [] => [] | _ => [XChan id] end
       | None, None => []
       end, inv, false)
  | ECrash => ([], [], true)
  | _ => ([], [], false)
  end.

Fixpoint remove_first {A} (p : A -> bool) (l : list A) : option (list A) :=
  match l with
  | [] => None
  | x :: r => if p x then Some r else match remove_first p r with Some r' => Some (x :: r') | None => None end
  end.

Definition expect_match (e : expect) (o : json) : bool :=
  match e with
  | XResp r => resp_match r o
  | XChan id => match o with
                | JObj [(k1, id'); (k2, JStr ver); (k3, JNum _)] =>
                    bytes_eqb k1 (q "id") && bytes_eqb k2 (q "jsonrpc") && bytes_eqb k3 (q "result") && json_eqb id id'
                | _ => false
                end
  end.

Fixpoint match_all {A B} (m : A -> B -> bool) (es : list A) (obs : list B) : option (list B) :=
  match es with
  | [] => Some obs
  | e :: es' => match remove_first (m e) obs with Some obs' => match_all m es' obs' | None => None end
  end.

Definition has_key (k : string) (o : json) : bool :=
  match o with JObj l => existsb (fun kv => bytes_eqb (fst kv) (q k)) l | _ => false end.
Definition is_probe_resp (o : json) : bool :=
  match o with JObj ((k, JStr id) :: _) => bytes_eqb k (q "id") && bytes_eqb (firstn 6 id) (q "probe-") | _ => false end.
Definition allowed_extra (o : json) : bool := is_probe_resp o || has_key "method" o.

Fixpoint parse_all (l : list bytes) : option (list json) :=
  match l with
  | [] => Some []
  | b :: r => match parse b, parse_all r with Some v, Some vs => Some (v :: vs) | _, _ => None end
  end.

Record scase := { sc_frames : list (list int); sc_received : list (list int); sc_invs : list (list int * list int);
                  sc_crashed : bool; sc_probe : bool }.

(* 0 = agree; 1 crash disagreement; 2 a received frame is not JSON; 3 an expected response is missing;
   4 an unexpected frame was received; 5 invocations differ; 6 probe failed *)
Definition scase_diag (c : scase) : N :=
  let exps := map (fun f => expect_of (unpack f)) (sc_frames c) in
  let model_crash := existsb (fun e => snd e) exps in
  if negb (Bool.eqb model_crash (sc_crashed c)) then 1 else
  if sc_crashed c then 0 else
  match parse_all (map unpack (sc_received c)) with
  | None => 2
  | Some obs =>
      match match_all expect_match (flat_map (fun e => fst (fst e)) exps) obs with
      | None => 3
      | Some leftover => if negb (forallb allowed_extra leftover) then 4 else
          match match_all (inv_match std_types) (flat_map (fun e => snd (fst e)) exps)
                          (map (fun p => (unpack (fst p), unpack (snd p))) (sc_invs c)) with
          | Some [] => if sc_probe c then 0 else 6
          | _ => 5
          end
      end
  end.
Definition scase_ok (c : scase) : bool := N.eqb (scase_diag c) 0.

(* client role: one blocked call (id given), one live subscription with channel id 5 (element type int) *)
Record ccase := { cc_frames : list (list int); cc_block_id : list int; cc_vals : list Z; cc_open : bool;
                  cc_crashed : bool; cc_probe : bool; cc_has_handler : bool }.

Fixpoint client_run (t : tables) (fs : list bytes) (vals : list Z) : option (tables * list Z) :=
  match fs with
  | [] => Some (t, rev' vals)
  | b :: r =>
      match exec_frame src_guards t b with
      | ECrash => None
      | EChanVal chid v true =>
          if accepts TInt v then client_run t r (as_int (view TInt v) :: vals) else client_run t r vals
      | EChanClose chid true =>
          client_run {| t_inflight := t_inflight t; t_handling := t_handling t;
                        t_sinks := filter (fun z => negb (Z.eqb z chid)) (t_sinks t); t_has_handler := t_has_handler t |} r vals
      | _ => client_run t r vals
      end
  end.

Fixpoint zlist_eqb (a b : list Z) : bool :=
  match a, b with [], [] => true | x :: a', y :: b' => Z.eqb x y && zlist_eqb a' b' | _, _ => false end.

Definition ccase_diag (c : ccase) : N :=
  let t0 := {| t_inflight := match parse (unpack (cc_block_id c)) with Some j => [j] | None => [] end;
               t_handling := []; t_sinks := [5%Z]; t_has_handler := cc_has_handler c |} in
  match client_run t0 (map unpack (cc_frames c)) [] with
  | None => if cc_crashed c then 0 else 1
  | Some (t, vals) =>
      if cc_crashed c then 1
      else if negb (zlist_eqb vals (cc_vals c)) then 2
      else if negb (Bool.eqb (mem_z 5 (t_sinks t)) (cc_open c)) then 3
      else if cc_probe c then 0 else 6
  end.
Definition ccase_ok (c : ccase) : bool := N.eqb (ccase_diag c) 0.
