From Coq Require Import List NArith Bool Arith Lia.
Import ListNotations.
From JR Require Import Reader.

Section P.
Context {byte : Type}.
Notation wrc := (wrc byte).
Notation obs := (obs byte).

Lemma signal_once_rest (w : wrc) : rest (signal true w) = rest w.
Proof. unfold signal. destruct (wait_closed w); reflexivity. Qed.
Lemma signal_once_crashed (w : wrc) : crashed (signal true w) = crashed w.
Proof. unfold signal. destruct (wait_closed w); reflexivity. Qed.
Lemma signal_once_body (w : wrc) : body_closed (signal true w) = body_closed w.
Proof. unfold signal. destruct (wait_closed w); reflexivity. Qed.
Lemma signal_once_sticky (w : wrc) : sticky (signal true w) = sticky w.
Proof. unfold signal. destruct (wait_closed w); reflexivity. Qed.
Lemma signal_once_wait (w : wrc) : wait_closed (signal true w) = true.
Proof. unfold signal. destruct (wait_closed w) eqn:E; [exact E|reflexivity]. Qed.

(* the stream invariant: bytes handed out so far ++ bytes still to come = payload; no crash;
   a remembered EOF means nothing is left *)
Definition Inv (payload acc : list byte) (w : wrc) : Prop :=
  acc ++ rest w = payload /\ crashed w = false /\ (sticky w = Some EOF -> rest w = []).

Ltac sig_rw := rewrite ?signal_once_rest, ?signal_once_crashed, ?signal_once_body, ?signal_once_sticky, ?signal_once_wait in *.

Ltac fin H Hc w' ob :=
  rewrite ?Hc in H; sig_rw; simpl in H; rewrite ?Hc in H; injection H as Hw Ho; subst w' ob;
  unfold Inv; simpl; rewrite ?app_nil_r; sig_rw; simpl.

Lemma step_inv payload acc (w : wrc) o w' ob :
  Inv payload acc w -> step repaired w o = Some (w', ob) ->
  Inv payload (acc ++ obs_data ob) w' /\ ob <> OPanic /\
  (is_eof ob = true -> sticky w' = Some EOF) /\
  (forall e, sticky w = Some e -> sticky w' = Some e).
Proof.
  intros (Hacc & Hc & Hst) H. unfold step in H. rewrite Hc in H. simpl keep_err in H. simpl once in H. cbv iota in H.
  destruct o as [n k early| |].
  - destruct (sticky w) as [e|] eqn:Est.
    + destruct (Nat.eqb k 0); [|discriminate]. fin H Hc w' ob. rewrite Est.
      repeat split; auto; try discriminate.
      destruct e; simpl; try discriminate; auto.
    + destruct (read_choice_ok w n k early) eqn:Hok; simpl in H; [|discriminate].
      unfold inner_read in H. unfold read_choice_ok in Hok.
      destruct (body_closed w) eqn:Hb.
      * apply andb_prop in Hok. destruct Hok as [_ Hok].
        destruct early; simpl in Hok; fin H Hc w' ob; repeat split; auto; try discriminate.
        intros _. destruct (rest w); [reflexivity|discriminate].
      * destruct (rest w) as [|b r] eqn:Hr.
        -- fin H Hc w' ob. rewrite app_nil_r in Hacc. destruct k; simpl; rewrite ?app_nil_r; repeat split; auto; try discriminate.
        -- destruct early.
           ++ fin H Hc w' ob.
              apply andb_prop in Hok. destruct Hok as [_ Hk]. simpl in Hk. apply Nat.eqb_eq in Hk.
              repeat split; auto; try discriminate.
              ** rewrite <- app_assoc, firstn_skipn. exact Hacc.
              ** intros _. rewrite Hk. apply skipn_all.
           ++ fin H Hc w' ob.
              repeat split; auto; try discriminate.
              rewrite <- app_assoc, firstn_skipn. exact Hacc.
  - fin H Hc w' ob. repeat split; auto; try discriminate.
  - destruct (wait_closed w); [|discriminate]. fin H Hc w' ob. repeat split; auto; try discriminate.
Qed.

Lemma run_inv payload ops : forall acc (w w' : wrc) l,
  Inv payload acc w -> run repaired w ops = Some (w', l) ->
  Inv payload (acc ++ received l) w' /\ has_panic l = false /\
  (saw_eof l = true -> sticky w' = Some EOF) /\
  (forall e, sticky w = Some e -> sticky w' = Some e).
Proof.
  induction ops as [|o ops IH]; intros acc w w' l HI Hr; simpl in Hr.
  - injection Hr as Hw Hl; subst w' l. simpl. rewrite app_nil_r. split; [exact HI|]. repeat split; auto. discriminate.
  - destruct (step repaired w o) as [[w1 ob]|] eqn:Hs; [|discriminate].
    destruct (run repaired w1 ops) as [[w2 l']|] eqn:Hr2; [|discriminate].
    injection Hr as Hw Hl; subst w' l.
    destruct (step_inv _ _ _ _ _ _ HI Hs) as (HI1 & Hnp & He1 & Hk1).
    destruct (IH _ _ _ _ HI1 Hr2) as (HI2 & Hp2 & He2 & Hk2).
    repeat split.
    + unfold received in *. simpl. rewrite app_assoc. apply HI2.
    + apply HI2.
    + apply HI2.
    + simpl. rewrite Hp2. destruct ob; try reflexivity. congruence.
    + simpl. intros H. apply orb_prop in H. destruct H as [H|H]; [apply Hk2; apply He1; exact H | apply He2; exact H].
    + intros e He. apply Hk2. apply Hk1. exact He.
Qed.

Lemma init_inv (payload : list byte) : Inv payload [] (wrc_init payload).
Proof. repeat split; simpl; auto. discriminate. Qed.

(* prefix, always *)
Lemma received_prefix (payload : list byte) ops (w' : wrc) l :
  run repaired (wrc_init payload) ops = Some (w', l) ->
  received l ++ rest w' = payload /\ has_panic l = false.
Proof.
  intros Hr. destruct (run_inv _ _ _ _ _ _ (init_inv payload) Hr) as ((H1 & _) & H2 & _). simpl in H1. auto.
Qed.

(* complete once EOF has been seen *)
Lemma received_all_on_eof (payload : list byte) ops (w' : wrc) l :
  run repaired (wrc_init payload) ops = Some (w', l) -> saw_eof l = true -> received l = payload.
Proof.
  intros Hr He. destruct (run_inv _ _ _ _ _ _ (init_inv payload) Hr) as ((H1 & _ & H3) & _ & H4 & _).
  simpl in H1. rewrite (H3 (H4 He)), app_nil_r in H1. exact H1.
Qed.

(* EOF is sticky: once an EOF has been reported, whatever happens next (further reads with any buffer size,
   Close, net/http closing the body behind the handler's back) every Read reports (0, EOF) *)
Lemma sticky_read (w : wrc) e n k early w' ob :
  sticky w = Some e -> step repaired w (Read n k early) = Some (w', ob) -> ob = ORead [] e /\ w' = w.
Proof.
  intros Hs H. unfold step in H. destruct (crashed w); [discriminate|]. simpl keep_err in H. cbv iota in H.
  rewrite Hs in H. destruct (Nat.eqb k 0); [|discriminate]. injection H as Hw Ho. auto.
Qed.

Lemma sticky_preserved (w : wrc) e o w' ob :
  sticky w = Some e -> step repaired w o = Some (w', ob) -> sticky w' = Some e /\ (forall d e', ob = ORead d e' -> d = [] /\ e' = e).
Proof.
  intros Hs H. destruct o as [n k early| |].
  - destruct (sticky_read _ _ _ _ _ _ _ Hs H) as [-> ->]. split; [exact Hs|]. intros d e' Hq. injection Hq as <- <-. auto.
  - unfold step in H. destruct (crashed w) eqn:Hc; [discriminate|]. simpl once in H. sig_rw. rewrite ?Hc in H.
    injection H as Hw Ho; subst w' ob; simpl. sig_rw. split; [exact Hs|discriminate].
  - unfold step in H. destruct (crashed w); [discriminate|]. destruct (wait_closed w); [|discriminate].
    injection H as Hw Ho; subst w' ob; simpl. split; [exact Hs|discriminate].
Qed.

Lemma sticky_run e ops : forall (w w' : wrc) l,
  sticky w = Some e -> run repaired w ops = Some (w', l) ->
  Forall (fun o => forall d e', o = ORead d e' -> d = [] /\ e' = e) l.
Proof.
  induction ops as [|o ops IH]; intros w w' l Hs Hr; simpl in Hr.
  - injection Hr as _ Hl; subst l. constructor.
  - destruct (step repaired w o) as [[w1 ob]|] eqn:Hst; [|discriminate].
    destruct (run repaired w1 ops) as [[w2 l']|] eqn:Hr2; [|discriminate].
    injection Hr as _ Hl; subst l. destruct (sticky_preserved _ _ _ _ _ Hs Hst) as [Hs1 Hob].
    constructor; [exact Hob | eapply IH; eauto].
Qed.

Lemma eof_sticky_run (payload : list byte) ops1 ops2 (w1 w2 : wrc) l1 l2 :
  run repaired (wrc_init payload) ops1 = Some (w1, l1) -> saw_eof l1 = true ->
  run repaired w1 ops2 = Some (w2, l2) ->
  Forall read_is_empty_eof l2.
Proof.
  intros H1 He H2.
  destruct (run_inv _ _ _ _ _ _ (init_inv payload) H1) as (_ & _ & Hs & _).
  pose proof (sticky_run EOF _ _ _ _ (Hs He) H2) as HF.
  eapply Forall_impl; [|exact HF]. intros o Ho. destruct o; simpl; auto.
Qed.

(* the upload is released exactly when the handler saw an error (EOF included) or closed *)
Definition releases (o : obs) : bool := match o with ORead _ NoErr => false | OSrv => false | _ => true end.

Definition J (w : wrc) : Prop :=
  crashed w = false /\ (sticky w <> None -> wait_closed w = true /\ sticky w <> Some NoErr).

Lemma step_released (w : wrc) o w' ob :
  J w -> step repaired w o = Some (w', ob) ->
  wait_closed w' = wait_closed w || releases ob /\ J w'.
Proof.
  intros [Hc Hj] H. unfold step in H. rewrite Hc in H. simpl keep_err in H. simpl once in H. cbv iota in H.
  destruct o as [n k early| |].
  - destruct (sticky w) as [e|] eqn:Es.
    + destruct (Nat.eqb k 0); [|discriminate]. injection H as Hw Ho; subst w' ob.
      destruct Hj as [Hj1 Hj2]; [discriminate|]. rewrite Hj1. simpl. split; [reflexivity|].
      split; [exact Hc|]. rewrite Es. intros _. split; [exact Hj1|exact Hj2].
    + destruct (read_choice_ok w n k early); simpl in H; [|discriminate].
      unfold inner_read in H. destruct (body_closed w).
      * destruct early; sig_rw; simpl in H; rewrite ?Hc in H; injection H as Hw Ho; subst w' ob; unfold J; sig_rw; simpl;
          (split; [destruct (wait_closed w); reflexivity|]); (split; [reflexivity|]); intros _; (split; [reflexivity|discriminate]).
      * destruct (rest w) as [|b r].
        -- sig_rw; simpl in H; rewrite ?Hc in H; injection H as Hw Ho; subst w' ob; unfold J; sig_rw; simpl.
           split; [destruct (wait_closed w); reflexivity|]. split; [reflexivity|]. intros _. split; [reflexivity|discriminate].
        -- destruct early.
           ++ sig_rw; simpl in H; rewrite ?Hc in H; injection H as Hw Ho; subst w' ob; unfold J; sig_rw; simpl.
              split; [destruct (wait_closed w); reflexivity|]. split; [reflexivity|]. intros _. split; [reflexivity|discriminate].
           ++ injection H as Hw Ho; subst w' ob; unfold J; simpl.
              split; [destruct (wait_closed w); reflexivity|]. split; [reflexivity|]. intros C; congruence.
  - sig_rw. rewrite ?Hc in H. injection H as Hw Ho; subst w' ob; unfold J; simpl. sig_rw.
    split; [destruct (wait_closed w); reflexivity|]. split; [reflexivity|]. intros Hs. split; [reflexivity|].
    intros C. destruct (Hj Hs) as [_ Hn]. exact (Hn C).
  - destruct (wait_closed w) eqn:E; [|discriminate]. injection H as Hw Ho; subst w' ob; unfold J; simpl.
    split; [reflexivity|]. split; [reflexivity|]. intros Hs. split; [reflexivity|]. apply (Hj Hs).
Qed.

Lemma run_released ops : forall (w w' : wrc) l,
  J w -> run repaired w ops = Some (w', l) -> wait_closed w' = wait_closed w || existsb releases l.
Proof.
  induction ops as [|o ops IH]; intros w w' l HJ Hr; simpl in Hr.
  - injection Hr as Hw Hl; subst w' l. simpl. rewrite orb_false_r. reflexivity.
  - destruct (step repaired w o) as [[w1 ob]|] eqn:Hs; [|discriminate].
    destruct (run repaired w1 ops) as [[w2 l']|] eqn:Hr2; [|discriminate].
    injection Hr as Hw Hl; subst w' l. destruct (step_released _ _ _ _ HJ Hs) as [H1 HJ1].
    rewrite (IH _ _ _ HJ1 Hr2), H1. simpl. rewrite orb_assoc. reflexivity.
Qed.

Lemma upload_released_iff (payload : list byte) ops (w : wrc) l :
  run repaired (wrc_init payload) ops = Some (w, l) -> wait_closed w = existsb releases l.
Proof.
  intros Hr. assert (J (wrc_init payload)) as HJ by (split; simpl; [reflexivity|congruence]).
  rewrite (run_released _ _ _ _ HJ Hr). reflexivity.
Qed.
End P.

(* witnesses of the two repaired defects *)
Lemma refuted_without_once :
  exists ops w l, run {| once := false; keep_err := true |} (wrc_init [1%N; 2%N]) ops = Some (w, l) /\ has_panic l = true.
Proof.
  exists [Read 8 2 true; Close]. eexists. eexists. split; [vm_compute; reflexivity|reflexivity].
Qed.

Lemma refuted_without_keep_err :
  exists ops w l, run {| once := true; keep_err := false |} (wrc_init [1%N; 2%N]) ops = Some (w, l) /\
                  l = [ORead [1%N; 2%N] EOF; OSrv; ORead [] ErrClosed].
Proof.
  exists [Read 8 2 true; SrvClose; Read 8 0 false]. eexists. eexists. split; [vm_compute; reflexivity|reflexivity].
Qed.

(* --- rendezvous *)
Section RV.
Context {byte : Type}.
Notation party := (party byte).
Notation rv := (rv byte).

Lemma take_first_some {A} (f : A -> bool) l x r :
  take_first f l = Some (x, r) -> f x = true /\ In x l /\ (forall y, In y r -> In y l).
Proof.
  revert x r. induction l as [|y l IH]; simpl; intros x r H; [discriminate|].
  destruct (f y) eqn:Ey.
  - inversion H; subst. auto.
  - destruct (take_first f l) as [[z r']|] eqn:Et; [|discriminate].
    inversion H; subst. destruct (IH _ _ eq_refl) as [H1 [H2 H3]].
    split; [exact H1|]. split; [right; exact H2|].
    intros y0 [->|Hy]; [left; reflexivity | right; apply H3; exact Hy].
Qed.

Lemma pair_either_order u (pl : list byte) who :
  matched (arrive_all [Upload u pl; Decode u who]) = [(who, pl)] /\
  matched (arrive_all [Decode u who; Upload u pl]) = [(who, pl)].
Proof. unfold arrive_all; simpl. rewrite !N.eqb_refl. simpl. auto. Qed.

Definition RvInv (ps : list party) (s : rv) : Prop :=
  (forall u pl, In (u, pl) (up_waiting s) -> In (Upload u pl) ps) /\
  (forall u who, In (u, who) (dec_waiting s) -> In (Decode u who) ps) /\
  (forall who pl, In (who, pl) (matched s) -> exists u, In (Upload u pl) ps /\ In (Decode u who) ps).

Lemma RvInv_mono ps p s : RvInv ps s -> RvInv (ps ++ [p]) s.
Proof.
  intros [H1 [H2 H3]]. repeat split.
  - intros u pl Hin. apply in_or_app. left. apply H1; exact Hin.
  - intros u who Hin. apply in_or_app. left. apply H2; exact Hin.
  - intros who pl Hin. destruct (H3 _ _ Hin) as [u [Ha Hb]]. exists u. split; apply in_or_app; left; assumption.
Qed.

Lemma arrive_inv ps s p : RvInv ps s -> RvInv (ps ++ [p]) (arrive s p).
Proof.
  intros HI. pose proof (RvInv_mono ps p s HI) as [H1 [H2 H3]].
  assert (In p (ps ++ [p])) as Hp by (apply in_or_app; right; left; reflexivity).
  destruct p as [u pl|u who]; simpl.
  - destruct (take_first (fun d => (fst d =? u)%N) (dec_waiting s)) as [[[u' who] r]|] eqn:Et.
    + destruct (take_first_some _ _ _ _ Et) as [Hf [Hin Hr]]. simpl in Hf. apply N.eqb_eq in Hf. subst u'.
      repeat split; simpl.
      * exact H1.
      * intros u0 w0 Hi. apply H2. apply Hr. exact Hi.
      * intros w0 pl0 [Heq|Hi]; [|apply H3; exact Hi]. inversion Heq; subst. exists u. split; [exact Hp|apply H2; exact Hin].
    + repeat split; simpl; [|exact H2|exact H3].
      intros u0 pl0 Hi. apply in_app_or in Hi. destruct Hi as [Hi|[Heq|[]]]; [apply H1; exact Hi|inversion Heq; subst; exact Hp].
  - destruct (take_first (fun d => (fst d =? u)%N) (up_waiting s)) as [[[u' pl] r]|] eqn:Et.
    + destruct (take_first_some _ _ _ _ Et) as [Hf [Hin Hr]]. simpl in Hf. apply N.eqb_eq in Hf. subst u'.
      repeat split; simpl.
      * intros u0 pl0 Hi. apply H1. apply Hr. exact Hi.
      * exact H2.
      * intros w0 pl0 [Heq|Hi]; [|apply H3; exact Hi]. inversion Heq; subst. exists u. split; [apply H1; exact Hin|exact Hp].
    + repeat split; simpl; [exact H1| |exact H3].
      intros u0 w0 Hi. apply in_app_or in Hi. destruct Hi as [Hi|[Heq|[]]]; [apply H2; exact Hi|inversion Heq; subst; exact Hp].
Qed.

Lemma fold_arrive_inv : forall qs ps s, RvInv ps s -> RvInv (ps ++ qs) (fold_left arrive qs s).
Proof.
  induction qs as [|q qs IH]; intros ps s HI; simpl.
  - rewrite app_nil_r. exact HI.
  - replace (ps ++ q :: qs) with ((ps ++ [q]) ++ qs) by (rewrite <- app_assoc; reflexivity).
    apply IH. apply arrive_inv. exact HI.
Qed.

Lemma matched_sound (ps : list party) who pl :
  In (who, pl) (matched (arrive_all ps)) -> exists u, In (Upload u pl) ps /\ In (Decode u who) ps.
Proof.
  intros Hin. assert (RvInv [] rv_init) as H0 by (repeat split; simpl; intros; contradiction).
  pose proof (fold_arrive_inv ps [] rv_init H0) as [_ [_ H3]]. simpl in H3. apply H3. exact Hin.
Qed.
End RV.
