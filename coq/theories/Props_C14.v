(* C14 — Concurrent writers never corrupt or interleave WebSocket messages.
   Two halves: (1) a generic theorem: any number of goroutines, any schedule, each following a path that obeys the lock
   discipline => every write is made by the one holder of the write lock (so a message written between one
   acquisition and its release is contiguous on the wire); (2) obligations evaluated over the lock table that the
   translator regenerates from /repo on every run: every write-side operation and the connection swap hold
   c.writeLk on every path, the four shared tables are accessed under their own mutex, the write lock is not
   re-entered, the lock order is acyclic, and the hand-over protocol of the lazy response writer has the three
   textual properties it rests on. Statements only; proofs in Locks_Proofs.v. *)
From Coq Require Import String.
From Coq Require Import List Bool Arith.
Import ListNotations.
From JR Require Import Locks Locks_Proofs.
From JRGen Require Import LockTable.
From JR Require Skeletons.
From JRGen Require Extracted.

Theorem c14_table_ok :
  conn_writes_locked lock_rows = true /\ maps_guarded lock_rows = true /\
  no_reentrant_writeLk lock_rows = true /\ lock_order_acyclic lock_rows = true /\
  existsb (fun p => String.eqb (fst p) "nextWriter" && mem_s "c.writeLk" (snd p)) callback_locks = true /\
  lazy_write_after_acquired = true /\ lazy_callback_waits_done = true /\ lazy_done_closed_after_cb = true.
Proof. vm_compute. repeat split. Qed.

(* the writers are enumerated by the translator, not by hand; this pins the set found on the current tree so that a
   new write site is looked at (it still has to satisfy c14_table_ok) *)
Theorem c14_write_sites :
  map (fun r => (r_fn r, r_what r)) (filter (fun r => String.eqb (r_op r) "conn-write" || String.eqb (r_op r) "conn-swap" || String.eqb (r_op r) "conn-control") lock_rows) =
  [("nextWriter", "c.conn.NextWriter"); ("nextWriter", "wcl.Close"); ("sendRequest", "c.conn.WriteJSON");
   ("handleOutChans$cb(nextWriter#0)", "json.NewEncoder(w).Encode"); ("setupPings$cb(SetPingHandler#0)", "conn.WriteControl");
   ("setupPings$go", "c.conn.WriteMessage"); ("tryReconnect$go", "c.conn ="); ("handleWsConn", "c.conn.Close");
   ("handleWsConn", "c.conn.WriteMessage"); ("handleWsConn", "c.conn.Close")]%string.
Proof. vm_compute. reflexivity. Qed.

(* mutual exclusion: any number of goroutines whose paths obey the discipline, any schedule: every executed write is
   made by a goroutine that holds the lock while no other goroutine does *)
Theorem c14_mutex : forall (progs : list (list lop)) (sched : list nat),
  forallb (wl false) progs = true ->
  Forall (fun ev => match ev with
                    | (i, LWrite, holders) => nth i holders false = true /\ forall j, j <> i -> nth j holders false = false
                    | _ => True end)
         (fst (exec (map (fun p => (p, false)) progs) sched)).
Proof.
  intros progs sched H. destruct (initial_ok progs H) as [HE HW]. apply exec_writes_exclusive; assumption.
Qed.

(* the lazily acquired writer is such a path, for every number of chunks the encoder writes *)
Theorem c14_lazy_writer : forall n, wl false (lazy_path n) = true.
Proof.
  intros n. unfold lazy_path. simpl. induction n as [|n IH]; simpl; [reflexivity|exact IH].
Qed.

(* the paths of the current tree, projected on the write lock: each writer is acquire, write(s), release *)
Example c14_paths_ok :
  forallb (wl false) [[LAcq; LWrite; LWrite; LRel] (* nextWriter: NextWriter, cb writes, Close *);
                      [LAcq; LWrite; LRel] (* sendRequest *); [LAcq; LWrite; LRel] (* ping *);
                      [LAcq; LOther; LRel] (* connection swap *); [LAcq; LWrite; LWrite; LRel] (* stop: close frame, Close *)] = true.
Proof. reflexivity. Qed.

(* the functions this property's model is an abstraction of still have the control / locking / shared-state skeleton the
   model was written against (Skeletons.v, by hand; Extracted.v, regenerated from /repo) *)
Theorem c14_code_skeletons :
  (* a pong is written with a deadline of one second from now (never unbounded, never already past), and no write deadline
     is ever set on the connection itself *)
  JRGen.Extracted.write_control_calls = ["conn.WriteControl(websocket.PongMessage, []byte(appData), time.Now().Add(time.Second))"]%string /\
  JRGen.Extracted.write_deadline_calls = [] /\
  JRGen.Extracted.effects_sendRequest = JR.Skeletons.sendRequest /\
  JRGen.Extracted.effects_nextWriter = JR.Skeletons.nextWriter /\
  JRGen.Extracted.effects_handleOutChans = JR.Skeletons.handleOutChans.
Proof. repeat split; reflexivity. Qed.

Print Assumptions c14_code_skeletons.
Print Assumptions c14_table_ok.
Print Assumptions c14_write_sites.
Print Assumptions c14_mutex.
Print Assumptions c14_lazy_writer.
