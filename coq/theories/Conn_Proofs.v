From Coq Require Import List NArith Bool Arith Lia.
Import ListNotations.
From JR Require Import Conn.
Open Scope N_scope.

(* ---------- association-list facts *)
Lemma lookup_update_same id c l c0 : lookup id l = Some c0 -> lookup id (update id c l) = Some c.
Proof.
  induction l as [|[k x] l IH]; simpl; [discriminate|].
  destruct (k =? id) eqn:E; simpl; rewrite E; [reflexivity|exact IH].
Qed.

Lemma lookup_update_other id id' c l : id' <> id -> lookup id' (update id c l) = lookup id' l.
Proof.
  intros Hn. induction l as [|[k x] l IH]; simpl; [reflexivity|].
  destruct (k =? id) eqn:E; simpl.
  - apply N.eqb_eq in E. subst k. destruct (id =? id') eqn:E2; [apply N.eqb_eq in E2; congruence|reflexivity].
  - destruct (k =? id'); [reflexivity|exact IH].
Qed.

Lemma lookup_update id id' c l c0 :
  lookup id l = Some c0 -> lookup id' (update id c l) = if id' =? id then Some c else lookup id' l.
Proof.
  intros H. destruct (id' =? id) eqn:E.
  - apply N.eqb_eq in E. subst. eapply lookup_update_same; eauto.
  - apply N.eqb_neq in E. apply lookup_update_other; auto.
Qed.

Lemma find_remove id id' l : find_att id' (remove_id id l) = if id' =? id then None else find_att id' l.
Proof.
  induction l as [|[k a] l IH]; simpl; [destruct (id' =? id); reflexivity|].
  destruct (k =? id) eqn:E; simpl.
  - rewrite IH. apply N.eqb_eq in E. subst k. destruct (id' =? id) eqn:E2; [reflexivity|].
    rewrite N.eqb_sym, E2. reflexivity.
  - destruct (k =? id') eqn:E3.
    + apply N.eqb_eq in E3. subst k. rewrite E. reflexivity.
    + exact IH.
Qed.

Lemma find_cons id id' a l : find_att id' ((id, a) :: l) = if id =? id' then Some a else find_att id' l.
Proof. reflexivity. Qed.

Lemma lookup_cons id id' c l : lookup id' ((id, c) :: l) = if id =? id' then Some c else lookup id' l.
Proof. reflexivity. Qed.

(* ---------- the invariant *)
Definition tw (p : phase) : bool := match p with PTaken | PWait => true | _ => false end.

Record Inv (s : st) : Prop := {
  (* in-flight entries and the executor's request belong to existing calls; if they are of the call's current
     attempt, the call is registered *)
  inv_entry : forall id att, find_att id (inflight s) = Some att ->
      exists c, lookup id (calls s) = Some c /\ (att <= attempts c)%nat /\ (att = attempts c -> registered c = true);
  inv_exec : forall id att, (exe s = ELooked id att \/ exe s = EDelivered id att) ->
      exists c, lookup id (calls s) = Some c /\ (att <= attempts c)%nat /\ (att = attempts c -> registered c = true);
  (* orphan-freedom *)
  inv_orphan : forall id c, lookup id (calls s) = Some c -> pending_empty c = true ->
      entry_is s id (attempts c) = true \/ exec_looked s id (attempts c) = true;
  inv_delivered : forall id att c, exe s = EDelivered id att -> lookup id (calls s) = Some c -> attempts c = att ->
      pending_empty c = false;
  inv_phase : forall id c, lookup id (calls s) = Some c ->
      (ph c = PEnq -> registered c = false) /\
      (ph c = PWait -> registered c = false -> mbox c <> []) /\
      (ph c = PTaken -> holding_is s id = true) /\
      (match ph c with PEnq | PTaken => writes c < attempts c | _ => writes c <= attempts c end)%nat /\
      (retry c = false -> attempts c = 1%nat);
  inv_holding : forall id, holding_is s id = true -> exists c, lookup id (calls s) = Some c /\ ph c = PTaken;
  inv_link : inflight s <> [] -> is_up s = true \/ cif_pending s = true
}.

Lemma inv_init : Inv init.
Proof.
  constructor; simpl; intros; try discriminate; try congruence.
  destruct H; discriminate.
Qed.

Lemma holding_is_inj s id id' : holding_is s id = true -> holding_is s id' = true -> id = id'.
Proof.
  unfold holding_is. destruct (holding s) as [[k|]|]; try discriminate.
  intros H1 H2. apply N.eqb_eq in H1. apply N.eqb_eq in H2. congruence.
Qed.

Lemma pending_push r c : pending_empty (push r c) = false.
Proof. unfold pending_empty, push; simpl. destruct (mbox c); simpl; rewrite andb_false_r; reflexivity. Qed.

Lemma pending_push_att_cur r c : pending_empty (push_att (attempts c) r c) = false.
Proof. unfold push_att. rewrite Nat.eqb_refl. apply pending_push. Qed.

Lemma push_att_fields att r c :
  ph (push_att att r c) = ph c /\ attempts (push_att att r c) = attempts c /\ registered (push_att att r c) = registered c /\
  writes (push_att att r c) = writes c /\ retry (push_att att r c) = retry c /\ got (push_att att r c) = got c.
Proof. unfold push_att. destruct (Nat.eqb att (attempts c)); simpl; auto 10. Qed.

Lemma push_att_mbox_ne att r c : mbox c <> [] -> mbox (push_att att r c) <> [].
Proof. unfold push_att. destruct (Nat.eqb att (attempts c)); simpl; auto. destruct (mbox c); simpl; congruence. Qed.

Lemma pending_push_att att r c : pending_empty c = false -> pending_empty (push_att att r c) = false.
Proof.
  unfold push_att. destruct (Nat.eqb att (attempts c)); [intros _; apply pending_push|auto].
Qed.

(* ---------- preservation, one lemma per event *)
Ltac inv_step H := unfold step in H; simpl strict_window in H; simpl own_delete in H.

Ltac proj := cbn [calls inflight lnk cif_pending holding exe set_calls set_inflight set_link set_holding set_exe] in *.
Ltac split_inv := constructor; proj; unfold entry_is, exec_looked, holding_is, is_up in *; proj.

Lemma pres_CallStart s id rt s' : Inv s -> step repaired_c s (CallStart id rt) = Some s' -> Inv s'.
Proof.
  intros I H. inv_step H. destruct (lookup id (calls s)) eqn:L; [discriminate|]. injection H as <-.
  split_inv.
  - intros i a Hf. destruct (inv_entry s I i a Hf) as (c & Hc & Hr). exists c. rewrite lookup_cons.
    destruct (id =? i) eqn:E; [apply N.eqb_eq in E; subst; congruence|auto].
  - intros i a Hf. destruct (inv_exec s I i a Hf) as (c & Hc & Hr). exists c. rewrite lookup_cons.
    destruct (id =? i) eqn:E; [apply N.eqb_eq in E; subst; congruence|auto].
  - intros i c. rewrite lookup_cons. destruct (id =? i) eqn:E.
    + intros Hc; injection Hc as <-. discriminate.
    + intros Hc Hp. destruct (inv_orphan s I i c Hc Hp); auto.
  - intros i a c He. rewrite lookup_cons. destruct (id =? i) eqn:E.
    + intros Hc; injection Hc as <-. reflexivity.
    + intros Hc. eapply (inv_delivered s I); eauto.
  - intros i c. rewrite lookup_cons. destruct (id =? i) eqn:E.
    + intros Hc; injection Hc as <-. simpl. repeat split; try discriminate; auto.
    + intros Hc. exact (inv_phase s I i c Hc).
  - intros i Hh. destruct (inv_holding s I i Hh) as (c & Hc & Hp). exists c. rewrite lookup_cons.
    destruct (id =? i) eqn:E; [apply N.eqb_eq in E; subst; congruence|auto].
  - exact (inv_link s I).
Qed.

Ltac same_id E := apply N.eqb_eq in E; subst.

(* LoopTake *)
Lemma pres_LoopTake s id s' : Inv s -> step repaired_c s (LoopTake id) = Some s' -> Inv s'.
Proof.
  intros I H. inv_step H. destruct (is_exited s); [discriminate|].
  destruct (holding s) as [hh|] eqn:Hh; [discriminate|].
  destruct (lookup id (calls s)) as [c|] eqn:L; [|discriminate].
  destruct (ph c) eqn:P; try discriminate. injection H as <-.
  assert (NoTaken : forall i x, lookup i (calls s) = Some x -> ph x <> PTaken).
  { intros i x Hx Hp. destruct (inv_phase s I i x Hx) as (_ & _ & Ht & _). specialize (Ht Hp).
    unfold holding_is in Ht. rewrite Hh in Ht. discriminate. }
  destruct (inv_phase s I id c L) as (P1 & P2 & P3 & P4 & P5).
  split_inv.
  - intros i a Hf. destruct (inv_entry s I i a Hf) as (x & Hx & Hr). rewrite (lookup_update _ _ _ _ _ L).
    destruct (i =? id) eqn:E; [same_id E; rewrite L in Hx; injection Hx as <-; exists (with_ph PTaken c); auto|eauto].
  - intros i a Hf. destruct (inv_exec s I i a Hf) as (x & Hx & Hr). rewrite (lookup_update _ _ _ _ _ L).
    destruct (i =? id) eqn:E; [same_id E; rewrite L in Hx; injection Hx as <-; exists (with_ph PTaken c); auto|eauto].
  - intros i x. rewrite (lookup_update _ _ _ _ _ L). destruct (i =? id) eqn:E.
    + intros Hx; injection Hx as <-. unfold pending_empty; simpl. rewrite (P1 P). discriminate.
    + intros Hx Hp. exact (inv_orphan s I i x Hx Hp).
  - intros i a x He. rewrite (lookup_update _ _ _ _ _ L). destruct (i =? id) eqn:E.
    + intros Hx; injection Hx as <-. intros _. unfold pending_empty; simpl. rewrite (P1 P). reflexivity.
    + intros Hx. eapply (inv_delivered s I); eauto.
  - intros i x. rewrite (lookup_update _ _ _ _ _ L). destruct (i =? id) eqn:E.
    + intros Hx; injection Hx as <-. same_id E. simpl. rewrite P in P4. rewrite N.eqb_refl.
      repeat split; try discriminate; auto.
    + intros Hx. destruct (inv_phase s I i x Hx) as (Q1 & Q2 & Q3 & Q4 & Q5).
      repeat split; auto. intros Hp. exfalso. exact (NoTaken i x Hx Hp).
  - intros i Hi. apply N.eqb_eq in Hi. subst i. exists (with_ph PTaken c). split; [|reflexivity].
    rewrite (lookup_update _ _ _ _ _ L), N.eqb_refl. reflexivity.
  - exact (inv_link s I).
Qed.

(* events that only touch the `holding` flag with no request held *)
Lemma pres_LoopTakeOther s s' : Inv s -> step repaired_c s LoopTakeOther = Some s' -> Inv s'.
Proof.
  intros I H. inv_step H. destruct (is_exited s); [discriminate|].
  destruct (holding s) as [hh|] eqn:Hh; [discriminate|]. injection H as <-.
  split_inv; try (exact (inv_entry s I)); try (exact (inv_exec s I)); try (exact (inv_orphan s I));
    try (exact (inv_delivered s I)); try (exact (inv_link s I)).
  - intros i x Hx. destruct (inv_phase s I i x Hx) as (Q1 & Q2 & Q3 & Q4 & Q5). repeat split; auto.
    intros Hp. specialize (Q3 Hp). unfold holding_is in Q3. rewrite Hh in Q3. discriminate.
  - intros i Hi. discriminate.
Qed.

Lemma pres_LoopSentOther s s' : Inv s -> step repaired_c s LoopSentOther = Some s' -> Inv s'.
Proof.
  intros I H. inv_step H. destruct (holding s) as [[k|]|] eqn:Hh; try discriminate. injection H as <-.
  split_inv; try (exact (inv_entry s I)); try (exact (inv_exec s I)); try (exact (inv_orphan s I));
    try (exact (inv_delivered s I)); try (exact (inv_link s I)).
  - intros i x Hx. destruct (inv_phase s I i x Hx) as (Q1 & Q2 & Q3 & Q4 & Q5). repeat split; auto.
    intros Hp. specialize (Q3 Hp). unfold holding_is in Q3. rewrite Hh in Q3. discriminate.
  - intros i Hi. discriminate.
Qed.

Lemma holding_only s id i x :
  Inv s -> holding_is s id = true -> lookup i (calls s) = Some x -> ph x = PTaken -> i = id.
Proof.
  intros I Hh Hx Hp. destruct (inv_phase s I i x Hx) as (_ & _ & Q3 & _). eapply holding_is_inj; eauto.
Qed.

Lemma pres_LoopFailFast s id s' : Inv s -> step repaired_c s (LoopFailFast id) = Some s' -> Inv s'.
Proof.
  intros I H. inv_step H. destruct (holding_is s id) eqn:Hh; [|discriminate].
  destruct (lookup id (calls s)) as [c|] eqn:L; [|discriminate]. injection H as <-.
  destruct (inv_holding s I id Hh) as (c' & L' & P). rewrite L in L'. injection L' as <-.
  destruct (inv_phase s I id c L) as (P1 & P2 & P3 & P4 & P5).
  split_inv.
  - intros i a Hf. destruct (inv_entry s I i a Hf) as (x & Hx & Hr). rewrite (lookup_update _ _ _ _ _ L).
    destruct (i =? id) eqn:E; [same_id E; rewrite L in Hx; injection Hx as <-; eexists; split; [reflexivity|exact Hr]|eauto].
  - intros i a Hf. destruct (inv_exec s I i a Hf) as (x & Hx & Hr). rewrite (lookup_update _ _ _ _ _ L).
    destruct (i =? id) eqn:E; [same_id E; rewrite L in Hx; injection Hx as <-; eexists; split; [reflexivity|exact Hr]|eauto].
  - intros i x. rewrite (lookup_update _ _ _ _ _ L). destruct (i =? id) eqn:E.
    + intros Hx; injection Hx as <-. unfold pending_empty; simpl. destruct (mbox c); simpl; rewrite andb_false_r; discriminate.
    + intros Hx Hp. exact (inv_orphan s I i x Hx Hp).
  - intros i a x He. rewrite (lookup_update _ _ _ _ _ L). destruct (i =? id) eqn:E.
    + intros Hx; injection Hx as <-. intros _. unfold pending_empty; simpl. destruct (mbox c); simpl; rewrite andb_false_r; reflexivity.
    + intros Hx. eapply (inv_delivered s I); eauto.
  - intros i x. rewrite (lookup_update _ _ _ _ _ L). destruct (i =? id) eqn:E.
    + intros Hx; injection Hx as <-. simpl. rewrite P in P4.
      repeat split; try discriminate; auto; try lia. intros _ _. destruct (mbox c); discriminate.
    + intros Hx. destruct (inv_phase s I i x Hx) as (Q1 & Q2 & Q3 & Q4 & Q5). repeat split; auto.
      intros Hp. exfalso. apply N.eqb_neq in E. apply E. eapply holding_only; eauto.
  - intros i Hi. discriminate.
  - exact (inv_link s I).
Qed.

Lemma pres_LoopRegister s id s' : Inv s -> step repaired_c s (LoopRegister id) = Some s' -> Inv s'.
Proof.
  intros I H. inv_step H. destruct (holding_is s id) eqn:Hh; [|discriminate]. simpl in H.
  destruct (is_up s) eqn:Hu; [|discriminate]. simpl in H.
  destruct (mem_id id (inflight s)) eqn:Hm; [discriminate|]. simpl in H.
  destruct (lookup id (calls s)) as [c|] eqn:L; [|discriminate]. destruct (registered c) eqn:Rg; [discriminate|]. injection H as <-.
  destruct (inv_holding s I id Hh) as (c' & L' & P). rewrite L in L'. injection L' as <-.
  destruct (inv_phase s I id c L) as (P1 & P2 & P3 & P4 & P5).
  unfold mem_id in Hm. destruct (find_att id (inflight s)) eqn:Hf0; [discriminate|].
  split_inv.
  - intros i a. rewrite find_cons. destruct (id =? i) eqn:E.
    + same_id E. intros Ha; injection Ha as <-. exists (set_registered c).
      rewrite (lookup_update _ _ _ _ _ L), N.eqb_refl. simpl. auto.
    + intros Hf. destruct (inv_entry s I i a Hf) as (x & Hx & Hr). rewrite (lookup_update _ _ _ _ _ L).
      rewrite N.eqb_sym, E. eauto.
  - intros i a Hf. destruct (inv_exec s I i a Hf) as (x & Hx & Hr1 & Hr2). rewrite (lookup_update _ _ _ _ _ L).
    destruct (i =? id) eqn:E; [same_id E; rewrite L in Hx; injection Hx as <-; eexists; split; [reflexivity|simpl; auto]|eauto].
  - intros i x. rewrite (lookup_update _ _ _ _ _ L). destruct (i =? id) eqn:E.
    + intros Hx; injection Hx as <-. same_id E. intros _. left. rewrite find_cons, N.eqb_refl. simpl. apply Nat.eqb_refl.
    + intros Hx Hp. rewrite find_cons, N.eqb_sym, E. exact (inv_orphan s I i x Hx Hp).
  - intros i a x He. rewrite (lookup_update _ _ _ _ _ L). destruct (i =? id) eqn:E.
    + intros Hx; injection Hx as <-. same_id E. intros Ha. simpl in Ha.
      (* the executor holds a request of the current attempt: then the call was registered already *)
      destruct (inv_exec s I id a (or_intror He)) as (x & Hx & _ & Hr). rewrite L in Hx. injection Hx as <-.
      pose proof (inv_delivered s I id a c He L Ha) as Hd. specialize (Hr (eq_sym Ha)).
      unfold pending_empty in *. simpl. rewrite Hr in Hd. exact Hd.
    + intros Hx. eapply (inv_delivered s I); eauto.
  - intros i x. rewrite (lookup_update _ _ _ _ _ L). destruct (i =? id) eqn:E.
    + intros Hx; injection Hx as <-. same_id E. simpl. rewrite P in *.
      repeat split; try discriminate; auto.
    + intros Hx. exact (inv_phase s I i x Hx).
  - intros i Hi. assert (i = id) by (eapply holding_is_inj; eauto). subst i. exists (set_registered c).
    rewrite (lookup_update _ _ _ _ _ L), N.eqb_refl. auto.
  - intros _. left. exact Hu.
Qed.

Lemma pres_LoopSent s id ok s' : Inv s -> step repaired_c s (LoopSent id ok) = Some s' -> Inv s'.
Proof.
  intros I H. inv_step H. destruct (holding_is s id) eqn:Hh; [|discriminate].
  destruct (lookup id (calls s)) as [c|] eqn:L; [|discriminate].
  destruct (registered c) eqn:R; [|discriminate]. injection H as <-.
  destruct (inv_holding s I id Hh) as (c' & L' & P). rewrite L in L'. injection L' as <-.
  destruct (inv_phase s I id c L) as (P1 & P2 & P3 & P4 & P5).
  split_inv.
  - intros i a Hf. destruct (inv_entry s I i a Hf) as (x & Hx & Hr). rewrite (lookup_update _ _ _ _ _ L).
    destruct (i =? id) eqn:E; [same_id E; rewrite L in Hx; injection Hx as <-; eexists; split; [reflexivity|exact Hr]|eauto].
  - intros i a Hf. destruct (inv_exec s I i a Hf) as (x & Hx & Hr). rewrite (lookup_update _ _ _ _ _ L).
    destruct (i =? id) eqn:E; [same_id E; rewrite L in Hx; injection Hx as <-; eexists; split; [reflexivity|exact Hr]|eauto].
  - intros i x. rewrite (lookup_update _ _ _ _ _ L). destruct (i =? id) eqn:E.
    + intros Hx; injection Hx as <-. same_id E. intros Hp. apply (inv_orphan s I id c L).
      unfold pending_empty in *. simpl in Hp. rewrite P. exact Hp.
    + intros Hx Hp. exact (inv_orphan s I i x Hx Hp).
  - intros i a x He. rewrite (lookup_update _ _ _ _ _ L). destruct (i =? id) eqn:E.
    + intros Hx; injection Hx as <-. same_id E. intros Ha. pose proof (inv_delivered s I id a c He L Ha) as Hd.
      unfold pending_empty in *. simpl. rewrite P in Hd. exact Hd.
    + intros Hx. eapply (inv_delivered s I); eauto.
  - intros i x. rewrite (lookup_update _ _ _ _ _ L). destruct (i =? id) eqn:E.
    + intros Hx; injection Hx as <-. simpl. rewrite P in P4.
      repeat split; try discriminate; auto; try lia. intros _ C. congruence.
    + intros Hx. destruct (inv_phase s I i x Hx) as (Q1 & Q2 & Q3 & Q4 & Q5). repeat split; auto.
      intros Hp. exfalso. apply N.eqb_neq in E. apply E. eapply holding_only; eauto.
  - intros i Hi. discriminate.
  - exact (inv_link s I).
Qed.

Lemma pres_ExecLookup s id found s' : Inv s -> step repaired_c s (ExecLookup id found) = Some s' -> Inv s'.
Proof.
  intros I H. inv_step H. destruct (exe s) eqn:Hex; try discriminate.
  destruct (find_att id (inflight s)) as [att|] eqn:Hf.
  - destruct found; [|discriminate]. injection H as <-.
    split_inv; try (exact (inv_entry s I)); try (exact (inv_phase s I)); try (exact (inv_holding s I)); try (exact (inv_link s I)).
    + intros i a [He|He]; [|discriminate]. injection He as <- <-. exact (inv_entry s I id att Hf).
    + intros i x Hx Hp. destruct (inv_orphan s I i x Hx Hp) as [Ho|Ho]; [left; exact Ho|].
      unfold exec_looked in Ho. rewrite Hex in Ho. discriminate.
    + intros i a x He. discriminate.
  - destruct found; [discriminate|]. injection H as <-. exact I.
Qed.

Lemma pres_ExecDeliver s id s' : Inv s -> step repaired_c s (ExecDeliver id) = Some s' -> Inv s'.
Proof.
  intros I H. inv_step H. destruct (exe s) as [|k att|] eqn:Hex; try discriminate.
  destruct (k =? id) eqn:Ek; [|discriminate]. same_id Ek.
  destruct (lookup id (calls s)) as [c|] eqn:L; [|discriminate]. injection H as <-.
  destruct (push_att_fields att Genuine c) as (F1 & F2 & F3 & F4 & F5 & F6).
  destruct (inv_phase s I id c L) as (P1 & P2 & P3 & P4 & P5).
  split_inv.
  - intros i a Hf. destruct (inv_entry s I i a Hf) as (x & Hx & Hr). rewrite (lookup_update _ _ _ _ _ L).
    destruct (i =? id) eqn:E; [same_id E; rewrite L in Hx; injection Hx as <-; eexists; split; [reflexivity|rewrite F2, F3; exact Hr]|eauto].
  - intros i a [He|He]; [discriminate|]. injection He as <- <-.
    destruct (inv_exec s I id att (or_introl Hex)) as (x & Hx & Hr). rewrite L in Hx. injection Hx as <-.
    rewrite (lookup_update _ _ _ _ _ L), N.eqb_refl. eexists; split; [reflexivity|rewrite F2, F3; exact Hr].
  - intros i x. rewrite (lookup_update _ _ _ _ _ L). destruct (i =? id) eqn:E.
    + intros Hx; injection Hx as <-. same_id E. intros Hp. rewrite F2.
      (* either the delivery went to the current attempt (then the mailbox is not empty), or nothing changed *)
      unfold push_att in Hp. destruct (Nat.eqb att (attempts c)) eqn:Ea.
      * rewrite pending_push in Hp. discriminate.
      * destruct (inv_orphan s I id c L Hp) as [Ho|Ho]; [left; exact Ho|].
        unfold exec_looked in Ho. rewrite Hex, N.eqb_refl, Ea in Ho. discriminate.
    + intros Hx Hp. destruct (inv_orphan s I i x Hx Hp) as [Ho|Ho]; [left; exact Ho|].
      unfold exec_looked in Ho. rewrite Hex, N.eqb_sym, E in Ho. discriminate.
  - intros i a x He. injection He as <- <-. rewrite (lookup_update _ _ _ _ _ L), N.eqb_refl.
    intros Hx; injection Hx as <-. rewrite F2. intros Ha. rewrite <- Ha. apply pending_push_att_cur.
  - intros i x. rewrite (lookup_update _ _ _ _ _ L). destruct (i =? id) eqn:E.
    + intros Hx; injection Hx as <-. same_id E. rewrite F1, F2, F3, F4, F5.
      repeat split; auto. intros Hw Hr. apply push_att_mbox_ne. auto.
    + intros Hx. exact (inv_phase s I i x Hx).
  - intros i Hi. destruct (inv_holding s I i Hi) as (x & Hx & Hp). rewrite (lookup_update _ _ _ _ _ L).
    destruct (i =? id) eqn:E; [same_id E; rewrite L in Hx; injection Hx as <-; eexists; split; [reflexivity|rewrite F1; exact Hp]|eauto].
  - exact (inv_link s I).
Qed.

Lemma pres_ExecDeleted s id d s' : Inv s -> step repaired_c s (ExecDeleted id d) = Some s' -> Inv s'.
Proof.
  intros I H. inv_step H. destruct (exe s) as [| |k att] eqn:Hex; try discriminate.
  destruct (k =? id) eqn:Ek; [|discriminate]. same_id Ek.
  destruct (Bool.eqb d _) eqn:Ed in H; [|discriminate].
  destruct (find_att id (inflight s)) as [a0|] eqn:Hf.
  - destruct (Nat.eqb a0 att) eqn:Ea; injection H as <-.
    + (* own entry: removed *)
      apply Nat.eqb_eq in Ea. subst a0.
      split_inv; try (exact (inv_phase s I)); try (exact (inv_holding s I)).
      * intros i a. rewrite find_remove. destruct (i =? id); [discriminate|]. apply (inv_entry s I).
      * intros i a [He|He]; discriminate.
      * intros i x Hx Hp. rewrite find_remove. destruct (i =? id) eqn:E.
        -- same_id E. exfalso.
           destruct (Nat.eq_dec (attempts x) att) as [Ha|Ha].
           ++ rewrite (inv_delivered s I id att x Hex Hx Ha) in Hp. discriminate.
           ++ destruct (inv_orphan s I id x Hx Hp) as [Ho|Ho].
              ** unfold entry_is in Ho. rewrite Hf in Ho. apply Nat.eqb_eq in Ho. congruence.
              ** unfold exec_looked in Ho. rewrite Hex in Ho. discriminate.
        -- destruct (inv_orphan s I i x Hx Hp) as [Ho|Ho]; [left; exact Ho|].
           unfold exec_looked in Ho. rewrite Hex in Ho. discriminate.
      * intros i a x He. discriminate.
      * intros Hne. apply (inv_link s I). intros C. rewrite C in Hf. discriminate.
    + (* somebody else's entry: left alone *)
      split_inv; try (exact (inv_entry s I)); try (exact (inv_phase s I)); try (exact (inv_holding s I)); try (exact (inv_link s I)).
      * intros i a [He|He]; discriminate.
      * intros i x Hx Hp. destruct (inv_orphan s I i x Hx Hp) as [Ho|Ho]; [left; exact Ho|].
        unfold exec_looked in Ho. rewrite Hex in Ho. discriminate.
      * intros i a x He. discriminate.
  - injection H as <-.
    split_inv; try (exact (inv_entry s I)); try (exact (inv_phase s I)); try (exact (inv_holding s I)); try (exact (inv_link s I)).
    + intros i a [He|He]; discriminate.
    + intros i x Hx Hp. destruct (inv_orphan s I i x Hx Hp) as [Ho|Ho]; [left; exact Ho|].
      unfold exec_looked in Ho. rewrite Hex in Ho. discriminate.
    + intros i a x He. discriminate.
Qed.

(* the executor has looked up the request of a call's current attempt and the call still waits with an empty mailbox:
   then the in-flight entry is still there (closeInFlight, the only other party that removes entries, sends the
   connection error to the very call whose entry it removes) *)
Definition Looked (s : st) : Prop :=
  forall id att c, exe s = ELooked id att -> lookup id (calls s) = Some c -> attempts c = att ->
    pending_empty c = true -> entry_is s id att = true.

Lemma pres_ExecAbandon s id s' : Inv s -> Looked s -> step repaired_c s (ExecAbandon id) = Some s' -> Inv s'.
Proof.
  intros I Lk H. inv_step H. destruct (exe s) as [|k att|] eqn:Hex; try discriminate.
  destruct (k =? id) eqn:Ek; [|discriminate]. same_id Ek. injection H as <-.
  split_inv; try (exact (inv_entry s I)); try (exact (inv_phase s I)); try (exact (inv_holding s I)); try (exact (inv_link s I)).
  - intros i a [He|He]; discriminate.
  - intros i x Hx Hp. destruct (inv_orphan s I i x Hx Hp) as [Ho|Ho]; [left; exact Ho|].
    left. unfold exec_looked in Ho. rewrite Hex in Ho. apply andb_true_iff in Ho. destruct Ho as [E1 E2].
    apply N.eqb_eq in E1. apply Nat.eqb_eq in E2. subst.
    pose proof (Lk i (attempts x) x Hex Hx eq_refl Hp) as G. unfold entry_is in G. exact G.
  - intros i a x He. discriminate.
Qed.

Lemma pres_CifDeliver s id s' : Inv s -> step repaired_c s (CifDeliver id) = Some s' -> Inv s'.
Proof.
  intros I H. inv_step H. destruct (holding s) as [hh|] eqn:Hh; [discriminate|].
  destruct (find_att id (inflight s)) as [att|] eqn:Hf; [|discriminate].
  destruct (lookup id (calls s)) as [c|] eqn:L; [|discriminate]. injection H as <-.
  destruct (push_att_fields att ConnErr c) as (F1 & F2 & F3 & F4 & F5 & F6).
  split_inv.
  - intros i a. rewrite find_remove. destruct (i =? id) eqn:E; [discriminate|]. intros Hfi.
    destruct (inv_entry s I i a Hfi) as (x & Hx & Hr). rewrite (lookup_update _ _ _ _ _ L), E. eauto.
  - intros i a He. destruct (inv_exec s I i a He) as (x & Hx & Hr). rewrite (lookup_update _ _ _ _ _ L).
    destruct (i =? id) eqn:E; [same_id E; rewrite L in Hx; injection Hx as <-; eexists; split; [reflexivity|rewrite F2, F3; exact Hr]|eauto].
  - intros i x. rewrite (lookup_update _ _ _ _ _ L), find_remove. destruct (i =? id) eqn:E.
    + intros Hx; injection Hx as <-. same_id E. intros Hp. rewrite F2.
      unfold push_att in Hp. destruct (Nat.eqb att (attempts c)) eqn:Ea.
      * rewrite pending_push in Hp. discriminate.
      * destruct (inv_orphan s I id c L Hp) as [Ho|Ho]; [|right; exact Ho].
        unfold entry_is in Ho. rewrite Hf in Ho. congruence.
    + intros Hx Hp. exact (inv_orphan s I i x Hx Hp).
  - intros i a x He. rewrite (lookup_update _ _ _ _ _ L). destruct (i =? id) eqn:E.
    + intros Hx; injection Hx as <-. same_id E. rewrite F2. intros Ha.
      apply pending_push_att. eapply (inv_delivered s I); eauto.
    + intros Hx. eapply (inv_delivered s I); eauto.
  - intros i x. rewrite (lookup_update _ _ _ _ _ L). destruct (i =? id) eqn:E.
    + intros Hx; injection Hx as <-. same_id E. rewrite F1, F2, F3, F4, F5.
      destruct (inv_phase s I id c L) as (P1 & P2 & P3 & P4 & P5).
      repeat split; auto. intros Hw Hr. apply push_att_mbox_ne. auto.
    + intros Hx. exact (inv_phase s I i x Hx).
  - intros i Hi. unfold holding_is in Hi. rewrite Hh in Hi. discriminate.
  - intros Hne. apply (inv_link s I). intros C. rewrite C in Hf. discriminate.
Qed.

(* events that touch only the link / cif flag *)
Lemma pres_link_only s k p :
  Inv s -> (inflight s <> [] -> (match k with Up => true | _ => false end) = true \/ p = true) ->
  Inv (set_link s k p).
Proof.
  intros I Hl. split_inv; try (exact (inv_entry s I)); try (exact (inv_exec s I)); try (exact (inv_orphan s I));
    try (exact (inv_delivered s I)); try (exact (inv_phase s I)); try (exact (inv_holding s I)).
  exact Hl.
Qed.

(* the dial bookkeeping is invisible to the invariant *)
Lemma pres_dial_only s n b : Inv s -> Inv (set_dial s n b).
Proof.
  intros I. split_inv; try (exact (inv_entry s I)); try (exact (inv_exec s I)); try (exact (inv_orphan s I));
    try (exact (inv_delivered s I)); try (exact (inv_phase s I)); try (exact (inv_holding s I)); try (exact (inv_link s I)).
Qed.

Lemma nil_b_true {A} (l : list A) : nil_b l = true -> l = [].
Proof. destruct l; [reflexivity|discriminate]. Qed.

Lemma pres_CifCleared s s' : Inv s -> step repaired_c s CifCleared = Some s' -> Inv s'.
Proof.
  intros I H. inv_step H. destruct (holding s); [discriminate|].
  destruct (nil_b (inflight s)) eqn:Hn; [|discriminate]. injection H as <-.
  apply pres_link_only; [exact I|]. intros C. apply nil_b_true in Hn. congruence.
Qed.

Lemma pres_ReconnBegin s s' : Inv s -> step repaired_c s ReconnBegin = Some s' -> Inv s'.
Proof.
  intros I H. inv_step H. destruct (holding s); [discriminate|]. destruct (is_up s); [|discriminate]. injection H as <-.
  apply pres_dial_only. apply pres_link_only; auto.
Qed.

Lemma pres_RedialSwap s s' : Inv s -> step repaired_c s RedialSwap = Some s' -> Inv s'.
Proof.
  intros I H. inv_step H. destruct (is_redial s && negb (cif_pending s) && nil_b (inflight s))%bool; [|discriminate].
  injection H as <-. apply pres_link_only; auto.
Qed.

Lemma pres_LoopExit s s' : Inv s -> step repaired_c s LoopExit = Some s' -> Inv s'.
Proof.
  intros I H. inv_step H. destruct (holding s); [discriminate|].
  destruct (nil_b (inflight s)) eqn:Hn; [|discriminate]. simpl in H. destruct (negb (is_exited s)); [|discriminate].
  injection H as <-. apply pres_link_only; [exact I|]. intros C. apply nil_b_true in Hn. congruence.
Qed.

Lemma pres_RedialAttempt s n s' : Inv s -> step repaired_c s (RedialAttempt n) = Some s' -> Inv s'.
Proof.
  intros I H. inv_step H. destruct (is_redial s && Nat.eqb n (redial_n s) && negb (slept s))%bool; [|discriminate].
  injection H as <-. apply pres_dial_only. exact I.
Qed.

Lemma pres_RedialDialed s ok s' : Inv s -> step repaired_c s (RedialDialed ok) = Some s' -> Inv s'.
Proof.
  intros I H. inv_step H. destruct (lnk s) eqn:Hl; try discriminate.
  - destruct (slept s); [|discriminate]. injection H as <-. apply pres_dial_only. exact I.
  - injection H as <-. apply pres_link_only; [exact I|]. intros Hne. destruct (inv_link s I Hne) as [Hu|Hc]; [|auto].
    unfold is_up in Hu. rewrite Hl in Hu. discriminate.
Qed.

(* caller-side events: they rewrite one call that is not held by the loop *)
Lemma pres_caller s id c c' :
  Inv s -> lookup id (calls s) = Some c ->
  (attempts c <= attempts c')%nat /\ (attempts c' = attempts c -> registered c' = registered c) ->
  pending_empty c' = false ->
  ph c <> PTaken -> ph c' <> PTaken ->
  (ph c' = PEnq -> registered c' = false) ->
  (ph c' = PWait -> registered c' = false -> mbox c' <> []) ->
  (match ph c' with PEnq | PTaken => writes c' < attempts c' | _ => writes c' <= attempts c' end)%nat ->
  (retry c' = false -> attempts c' = 1%nat) ->
  Inv (set_calls s (update id c' (calls s))).
Proof.
  intros I L (Ha1 & Ha2) Hp Ht Ht' Q1 Q2 Q4 Q5.
  split_inv.
  - intros i a Hf. destruct (inv_entry s I i a Hf) as (x & Hx & Hr1 & Hr2). rewrite (lookup_update _ _ _ _ _ L).
    destruct (i =? id) eqn:E; [|eauto]. same_id E. rewrite L in Hx. injection Hx as <-. eexists; split; [reflexivity|].
    split; [lia|]. intros He. assert (attempts c' = attempts c) by lia. rewrite Ha2 by auto. apply Hr2. lia.
  - intros i a Hf. destruct (inv_exec s I i a Hf) as (x & Hx & Hr1 & Hr2). rewrite (lookup_update _ _ _ _ _ L).
    destruct (i =? id) eqn:E; [|eauto]. same_id E. rewrite L in Hx. injection Hx as <-. eexists; split; [reflexivity|].
    split; [lia|]. intros He. assert (attempts c' = attempts c) by lia. rewrite Ha2 by auto. apply Hr2. lia.
  - intros i x. rewrite (lookup_update _ _ _ _ _ L). destruct (i =? id) eqn:E.
    + intros Hx; injection Hx as <-. congruence.
    + intros Hx Hq. exact (inv_orphan s I i x Hx Hq).
  - intros i a x He. rewrite (lookup_update _ _ _ _ _ L). destruct (i =? id) eqn:E.
    + intros Hx; injection Hx as <-. auto.
    + intros Hx. eapply (inv_delivered s I); eauto.
  - intros i x. rewrite (lookup_update _ _ _ _ _ L). destruct (i =? id) eqn:E.
    + intros Hx; injection Hx as <-. repeat split; auto; intros C; congruence.
    + intros Hx. exact (inv_phase s I i x Hx).
  - intros i Hi. destruct (inv_holding s I i Hi) as (x & Hx & Hpx). rewrite (lookup_update _ _ _ _ _ L).
    destruct (i =? id) eqn:E; [same_id E; rewrite L in Hx; injection Hx as <-; congruence|eauto].
  - exact (inv_link s I).
Qed.

Lemma pres_CallRecv s id ce s' : Inv s -> step repaired_c s (CallRecv id ce) = Some s' -> Inv s'.
Proof.
  intros I H. inv_step H. destruct (lookup id (calls s)) as [c|] eqn:L; [|discriminate].
  destruct (ph c) eqn:P; try discriminate. destruct (got c); [discriminate|].
  destruct (existsb _ _); [|discriminate]. injection H as <-.
  destruct (inv_phase s I id c L) as (P1 & P2 & P3 & P4 & P5). rewrite P in P4.
  apply pres_caller with (c := c); auto; simpl; try congruence; try discriminate; try lia.
  unfold pending_empty; simpl. rewrite andb_false_r. reflexivity.
Qed.

Lemma pres_CallExiting s id s' : Inv s -> step repaired_c s (CallExiting id) = Some s' -> Inv s'.
Proof.
  intros I H. inv_step H. destruct (is_exited s); [|discriminate].
  destruct (lookup id (calls s)) as [c|] eqn:L; [|discriminate].
  destruct (ph c) eqn:P; try discriminate. injection H as <-.
  destruct (inv_phase s I id c L) as (P1 & P2 & P3 & P4 & P5). rewrite P in P4.
  apply pres_caller with (c := c); auto; simpl; try congruence; try discriminate; try lia.
  unfold pending_empty; simpl. rewrite andb_false_r. reflexivity.
Qed.

Lemma pres_CallRetry s id s' : Inv s -> step repaired_c s (CallRetry id) = Some s' -> Inv s'.
Proof.
  intros I H. inv_step H. destruct (lookup id (calls s)) as [c|] eqn:L; [|discriminate].
  destruct (ph c) eqn:P; try discriminate. destruct (got c) as [[]|]; try discriminate.
  destruct (retry c) eqn:R; [|discriminate]. injection H as <-.
  destruct (inv_phase s I id c L) as (P1 & P2 & P3 & P4 & P5). rewrite P in P4.
  apply pres_caller with (c := c); auto; simpl; try congruence; try discriminate; try lia.
Qed.

Lemma pres_CallReturn s id o s' : Inv s -> step repaired_c s (CallReturn id o) = Some s' -> Inv s'.
Proof.
  intros I H. inv_step H. destruct (lookup id (calls s)) as [c|] eqn:L; [|discriminate].
  destruct (ph c) eqn:P; try discriminate. destruct (got c); [|discriminate].
  destruct (outcome_eqb _ _ && _)%bool; [|discriminate]. injection H as <-.
  destruct (inv_phase s I id c L) as (P1 & P2 & P3 & P4 & P5). rewrite P in P4.
  apply pres_caller with (c := c); auto; simpl; try congruence; try discriminate; try lia.
  unfold pending_empty; simpl. rewrite andb_false_r. reflexivity.
Qed.

Theorem step_inv s e s' : Inv s -> Looked s -> step repaired_c s e = Some s' -> Inv s'.
Proof.
  intros I Lk H. destruct e.
  - eapply pres_CallStart; eauto.
  - eapply pres_LoopTake; eauto.
  - eapply pres_LoopTakeOther; eauto.
  - eapply pres_LoopFailFast; eauto.
  - eapply pres_LoopRegister; eauto.
  - eapply pres_LoopSent; eauto.
  - eapply pres_LoopSentOther; eauto.
  - eapply pres_ExecLookup; eauto.
  - eapply pres_ExecDeliver; eauto.
  - eapply pres_ExecDeleted; eauto.
  - eapply pres_ExecAbandon; eauto.
  - eapply pres_CifDeliver; eauto.
  - eapply pres_CifCleared; eauto.
  - eapply pres_ReconnBegin; eauto.
  - eapply pres_RedialSwap; eauto.
  - eapply pres_RedialAttempt; eauto.
  - eapply pres_RedialDialed; eauto.
  - eapply pres_LoopExit; eauto.
  - eapply pres_CallRecv; eauto.
  - eapply pres_CallExiting; eauto.
  - eapply pres_CallRetry; eauto.
  - eapply pres_CallReturn; eauto.
Qed.

Lemma looked_init : Looked init.
Proof. intros id att c He. discriminate. Qed.

Lemma pending_phase c : pending_empty c = true -> registered c = true /\ (ph c = PTaken \/ ph c = PWait) /\ mbox c = [].
Proof.
  unfold pending_empty. intros H. apply andb_true_iff in H. destruct H as [H H3]. apply andb_true_iff in H. destruct H as [H1 H2].
  split; [exact H1|]. split; [destruct (ph c); try discriminate; auto|]. destruct (mbox c); [reflexivity|discriminate].
Qed.

(* Looked is preserved by every event *)
Lemma looked_step s e s' : Inv s -> Looked s -> step repaired_c s e = Some s' -> Looked s'.
Proof.
  intros I Lk H id att c He Hc Ha Hp. unfold entry_is.
  destruct e; inv_step H.
  - (* CallStart *)
    destruct (lookup id0 (calls s)) eqn:L; [discriminate|]. injection H as <-. proj. rewrite lookup_cons in Hc.
    destruct (id0 =? id) eqn:E.
    + injection Hc as <-. discriminate.
    + exact (Lk id att c He Hc Ha Hp).
  - (* LoopTake *)
    destruct (is_exited s); [discriminate|]. destruct (holding s); [discriminate|].
    destruct (lookup id0 (calls s)) as [c0|] eqn:L; [|discriminate]. destruct (ph c0) eqn:P; try discriminate.
    injection H as <-. proj. rewrite (lookup_update _ _ _ _ _ L) in Hc. destruct (id =? id0) eqn:E.
    + apply N.eqb_eq in E; subst id. injection Hc as <-. destruct (pending_phase _ Hp) as (R & _ & _). simpl in R.
      destruct (inv_phase s I id0 c0 L) as (P1 & _). rewrite (P1 P) in R. discriminate.
    + exact (Lk id att c He Hc Ha Hp).
  - (* LoopTakeOther *)
    destruct (is_exited s); [discriminate|]. destruct (holding s); [discriminate|]. injection H as <-. proj.
    exact (Lk id att c He Hc Ha Hp).
  - (* LoopFailFast *)
    destruct (holding_is s id0); [|discriminate]. destruct (lookup id0 (calls s)) as [c0|] eqn:L; [|discriminate].
    injection H as <-. proj. rewrite (lookup_update _ _ _ _ _ L) in Hc. destruct (id =? id0) eqn:E.
    + apply N.eqb_eq in E; subst id. injection Hc as <-. destruct (pending_phase _ Hp) as (_ & _ & M). simpl in M.
      destruct (mbox c0); discriminate.
    + exact (Lk id att c He Hc Ha Hp).
  - (* LoopRegister *)
    destruct (holding_is s id0); [|discriminate]. simpl in H. destruct (is_up s); [|discriminate]. simpl in H.
    destruct (mem_id id0 (inflight s)) eqn:Mm; [discriminate|]. simpl in H.
    destruct (lookup id0 (calls s)) as [c0|] eqn:L; [|discriminate]. destruct (registered c0); [discriminate|]. injection H as <-. proj.
    rewrite (lookup_update _ _ _ _ _ L) in Hc. rewrite find_cons. destruct (id =? id0) eqn:E.
    + apply N.eqb_eq in E; subst id. injection Hc as <-. rewrite N.eqb_refl. simpl in Ha. subst att. apply Nat.eqb_refl.
    + rewrite N.eqb_sym, E. exact (Lk id att c He Hc Ha Hp).
  - (* LoopSent *)
    destruct (holding_is s id0) eqn:Hh; [|discriminate]. destruct (lookup id0 (calls s)) as [c0|] eqn:L; [|discriminate].
    destruct (registered c0) eqn:R; [|discriminate]. injection H as <-. proj.
    rewrite (lookup_update _ _ _ _ _ L) in Hc. destruct (id =? id0) eqn:E.
    + apply N.eqb_eq in E; subst id. injection Hc as <-. simpl in Ha. subst att.
      destruct (pending_phase _ Hp) as (_ & _ & M). simpl in M.
      (* the loop only sends what it holds, and what it holds is in phase PTaken: the call was pending before the write too *)
      destruct (inv_holding s I id0 Hh) as (x & Hx & Px). rewrite L in Hx. injection Hx as <-.
      assert (Hp0 : pending_empty c0 = true) by (unfold pending_empty; rewrite R, Px, M; reflexivity).
      exact (Lk id0 (attempts c0) c0 He L eq_refl Hp0).
    + exact (Lk id att c He Hc Ha Hp).
  - (* LoopSentOther *)
    destruct (holding s) as [[|]|]; try discriminate. injection H as <-. proj. exact (Lk id att c He Hc Ha Hp).
  - (* ExecLookup *)
    destruct (exe s) eqn:Hex; try discriminate. destruct (find_att id0 (inflight s)) as [a|] eqn:Hf.
    + destruct found; [|discriminate]. injection H as <-. proj. injection He as <- <-. rewrite Hf. apply Nat.eqb_refl.
    + destruct found; [discriminate|]. injection H as <-. rewrite Hex in He. discriminate.
  - (* ExecDeliver *)
    destruct (exe s) as [|k a|] eqn:Hex; try discriminate. destruct (k =? id0); [|discriminate].
    destruct (lookup id0 (calls s)); [|discriminate]. injection H as <-. proj. discriminate.
  - (* ExecDeleted *)
    destruct (exe s) as [| |k a] eqn:Hex; try discriminate. destruct (k =? id0); [|discriminate].
    destruct (Bool.eqb deleted _); [|discriminate].
    destruct (match find_att id0 (inflight s) with Some a0 => Nat.eqb a0 a | None => false end); injection H as <-; proj; discriminate.
  - (* ExecAbandon *)
    destruct (exe s) as [|k a|] eqn:Hex; try discriminate. destruct (k =? id0); [|discriminate]. injection H as <-. proj. discriminate.
  - (* CifDeliver *)
    destruct (holding s); [discriminate|]. destruct (find_att id0 (inflight s)) as [a|] eqn:Hf; [|discriminate].
    destruct (lookup id0 (calls s)) as [c0|] eqn:L; [|discriminate]. injection H as <-. proj.
    rewrite (lookup_update _ _ _ _ _ L) in Hc. rewrite find_remove. destruct (id =? id0) eqn:E.
    + apply N.eqb_eq in E; subst id. injection Hc as <-. exfalso.
      destruct (push_att_fields a ConnErr c0) as (F1 & F2 & F3 & F4 & F5 & F6).
      (* the entry removed is the one the executor looked up (same attempt) or an older one; either way the call is not
         left waiting with an empty mailbox under the attempt the executor holds *)
      destruct (Nat.eqb a (attempts c0)) eqn:Ea.
      * pose proof (pending_push_att_cur ConnErr c0) as Q. apply Nat.eqb_eq in Ea. rewrite <- Ea in Q. congruence.
      * unfold push_att in Hp, Ha. rewrite Ea in Hp, Ha. subst att.
        pose proof (Lk id0 (attempts c0) c0 He L eq_refl Hp) as G. unfold entry_is in G. rewrite Hf in G. congruence.
    + exact (Lk id att c He Hc Ha Hp).
  - (* CifCleared *)
    destruct (holding s); [discriminate|]. destruct (nil_b (inflight s)); [|discriminate]. injection H as <-. proj.
    exact (Lk id att c He Hc Ha Hp).
  - (* ReconnBegin *)
    destruct (holding s); [discriminate|]. destruct (is_up s); [|discriminate]. injection H as <-. proj.
    exact (Lk id att c He Hc Ha Hp).
  - (* RedialSwap *)
    destruct (is_redial s && negb (cif_pending s) && nil_b (inflight s))%bool; [|discriminate]. injection H as <-. proj.
    exact (Lk id att c He Hc Ha Hp).
  - (* RedialAttempt *)
    destruct (is_redial s && Nat.eqb n (redial_n s) && negb (slept s))%bool; [|discriminate]. injection H as <-. proj.
    exact (Lk id att c He Hc Ha Hp).
  - (* RedialDialed *)
    destruct (lnk s); try discriminate; [destruct (slept s); [|discriminate]|]; injection H as <-; proj;
      exact (Lk id att c He Hc Ha Hp).
  - (* LoopExit *)
    destruct (holding s); [discriminate|]. destruct (nil_b (inflight s) && negb (is_exited s))%bool; [|discriminate].
    injection H as <-. proj. exact (Lk id att c He Hc Ha Hp).
  - (* CallRecv *)
    destruct (lookup id0 (calls s)) as [c0|] eqn:L; [|discriminate]. destruct (ph c0) eqn:P; try discriminate.
    destruct (got c0); [discriminate|]. destruct (existsb _ _); [|discriminate]. injection H as <-. proj.
    rewrite (lookup_update _ _ _ _ _ L) in Hc. destruct (id =? id0) eqn:E.
    + apply N.eqb_eq in E; subst id. injection Hc as <-. destruct (pending_phase _ Hp) as (_ & [Q|Q] & _); discriminate.
    + exact (Lk id att c He Hc Ha Hp).
  - (* CallExiting *)
    destruct (is_exited s); [|discriminate]. destruct (lookup id0 (calls s)) as [c0|] eqn:L; [|discriminate].
    destruct (ph c0) eqn:P; try discriminate. injection H as <-. proj.
    rewrite (lookup_update _ _ _ _ _ L) in Hc. destruct (id =? id0) eqn:E.
    + apply N.eqb_eq in E; subst id. injection Hc as <-. destruct (pending_phase _ Hp) as (_ & [Q|Q] & _); discriminate.
    + exact (Lk id att c He Hc Ha Hp).
  - (* CallRetry *)
    destruct (lookup id0 (calls s)) as [c0|] eqn:L; [|discriminate]. destruct (ph c0) eqn:P; try discriminate.
    destruct (got c0) as [[]|]; try discriminate. destruct (retry c0); [|discriminate]. injection H as <-. proj.
    rewrite (lookup_update _ _ _ _ _ L) in Hc. destruct (id =? id0) eqn:E.
    + apply N.eqb_eq in E; subst id. injection Hc as <-. destruct (pending_phase _ Hp) as (R & _ & _). discriminate.
    + exact (Lk id att c He Hc Ha Hp).
  - (* CallReturn *)
    destruct (lookup id0 (calls s)) as [c0|] eqn:L; [|discriminate]. destruct (ph c0) eqn:P; try discriminate.
    destruct (got c0); [|discriminate]. destruct (outcome_eqb _ _ && _)%bool; [|discriminate]. injection H as <-. proj.
    rewrite (lookup_update _ _ _ _ _ L) in Hc. destruct (id =? id0) eqn:E.
    + apply N.eqb_eq in E; subst id. injection Hc as <-. destruct (pending_phase _ Hp) as (_ & [Q|Q] & _); discriminate.
    + exact (Lk id att c He Hc Ha Hp).
Qed.

Theorem run_inv es : forall s s', Inv s -> Looked s -> run repaired_c s es = Some s' -> Inv s' /\ Looked s'.
Proof.
  induction es as [|e es IH]; intros s s' I Lk H; simpl in H.
  - injection H as <-. split; assumption.
  - destruct (step repaired_c s e) as [s1|] eqn:Hs; [|discriminate].
    eapply IH; [eapply step_inv; eauto|eapply looked_step; eauto|exact H].
Qed.

Theorem reachable_inv es s : run repaired_c init es = Some s -> Inv s.
Proof. intros H. exact (proj1 (run_inv es init s inv_init looked_init H)). Qed.

Theorem reachable_looked es s : run repaired_c init es = Some s -> Looked s.
Proof. intros H. exact (proj2 (run_inv es init s inv_init looked_init H)). Qed.

(* ---------- how one step can change one call *)
Inductive change (s : st) (id : N) : option call -> option call -> Prop :=
| ch_same x : change s id x x
| ch_fresh rt : change s id None (Some (fresh rt))
| ch_taken c : ph c = PEnq -> change s id (Some c) (Some (with_ph PTaken c))
| ch_failfast c : holding_is s id = true -> change s id (Some c) (Some (with_ph PWait (push ConnErr c)))
| ch_registered c : is_up s = true -> change s id (Some c) (Some (set_registered c))
| ch_sent c : registered c = true -> holding_is s id = true -> change s id (Some c) (Some (sent c))
| ch_genuine c att : exe s = ELooked id att -> change s id (Some c) (Some (push_att att Genuine c))
| ch_connerr c att : find_att id (inflight s) = Some att -> change s id (Some c) (Some (push_att att ConnErr c))
| ch_received c r : ph c = PWait -> In r (mbox c) -> change s id (Some c) (Some (received r c))
| ch_exited c : ph c = PEnq -> is_exited s = true -> change s id (Some c) (Some (exited c))
| ch_retried c : got c = Some OConnErr -> retry c = true -> change s id (Some c) (Some (retried c))
| ch_done c : ph c = PRecvd -> change s id (Some c) (Some (with_ph PDone c)).

Lemma existsb_resp_In r l : existsb (resp_eqb r) l = true -> In r l.
Proof.
  intros H. apply existsb_exists in H. destruct H as (x & Hin & He). destruct r, x; try discriminate; exact Hin.
Qed.

Ltac upd_change L i id :=
  proj; rewrite (lookup_update _ _ _ _ _ L);
  destruct (i =? id) eqn:?E; [apply N.eqb_eq in E; subst i; rewrite L|apply ch_same].

Theorem step_call_change s e s' i :
  step repaired_c s e = Some s' -> change s i (lookup i (calls s)) (lookup i (calls s')).
Proof.
  intros H. destruct e; inv_step H.
  - destruct (lookup id (calls s)) eqn:L; [discriminate|]. injection H as <-. proj. rewrite lookup_cons.
    destruct (id =? i) eqn:E; [same_id E; rewrite L; apply ch_fresh|apply ch_same].
  - destruct (is_exited s); [discriminate|]. destruct (holding s); [discriminate|].
    destruct (lookup id (calls s)) as [c|] eqn:L; [|discriminate]. destruct (ph c) eqn:P; try discriminate.
    injection H as <-. upd_change L i id. apply ch_taken; exact P.
  - destruct (is_exited s); [discriminate|]. destruct (holding s); [discriminate|]. injection H as <-. apply ch_same.
  - destruct (holding_is s id) eqn:Hh; [|discriminate]. destruct (lookup id (calls s)) as [c|] eqn:L; [|discriminate].
    injection H as <-. upd_change L i id. apply ch_failfast. exact Hh.
  - destruct (holding_is s id); [|discriminate]. simpl in H. destruct (is_up s) eqn:Hu; [|discriminate]. simpl in H.
    destruct (mem_id id (inflight s)); [discriminate|]. simpl in H.
    destruct (lookup id (calls s)) as [c|] eqn:L; [|discriminate]. destruct (registered c); [discriminate|]. injection H as <-. upd_change L i id.
    apply ch_registered; exact Hu.
  - destruct (holding_is s id) eqn:Hh; [|discriminate]. destruct (lookup id (calls s)) as [c|] eqn:L; [|discriminate].
    destruct (registered c) eqn:R; [|discriminate]. injection H as <-. upd_change L i id. apply ch_sent; [exact R|exact Hh].
  - destruct (holding s) as [[|]|]; try discriminate. injection H as <-. apply ch_same.
  - destruct (exe s); try discriminate. destruct (find_att id (inflight s)); destruct found; try discriminate;
      injection H as <-; apply ch_same.
  - destruct (exe s) as [|k att|] eqn:Hex; try discriminate. destruct (k =? id) eqn:Ek; [|discriminate]. same_id Ek.
    destruct (lookup id (calls s)) as [c|] eqn:L; [|discriminate]. injection H as <-. upd_change L i id.
    apply ch_genuine; exact Hex.
  - destruct (exe s) as [| |k att]; try discriminate. destruct (k =? id); [|discriminate].
    destruct (Bool.eqb deleted _); [|discriminate].
    destruct (match find_att id (inflight s) with Some a => Nat.eqb a att | None => false end); injection H as <-; apply ch_same.
  - destruct (exe s) as [|k att|]; try discriminate. destruct (k =? id); [|discriminate]. injection H as <-. apply ch_same.
  - destruct (holding s); [discriminate|]. destruct (find_att id (inflight s)) as [att|] eqn:Hf; [|discriminate].
    destruct (lookup id (calls s)) as [c|] eqn:L; [|discriminate]. injection H as <-. upd_change L i id.
    apply ch_connerr; exact Hf.
  - destruct (holding s); [discriminate|]. destruct (nil_b (inflight s)); [|discriminate]. injection H as <-. apply ch_same.
  - destruct (holding s); [discriminate|]. destruct (is_up s); [|discriminate]. injection H as <-. apply ch_same.
  - destruct (is_redial s && negb (cif_pending s) && nil_b (inflight s))%bool; [|discriminate]. injection H as <-. apply ch_same.
  - destruct (is_redial s && Nat.eqb n (redial_n s) && negb (slept s))%bool; [|discriminate]. injection H as <-. apply ch_same.
  - destruct (lnk s); try discriminate; [destruct (slept s); [|discriminate]|]; injection H as <-; apply ch_same.
  - destruct (holding s); [discriminate|]. destruct (nil_b (inflight s) && negb (is_exited s))%bool; [|discriminate].
    injection H as <-. apply ch_same.
  - destruct (lookup id (calls s)) as [c|] eqn:L; [|discriminate]. destruct (ph c) eqn:P; try discriminate.
    destruct (got c); [discriminate|]. destruct (existsb _ _) eqn:Ex; [|discriminate]. injection H as <-.
    upd_change L i id. apply ch_received; [exact P|apply existsb_resp_In; exact Ex].
  - destruct (is_exited s) eqn:Hx; [|discriminate]. destruct (lookup id (calls s)) as [c|] eqn:L; [|discriminate].
    destruct (ph c) eqn:P; try discriminate. injection H as <-. upd_change L i id. apply ch_exited; auto.
  - destruct (lookup id (calls s)) as [c|] eqn:L; [|discriminate]. destruct (ph c) eqn:P; try discriminate.
    destruct (got c) as [[]|] eqn:G; try discriminate. destruct (retry c) eqn:R; [|discriminate]. injection H as <-.
    upd_change L i id. apply ch_retried; auto.
  - destruct (lookup id (calls s)) as [c|] eqn:L; [|discriminate]. destruct (ph c) eqn:P; try discriminate.
    destruct (got c); [|discriminate]. destruct (outcome_eqb _ _ && _)%bool; [|discriminate]. injection H as <-.
    upd_change L i id. apply ch_done; exact P.
Qed.

(* ---------- consequences *)

(* a genuine response is only ever seen by a call that was registered in flight in that attempt *)
Definition Prov (s : st) : Prop :=
  forall id c, lookup id (calls s) = Some c -> (In Genuine (mbox c) \/ got c = Some OGenuine) -> registered c = true.

Lemma in_remove_resp r x l : In x (remove_resp r l) -> In x l.
Proof.
  induction l as [|y l IH]; simpl; [auto|]. destruct (resp_eqb r y); [auto|]. intros [H|H]; auto.
Qed.

Lemma prov_step s e s' : Inv s -> Prov s -> step repaired_c s e = Some s' -> Prov s'.
Proof.
  intros I P H id c' Hc' Hg. pose proof (step_call_change s e s' id H) as Ch. rewrite Hc' in Ch.
  remember (lookup id (calls s)) as o eqn:Ho. remember (Some c') as o' eqn:Ho'. symmetry in Ho.
  destruct Ch as [x|rt|c Hp|c Hh|c Hu|c Hr Hh|c att He|c att Hf|c r Hp Hin|c Hp He|c Hgo Hrt|c Hp]; try (injection Ho' as <-).
  - subst x. eapply P; eauto.
  - simpl in Hg. destruct Hg as [[]|Hg]; discriminate.
  - simpl in *. eapply P; eauto.
  - simpl in *. eapply P; eauto. destruct Hg as [Hg|Hg]; [|auto]. apply in_app_or in Hg. destruct Hg as [Hg|[Hg|[]]]; [auto|discriminate].
  - reflexivity.
  - simpl in *. eapply P; eauto.
  - destruct (push_att_fields att Genuine c) as (F1 & F2 & F3 & F4 & F5 & F6). rewrite F3.
    unfold push_att in Hg. destruct (Nat.eqb att (attempts c)) eqn:Ea.
    + apply Nat.eqb_eq in Ea. destruct (inv_exec s I id att (or_introl He)) as (x & Hx' & _ & Hr).
      rewrite Ho in Hx'. injection Hx' as <-. auto.
    + eapply P; eauto.
  - destruct (push_att_fields att ConnErr c) as (F1 & F2 & F3 & F4 & F5 & F6). rewrite F3.
    eapply P; eauto. unfold push_att in Hg. destruct (Nat.eqb att (attempts c)); [|exact Hg].
    simpl in Hg. destruct Hg as [Hg|Hg]; [|auto]. apply in_app_or in Hg. destruct Hg as [Hg|[Hg|[]]]; [auto|discriminate].
  - simpl in *. eapply P; eauto. destruct Hg as [Hg|Hg].
    + left. eapply in_remove_resp; eauto.
    + left. destruct r; [exact Hin|discriminate].
  - simpl in *. eapply P; eauto. destruct Hg as [Hg|Hg]; [auto|discriminate].
  - simpl in Hg. destruct Hg as [[]|Hg]; discriminate.
  - simpl in *. eapply P; eauto.
Qed.

Theorem reachable_prov : forall es s, run repaired_c init es = Some s -> Prov s.
Proof.
  assert (G : forall es s s', Inv s -> Looked s -> Prov s -> run repaired_c s es = Some s' -> Prov s').
  { induction es as [|e es IH]; intros s s' I Lk P H; simpl in H.
    - injection H as <-. exact P.
    - destruct (step repaired_c s e) as [s1|] eqn:Hs; [|discriminate].
      eapply IH; [eapply step_inv; eauto|eapply looked_step; eauto|eapply prov_step; eauto|exact H]. }
  intros es s H. eapply G; [exact inv_init|exact looked_init| |exact H]. intros id c Hc. discriminate.
Qed.

(* the library re-sends nothing on its own: the attempt number of a call changes only through the caller's
   retry loop, which requires the retry tag and the connection error *)
Theorem attempts_change s e s' id c c' :
  step repaired_c s e = Some s' -> lookup id (calls s) = Some c -> lookup id (calls s') = Some c' ->
  attempts c' = attempts c \/ (attempts c' = S (attempts c) /\ got c = Some OConnErr /\ retry c = true).
Proof.
  intros H Hc Hc'. pose proof (step_call_change s e s' id H) as Ch. rewrite Hc, Hc' in Ch.
  remember (Some c) as o eqn:Ho. remember (Some c') as o' eqn:Ho'.
  destruct Ch as [x|rt|c0 Hp|c0 Hh|c0 Hu|c0 Hr Hh|c0 att He|c0 att Hf|c0 r Hp Hin|c0 Hp He|c0 Hgo Hrt|c0 Hp];
    try discriminate; try (injection Ho' as <-); try (injection Ho as <-); simpl; auto.
  - subst x. injection Ho' as <-. auto.
  - left. apply (push_att_fields att Genuine c0).
  - left. apply (push_att_fields att ConnErr c0).
Qed.

(* orphan-freedom in the form the property states it *)
Theorem no_orphan_reachable es s :
  run repaired_c init es = Some s ->
  (forall id c, lookup id (calls s) = Some c -> waiting_empty c = true ->
     entry_is s id (attempts c) = true \/ exec_looked s id (attempts c) = true) /\
  (inflight s <> [] -> is_up s = true \/ cif_pending s = true).
Proof.
  intros H. pose proof (reachable_inv es s H) as I. split; [|exact (inv_link s I)].
  intros id c Hc Hw. apply (inv_orphan s I id c Hc).
  unfold waiting_empty in Hw. destruct (ph c) eqn:P; try discriminate. destruct (mbox c) eqn:M; [|discriminate].
  destruct (inv_phase s I id c Hc) as (_ & P2 & _).
  unfold pending_empty. rewrite P, M. destruct (registered c) eqn:R; [reflexivity|].
  exfalso. apply (P2 P eq_refl). exact M.
Qed.

(* after the loop has exited nothing is taken, registered or dialled any more *)
Theorem after_exit s :
  is_exited s = true ->
  (forall id, step repaired_c s (LoopTake id) = None) /\ step repaired_c s LoopTakeOther = None /\
  (forall id, step repaired_c s (LoopRegister id) = None) /\ (forall n, step repaired_c s (RedialAttempt n) = None) /\
  step repaired_c s RedialSwap = None /\ step repaired_c s ReconnBegin = None.
Proof.
  intros Hx. unfold step, is_exited, is_up, is_redial in *. simpl strict_window.
  destruct (lnk s); try discriminate; repeat split; intros;
    try reflexivity; try (rewrite andb_false_r; reflexivity); try (destruct (holding s); reflexivity).
  all: try (destruct (holding_is s id); reflexivity).
Qed.

(* witnesses: the two defects this model exhibited (repaired by 554462f and 7a242cd) *)
Lemma refuted_window :
  exists es s, run {| strict_window := false; own_delete := true |} init es = Some s /\ no_orphan s = false.
Proof.
  exists [CallStart 1 false; ReconnBegin; CifCleared; LoopTake 1; LoopRegister 1; LoopSent 1 true]. eexists.
  split; [vm_compute; reflexivity|reflexivity].
Qed.

Lemma refuted_stale_delete :
  exists es s, run {| strict_window := true; own_delete := false |} init es = Some s /\ no_orphan s = false.
Proof.
  exists [CallStart 2 true; LoopTake 2; LoopRegister 2; LoopSent 2 true; ExecLookup 2 true; ExecDeliver 2;
          ReconnBegin; CifDeliver 2; CifCleared; CallRecv 2 true; CallRetry 2; RedialSwap;
          LoopTake 2; LoopRegister 2; LoopSent 2 true; ExecDeleted 2 true].
  eexists. split; [vm_compute; reflexivity|reflexivity].
Qed.
