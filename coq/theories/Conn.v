(* Requester side of one wsConn (client.go doRequest / handleRpcCall retry loop, websocket.go handleWsConn
   request arm, handleResponse, closeInFlight, tryReconnect) as a labelled transition system whose events
   are the library's observation points. `step` is deterministic given the event, so traces recorded from the
   implementation can be replayed (trace validation) and theorems quantify over all traces. No proofs here. *)
From Coq Require Import List NArith Bool Arith.
Import ListNotations.
Open Scope N_scope.

Inductive resp := Genuine | ConnErr.
Inductive phase := PEnq | PTaken | PWait | PRecvd | PDone.
(* ExitedDialing: the loop has exited while the redial goroutine was between its backoff sleep and the end of a
   dial; that one dial may still complete (its connection is never installed) *)
Inductive link := Up | Redial | Exited | ExitedDialing.
Inductive exec := EIdle | ELooked (id : N) (att : nat) | EDelivered (id : N) (att : nat).
Inductive outcome := OGenuine | OConnErr | OExiting.

Record call := {
  ph : phase;
  mbox : list resp;          (* the buffered `ready` channel of the current attempt *)
  got : option outcome;      (* what the caller took *)
  retry : bool;
  attempts : nat;            (* number of the current attempt (1 + retries so far); each attempt has its own channel *)
  writes : nat;              (* times the loop wrote the request to a connection *)
  registered : bool          (* registered in-flight in the current attempt *)
}.

Record st := {
  calls : list (N * call);
  inflight : list (N * nat);    (* id -> the request (attempt) registered under it *)
  lnk : link;
  cif_pending : bool;           (* tryReconnect has begun, closeInFlight has not finished *)
  holding : option (option N);  (* the loop took a request: Some (Some id) / a notification or cancel: Some None *)
  exe : exec;
  redial_n : nat;               (* number of the next redial attempt of the current outage *)
  slept : bool                  (* the redial goroutine has announced its backoff sleep and not dialled since *)
}.

Definition init : st :=
  {| calls := []; inflight := []; lnk := Up; cif_pending := false; holding := None; exe := EIdle; redial_n := 0; slept := false |}.

(* which repairs are in the code:
   strict_window (554462f): nothing is registered in-flight while the link is being redialled;
   own_delete (7a242cd): handleResponse drops the in-flight entry only if it still is the request it delivered to *)
Record cvariant := { strict_window : bool; own_delete : bool }.
Definition repaired_c : cvariant := {| strict_window := true; own_delete := true |}.

Inductive ev :=
| CallStart (id : N) (rt : bool)
| LoopTake (id : N)
| LoopTakeOther                       (* a notification or an xrpc.cancel request *)
| LoopFailFast (id : N)
| LoopRegister (id : N)
| LoopSent (id : N) (ok : bool)
| LoopSentOther
| ExecLookup (id : N) (found : bool)
| ExecDeliver (id : N)
| ExecDeleted (id : N) (deleted : bool)
| ExecAbandon (id : N)                (* handleResponse returns after the lookup without delivering: the response cannot
                                         be used (a subscribing call answered with something that is not a channel id) *)
| CifDeliver (id : N)
| CifCleared
| ReconnBegin
| RedialSwap
| RedialAttempt (n : nat)             (* the redial goroutine is about to sleep its n-th backoff *)
| RedialDialed (ok : bool)            (* connFactory returned *)
| LoopExit
| CallRecv (id : N) (conn_err : bool)
| CallExiting (id : N)
| CallRetry (id : N)
| CallReturn (id : N) (o : outcome).

Fixpoint lookup (id : N) (l : list (N * call)) : option call :=
  match l with [] => None | (k, c) :: r => if k =? id then Some c else lookup id r end.
Fixpoint update (id : N) (c : call) (l : list (N * call)) : list (N * call) :=
  match l with [] => [] | (k, c0) :: r => if k =? id then (k, c) :: r else (k, c0) :: update id c r end.

Fixpoint find_att (id : N) (l : list (N * nat)) : option nat :=
  match l with [] => None | (k, a) :: r => if k =? id then Some a else find_att id r end.
Definition mem_id (id : N) (l : list (N * nat)) : bool := match find_att id l with Some _ => true | None => false end.
Fixpoint remove_id (id : N) (l : list (N * nat)) : list (N * nat) :=
  match l with [] => [] | (k, a) :: r => if k =? id then remove_id id r else (k, a) :: remove_id id r end.

Definition set_calls (s : st) (cs : list (N * call)) : st :=
  {| calls := cs; inflight := inflight s; lnk := lnk s; cif_pending := cif_pending s; holding := holding s; exe := exe s; redial_n := redial_n s; slept := slept s |}.
Definition set_inflight (s : st) (l : list (N * nat)) : st :=
  {| calls := calls s; inflight := l; lnk := lnk s; cif_pending := cif_pending s; holding := holding s; exe := exe s; redial_n := redial_n s; slept := slept s |}.
Definition set_link (s : st) (k : link) (p : bool) : st :=
  {| calls := calls s; inflight := inflight s; lnk := k; cif_pending := p; holding := holding s; exe := exe s; redial_n := redial_n s; slept := slept s |}.
Definition set_holding (s : st) (h : option (option N)) : st :=
  {| calls := calls s; inflight := inflight s; lnk := lnk s; cif_pending := cif_pending s; holding := h; exe := exe s; redial_n := redial_n s; slept := slept s |}.
Definition set_exe (s : st) (e : exec) : st :=
  {| calls := calls s; inflight := inflight s; lnk := lnk s; cif_pending := cif_pending s; holding := holding s; exe := e; redial_n := redial_n s; slept := slept s |}.

Definition set_dial (s : st) (n : nat) (b : bool) : st :=
  {| calls := calls s; inflight := inflight s; lnk := lnk s; cif_pending := cif_pending s; holding := holding s; exe := exe s;
     redial_n := n; slept := b |}.

Definition upd (s : st) (id : N) (f : call -> call) : option st :=
  match lookup id (calls s) with
  | Some c => Some (set_calls s (update id (f c) (calls s)))
  | None => None
  end.

Definition with_ph (p : phase) (c : call) : call :=
  {| ph := p; mbox := mbox c; got := got c; retry := retry c; attempts := attempts c; writes := writes c; registered := registered c |}.
Definition push (r : resp) (c : call) : call :=
  {| ph := ph c; mbox := mbox c ++ [r]; got := got c; retry := retry c; attempts := attempts c; writes := writes c; registered := registered c |}.
(* a send to the channel of attempt `att`: only the current attempt's channel is ever read again *)
Definition push_att (att : nat) (r : resp) (c : call) : call := if Nat.eqb att (attempts c) then push r c else c.
Definition set_registered (c : call) : call :=
  {| ph := ph c; mbox := mbox c; got := got c; retry := retry c; attempts := attempts c; writes := writes c; registered := true |}.
Definition sent (c : call) : call :=
  {| ph := PWait; mbox := mbox c; got := got c; retry := retry c; attempts := attempts c; writes := S (writes c); registered := registered c |}.

Definition resp_eqb (a b : resp) : bool := match a, b with Genuine, Genuine | ConnErr, ConnErr => true | _, _ => false end.
Fixpoint remove_resp (r : resp) (l : list resp) : list resp :=
  match l with [] => [] | x :: t => if resp_eqb r x then t else x :: remove_resp r t end.
Definition out_of (r : resp) : outcome := match r with Genuine => OGenuine | ConnErr => OConnErr end.

Definition received (r : resp) (c : call) : call :=
  {| ph := PRecvd; mbox := remove_resp r (mbox c); got := Some (out_of r); retry := retry c; attempts := attempts c;
     writes := writes c; registered := registered c |}.
Definition exited (c : call) : call :=
  {| ph := PRecvd; mbox := mbox c; got := Some OExiting; retry := retry c; attempts := attempts c; writes := writes c;
     registered := registered c |}.
Definition retried (c : call) : call :=
  {| ph := PEnq; mbox := []; got := None; retry := true; attempts := S (attempts c); writes := writes c; registered := false |}.
Definition fresh (rt : bool) : call :=
  {| ph := PEnq; mbox := []; got := None; retry := rt; attempts := 1; writes := 0; registered := false |}.

Definition holding_is (s : st) (id : N) : bool :=
  match holding s with Some (Some k) => k =? id | _ => false end.
Definition is_exited (s : st) : bool := match lnk s with Exited | ExitedDialing => true | _ => false end.
Definition is_up (s : st) : bool := match lnk s with Up => true | _ => false end.
Definition is_redial (s : st) : bool := match lnk s with Redial => true | _ => false end.
Definition nil_b {A} (l : list A) : bool := match l with [] => true | _ => false end.
Definition outcome_eqb (a b : outcome) : bool :=
  match a, b with OGenuine, OGenuine | OConnErr, OConnErr | OExiting, OExiting => true | _, _ => false end.

Definition step (v : cvariant) (s : st) (e : ev) : option st :=
  match e with
  | CallStart id rt =>
      match lookup id (calls s) with
      | Some _ => None                               (* ids are never reused by distinct calls *)
      | None => Some (set_calls s ((id, fresh rt) :: calls s))
      end
  | LoopTake id =>
      if is_exited s then None else
      match holding s, lookup id (calls s) with
      | None, Some c => match ph c with
                        | PEnq => Some (set_holding (set_calls s (update id (with_ph PTaken c) (calls s))) (Some (Some id)))
                        | _ => None end
      | _, _ => None
      end
  | LoopTakeOther =>
      if is_exited s then None else
      match holding s with None => Some (set_holding s (Some None)) | _ => None end
  | LoopSentOther =>
      match holding s with Some None => Some (set_holding s None) | _ => None end
  | LoopFailFast id =>
      if holding_is s id then
        match lookup id (calls s) with
        | Some c => Some (set_holding (set_calls s (update id (with_ph PWait (push ConnErr c)) (calls s))) None)
        | None => None end
      else None
  | LoopRegister id =>
      if holding_is s id && (negb (strict_window v) || is_up s) && negb (mem_id id (inflight s)) then
        match lookup id (calls s) with
        | Some c =>
            (* a request is registered once per take: the loop registers, writes, and goes back to its select *)
            if registered c then None
            else Some (set_inflight (set_calls s (update id (set_registered c) (calls s))) ((id, attempts c) :: inflight s))
        | None => None end
      else None
  | LoopSent id ok =>
      if holding_is s id then
        match lookup id (calls s) with
        | Some c => if registered c
                    then Some (set_holding (set_calls s (update id (sent c) (calls s))) None)
                    else None
        | None => None end
      else None
  | ExecLookup id found =>
      match exe s with
      | EIdle => match find_att id (inflight s) with
                 | Some att => if found then Some (set_exe s (ELooked id att)) else None
                 | None => if found then None else Some s
                 end
      | _ => None
      end
  | ExecDeliver id =>
      match exe s with
      | ELooked k att => if k =? id then
                           match lookup id (calls s) with
                           | Some c => Some (set_exe (set_calls s (update id (push_att att Genuine c) (calls s))) (EDelivered id att))
                           | None => None end
                         else None
      | _ => None
      end
  | ExecDeleted id deleted =>
      match exe s with
      | EDelivered k att =>
          if k =? id then
            let own := match find_att id (inflight s) with Some a => Nat.eqb a att | None => false end in
            if own_delete v then
              if Bool.eqb deleted own
              then Some (set_exe (if own then set_inflight s (remove_id id (inflight s)) else s) EIdle)
              else None
            else Some (set_exe (set_inflight s (remove_id id (inflight s))) EIdle)
          else None
      | _ => None
      end
  | ExecAbandon id =>
      (* nothing is sent to the caller and nothing is removed: the request stays registered in flight *)
      match exe s with
      | ELooked k att => if k =? id then Some (set_exe s EIdle) else None
      | _ => None
      end
  | CifDeliver id =>
      match holding s, find_att id (inflight s), lookup id (calls s) with
      | None, Some att, Some c =>
          (* closeInFlight holds inflightLk from the first send to the final clear, so for every other goroutine the
             entry is gone as soon as its error has been sent *)
          Some (set_inflight (set_calls s (update id (push_att att ConnErr c) (calls s))) (remove_id id (inflight s)))
      | _, _, _ => None
      end
  | CifCleared =>
      match holding s with
      | None => if nil_b (inflight s) then Some (set_link s (lnk s) false) else None   (* every request was failed *)
      | _ => None
      end
  | ReconnBegin =>
      match holding s with
      | None => if is_up s then Some (set_dial (set_link s Redial true) 0 false) else None
      | _ => None
      end
  | RedialSwap =>
      if is_redial s && negb (cif_pending s) && nil_b (inflight s) then Some (set_link s Up false) else None
  | RedialAttempt n =>
      (* attempts of one outage are numbered 0, 1, 2, ...; each announces the backoff sleep that precedes its dial *)
      if is_redial s && Nat.eqb n (redial_n s) && negb (slept s) then Some (set_dial s (S n) true) else None
  | RedialDialed ok =>
      match lnk s with
      | Redial => if slept s then Some (set_dial s (redial_n s) false) else None   (* no dial without the sleep before it *)
      | ExitedDialing => Some (set_link s Exited (cif_pending s))   (* the one dial that was already under way at exit *)
      | _ => None
      end
  | LoopExit =>
      match holding s with
      | None => if nil_b (inflight s) && negb (is_exited s)
                then Some (set_link s (if is_redial s then ExitedDialing else Exited) false) else None
      | _ => None
      end
  | CallRecv id conn_err =>
      (* the hook sits after the receive and tells which kind of response was taken; two senders racing for the
         one-slot buffer are logged in hook order, not in send order, so the mailbox is searched, not popped *)
      match lookup id (calls s) with
      | Some c =>
          match ph c, got c with
          | PWait, None =>
              let r := if conn_err then ConnErr else Genuine in
              if existsb (resp_eqb r) (mbox c) then Some (set_calls s (update id (received r c) (calls s))) else None
          | _, _ => None
          end
      | None => None
      end
  | CallExiting id =>
      if is_exited s then
        match lookup id (calls s) with
        | Some c => match ph c with
                    | PEnq => Some (set_calls s (update id (exited c) (calls s)))
                    | _ => None end
        | None => None
        end
      else None
  | CallRetry id =>
      match lookup id (calls s) with
      | Some c =>
          match ph c, got c, retry c with
          | PRecvd, Some OConnErr, true => Some (set_calls s (update id (retried c) (calls s)))
          | _, _, _ => None
          end
      | None => None
      end
  | CallReturn id o =>
      match lookup id (calls s) with
      | Some c =>
          match ph c, got c with
          | PRecvd, Some g =>
              (* a retry-tagged caller never returns the connection error: it goes round its retry loop instead *)
              if outcome_eqb g o && negb (retry c && outcome_eqb o OConnErr)
              then Some (set_calls s (update id (with_ph PDone c) (calls s))) else None
          | _, _ => None
          end
      | None => None
      end
  end.

Fixpoint run (v : cvariant) (s : st) (es : list ev) : option st :=
  match es with
  | [] => Some s
  | e :: r => match step v s e with Some s' => run v s' r | None => None end
  end.

(* index of the first event the model does not enable (for diagnostics) *)
Fixpoint run_diag (v : cvariant) (s : st) (es : list ev) (i : N) : st * option N :=
  match es with
  | [] => (s, None)
  | e :: r => match step v s e with Some s' => run_diag v s' r (i + 1) | None => (s, Some i) end
  end.

(* ---- what the theorems talk about *)
Definition entry_is (s : st) (id : N) (att : nat) : bool :=
  match find_att id (inflight s) with Some a => Nat.eqb a att | None => false end.
Definition exec_looked (s : st) (id : N) (att : nat) : bool :=
  match exe s with ELooked k a => (k =? id) && Nat.eqb a att | _ => false end.

(* a registered call whose request is with the loop or handed back to the caller, with nothing in its mailbox *)
Definition pending_empty (c : call) : bool :=
  registered c && (match ph c with PTaken | PWait => true | _ => false end) && nil_b (mbox c).
Definition waiting_empty (c : call) : bool :=
  match ph c, mbox c with PWait, [] => true | _, _ => false end.

(* orphan-freedom, executable form: every waiting call with an empty mailbox has a responsible party, and
   requests are in flight only on a live link or while closeInFlight is about to fail them *)
Definition no_orphan (s : st) : bool :=
  forallb (fun kc => negb (waiting_empty (snd kc)) || entry_is s (fst kc) (attempts (snd kc))
                     || exec_looked s (fst kc) (attempts (snd kc))) (calls s)
  && (nil_b (inflight s) || is_up s || cif_pending s).
