(* C11 — Handler errors arrive intact; registered error types round-trip by code.
   Statements only; proofs in Errors_Proofs.v. The model (Errors.v) is createError on the server, the JSONRPCError wire
   object, and JSONRPCError.val on the client; user conversions enter as data (what they produced) and as acceptance
   predicates (whether they succeed on what they are handed). *)
From Coq Require Import String.
From Coq Require Import List NArith ZArith Bool.
Import ListNotations.
From JR Require Import Json Handle Errors Errors_Proofs.
From JRGen Require Extracted.

(* the decision skeletons of the three functions as they are in /repo now: code lookup by dynamic type with default 1,
   codec before marshalable on both sides, meta only when present, failed conversions return the generic error, the
   reserved-range test of Error(), and the one pre-registered client code *)
Theorem c11_source_facts :
  Extracted.createError_decisions =
    ["if s.errors != nil"; "if ok"; "case RPCErrorCodec"; "case marshalable"; "if err != nil"; "if marshalErr == nil"]%string /\
  Extracted.createError_default_code = 1%Z /\
  Extracted.val_decisions =
    ["if errors != nil"; "if ok"; "if t.Kind() == reflect.Ptr"; "if v.Type().Implements(errorCodecRT)"; "if err != nil";
     "if len(e.Meta) > 0 && v.Type().Implements(marshalableRT)"; "if err != nil"; "if t.Kind() != reflect.Ptr"]%string /\
  Extracted.error_string_decisions = ["if e.Code >= -32768 && e.Code <= -32000"]%string /\
  Extracted.newErrors_byCode_keys = [Extracted.eTempWSError].
Proof. repeat split; reflexivity. Qed.

(* error nil iff nil; the zero value beside an error; the value intact otherwise — whatever the tables and conversions *)
Theorem c11_error_iff_error : forall tycaps accept_codec accept_meta s c zero r,
  (snd (receive tycaps accept_codec accept_meta c zero (serve tycaps s r)) = None <-> snd r = None) /\
  (snd r <> None -> fst (receive tycaps accept_codec accept_meta c zero (serve tycaps s r)) = zero) /\
  (snd r = None -> fst (receive tycaps accept_codec accept_meta c zero (serve tycaps s r)) = fst r).
Proof. exact error_iff_error. Qed.

(* an unregistered plain error arrives as the generic error with code 1 and the handler's message *)
Theorem c11_unregistered_generic : forall tycaps accept_codec accept_meta s c e,
  is_codec (tycaps (ev_ty e)) = false -> is_marshalable (tycaps (ev_ty e)) = false ->
  (s = None \/ exists r, s = Some r /\ by_type r (ev_ty e) = None) ->
  (c = None \/ exists r, c = Some r /\ by_code r 1%Z = None) ->
  val tycaps accept_codec accept_meta c (create_error tycaps s e) =
    CGeneric {| we_code := 1; we_msg := ev_msg e; we_meta := None; we_data := None |}.
Proof. exact unregistered_end_to_end. Qed.

(* any error whose wire code the client has no entry for (server-only and disjoint tables, or no client table):
   generic error carrying the wire content untouched; the message is the handler's for every non-codec error *)
Theorem c11_unmapped_code_generic : forall tycaps accept_codec accept_meta c w,
  (c = None \/ exists r, c = Some r /\ by_code r (we_code w) = None) ->
  val tycaps accept_codec accept_meta c w = CGeneric w.
Proof. exact unmapped_code_generic. Qed.

Theorem c11_message_preserved : forall tycaps s e,
  is_codec (tycaps (ev_ty e)) = false -> we_msg (create_error tycaps s e) = ev_msg e.
Proof. exact message_preserved. Qed.

(* code, message, meta and data survive the JSON object (codes of up to 80 digits; a JSON null `data` reads back as absent) *)
Theorem c11_wire_round_trip : forall w,
  (Z.abs (we_code w) < 10 ^ 80)%Z -> we_data w <> Some JNull -> read_wire (wire_json w) = Some w.
Proof. exact read_wire_json. Qed.

(* registered under the same code on both sides *)
Theorem c11_registered_marshalable : forall tycaps accept_codec accept_meta s c e code j rs rc,
  s = Some rs -> c = Some rc ->
  by_type rs (ev_ty e) = Some code -> by_code rc code = Some (ev_ty e) ->
  is_codec (tycaps (ev_ty e)) = false -> is_marshalable (tycaps (ev_ty e)) = true ->
  ev_meta e = Some j -> accept_meta (ev_ty e) j = true ->
  val tycaps accept_codec accept_meta c (create_error tycaps s e) = CTyped (ev_ty e) (Some (inr j)).
Proof. exact registered_marshalable. Qed.

Theorem c11_registered_codec : forall tycaps accept_codec accept_meta s c e code m d rc,
  c = Some rc -> is_codec (tycaps (ev_ty e)) = true -> ev_codec e = Some (code, m, d) ->
  by_code rc code = Some (ev_ty e) ->
  accept_codec (ev_ty e) {| we_code := code; we_msg := m; we_meta := None; we_data := d |} = true ->
  val tycaps accept_codec accept_meta c (create_error tycaps s e) =
    CTyped (ev_ty e) (Some (inl {| we_code := code; we_msg := m; we_meta := None; we_data := d |})).
Proof. exact registered_codec. Qed.

Theorem c11_registered_plain : forall tycaps accept_codec accept_meta s c e code rs rc,
  s = Some rs -> c = Some rc ->
  by_type rs (ev_ty e) = Some code -> by_code rc code = Some (ev_ty e) ->
  is_codec (tycaps (ev_ty e)) = false -> is_marshalable (tycaps (ev_ty e)) = false ->
  val tycaps accept_codec accept_meta c (create_error tycaps s e) = CTyped (ev_ty e) None.
Proof. exact registered_plain. Qed.

(* the caller never receives a type other than the one registered for the wire code, in the registered form; what the
   type's conversion is handed is the wire content itself; codec takes precedence over meta *)
Theorem c11_typed_is_registered : forall tycaps accept_codec accept_meta c w k p,
  val tycaps accept_codec accept_meta c w = CTyped k p -> exists r, c = Some r /\ by_code r (we_code w) = Some k.
Proof. exact typed_is_registered. Qed.

Theorem c11_typed_payload : forall tycaps accept_codec accept_meta c w k p,
  val tycaps accept_codec accept_meta c w = CTyped k (Some p) -> p = inl w \/ exists j, we_meta w = Some j /\ p = inr j.
Proof. exact typed_payload. Qed.

Theorem c11_codec_precedence : forall tycaps accept_codec accept_meta c w k rc,
  c = Some rc -> by_code rc (we_code w) = Some k -> is_codec (tycaps k) = true ->
  val tycaps accept_codec accept_meta c w = if accept_codec k w then CTyped k (Some (inl w)) else CGeneric w.
Proof. exact codec_precedence. Qed.

(* value and pointer forms are different keys; Register binds both directions *)
Theorem c11_value_pointer_distinct : forall n c (r : registry_s),
  by_type (register_s c {| ty_name := n; ty_ptr := false |} r) {| ty_name := n; ty_ptr := true |} =
  by_type r {| ty_name := n; ty_ptr := true |} /\
  by_type (register_s c {| ty_name := n; ty_ptr := true |} r) {| ty_name := n; ty_ptr := false |} =
  by_type r {| ty_name := n; ty_ptr := false |}.
Proof. exact value_pointer_distinct. Qed.

Theorem c11_register_lookup : forall c k rs rc,
  by_type (register_s c k rs) k = Some c /\ by_code (register_c c k rc) c = Some k.
Proof. exact register_lookup. Qed.

(* a failed conversion: the generic error with the wire content (or the zero value of the type when there was nothing to
   convert) — the result is a client_err in every case, there is no nil and no stuck state in the model *)
Theorem c11_failed_conversion_generic : forall tycaps accept_codec accept_meta c w,
  (forall k, accept_codec k w = false) -> (forall k j, accept_meta k j = false) ->
  (exists k, val tycaps accept_codec accept_meta c w = CTyped k None) \/ val tycaps accept_codec accept_meta c w = CGeneric w.
Proof. exact failed_conversion_generic. Qed.

Theorem c11_error_string : forall w,
  ((-32768 <= we_code w <= -32000)%Z -> error_string w = (bs "RPC error (" ++ z_lit (we_code w) ++ bs "): " ++ we_msg w)%list) /\
  (~ (-32768 <= we_code w <= -32000)%Z -> error_string w = we_msg w).
Proof. exact error_string_spec. Qed.

(* the failing-handler response of the request-path model (Handle.v, C09/C12) is this wire object *)
Theorem c11_response_carries_wire : forall w id,
  match fail_outcome w with
  | Fail c m x => pr_response {| rs_id := id; rs_body := RError c (MExact m) x; rs_rpc_error := false |} msg_default =
                  JObj [(bs "error", wire_json w); (bs "id", id); (bs "jsonrpc", JStr (bs "2.0"))]
  | _ => False
  end.
Proof. exact fail_outcome_wire. Qed.

(* non-vacuity: a concrete marshalable error with matching tables meets the hypotheses of c11_registered_marshalable *)
Example c11_nonvacuous :
  let k := {| ty_name := 3; ty_ptr := true |} in
  let caps := fun _ : tykey => {| is_codec := false; is_marshalable := true |} in
  let e := {| ev_ty := k; ev_msg := bs "boom"; ev_codec := None; ev_meta := Some (JObj [(bs "M", JStr (bs "boom"))]) |} in
  val caps (fun _ _ => true) (fun _ _ => true) (Some (register_c 13 k [])) (create_error caps (Some (register_s 13 k [])) e)
  = CTyped k (Some (inr (JObj [(bs "M", JStr (bs "boom"))]))).
Proof. reflexivity. Qed.

Print Assumptions c11_source_facts.
Print Assumptions c11_error_iff_error.
Print Assumptions c11_unregistered_generic.
Print Assumptions c11_unmapped_code_generic.
Print Assumptions c11_message_preserved.
Print Assumptions c11_wire_round_trip.
Print Assumptions c11_registered_marshalable.
Print Assumptions c11_registered_codec.
Print Assumptions c11_registered_plain.
Print Assumptions c11_typed_is_registered.
Print Assumptions c11_typed_payload.
Print Assumptions c11_codec_precedence.
Print Assumptions c11_value_pointer_distinct.
Print Assumptions c11_register_lookup.
Print Assumptions c11_failed_conversion_generic.
Print Assumptions c11_error_string.
Print Assumptions c11_response_carries_wire.
