(* Model of the WebSocket frame executor: frameExecutor / handleFrame / cancelCtx / handleChanMessage /
   handleChanClose / handleResponse / handleCall (websocket.go), with Go's run-time panics explicit.
   No proofs here. *)
From Coq Require Import List NArith ZArith Bool Arith String.
Import ListNotations.
From JR Require Import Json Handle.
From JRGen Require Extracted.
Open Scope N_scope.

(* which guards the code has (d29ec76 added them); the translator re-reads them from the source *)
Record guards := {
  g_cancel_len : bool;       (* cancelCtx checks len(params) >= 1 before params[0] *)
  g_cancel_norm : bool;      (* cancelCtx passes the decoded id through normalizeID before using it as map key *)
  g_val_len : bool;          (* handleChanMessage checks len(params) >= 2 *)
  g_close_len : bool         (* handleChanClose checks len(params) >= 1 *)
}.
Definition all_guards : guards := {| g_cancel_len := true; g_cancel_norm := true; g_val_len := true; g_close_len := true |}.
Definition no_guards : guards := {| g_cancel_len := false; g_cancel_norm := false; g_val_len := false; g_close_len := false |}.

Record frame := {
  f_id : option json;
  f_method : bytes;
  f_params : option json;
  f_result : option json;
  f_error : option json          (* the error object, when present and not null *)
}.
Definition zero_frame : frame := {| f_id := None; f_method := []; f_params := None; f_result := None; f_error := None |}.

Definition int_ok (v : json) : bool :=
  match v with
  | JNull => true
  | JNum lit => match int_literal lit with Some z => int64_ok z | None => false end
  | _ => false
  end.

(* *JSONRPCError: null or an object; code int, message string, meta raw, data any *)
Definition error_ok (v : json) : bool :=
  match v with
  | JNull => true
  | JObj l => forallb (fun kv =>
                if key_is (fst kv) "code" then int_ok (snd kv)
                else if key_is (fst kv) "message" then match snd kv with JStr _ | JNull => true | _ => false end
                else true) l
  | _ => false
  end.

Fixpoint decode_fmembers (l : list (bytes * json)) (f : frame) (err : bool) : frame * bool :=
  match l with
  | [] => (f, err)
  | (k, v) :: rest =>
      if key_is k "jsonrpc" then
        decode_fmembers rest f (err || match v with JStr _ | JNull => false | _ => true end)
      else if key_is k "id" then
        decode_fmembers rest {| f_id := match v with JNull => None | _ => Some v end; f_method := f_method f;
                                f_params := f_params f; f_result := f_result f; f_error := f_error f |} err
      else if key_is k "method" then
        match v with
        | JStr s => decode_fmembers rest {| f_id := f_id f; f_method := s; f_params := f_params f;
                                            f_result := f_result f; f_error := f_error f |} err
        | JNull => decode_fmembers rest f err
        | _ => decode_fmembers rest f true
        end
      else if key_is k "params" then
        decode_fmembers rest {| f_id := f_id f; f_method := f_method f; f_params := Some v;
                                f_result := f_result f; f_error := f_error f |} err
      else if key_is k "result" then
        decode_fmembers rest {| f_id := f_id f; f_method := f_method f; f_params := f_params f;
                                f_result := Some v; f_error := f_error f |} err
      else if key_is k "error" then
        decode_fmembers rest {| f_id := f_id f; f_method := f_method f; f_params := f_params f; f_result := f_result f;
                                f_error := match v with JNull => None | _ => Some v end |} (err || negb (error_ok v))
      else if key_is k "meta" then
        decode_fmembers rest f (err || negb (meta_ok v))
      else decode_fmembers rest f err
  end.

Definition decode_frame (v : json) : frame * bool :=
  match v with
  | JObj l => decode_fmembers l zero_frame false
  | JNull => (zero_frame, false)
  | _ => (zero_frame, true)
  end.

(* json.Unmarshal(raw, &[]param): array or null *)
Definition param_list (p : option json) : option (list json) :=
  match p with
  | None => None            (* empty RawMessage: "unexpected end of JSON input" *)
  | Some JNull => Some []
  | Some (JArr l) => Some l
  | Some _ => None
  end.

(* json.Unmarshal into uint64: null is a no-op (0); otherwise a non-negative integer literal below 2^64 *)
Definition as_uint64 (v : json) : option Z :=
  match v with
  | JNull => Some 0%Z
  | JNum (45 :: _) => None
  | JNum lit => match int_literal lit with
                | Some z => if Z.ltb z 18446744073709551616 then Some z else None
                | None => None
                end
  | _ => None
  end.

(* is this value usable as a Go map key after json.Unmarshal into interface{}? slices and maps are not *)
Definition hashable (v : json) : bool := match v with JArr _ | JObj _ => false | _ => true end.

(* connection tables the executor consults *)
Record tables := {
  t_inflight : list json;          (* ids of our outstanding requests *)
  t_handling : list json;          (* ids of calls being handled *)
  t_sinks : list Z;                (* client-side channel ids *)
  t_has_handler : bool
}.

Fixpoint mem_json (x : json) (l : list json) : bool :=
  match l with [] => false | y :: r => json_eqb x y || mem_json x r end.
Fixpoint mem_z (x : Z) (l : list Z) : bool :=
  match l with [] => false | y :: r => Z.eqb x y || mem_z x r end.

Inductive effect :=
| EDrop                                        (* logged and ignored *)
| ECall (r : request)                          (* handleCall: handler.handle spawned for r *)
| ECancel (id : option json) (found : bool)    (* cancelCtx looked id up; found => that context is cancelled *)
| EChanVal (chid : Z) (v : json) (found : bool)
| EChanClose (chid : Z) (found : bool)
| EResponse (id : option json) (found : bool)  (* handleResponse *)
| ECrash.                                      (* a Go run-time panic on the executor goroutine: process dies *)

Definition exec_builtin_cancel (g : guards) (t : tables) (f : frame) : effect :=
  match param_list (f_params f) with
  | None => EDrop
  | Some ps =>
      match ps with
      | [] => if g_cancel_len g then EDrop else ECrash                (* params[0]: index out of range *)
      | p0 :: _ =>
          (* json.Unmarshal(params[0].data, &id) into interface{} never fails on valid JSON *)
          let idv := match p0 with JNull => None | _ => Some p0 end in
          if g_cancel_norm g then
            match normalize_id idv with
            | None => EDrop
            | Some id => ECancel id (match id with Some j => mem_json j (t_handling t) | None => false end)
            end
          else
            match idv with
            | Some j => if hashable j then ECancel idv (mem_json j (t_handling t)) else ECrash   (* hash of unhashable type *)
            | None => ECancel None false
            end
      end
  end.

Definition exec_builtin_chval (g : guards) (t : tables) (f : frame) : effect :=
  match param_list (f_params f) with
  | None => EDrop
  | Some ps =>
      if g_val_len g && (Nat.ltb (List.length ps) 2) then EDrop else
      match ps with
      | [] => ECrash
      | p0 :: rest =>
          match as_uint64 p0 with
          | None => EDrop
          | Some chid =>
              if mem_z chid (t_sinks t) then
                match rest with
                | v :: _ => EChanVal chid v true
                | [] => ECrash                                         (* params[1] *)
                end
              else EChanVal chid JNull false
          end
      end
  end.

Definition exec_builtin_chclose (g : guards) (t : tables) (f : frame) : effect :=
  match param_list (f_params f) with
  | None => EDrop
  | Some ps =>
      match ps with
      | [] => if g_close_len g then EDrop else ECrash
      | p0 :: _ =>
          match as_uint64 p0 with
          | None => EDrop
          | Some chid => EChanClose chid (mem_z chid (t_sinks t))
          end
      end
  end.

Definition exec_frame (g : guards) (t : tables) (b : bytes) : effect :=
  match parse b with
  | None => EDrop
  | Some v =>
      let '(f, err) := decode_frame v in
      if err then EDrop else
      match normalize_id (f_id f) with
      | None => EDrop
      | Some id =>
          let f := {| f_id := id; f_method := f_method f; f_params := f_params f; f_result := f_result f; f_error := f_error f |} in
          if bytes_eqb (f_method f) [] then
            EResponse id (match id with Some j => mem_json j (t_inflight t) | None => false end)
          else if bytes_eqb (f_method f) (bs Extracted.wsCancel) then exec_builtin_cancel g t f
          else if bytes_eqb (f_method f) (bs Extracted.chValue) then exec_builtin_chval g t f
          else if bytes_eqb (f_method f) (bs Extracted.chClose) then exec_builtin_chclose g t f
          else if t_has_handler t then ECall {| r_id := id; r_method := f_method f; r_params := f_params f |}
          else EDrop
      end
  end.
