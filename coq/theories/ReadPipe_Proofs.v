From Coq Require Import List Arith Bool Lia Sorting.Sorted.
Import ListNotations.
From JR Require Import ReadPipe.

(* frames are handed on in wire order: executed ++ queue ++ in-pipe is strictly increasing and below nextf; every frame
   read off the wire is there or was lost with its connection *)
Definition RInv (s : rp) : Prop :=
  StronglySorted lt (accounted s) /\ (forall f, In f (accounted s) -> f < nextf s) /\
  (forall f, f < nextf s -> In f (accounted s) \/ In f (lost s)).

Lemma ss_app_lt l x : StronglySorted lt l -> (forall y, In y l -> y < x) -> StronglySorted lt (l ++ [x]).
Proof.
  induction l as [|a l IH]; intros H Hb; simpl.
  - constructor; constructor.
  - inversion H as [|? ? Hs Hf]; subst. constructor.
    + apply IH; [exact Hs|]. intros y Hy. apply Hb. right. exact Hy.
    + apply Forall_app. split; [exact Hf|]. constructor; [|constructor]. apply Hb. left. reflexivity.
Qed.

Lemma ss_sub l1 l2 : StronglySorted lt (l1 ++ l2) -> StronglySorted lt l1.
Proof.
  induction l1 as [|a l1 IH]; intros H; [constructor|]. simpl in H. inversion H as [|? ? Hs Hf]; subst.
  constructor; [apply IH; exact Hs|]. apply Forall_app in Hf. tauto.
Qed.

Lemma rinv_init : RInv rp0.
Proof. unfold RInv, accounted, in_pipe. simpl. repeat split; try constructor; intros; try tauto; lia. Qed.

(* the invariant only looks at accounted, nextf and lost *)
Lemma rinv_same s s' : accounted s' = accounted s -> nextf s' = nextf s -> lost s' = lost s -> RInv s -> RInv s'.
Proof. unfold RInv. intros -> -> ->. auto. Qed.

Lemma rinv_msg s : tk s = TNext -> RInv s ->
  RInv {| tk := TIncoming (nextf s); nextf := S (nextf s); queue := queue s; executed := executed s; lost := lost s |}.
Proof.
  intros Ht (Hs & Hb & Hc). unfold RInv, accounted, in_pipe in *. cbn [tk nextf queue executed lost]. rewrite Ht in *.
  rewrite app_nil_r in *. rewrite app_assoc. split; [|split].
  - apply ss_app_lt; assumption.
  - intros f Hf. apply in_app_or in Hf. destruct Hf as [Hf|[<-|[]]]; [specialize (Hb f Hf)|]; lia.
  - intros f Hf. destruct (Nat.eq_dec f (nextf s)) as [->|Hn].
    + left. apply in_or_app. right. left. reflexivity.
    + destruct (Hc f ltac:(lia)) as [Hi|Hl]; [left; apply in_or_app; left; exact Hi|right; exact Hl].
Qed.

Lemma rinv_enq s f : tk s = TRead f -> RInv s ->
  RInv {| tk := TNext; nextf := nextf s; queue := queue s ++ [f]; executed := executed s; lost := lost s |}.
Proof.
  intros Ht HI. apply (rinv_same s); try reflexivity; [|exact HI].
  unfold accounted, in_pipe. cbn [tk queue executed]. rewrite Ht. rewrite app_nil_r. reflexivity.
Qed.

Lemma rinv_lose s f t : tk s = TRead f -> (t = TClosed \/ t = TNone) -> RInv s ->
  RInv {| tk := t; nextf := nextf s; queue := queue s; executed := executed s; lost := f :: lost s |}.
Proof.
  intros Ht Hk (Hs & Hb & Hc). unfold RInv, accounted, in_pipe in *. cbn [tk nextf queue executed lost]. rewrite Ht in *.
  assert (E : match t with TIncoming g | TRead g => [g] | _ => [] end = []) by (destruct Hk; subst; reflexivity).
  rewrite E. rewrite app_nil_r. split; [|split].
  - rewrite app_assoc in Hs. apply ss_sub in Hs. exact Hs.
  - intros g Hg. apply Hb. rewrite app_assoc. apply in_or_app. left. exact Hg.
  - intros g Hg. destruct (Hc g Hg) as [Hi|Hl]; [|right; right; exact Hl].
    rewrite app_assoc in Hi. apply in_app_or in Hi. destruct Hi as [Hi|[<-|[]]]; [left; exact Hi|right; left; reflexivity].
Qed.

Lemma rinv_take s f q : queue s = f :: q -> RInv s ->
  RInv {| tk := tk s; nextf := nextf s; queue := q; executed := executed s ++ [f]; lost := lost s |}.
Proof.
  intros Hq HI. apply (rinv_same s); try reflexivity; [|exact HI].
  unfold accounted, in_pipe. cbn [tk queue executed]. rewrite Hq. rewrite <- app_assoc. reflexivity.
Qed.

Lemma rinv_settk s t : in_pipe (set_tk s t) = in_pipe s -> RInv s -> RInv (set_tk s t).
Proof. intros E HI. apply (rinv_same s); try reflexivity; [|exact HI]. unfold accounted. rewrite E. reflexivity. Qed.

Lemma rinv_step db s e s' : RInv s -> rstep db s e = Some s' -> RInv s'.
Proof.
  intros HI H. unfold rstep in H. destruct e.
  - destruct (tk s) eqn:Ht; try discriminate. injection H as <-. apply rinv_msg; assumption.
  - destruct (tk s) eqn:Ht; try discriminate. injection H as <-. apply rinv_settk; [|exact HI].
    unfold in_pipe. simpl. rewrite Ht. reflexivity.
  - destruct ok; destruct (tk s) eqn:Ht; try discriminate; injection H as <-.
    + apply (rinv_same s); try reflexivity; [|exact HI]. unfold accounted, in_pipe. simpl. rewrite Ht. reflexivity.
    + apply rinv_settk; [|exact HI]. unfold in_pipe. simpl. rewrite Ht. reflexivity.
  - destruct (tk s) eqn:Ht; try discriminate. injection H as <-. apply rinv_enq; assumption.
  - destruct (tk s) eqn:Ht; try discriminate. injection H as <-. eapply rinv_lose; eauto.
  - destruct (tk s) eqn:Ht; try discriminate. injection H as <-. apply rinv_settk; [|exact HI].
    unfold in_pipe. simpl. rewrite Ht. reflexivity.
  - destruct (tk s) eqn:Ht; try discriminate. destruct db; injection H as <-.
    + eapply rinv_lose; eauto.
    + apply rinv_enq; assumption.
  - assert (G : match queue s with
                | f :: q => Some {| tk := tk s; nextf := nextf s; queue := q; executed := executed s ++ [f]; lost := lost s |}
                | [] => None end = Some s') by (destruct (tk s); exact H).
    destruct (queue s) as [|f q] eqn:Hq; [discriminate|]. injection G as <-. apply rinv_take; assumption.
  - destruct (tk s) eqn:Ht; try discriminate. injection H as <-. apply rinv_settk; [|exact HI].
    unfold in_pipe. simpl. rewrite Ht. reflexivity.
Qed.

Lemma rinv_run db es : forall s s', RInv s -> rrun db s es = Some s' -> RInv s'.
Proof.
  induction es as [|e es IH]; intros s s' HI H; simpl in H; [injection H as <-; exact HI|].
  destruct (rstep db s e) as [s1|] eqn:E; [|discriminate]. eapply IH; [eapply rinv_step; eauto|exact H].
Qed.

(* FIFO: for every trace the executor has taken the frames in wire order, none twice, and every frame read off the wire
   is executed, queued, in the pipeline, or was lost with its connection *)
Theorem frames_in_wire_order : forall db es s, rrun db rp0 es = Some s ->
  StronglySorted lt (executed s) /\ (forall f, f < nextf s -> In f (executed s) \/ In f (queue s) \/ In f (in_pipe s) \/ In f (lost s)).
Proof.
  intros db es s H. destruct (rinv_run db es rp0 s rinv_init H) as (Hs & _ & Hc). split.
  - unfold accounted in Hs. apply ss_sub in Hs. exact Hs.
  - intros f Hf. destruct (Hc f Hf) as [Hi|Hl]; [|auto]. unfold accounted in Hi.
    apply in_app_or in Hi. destruct Hi as [Hi|Hi]; [auto|]. apply in_app_or in Hi. destruct Hi; auto.
Qed.

(* in the code (blank frames are frames) nothing is ever lost except by a failed read *)
(* the token is never dropped: a reader is armed, a frame is on its way, or the failure is on its way to / with the loop *)
Theorem reader_never_unarmed : forall es s, rrun false rp0 es = Some s -> tk s <> TNone.
Proof.
  assert (G : forall es s s', tk s <> TNone -> rrun false s es = Some s' -> tk s' <> TNone).
  { induction es as [|e es IH]; intros s s' Hn H; simpl in H; [injection H as <-; exact Hn|].
    destruct (rstep false s e) as [s1|] eqn:E; [|discriminate]. eapply IH; [|exact H].
    unfold rstep in E. destruct e; try (destruct ok); destruct (tk s) eqn:Ht; try discriminate;
      try (injection E as <-; simpl; try rewrite Ht; try discriminate; try exact Hn);
      try (destruct (queue s); [discriminate|injection E as <-; simpl; try rewrite Ht; try discriminate; try exact Hn]).
    all: try congruence. }
  intros es s H. eapply G; [|exact H]. discriminate.
Qed.

(* the variant that returns on a blank frame before enqueueing and re-arming: one blank frame and nothing is enabled any
   more except emptying the queue — no further frame is ever read *)
Lemma refuted_drop_blank :
  exists es s, rrun true rp0 es = Some s /\ tk s = TNone /\
    forall e, e <> XTake -> rstep true s e = None.
Proof.
  exists [RMsg; LIncoming true; FBlank]. eexists. split; [reflexivity|]. split; [reflexivity|].
  intros e He. destruct e; try reflexivity; try (destruct ok; reflexivity); congruence.
Qed.
