(* C05 — Reconnecting clients heal themselves; retry-tagged calls ride out outages.
   Statements only; proofs in Backoff_Proofs.v and Conn_Proofs.v. *)
From Coq Require Import List NArith ZArith QArith Bool String.
Import ListNotations.
From JR Require Import Backoff Backoff_Proofs Conn Conn_Proofs.
From JRGen Require Extracted.
From JR Require Skeletons.

(* backoff.next as it is in /repo now: the float-domain clamp precedes the conversion; formula 1.5^attempt + jitter;
   the caller's retry loop paces itself with the same function (methodMin/MaxRetryDelay) *)
Theorem c05_source_facts :
  Extracted.backoff_clamps_before_convert = true /\
  Extracted.backoff_constants = ["minf * math.Pow(1.5, float64(attempt))"; "durf + rand.Float64() * minf"]%string /\
  Extracted.methodMinRetryDelay = 100000000%Z /\ Extracted.methodMaxRetryDelay = 600000000000%Z /\
  Extracted.retry_condition = "resp.Error != nil && resp.Error.Code == eTempWSError && fn.retry"%string /\
  (* the caller's retry loop is left in four ways only (request could not be handed over / foreign id / undecodable
     result / the response is not a temporary connection error of a retry-tagged method) and otherwise sleeps the backoff
     and goes round again: whether it goes on never depends on the caller's context *)
  Extracted.retry_loop_leaves =
    ["if err != nil: return"; "if !fn.notify && resp.ID != req.ID: return";
     "if err := json.Unmarshal(resp.Result, val.Interface()); err != nil: return"; "if !retry: break"]%string /\
  Extracted.retry_loop_tail = ["vhook(""call.retry"", fn.client, req.ID, attempt)"; "time.Sleep(b.next(attempt))"]%string /\
  (* the two options that decide about reconnecting are plain setters of their own field: neither undoes the other, in
     whatever order they are listed *)
  Extracted.reconnect_option_bodies =
    [("WithReconnectBackoff", ["c.reconnectBackoff = backoff{minDelay: minDelay, maxDelay: maxDelay}"]);
     ("WithNoReconnect", ["c.noReconnect = true"])]%string.
Proof. repeat split; reflexivity. Qed.

(* redial attempts are spaced by the backoff, never a busy loop: for every attempt number (negative and beyond 2^31
   included) and every jitter the delay lies in [min, max], and it grows with the attempt number *)
Theorem c05_backoff_bounds : forall minD maxD attempt jit,
  (0 < minD)%Z -> (minD <= maxD)%Z -> (maxD <= 9223372036854775807)%Z -> (0 <= jit)%Q ->
  (minD <= next true minD maxD attempt jit <= maxD)%Z.
Proof. exact next_bounds. Qed.

Theorem c05_backoff_monotone : forall minD maxD a1 a2 jit,
  (0 < minD)%Z -> (minD <= maxD)%Z -> (maxD <= 9223372036854775807)%Z -> (0 <= jit)%Q -> (0 <= a1 <= a2)%Z ->
  (next true minD maxD a1 jit <= next true minD maxD a2 jit)%Z.
Proof. exact next_monotone. Qed.

Theorem c05_backoff_refuted_v0 : next false 100000000 5000000000 63 0 = (-9223372036854775808)%Z.
Proof. exact refuted_without_clamp. Qed.

(* healing: dialing happens only between ReconnBegin and the swap; the swap needs a clean table and puts the link
   back up, after which requests are registered and served again (C02/C03 on the new connection) *)
Theorem c05_dial_only_while_redialing : forall s n s', step repaired_c s (RedialAttempt n) = Some s' ->
  lnk s = Redial /\ n = redial_n s /\ slept s = false /\ s' = set_dial s (S n) true.
Proof.
  intros s n s' H. unfold step in H. unfold is_redial in H. destruct (lnk s); try discriminate. cbn [andb] in H.
  destruct (Nat.eqb n (redial_n s)) eqn:En; [|discriminate]. destruct (slept s) eqn:Es; [discriminate|]. injection H as <-.
  apply Nat.eqb_eq in En. auto.
Qed.

(* redial attempts are spaced by the backoff, never a busy loop: within an outage a dial is enabled only after the
   goroutine has announced the backoff sleep of that attempt (redial.attempt precedes time.Sleep(backoff.next(n)) and the
   dial), attempts are numbered from 0 and each announcement is followed by exactly one dial *)
Theorem c05_dial_needs_backoff : forall s ok s', step repaired_c s (RedialDialed ok) = Some s' -> lnk s = Redial ->
  slept s = true /\ slept s' = false /\ redial_n s' = redial_n s.
Proof.
  intros s ok s' H L. unfold step in H. rewrite L in H. destruct (slept s); [|discriminate]. injection H as <-. auto.
Qed.

Theorem c05_attempts_from_zero : forall s s', step repaired_c s ReconnBegin = Some s' -> redial_n s' = 0%nat /\ slept s' = false.
Proof.
  intros s s' H. unfold step in H. destruct (holding s); [discriminate|]. destruct (is_up s); [|discriminate]. injection H as <-. auto.
Qed.

Theorem c05_swap_heals : forall s s', step repaired_c s RedialSwap = Some s' ->
  lnk s = Redial /\ lnk s' = Up /\ inflight s' = [] /\ calls s' = calls s.
Proof.
  intros s s' H. unfold step in H. unfold is_redial in H. destruct (lnk s) eqn:L; try discriminate. simpl in H.
  destruct (negb (cif_pending s) && nil_b (inflight s))%bool eqn:G; [|discriminate]. injection H as <-.
  apply andb_prop in G. destruct G as [_ G]. apply nil_b_true in G. simpl. auto.
Qed.

(* a client that never begins a reconnect (connFactory = nil: tryReconnect returns before reconn.begin) never dials *)
Theorem c05_no_reconnect_never_dials : forall es s,
  (forall e, In e es -> e <> ReconnBegin) -> run repaired_c init es = Some s -> lnk s = Up \/ lnk s = Exited.
Proof.
  assert (G : forall es s s', (forall e, In e es -> e <> ReconnBegin) -> (lnk s = Up \/ lnk s = Exited) ->
              run repaired_c s es = Some s' -> lnk s' = Up \/ lnk s' = Exited).
  { induction es as [|e es IH]; intros s s' Hn Hl H; simpl in H.
    - injection H as <-. exact Hl.
    - destruct (step repaired_c s e) as [s1|] eqn:Hs; [|discriminate].
      apply (IH s1 s'); [intros x Hx; apply Hn; right; exact Hx| |exact H].
      assert (He : e <> ReconnBegin) by (apply Hn; left; reflexivity).
      destruct e; try congruence; unfold step in Hs; simpl strict_window in Hs; simpl own_delete in Hs;
        repeat match type of Hs with
        | (if ?b then _ else _) = Some _ => destruct b eqn:?; try discriminate
        | match ?x with _ => _ end = Some _ => destruct x eqn:?; try discriminate
        end; try (injection Hs as <-); cbn [lnk set_calls set_inflight set_link set_holding set_exe]; auto;
        unfold is_redial, is_exited in *;
        repeat match goal with
        | Hx : lnk s = _ |- _ => rewrite Hx in *
        | Hx : _ \/ _ |- _ => destruct Hx
        end; try discriminate; auto;
        try (match goal with |- context [if ?b then _ else _] => destruct b end; cbn [lnk set_inflight]; auto). }
  intros es s Hn H. apply (G es init s Hn); [left; reflexivity|exact H].
Qed.

(* a retry-tagged call never surfaces the connection error; an untagged call that took it returns it *)
Theorem c05_retry_never_surfaces_connerr : forall s id c,
  lookup id (calls s) = Some c -> retry c = true -> step repaired_c s (CallReturn id OConnErr) = None.
Proof.
  intros s id c L R. unfold step. rewrite L. destruct (ph c); try reflexivity. destruct (got c) as [g|]; [|reflexivity].
  rewrite R. destruct g; reflexivity.
Qed.

Theorem c05_untagged_surfaces : forall s id c,
  lookup id (calls s) = Some c -> retry c = false -> ph c = PRecvd -> got c = Some OConnErr ->
  (exists s', step repaired_c s (CallReturn id OConnErr) = Some s') /\ step repaired_c s (CallRetry id) = None.
Proof.
  intros s id c L R P G. unfold step. rewrite L, P, G, R. simpl. split; [eexists; reflexivity|reflexivity].
Qed.

(* the functions this property's model is an abstraction of still have the control / locking / shared-state skeleton the
   model was written against (Skeletons.v, by hand; Extracted.v, regenerated from /repo) *)
Theorem c05_code_skeletons :
  JRGen.Extracted.effects_tryReconnect = JR.Skeletons.tryReconnect /\
  JRGen.Extracted.effects_handleWsConn = JR.Skeletons.handleWsConn.
Proof. repeat split; reflexivity. Qed.

Print Assumptions c05_code_skeletons.
Print Assumptions c05_source_facts.
Print Assumptions c05_backoff_bounds.
Print Assumptions c05_backoff_monotone.
Print Assumptions c05_backoff_refuted_v0.
Print Assumptions c05_dial_only_while_redialing.
Print Assumptions c05_dial_needs_backoff.
Print Assumptions c05_attempts_from_zero.
Print Assumptions c05_swap_heals.
Print Assumptions c05_no_reconnect_never_dials.
Print Assumptions c05_retry_never_surfaces_connerr.
Print Assumptions c05_untagged_surfaces.
