From Coq Require Import ZArith QArith Qround Qpower Bool Lia.
From JR Require Import Backoff.
Open Scope Z_scope.

Lemma durf_ge_min minD attempt jit :
  0 < minD -> 0 <= attempt -> (0 <= jit)%Q -> (inject_Z minD <= durf minD attempt jit)%Q.
Proof.
  intros Hm Ha Hj. unfold durf.
  assert (H1 : (1 <= (3 # 2) ^ attempt)%Q) by (apply Qpower_1_le; [unfold Qle; simpl; lia|exact Ha]).
  assert (Hmq : (0 < inject_Z minD)%Q) by (unfold Qlt; simpl; lia).
  assert (H2 : (inject_Z minD * 1 <= inject_Z minD * (3 # 2) ^ attempt)%Q) by (apply Qmult_le_l; auto).
  assert (H3 : (0 <= jit * inject_Z minD)%Q) by (apply Qmult_le_0_compat; [auto|apply Qlt_le_weak; auto]).
  rewrite Qmult_1_r in H2.
  apply Qle_trans with (inject_Z minD * (3 # 2) ^ attempt)%Q; [exact H2|].
  rewrite <- (Qplus_0_r (inject_Z minD * (3 # 2) ^ attempt)) at 1. apply Qplus_le_r. exact H3.
Qed.

(* the repaired function stays within [minD, maxD] for every attempt number (negative and huge included)
   and every non-negative jitter *)
Theorem next_bounds minD maxD attempt jit :
  0 < minD -> minD <= maxD -> maxD <= 9223372036854775807 -> (0 <= jit)%Q ->
  minD <= next true minD maxD attempt jit <= maxD.
Proof.
  intros Hm Hmm Hmax Hj. unfold next.
  destruct (attempt <? 0) eqn:Ea; [lia|]. apply Z.ltb_ge in Ea.
  pose proof (durf_ge_min minD attempt jit Hm Ea Hj) as Hd.
  set (d := durf minD attempt jit) in *. simpl andb.
  destruct (Qle_bool (inject_Z maxD) d) eqn:Ec; [lia|].
  assert (Hlt : (d < inject_Z maxD)%Q).
  { apply Qnot_le_lt. intros C. apply Qle_bool_iff in C. congruence. }
  assert (H0 : (0 <= d)%Q).
  { apply Qle_trans with (inject_Z minD); [unfold Qle; simpl; lia|exact Hd]. }
  unfold to_duration. apply Qle_bool_iff in H0. rewrite H0.
  assert (F1 : minD <= Qfloor d).
  { pose proof (Qfloor_resp_le _ _ Hd) as T. rewrite Qfloor_Z in T. exact T. }
  assert (F2 : Qfloor d <= maxD).
  { pose proof (Qfloor_resp_le _ _ (Qlt_le_weak _ _ Hlt)) as T. rewrite Qfloor_Z in T. exact T. }
  assert (G : (Qfloor d <? -9223372036854775808) || (9223372036854775807 <? Qfloor d) = false).
  { apply orb_false_iff. split; [apply Z.ltb_ge; lia|apply Z.ltb_ge; lia]. }
  rewrite G. destruct (maxD <? Qfloor d) eqn:E; lia.
Qed.

(* ... and grows with the attempt number until it reaches the cap *)
Theorem next_monotone minD maxD a1 a2 jit :
  0 < minD -> minD <= maxD -> maxD <= 9223372036854775807 -> (0 <= jit)%Q -> 0 <= a1 <= a2 ->
  next true minD maxD a1 jit <= next true minD maxD a2 jit.
Proof.
  intros Hm Hmm Hmax Hj [H1 H2].
  assert (Hd : (durf minD a1 jit <= durf minD a2 jit)%Q).
  { unfold durf. apply Qplus_le_l. apply Qmult_le_l; [unfold Qlt; simpl; lia|].
    apply Qpower_le_compat_l; [exact H2|unfold Qle; simpl; lia]. }
  pose proof (next_bounds minD maxD a2 jit Hm Hmm Hmax Hj) as B2.
  unfold next in *.
  destruct (a1 <? 0) eqn:E1; [apply Z.ltb_lt in E1; lia|].
  destruct (a2 <? 0) eqn:E2; [apply Z.ltb_lt in E2; lia|].
  simpl andb in *.
  pose proof (durf_ge_min minD a1 jit Hm H1 Hj) as G1.
  assert (P1 : (0 <= durf minD a1 jit)%Q) by (apply Qle_trans with (inject_Z minD); [unfold Qle; simpl; lia|exact G1]).
  assert (P2 : (0 <= durf minD a2 jit)%Q) by (apply Qle_trans with (durf minD a1 jit); auto).
  destruct (Qle_bool (inject_Z maxD) (durf minD a1 jit)) eqn:C1.
  - apply Qle_bool_iff in C1. assert (C2 : Qle_bool (inject_Z maxD) (durf minD a2 jit) = true).
    { apply Qle_bool_iff. apply Qle_trans with (durf minD a1 jit); auto. }
    rewrite C2. lia.
  - destruct (Qle_bool (inject_Z maxD) (durf minD a2 jit)) eqn:C2.
    + unfold to_duration. apply Qle_bool_iff in P1. rewrite P1.
      destruct ((Qfloor (durf minD a1 jit) <? -9223372036854775808) || (9223372036854775807 <? Qfloor (durf minD a1 jit))) eqn:G.
      * destruct (maxD <? -9223372036854775808); lia.
      * destruct (maxD <? Qfloor (durf minD a1 jit)) eqn:E; [lia|apply Z.ltb_ge in E; lia].
    + unfold to_duration in *. apply Qle_bool_iff in P1. apply Qle_bool_iff in P2. rewrite P1, P2 in *.
      assert (F : Qfloor (durf minD a1 jit) <= Qfloor (durf minD a2 jit)) by (apply Qfloor_resp_le; exact Hd).
      assert (L2 : (durf minD a2 jit < inject_Z maxD)%Q).
      { apply Qnot_le_lt. intros C. apply Qle_bool_iff in C. congruence. }
      assert (U2 : Qfloor (durf minD a2 jit) <= maxD).
      { pose proof (Qfloor_resp_le _ _ (Qlt_le_weak _ _ L2)) as T. rewrite Qfloor_Z in T. exact T. }
      assert (L1 : minD <= Qfloor (durf minD a1 jit)).
      { pose proof (Qfloor_resp_le _ _ G1) as T. rewrite Qfloor_Z in T. exact T. }
      assert (G1' : (Qfloor (durf minD a1 jit) <? -9223372036854775808) || (9223372036854775807 <? Qfloor (durf minD a1 jit)) = false)
        by (apply orb_false_iff; split; apply Z.ltb_ge; lia).
      assert (G2' : (Qfloor (durf minD a2 jit) <? -9223372036854775808) || (9223372036854775807 <? Qfloor (durf minD a2 jit)) = false)
        by (apply orb_false_iff; split; apply Z.ltb_ge; lia).
      rewrite G1', G2'.
      destruct (maxD <? Qfloor (durf minD a1 jit)) eqn:E1'; destruct (maxD <? Qfloor (durf minD a2 jit)) eqn:E2';
        try apply Z.ltb_lt in E1'; try apply Z.ltb_lt in E2'; try apply Z.ltb_ge in E1'; try apply Z.ltb_ge in E2'; lia.
Qed.

(* the defect repaired by 90d382b: converting before clamping yields a negative delay from attempt 63 on
   (defaults 100ms / 5s): time.Sleep returns at once, the redial loop spins *)
Theorem refuted_without_clamp : next false 100000000 5000000000 63 0 = -9223372036854775808.
Proof. vm_compute. reflexivity. Qed.
