From Coq Require Import List ZArith NArith Bool.
Import ListNotations.
From JR Require Import Keepalive AuthCases Options.
Open Scope Z_scope.

(* timed trace of one client connection: ticks between hook timestamps, resets at deadline.reset;
   expect_fired: the trace ends at the reader error caused by the deadline (silent peer) / at the end of a healthy run *)
Record kcase := { kc_opts : list kopt (* the keepalive options the client was built with, in the order listed *); kc_events : list kev; kc_expect_fired : bool; kc_aevents : list aev;
                  kc_armed : list Z (* the timeout each deadline.reset of the connection armed *) }.

(* the timeout the connection must use: what the Options model says these options configure *)
Definition kc_T (c : kcase) : Z := timeout (configure false (kc_opts c)).

(* 0 ok; 1 the deadline model disagrees with what was observed; 2 a deadline reset without peer evidence (index);
   3 the deadline was armed with something else than the configured timeout (the model's T) *)
Definition kcase_diag (c : kcase) : N * N :=
  if negb (forallb (Z.eqb (kc_T c)) (kc_armed c)) then (3%N, 0%N) else
  match arun_diag 0 (kc_aevents c) 0 with
  | Some i => (2%N, i)
  | None =>
      let s := krun (kc_T c) {| now := 0; deadline := kc_T c; fired := false |} (kc_events c) in
      if Bool.eqb (fired s) (kc_expect_fired c) then (0%N, 0%N) else (1%N, 0%N)
  end.
