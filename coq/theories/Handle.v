(* Model of the request path: method-name formatting, registration / aliases, decoding of the `request`
   struct as encoding/json does it, id normalisation, handler.handle, handler.handleReader (HTTP body ->
   reply). Mirrors /repo handler.go, server.go, method_formatter.go, response.go. No proofs here. *)
From Coq Require Import List NArith ZArith Bool Arith String.
Import ListNotations.
From JR Require Import Json.
From JRGen Require Extracted.
Open Scope N_scope.

(* ---------- method names *)
Inductive formatter :=
| Fmt (include_ns lower_first : bool)      (* NewMethodNameFormatter *)
| FmtSep (sep : bytes).                     (* a custom formatter: ns ++ sep ++ method *)

Definition lower1 (m : bytes) : bytes :=
  match m with
  | c :: r => (if (65 <=? c) && (c <=? 90) then c + 32 else c) :: r
  | [] => []
  end.

Definition format (f : formatter) (ns m : bytes) : bytes :=
  match f with
  | Fmt incl low => let m' := if low then lower1 m else m in
                    if incl then ns ++ 46 :: m' else m'
  | FmtSep sep => ns ++ sep ++ m
  end.

(* ---------- handlers *)
Inductive ty := TInt | TStr | TBool | TIntList | TAny.
Inductive outkind := ONone | OVal | OErr | OValErr | OChan.
Inductive outcome :=
| Ret (v : json)                  (* value (or nothing) and nil error *)
| Fail (code : Z) (msg : bytes) (extra : list (bytes * json))   (* non-nil error; code/extra as createError builds them *)
| Panic (msg : bytes).

Record hspec := {
  h_name : bytes;                 (* Go method name, for the invocation log *)
  h_params : list ty;
  h_raw : bool;                   (* single RawParams parameter *)
  h_out : outkind;
  h_fun : list json -> outcome
}.

Record config := {
  max_size : Z;
  methods : list (bytes * hspec);   (* Go map: register puts the newest binding in front *)
  aliases : list (bytes * bytes)
}.

Fixpoint assoc_b {A} (k : bytes) (l : list (bytes * A)) : option A :=
  match l with
  | [] => None
  | (k', v) :: r => if bytes_eqb k k' then Some v else assoc_b k r
  end.

Definition register (f : formatter) (ns : bytes) (hs : list hspec) (c : config) : config :=
  {| max_size := max_size c;
     methods := fold_left (fun acc h => (format f ns (h_name h), h) :: acc) hs (methods c);
     aliases := aliases c |}.

Definition alias (a orig : bytes) (c : config) : config :=
  {| max_size := max_size c; methods := methods c; aliases := (a, orig) :: aliases c |}.

(* handler.go:330-342 : direct, else alias -> direct (one hop), else not found *)
Definition resolve (c : config) (name : bytes) : option hspec :=
  match assoc_b name (methods c) with
  | Some h => Some h
  | None => match assoc_b name (aliases c) with
            | Some orig => assoc_b orig (methods c)
            | None => None
            end
  end.

(* ---------- encoding/json into Go parameter types *)
Definition int64_ok (z : Z) : bool := (Z.leb (-9223372036854775808) z) && (Z.leb z 9223372036854775807).

Definition accepts (t : ty) (v : json) : bool :=
  match t, v with
  | _, JNull => true
  | TAny, _ => true
  | TInt, JNum lit => match int_literal lit with Some z => int64_ok z | None => false end
  | TStr, JStr _ => true
  | TBool, JBool _ => true
  | TIntList, JArr l =>
      forallb (fun x => match x with
                        | JNull => true
                        | JNum lit => match int_literal lit with Some z => int64_ok z | None => false end
                        | _ => false end) l
  | _, _ => false
  end.

(* ---------- the request struct *)
Record request := {
  r_id : option json;          (* None = Go nil (absent or null) *)
  r_method : bytes;
  r_params : option json       (* None = absent (empty RawMessage) *)
}.
Definition zero_request : request := {| r_id := None; r_method := []; r_params := None |}.

Definition fold_byte (c : byte) : byte := if (65 <=? c) && (c <=? 90) then c + 32 else c.
Definition key_is (k : bytes) (name : string) : bool := bytes_eqb (map fold_byte k) (bs name).

(* json.Unmarshal into `request`: unknown keys ignored, case-insensitive match, later duplicates win,
   a type mismatch is recorded and decoding goes on (so a failed request may still carry an id) *)
Definition meta_ok (v : json) : bool :=
  match v with
  | JNull => true
  | JObj l => forallb (fun kv => match snd kv with JStr _ | JNull => true | _ => false end) l
  | _ => false
  end.

Fixpoint decode_members (l : list (bytes * json)) (r : request) (err : bool) : request * bool :=
  match l with
  | [] => (r, err)
  | (k, v) :: rest =>
      if key_is k "jsonrpc" then
        decode_members rest r (err || match v with JStr _ | JNull => false | _ => true end)
      else if key_is k "id" then
        decode_members rest {| r_id := match v with JNull => None | _ => Some v end;
                               r_method := r_method r; r_params := r_params r |} err
      else if key_is k "method" then
        match v with
        | JStr s => decode_members rest {| r_id := r_id r; r_method := s; r_params := r_params r |} err
        | JNull => decode_members rest r err
        | _ => decode_members rest r true
        end
      else if key_is k "params" then
        decode_members rest {| r_id := r_id r; r_method := r_method r; r_params := Some v |} err
      else if key_is k "meta" then
        decode_members rest r (err || negb (meta_ok v))
      else decode_members rest r err
  end.

Definition decode_request (v : json) : request * bool :=
  match v with
  | JObj l => decode_members l zero_request false
  | JNull => (zero_request, false)
  | _ => (zero_request, true)
  end.

(* normalizeID after decoding into interface{}: string, float64 (any JSON number), nil are valid *)
Definition normalize_id (id : option json) : option (option json) :=
  match id with
  | None => Some None
  | Some (JStr s) => Some (Some (JStr s))
  | Some (JNum n) => Some (Some (JNum n))
  | Some _ => None
  end.

(* ---------- responses *)
Inductive msgspec := MAny | MExact (m : bytes) | MContains (m : bytes).

Inductive rbody :=
| RResult (v : json)
| RError (code : Z) (msg : msgspec) (extra : list (bytes * json)).

Record response := {
  rs_id : json;                (* JNull when nil *)
  rs_body : rbody;
  rs_rpc_error : bool          (* produced by rpcError (sets the HTTP status on the single path) *)
}.

Definition id_json (id : option json) : json := match id with Some v => v | None => JNull end.

Definition rpc_error (id : option json) (code : Z) (m : msgspec) : response :=
  {| rs_id := id_json id; rs_body := RError code m []; rs_rpc_error := true |}.

Definition invocation := (bytes * list json)%type.

Definition is_chan (h : hspec) : bool := match h_out h with OChan => true | _ => false end.
Definition has_err_out (h : hspec) : bool := match h_out h with OErr | OValErr | OChan => true | _ => false end.
Definition has_val_out (h : hspec) : bool := match h_out h with OVal | OValErr | OChan => true | _ => false end.

Definition q (s : string) := bs s.

(* handler.handle. chan_ok = a chanOut is available (WebSocket). Channel-returning handlers that succeed are
   answered by the forwarder (Stream model), reported here as `None` output with the invocation. *)
Definition handle (c : config) (chan_ok : bool) (r : request) : option response * list invocation :=
  match resolve c (r_method r) with
  | None => (Some (rpc_error (r_id r) Extracted.rpcMethodNotFound
                     (MExact (q "method '" ++ r_method r ++ q "' not found"))), [])
  | Some h =>
      if is_chan h && negb chan_ok then
        (Some (rpc_error (r_id r) Extracted.rpcMethodNotFound (MContains (q "not supported in this mode"))), [])
      else
        let args :=
          if h_raw h then inl [match r_params r with Some v => v | None => JNull end]
          else match r_params r with
               | None => inl []
               | Some JNull => inl []
               | Some (JArr l) => inl l
               | Some _ => inr tt
               end in
        match args with
        | inr _ => (Some (rpc_error (r_id r) Extracted.rpcParseError (MContains (q "unmarshaling param array"))), [])
        | inl ps =>
            if negb (h_raw h) && negb (Nat.eqb (List.length ps) (List.length (h_params h))) then
              (Some (rpc_error (r_id r) Extracted.rpcInvalidParams (MContains (q "wrong param count"))), [])
            else if negb (h_raw h) && negb (forallb (fun tp => accepts (fst tp) (snd tp)) (combine (h_params h) ps)) then
              (Some (rpc_error (r_id r) Extracted.rpcParseError (MContains (q "unmarshaling params for"))), [])
            else
              let inv := [(h_name h, ps)] in
              match h_fun h ps with
              | Panic m =>
                  (Some (rpc_error (r_id r) 0%Z
                           (MExact (q "fatal error calling '" ++ r_method r ++ q "': panic in rpc method '" ++ r_method r ++ q "': " ++ m))), inv)
              | out =>
                  match r_id r with
                  | None => (None, inv)                      (* notification *)
                  | Some id =>
                      match out with
                      | Fail code m extra =>
                          if has_err_out h
                          then (Some {| rs_id := id; rs_body := RError code (MExact m) extra; rs_rpc_error := false |}, inv)
                          else (Some {| rs_id := id; rs_body := RResult JNull; rs_rpc_error := false |}, inv)
                      | Ret v =>
                          if is_chan h then (None, inv)
                          else (Some {| rs_id := id; rs_body := RResult (if has_val_out h then v else JNull); rs_rpc_error := false |}, inv)
                      | Panic _ => (None, inv)
                      end
                  end
              end
        end
  end.

(* ---------- handleReader *)
(* bytes.TrimSpace: ASCII white space incl. \v \f, and U+0085 / U+00A0 as UTF-8 *)
Definition is_go_space (c : byte) : bool := (c =? 32) || ((9 <=? c) && (c <=? 13)).
Fixpoint trim_left (s : bytes) : bytes :=
  match s with
  | c :: r => if is_go_space c then trim_left r
              else match s with
                   | 194 :: d :: r' => if (d =? 133) || (d =? 160) then trim_left r' else s
                   | _ => s
                   end
  | [] => []
  end.
Fixpoint trim_left_rev (s : bytes) : bytes :=   (* on the reversed string *)
  match s with
  | c :: r => if is_go_space c then trim_left_rev r
              else match s with
                   | d :: 194 :: r' => if (d =? 133) || (d =? 160) then trim_left_rev r' else s
                   | _ => s
                   end
  | [] => []
  end.
Definition trim_go (s : bytes) : bytes := rev' (trim_left_rev (rev' (trim_left s))).

Inductive reply :=
| RNone                           (* nothing written *)
| RSingle (r : response)
| RBatch (rs : list response).

Definition last_byte (s : bytes) : option byte := match rev' s with c :: _ => Some c | [] => None end.

Definition status_of (o : option response) : Z :=
  match o with
  | Some r => if rs_rpc_error r then
                (match rs_body r with
                 | RError code _ _ => if Z.eqb code Extracted.rpcInvalidRequest then 400 else 500
                 | _ => 500 end)%Z
              else 200%Z
  | None => 200%Z
  end.

Definition handle_element (c : config) (r : request) : option response * list invocation :=
  match normalize_id (r_id r) with
  | None => (Some (rpc_error None Extracted.rpcParseError (MContains (q "failed to parse ID"))), [])
  | Some id => handle c false {| r_id := id; r_method := r_method r; r_params := r_params r |}
  end.

Fixpoint somes {A} (l : list (option A)) : list A :=
  match l with [] => [] | Some x :: r => x :: somes r | None :: r => somes r end.

Definition handle_http (c : config) (body : bytes) : Z * reply * list invocation :=
  if Z.ltb (max_size c) (Z.of_nat (List.length body)) then
    (500%Z, RSingle (rpc_error None Extracted.rpcParseError (MContains (q "request bigger than maximum"))), [])
  else
    let b := trim_go body in
    match b with
    | [] => (400%Z, RSingle (rpc_error None Extracted.rpcInvalidRequest MAny), [])
    | first :: _ =>
        if (first =? 91) && (match last_byte b with Some 93 => true | _ => false end) then
          match parse b with
          | Some (JArr l) =>
              let decoded := map decode_request l in
              if existsb snd decoded then
                (500%Z, RSingle (rpc_error None Extracted.rpcParseError MAny), [])
              else match l with
                   | [] => (400%Z, RSingle (rpc_error None Extracted.rpcInvalidRequest MAny), [])
                   | _ => let outs := map (fun d => handle_element c (fst d)) decoded in
                          (200%Z, RBatch (somes (map fst outs)), List.concat (map snd outs))
                   end
          | _ => (500%Z, RSingle (rpc_error None Extracted.rpcParseError MAny), [])
          end
        else
          match parse b with
          | None => (500%Z, RSingle (rpc_error None Extracted.rpcParseError MAny), [])
          | Some v =>
              let '(r, err) := decode_request v in
              if err then (500%Z, RSingle (rpc_error (r_id r) Extracted.rpcParseError MAny), [])
              else let '(o, inv) := handle_element c r in
                   (status_of o, match o with Some x => RSingle x | None => RNone end, inv)
          end
    end.

(* ---------- printing replies: response.MarshalJSON marshals a map, so keys come out sorted *)
Definition pr_response (r : response) (msg_of : msgspec -> bytes) : json :=
  match rs_body r with
  | RResult v => JObj [(q "id", rs_id r); (q "jsonrpc", JStr (q "2.0")); (q "result", v)]
  | RError code m extra =>
      JObj [(q "error", JObj ((q "code", JNum (z_lit code)) :: (q "message", JStr (msg_of m)) :: extra));
            (q "id", rs_id r); (q "jsonrpc", JStr (q "2.0"))]
  end.

Definition msg_default (m : msgspec) : bytes := match m with MAny => [] | MExact s => s | MContains s => s end.

Definition reply_json (rp : reply) : option json :=
  match rp with
  | RNone => None
  | RSingle r => Some (pr_response r msg_default)
  | RBatch rs => Some (JArr (map (fun r => pr_response r msg_default) rs))
  end.

Definition reply_bytes (rp : reply) : bytes :=
  match reply_json rp with Some v => print v | None => [] end.
