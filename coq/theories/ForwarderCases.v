(* correspondence side of Forwarder.v: the server-side forwarder events of one connection, as observed through the hooks
   (och.reg: channel id and the subscription it belongs to; och.val.v: the id a value went out under, the value itself
   telling which subscription produced it; och.close: the id a close notification went out under) *)
From Coq Require Import List NArith Bool.
Import ListNotations.
From JR Require Import Forwarder.

Inductive fcev :=
| CReg (sub id : N)        (* subscription `sub`'s channel registered under channel id `id` *)
| CVal (sub id : N)        (* a value produced by subscription `sub` went out tagged `id` *)
| CCloseTag (id : N).      (* a close notification went out for channel id `id` *)

Fixpoint chan_of_tag (id : N) (cs ts : list N) : option N :=
  match cs, ts with
  | c :: cs', t :: ts' => if N.eqb t id then Some c else chan_of_tag id cs' ts'
  | _, _ => None
  end.

(* None = the model (the code's swap-remove on both slices) produces exactly the observed tags; Some i = first event that
   differs *)
Fixpoint fcrun (s : fw) (es : list fcev) (i : N) : option N :=
  match es with
  | [] => None
  | CReg sub id :: t => fcrun (fst (step s (FReg sub id))) t (i + 1)
  | CVal sub id :: t =>
      match step s (FVal sub) with
      | (s', Some id') => if N.eqb id id' then fcrun s' t (i + 1) else Some i
      | (_, None) => Some i
      end
  | CCloseTag id :: t =>
      match chan_of_tag id (chans s) (tags s) with
      | Some ch => fcrun (fst (step s (FClose ch))) t (i + 1)
      | None => Some i
      end
  end.

Definition fcase_diag (es : list fcev) : N * N :=
  match fcrun fw0 es 0%N with None => (0%N, 0%N) | Some i => (1%N, i) end.
