(* C04 — At-most-once execution; exactly once when the caller gets an answer.
   Statements only; proofs in Conn_Proofs.v and Handle_Proofs.v. *)
From Coq Require Import List NArith ZArith Bool String Lia.
Import ListNotations.
From JR Require Import Conn Conn_Proofs Json Handle Handle_Proofs.
From JRGen Require Extracted.
From JR Require Skeletons.
Open Scope N_scope.

(* the only resend in the library is the caller's retry loop, guarded by the retry tag and the temporary
   connection error; sendRequest is called from that loop only *)
Theorem c04_source_facts :
  Extracted.retry_condition = "resp.Error != nil && resp.Error.Code == eTempWSError && fn.retry"%string /\
  Extracted.callsites_doRequest = ["NewCustomClient"; "sendRequest"]%string /\
  Extracted.eTempWSError = (-1111111)%Z.
Proof. repeat split; reflexivity. Qed.

(* under every fault sequence a request is written at most once per attempt, and a call that is not
   retry-tagged has exactly one attempt: its request is written at most once *)
Theorem c04_written_at_most_once : forall es s id c,
  run repaired_c init es = Some s -> lookup id (calls s) = Some c ->
  (writes c <= attempts c)%nat /\ (retry c = false -> (writes c <= 1)%nat).
Proof.
  intros es s id c H L. destruct (inv_phase s (reachable_inv es s H) id c L) as (_ & _ & _ & P4 & P5).
  split.
  - destruct (ph c); lia.
  - intros R. rewrite (P5 R) in P4. destruct (ph c); lia.
Qed.

(* the library never re-sends on its own initiative: the attempt number changes only through the caller's retry
   loop, which needs the retry tag and the connection error; reconnecting and closeInFlight re-queue nothing *)
Theorem c04_no_spontaneous_resend : forall s e s' id c c',
  step repaired_c s e = Some s' -> lookup id (calls s) = Some c -> lookup id (calls s') = Some c' ->
  attempts c' = attempts c \/ (attempts c' = S (attempts c) /\ got c = Some OConnErr /\ retry c = true).
Proof. exact attempts_change. Qed.

(* each request frame that reaches the server runs at most one handler (so executions <= frames written) *)
Theorem c04_single_dispatch : forall c ok r o inv,
  handle c ok r = (o, inv) ->
  inv = [] \/ exists h ps, resolve c (r_method r) = Some h /\ inv = [(h_name h, ps)].
Proof. exact handle_invocations. Qed.

(* an answer (result or handler error) is a genuine response, which only a registered — hence written — request gets *)
Theorem c04_answer_needs_registration : forall es s id c,
  run repaired_c init es = Some s -> lookup id (calls s) = Some c -> got c = Some OGenuine -> registered c = true.
Proof. intros es s id c H L G. apply (reachable_prov es s H id c L). auto. Qed.

(* a notification carries no id and never yields a response frame on WebSocket (see also c09_notification) *)
Theorem c04_notification_no_response : forall c ok r,
  r_id r = None ->
  (exists inv, handle c ok r = (None, inv)) \/
  (exists code m inv, handle c ok r = (Some (rpc_error None code m), inv)).
Proof. exact handle_notification. Qed.

(* the functions this property's model is an abstraction of still have the control / locking / shared-state skeleton the
   model was written against (Skeletons.v, by hand; Extracted.v, regenerated from /repo) *)
Theorem c04_code_skeletons :
  JRGen.Extracted.effects_tryReconnect = JR.Skeletons.tryReconnect /\
  JRGen.Extracted.effects_handleWsConn = JR.Skeletons.handleWsConn /\
  JRGen.Extracted.effects_setupRequestChan = JR.Skeletons.setupRequestChan.
Proof. repeat split; reflexivity. Qed.

Print Assumptions c04_code_skeletons.
Print Assumptions c04_source_facts.
Print Assumptions c04_written_at_most_once.
Print Assumptions c04_no_spontaneous_resend.
Print Assumptions c04_single_dispatch.
Print Assumptions c04_answer_needs_registration.
Print Assumptions c04_notification_no_response.
