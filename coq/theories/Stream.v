(* Channel streams end to end: the handler's producer, the server-side forwarder (handleOutChans), the wire, the
   client executor (handleChanMessage / handleChanClose / closeChans), the sink with its buffering goroutine
   (makeOutChan) and the consumer. One record per stream (keyed by channel id); an event touches one stream.
   No proofs here. *)
From Coq Require Import List NArith ZArith Bool Arith.
Import ListNotations.

Inductive sinkst := SNone | SOpen | SClosed.
Inductive closer := NotClosed | ByServer | ByConn.

Record strm := {
  tried : list Z;        (* values the producer has offered on its channel, in order *)
  sent : nat;            (* how many of them the producer saw accepted *)
  pclosed : bool;        (* the producer closed its channel *)
  alloc : bool;          (* handleChanOut allocated the channel id *)
  reg : bool;            (* the forwarder registered it and wrote the response announcing it *)
  fwd : list Z;          (* values the forwarder took and sent as xrpc.ch.val *)
  fclosed : bool;        (* the forwarder saw the close and sent xrpc.ch.close *)
  sink : sinkst;         (* the client's chanHandlers entry *)
  how : closer;          (* who removed the entry *)
  inval : bool;          (* the executor is inside the sink callback with a value *)
  deliv : list Z;        (* values the sink accepted *)
  ctxc : bool;           (* the subscription context was cancelled by the caller *)
  cons : list Z;         (* values the consumer received on its channel *)
  cclosed : bool         (* the consumer saw its channel closed *)
}.

Definition s0 : strm :=
  {| tried := []; sent := 0; pclosed := false; alloc := false; reg := false; fwd := []; fclosed := false; sink := SNone;
     how := NotClosed; inval := false; deliv := []; ctxc := false; cons := []; cclosed := false |}.

Inductive sev :=
| ProdTry (v : Z) | ProdSent | ProdClose
| OchAlloc | OchReg | OchVal (v : Z) | OchClose
| ChReg | ChVal | SinkVal (v : Z) | ChClose | CcClose
| CtxCancel
| ConsRecv (v : Z) | ConsClosed.

Definition next_is (v : Z) (have upstream : list Z) : bool :=
  Nat.ltb (length have) (length upstream) && Z.eqb v (nth (length have) upstream 0%Z).

Definition sstep (s : strm) (e : sev) : option strm :=
  match e with
  | ProdTry v => if pclosed s then None else
      Some {| tried := tried s ++ [v]; sent := sent s; pclosed := pclosed s; alloc := alloc s; reg := reg s; fwd := fwd s;
              fclosed := fclosed s; sink := sink s; how := how s; inval := inval s; deliv := deliv s; ctxc := ctxc s;
              cons := cons s; cclosed := cclosed s |}
  | ProdSent => if pclosed s || negb (Nat.ltb (sent s) (length (tried s))) then None else
      Some {| tried := tried s; sent := S (sent s); pclosed := pclosed s; alloc := alloc s; reg := reg s; fwd := fwd s;
              fclosed := fclosed s; sink := sink s; how := how s; inval := inval s; deliv := deliv s; ctxc := ctxc s;
              cons := cons s; cclosed := cclosed s |}
  | ProdClose => if pclosed s then None else
      Some {| tried := tried s; sent := sent s; pclosed := true; alloc := alloc s; reg := reg s; fwd := fwd s;
              fclosed := fclosed s; sink := sink s; how := how s; inval := inval s; deliv := deliv s; ctxc := ctxc s;
              cons := cons s; cclosed := cclosed s |}
  | OchAlloc => if alloc s then None else      (* channel ids are never reused on a connection *)
      Some {| tried := tried s; sent := sent s; pclosed := pclosed s; alloc := true; reg := reg s; fwd := fwd s;
              fclosed := fclosed s; sink := sink s; how := how s; inval := inval s; deliv := deliv s; ctxc := ctxc s;
              cons := cons s; cclosed := cclosed s |}
  | OchReg => if alloc s && negb (reg s) then
      Some {| tried := tried s; sent := sent s; pclosed := pclosed s; alloc := alloc s; reg := true; fwd := fwd s;
              fclosed := fclosed s; sink := sink s; how := how s; inval := inval s; deliv := deliv s; ctxc := ctxc s;
              cons := cons s; cclosed := cclosed s |} else None
  | OchVal v =>
      (* only after the response announcing the channel; the value is the next one the producer offered *)
      if reg s && negb (fclosed s) && next_is v (fwd s) (tried s) then
      Some {| tried := tried s; sent := sent s; pclosed := pclosed s; alloc := alloc s; reg := reg s; fwd := fwd s ++ [v];
              fclosed := fclosed s; sink := sink s; how := how s; inval := inval s; deliv := deliv s; ctxc := ctxc s;
              cons := cons s; cclosed := cclosed s |} else None
  | OchClose =>
      (* the close is seen only after every accepted value has been taken *)
      if reg s && negb (fclosed s) && pclosed s && Nat.eqb (length (fwd s)) (sent s) then
      Some {| tried := tried s; sent := sent s; pclosed := pclosed s; alloc := alloc s; reg := reg s; fwd := fwd s;
              fclosed := true; sink := sink s; how := how s; inval := inval s; deliv := deliv s; ctxc := ctxc s;
              cons := cons s; cclosed := cclosed s |} else None
  | ChReg => match sink s with
      | SNone => if reg s then
          Some {| tried := tried s; sent := sent s; pclosed := pclosed s; alloc := alloc s; reg := reg s; fwd := fwd s;
                  fclosed := fclosed s; sink := SOpen; how := how s; inval := inval s; deliv := deliv s; ctxc := ctxc s;
                  cons := cons s; cclosed := cclosed s |} else None
      | _ => None end
  | ChVal => match sink s with
      | SOpen =>
          (* a value whose callback returned without accepting it was dropped: only a cancelled subscription does that *)
          if inval s && negb (ctxc s) then None else
          Some {| tried := tried s; sent := sent s; pclosed := pclosed s; alloc := alloc s; reg := reg s; fwd := fwd s;
                  fclosed := fclosed s; sink := sink s; how := how s; inval := true; deliv := deliv s; ctxc := ctxc s;
                  cons := cons s; cclosed := cclosed s |}
      | _ => None end
  | SinkVal v =>
      if inval s && next_is v (deliv s) (fwd s) then
      Some {| tried := tried s; sent := sent s; pclosed := pclosed s; alloc := alloc s; reg := reg s; fwd := fwd s;
              fclosed := fclosed s; sink := sink s; how := how s; inval := false; deliv := deliv s ++ [v]; ctxc := ctxc s;
              cons := cons s; cclosed := cclosed s |} else None
  | ChClose => match sink s with
      | SOpen =>
          (* the close notification travels behind every value: all forwarded values were handed to the sink *)
          if fclosed s && (Nat.eqb (length (deliv s)) (length (fwd s)) || ctxc s) then
          Some {| tried := tried s; sent := sent s; pclosed := pclosed s; alloc := alloc s; reg := reg s; fwd := fwd s;
                  fclosed := fclosed s; sink := SClosed; how := ByServer; inval := false; deliv := deliv s; ctxc := ctxc s;
                  cons := cons s; cclosed := cclosed s |} else None
      | _ => None end
  | CcClose => match sink s with
      | SOpen =>
          (* closeChans takes the handler's mutex: it cannot run while a value is inside the sink callback (a value whose
             callback returned without accepting it belongs to a cancelled subscription) *)
          if inval s && negb (ctxc s) then None else
          Some {| tried := tried s; sent := sent s; pclosed := pclosed s; alloc := alloc s; reg := reg s; fwd := fwd s;
                  fclosed := fclosed s; sink := SClosed; how := ByConn; inval := false; deliv := deliv s; ctxc := ctxc s;
                  cons := cons s; cclosed := cclosed s |}
      | _ => None end
  | CtxCancel =>
      Some {| tried := tried s; sent := sent s; pclosed := pclosed s; alloc := alloc s; reg := reg s; fwd := fwd s;
              fclosed := fclosed s; sink := sink s; how := how s; inval := inval s; deliv := deliv s; ctxc := true;
              cons := cons s; cclosed := cclosed s |}
  | ConsRecv v =>
      if negb (cclosed s) && next_is v (cons s) (deliv s) then
      Some {| tried := tried s; sent := sent s; pclosed := pclosed s; alloc := alloc s; reg := reg s; fwd := fwd s;
              fclosed := fclosed s; sink := sink s; how := how s; inval := inval s; deliv := deliv s; ctxc := ctxc s;
              cons := cons s ++ [v]; cclosed := cclosed s |} else None
  | ConsClosed =>
      (* the caller's channel is closed once: on cancellation, or when the sink was closed and everything accepted was handed over *)
      if negb (cclosed s) &&
         (ctxc s || (match sink s with SClosed => true | _ => false end) && Nat.eqb (length (cons s)) (length (deliv s))) then
      Some {| tried := tried s; sent := sent s; pclosed := pclosed s; alloc := alloc s; reg := reg s; fwd := fwd s;
              fclosed := fclosed s; sink := sink s; how := how s; inval := inval s; deliv := deliv s; ctxc := ctxc s;
              cons := cons s; cclosed := true |} else None
  end.

Fixpoint srun (s : strm) (es : list sev) : option strm :=
  match es with [] => Some s | e :: r => match sstep s e with Some s' => srun s' r | None => None end end.

(* several streams: events tagged with their channel id *)
Fixpoint get (ch : N) (m : list (N * strm)) : strm :=
  match m with [] => s0 | (k, s) :: r => if N.eqb k ch then s else get ch r end.
Fixpoint put (ch : N) (s : strm) (m : list (N * strm)) : list (N * strm) :=
  match m with [] => [(ch, s)] | (k, x) :: r => if N.eqb k ch then (k, s) :: r else (k, x) :: put ch s r end.

Definition mstep (m : list (N * strm)) (e : N * sev) : option (list (N * strm)) :=
  match sstep (get (fst e) m) (snd e) with Some s' => Some (put (fst e) s' m) | None => None end.
Fixpoint mrun (m : list (N * strm)) (es : list (N * sev)) : option (list (N * strm)) :=
  match es with [] => Some m | e :: r => match mstep m e with Some m' => mrun m' r | None => None end end.
Fixpoint mrun_diag (m : list (N * strm)) (es : list (N * sev)) (i : N) : list (N * strm) * option N :=
  match es with [] => (m, None) | e :: r => match mstep m e with Some m' => mrun_diag m' r (i + 1)%N | None => (m, Some i) end end.

(* prefix *)
Fixpoint prefix_b (a b : list Z) : bool :=
  match a, b with
  | [], _ => true
  | x :: a', y :: b' => Z.eqb x y && prefix_b a' b'
  | _ :: _, [] => false
  end.
