(* Correspondence side of the call-path model (C01): Call.call instantiated with JSON values as Go values over the basic
   type universe of Handle.v (int, string, bool, []int, interface{}), compared with what harness family `callpath`
   observed for the methods B0..BA of harness/cmd/jrpcdrive/callpath.go. *)
From Coq Require Import String.
From Coq Require Import List NArith ZArith Bool Arith Uint63.
Import ListNotations.
From JR Require Import Json Handle Bytes AuthCases HttpCases Errors ErrorsCases Call.

Definition ty_eqb (a b : Handle.ty) : bool :=
  match a, b with
  | TInt, TInt | TStr, TStr | TBool, TBool | TIntList, TIntList | TAny, TAny => true
  | _, _ => false
  end.
Definition jmarshal (v : json) : option json := Some v.
Definition junmarshal (t : Handle.ty) (j : json) : option json := if accepts t j then Some (view t j) else None.
Definition jzero (t : Handle.ty) : json := view t JNull.
Definition jtype_of (_ : json) : Handle.ty := TAny.

Inductive oshape := ShNone | ShVal | ShErr | ShValErr.

Record ccase := {
  cc_ctx : bool; cc_params : list Handle.ty; cc_shape : oshape; cc_outty : Handle.ty;
  cc_args : list (list int);
  cc_hret : option (list int); cc_herr : bool;           (* what the method returned *)
  cc_invoked : nat; cc_received : list (list int);        (* what it saw *)
  cc_val : option (list int); cc_err_nil : bool }.        (* what the caller got *)

Definition outs_of (s : oshape) (t : Handle.ty) : list (@outty Handle.ty) :=
  match s with ShNone => [] | ShVal => [OutVal t] | ShErr => [OutErr] | ShValErr => [OutVal t; OutErr] end.

Definition plain_err : errval := {| ev_ty := tk 8 true; ev_msg := bs "negative <input> & ""quoted"""; ev_codec := None; ev_meta := None |}.

Definition all_parse (l : list (list int)) : option (list json) := all_some (map (fun b => parse (unpack b)) l).

Definition ccase_ok (c : ccase) : bool :=
  let ins := ((if cc_ctx c then [InCtx] else []) ++ map InTy (cc_params c))%list in
  let outs := outs_of (cc_shape c) (cc_outty c) in
  match make_rpc_func {| f_ins := ins; f_outs := outs |} false,
        register_method {| f_ins := InRecv :: ins; f_outs := outs |},
        all_parse (cc_args c), all_parse (cc_received c) with
  | Some fn, Some h, Some args, Some recvd =>
      let hv := match cc_hret c with Some b => match parse (unpack b) with Some j => j | None => JNull end | None => JNull end in
      let e := if cc_herr c then Some plain_err else None in
      let m : method := fun _ => Some (match cc_shape c with
                                       | ShNone => [] | ShVal => [RVal hv] | ShErr => [RErr e] | ShValErr => [RVal hv; RErr e] end) in
      let '(couts, invs) := call ty_eqb jmarshal junmarshal jzero jtype_of [] [] caps_of acc_codec acc_meta None None fn h m
                                 ((if cc_ctx c then [ACtx] else []) ++ map AVal args)%list in
      Nat.eqb (List.length invs) (cc_invoked c) &&
      match invs with
      | [cps] =>
          let seen := flat_map (fun x => match x with CVal v => [v] | _ => [] end) cps in
          all2 json_eqb seen recvd &&
          Nat.eqb (List.length cps) (1 + (if cc_ctx c then 1 else 0) + List.length (cc_params c))
      | _ => match recvd with [] => true | _ => false end
      end &&
      (* the caller's outputs, in their positions *)
      match cc_shape c, couts with
      | ShNone, [] => true
      | ShVal, [OVal v] =>
          match cc_val c with Some b => match parse (unpack b) with Some o => json_eqb v o | None => false end | None => false end
      | ShErr, [OErrv e'] => Bool.eqb (match e' with None => true | Some _ => false end) (cc_err_nil c)
      | ShValErr, [OVal v; OErrv e'] =>
          Bool.eqb (match e' with None => true | Some _ => false end) (cc_err_nil c) &&
          match cc_val c with Some b => match parse (unpack b) with Some o => json_eqb v o | None => false end | None => false end
      | _, _ => false
      end
  | _, _, _, _ => false
  end.
