From Coq Require Import List NArith Bool Lia.
Import ListNotations.
From JR Require Import Resp.
Open Scope N_scope.

Lemma existsb_cons_other (l : list (N * cause)) a b c :
  a <> b -> existsb (fun p => fst p =? b) ((a, c) :: l) = existsb (fun p => fst p =? b) l.
Proof. intros H. simpl. destruct (a =? b) eqn:E; [apply N.eqb_eq in E; congruence|reflexivity]. Qed.

(* the only events that can turn a live handler context into a cancelled one *)
Theorem cancel_causes s e s' id :
  rstep s e = Some s' -> is_cancelled s id = false -> is_cancelled s' id = true ->
  e = SCancelRecv id true \/ e = SDone id false \/ e = SCifCancelled \/ e = SExit \/ e = SCtxCancelled.
Proof.
  intros H H0 H1. unfold is_cancelled in *. apply orb_false_iff in H0. destruct H0 as [He Hc].
  destruct e; simpl in H.
  - injection H as <-. simpl in H1. rewrite He, Hc in H1. discriminate.
  - destruct (memn id0 (handling s) || memn id0 (known s))%bool; [discriminate|]. injection H as <-. simpl in H1.
    rewrite He, Hc in H1. discriminate.
  - destruct keep; injection H as <-.
    + rewrite He, Hc in H1. discriminate.
    + simpl in H1. rewrite He in H1. simpl in H1. destruct (memn id0 (known s)); [|rewrite Hc in H1; discriminate].
      destruct (N.eq_dec id0 id) as [->|Hn]; [auto|]. rewrite existsb_cons_other in H1 by exact Hn. congruence.
  - destruct (negb (memn id0 (cancel_req s))); [discriminate|]. destruct (negb (Bool.eqb found _)); [discriminate|].
    injection H as <-. simpl in H1. rewrite He in H1. simpl in H1. destruct found; [|congruence].
    destruct (N.eq_dec id0 id) as [->|Hn]; [auto|]. rewrite existsb_cons_other in H1 by exact Hn. congruence.
  - auto.
  - auto.
  - auto.
  - destruct (memn id0 (known s) && _)%bool; [|discriminate]. injection H as <-. rewrite He, Hc in H1. discriminate.
  - destruct (ended s); [|discriminate]. injection H as <-. rewrite Hc in H1. discriminate.
  - destruct (memn id0 (known s) && _)%bool; [|discriminate]. injection H as <-. rewrite He, Hc in H1. discriminate.
Qed.

(* a cancel request is honoured only for a call whose caller did cancel, and only for that call *)
Theorem cancel_needs_caller s id found s' : rstep s (SCancelRecv id found) = Some s' -> memn id (cancel_req s) = true.
Proof. simpl. destruct (memn id (cancel_req s)); [reflexivity|discriminate]. Qed.

Theorem cancel_no_crosstalk s a found s' b :
  rstep s (SCancelRecv a found) = Some s' -> b <> a -> is_cancelled s' b = is_cancelled s b.
Proof.
  simpl. destruct (negb (memn a (cancel_req s))); [discriminate|]. destruct (negb (Bool.eqb found _)); [discriminate|].
  intros H Hn. injection H as <-. unfold is_cancelled; simpl. destruct found; [|reflexivity].
  rewrite existsb_cons_other by congruence. reflexivity.
Qed.

(* a cancel request is effective exactly when the call is being handled *)
Theorem cancel_delivery s id s' :
  rstep s (SCancelRecv id true) = Some s' -> memn id (handling s) = true /\ is_cancelled s' id = true.
Proof.
  simpl. destruct (negb (memn id (cancel_req s))); [discriminate|].
  destruct (memn id (handling s)) eqn:Hh; simpl; [|discriminate]. intros H. injection H as <-. split; [reflexivity|].
  unfold is_cancelled; simpl. rewrite N.eqb_refl. simpl. apply orb_true_r.
Qed.

(* the end of the connection cancels every handler context: closeInFlight those still registered, the deferred
   cancel of the connection context all of them (kept subscriptions and notifications included) *)
Theorem exit_cancels_all s s' : rstep s SExit = Some s' -> forall id, is_cancelled s' id = true.
Proof. simpl. destruct (nil_bn (handling s)); [|discriminate]. intros H id. injection H as <-. reflexivity. Qed.

Theorem ctx_cancel_cancels_all s s' : rstep s SCtxCancelled = Some s' -> forall id, is_cancelled s' id = true.
Proof. simpl. intros H id. injection H as <-. reflexivity. Qed.

Theorem cif_cancels_registered s s' id :
  rstep s SCifCancelled = Some s' -> memn id (handling s) = true -> is_cancelled s' id = true /\ handling s' = [].
Proof.
  simpl. intros H Hm. injection H as <-. split; [|reflexivity]. unfold is_cancelled; simpl. apply orb_true_iff. right.
  rewrite existsb_app. apply orb_true_iff. left. induction (handling s) as [|x l IH]; [discriminate|].
  simpl in *. destruct (x =? id) eqn:E; [reflexivity|]. simpl in Hm. simpl. apply IH. exact Hm.
Qed.

(* what a handler can observe: cancellation only of a cancelled context, liveness only of a live one *)
Theorem observed_cancel_is_real s id s' : rstep s (HCtxDone id) = Some s' -> is_cancelled s id = true.
Proof. simpl. destruct (memn id (known s)); simpl; [|discriminate]. destruct (is_cancelled s id); [reflexivity|discriminate]. Qed.

Theorem notification_ctx_only_by_connection s s' : rstep s HCtxDoneNote = Some s' -> ended s = true.
Proof. simpl. destruct (ended s); [reflexivity|discriminate]. Qed.

(* ids never alias in the handling table *)
Theorem register_fresh s id s' : rstep s (SRegister id) = Some s' -> memn id (handling s) = false /\ memn id (known s) = false.
Proof.
  simpl. destruct (memn id (handling s)); simpl; [discriminate|]. destruct (memn id (known s)); [discriminate|auto].
Qed.
