(* C09 — Server replies conform to JSON-RPC 2.0 for every request, single or batch (HTTP half; the WebSocket
   half "one response frame per id-bearing call" is c09_ws_* below, over Handle.handle with chan_ok = true).
   Statements only; proofs in Handle_Proofs.v. Quantified over all byte strings, all handler tables,
   all handler behaviours. *)
From Coq Require Import List NArith ZArith Bool String.
Import ListNotations.
From JR Require Import Json Json_Proofs Handle Handle_Proofs Reply_Proofs.
From JRGen Require Extracted.
From JR Require Skeletons.

(* the protocol constants and wire names the model uses are those of /repo's source right now *)
Theorem c09_source_facts :
  Extracted.rpcParseError = (-32700)%Z /\ Extracted.rpcInvalidRequest = (-32600)%Z /\
  Extracted.rpcMethodNotFound = (-32601)%Z /\ Extracted.rpcInvalidParams = (-32602)%Z /\
  Extracted.response_keys_always = ["jsonrpc"; "id"]%string /\
  Extracted.response_keys_on_error = ["error"]%string /\ Extracted.response_keys_on_ok = ["result"]%string /\
  map (fun f => snd (fst (fst f))) Extracted.fields_request = ["jsonrpc"; "id"; "method"; "params"; "meta"]%string /\
  map (fun f => (snd (fst (fst f)), snd f)) Extracted.fields_JSONRPCError =
    [("code", false); ("message", false); ("meta", true); ("data", true)]%string /\
  Extracted.normalizeID_table = [("string,float64,nil", "v | nil"); ("int64", "float64(v) | nil");
                                 ("default", "nil | xerrors.Errorf(""invalid id type: %T"", id)")]%string /\
  Extracted.rpcError_status = ("code == rpcInvalidRequest", "hw.WriteHeader(http.StatusBadRequest)",
                               "hw.WriteHeader(http.StatusInternalServerError)")%string.
Proof. repeat split; reflexivity. Qed.

(* a non-batch body is answered with nothing or exactly one response object; nothing only when the body is
   one well-formed notification *)
Theorem c09_single : forall c body st rp inv,
  is_batch_body (trim_go body) = false -> handle_http c body = (st, rp, inv) ->
  (exists r, rp = RSingle r) \/
  (rp = RNone /\ exists v r, parse (trim_go body) = Some v /\ decode_request v = (r, false) /\ r_id r = None).
Proof. exact http_single_shape. Qed.

(* a well-formed non-empty batch is answered with one array; its elements that carry a non-null id correspond
   one-to-one, in request order, to the requests bearing a valid (string or number) id, with equal ids;
   every other element therefore has id null; there are never more responses than requests *)
Theorem c09_batch : forall c body l,
  (Z.of_nat (List.length body) <= max_size c)%Z ->
  is_batch_body (trim_go body) = true -> parse (trim_go body) = Some (JArr l) -> l <> [] ->
  existsb snd (map decode_request l) = false ->
  exists rs inv, handle_http c body = (200%Z, RBatch rs, inv) /\
    map rs_id (filter (fun x => non_null (rs_id x)) rs) = ids_of_requests (map (fun v => fst (decode_request v)) l) /\
    (List.length rs <= List.length l)%nat.
Proof. exact http_batch. Qed.

(* every response object has jsonrpc "2.0", a member id, and exactly one of result / error *)
Theorem c09_response_shape : forall r f,
  (exists v, pr_response r f = JObj [(q "id", rs_id r); (q "jsonrpc", JStr (q "2.0")); (q "result", v)]) \/
  (exists e, pr_response r f = JObj [(q "error", JObj e); (q "id", rs_id r); (q "jsonrpc", JStr (q "2.0"))]).
Proof. exact pr_response_shape. Qed.

(* an id-bearing request gets exactly one response and it echoes the id as the JSON value it was *)
Theorem c09_id_echo : forall c r id,
  r_id r = Some id -> exists resp inv, handle c false r = (Some resp, inv) /\ rs_id resp = id.
Proof. exact handle_id_bearing. Qed.

(* a notification gets no response, or (HTTP only) an error object with id null *)
Theorem c09_notification : forall c ok r,
  r_id r = None ->
  (exists inv, handle c ok r = (None, inv)) \/
  (exists code m inv, handle c ok r = (Some (rpc_error None code m), inv)).
Proof. exact handle_notification. Qed.

(* codes; none of these runs a handler *)
Theorem c09_malformed : forall c body,
  (Z.of_nat (List.length body) <= max_size c)%Z -> trim_go body <> [] -> parse (trim_go body) = None ->
  exists m, handle_http c body = (500%Z, RSingle (rpc_error None Extracted.rpcParseError m), []).
Proof. exact http_malformed. Qed.

Theorem c09_empty : forall c body,
  (Z.of_nat (List.length body) <= max_size c)%Z -> trim_go body = [] ->
  exists m, handle_http c body = (400%Z, RSingle (rpc_error None Extracted.rpcInvalidRequest m), []).
Proof. exact http_empty. Qed.

Theorem c09_unknown_method : forall c ok r,
  resolve c (r_method r) = None ->
  exists m, handle c ok r = (Some (rpc_error (r_id r) Extracted.rpcMethodNotFound m), []).
Proof. exact handle_unknown. Qed.

Theorem c09_wrong_arity : forall c ok r h ps,
  resolve c (r_method r) = Some h -> (is_chan h && negb ok = false)%bool -> h_raw h = false ->
  positional_args r = Some ps -> List.length ps <> List.length (h_params h) ->
  exists m, handle c ok r = (Some (rpc_error (r_id r) Extracted.rpcInvalidParams m), []).
Proof. exact handle_wrong_arity. Qed.

(* a handler runs at most once per request and it is the resolved one *)
Theorem c09_at_most_one_invocation : forall c ok r o inv,
  handle c ok r = (o, inv) ->
  inv = [] \/ exists h ps, resolve c (r_method r) = Some h /\ inv = [(h_name h, ps)].
Proof. exact handle_invocations. Qed.

(* the bytes of a reply: whatever the model answers (single object or batch array, any size, any nesting of results and
   error data) is a JSON text that reads back, by the grammar Go's decoder uses, as exactly the reply value — so the
   shape theorems above are theorems about the bytes on the wire. wf: ids / results / error data are JSON values whose
   number literals are JSON numbers (what a decoder hands over); error codes below 10^80 *)
Theorem c09_reply_is_json_text : forall rp v,
  wf_reply rp -> reply_json rp = Some v -> parse (reply_bytes rp) = Some v.
Proof. exact reply_round_trip. Qed.

(* the JSON layer itself: printing then parsing is the identity on every well-formed value (all sizes, all depths; strings
   of arbitrary bytes incl. quotes, backslashes and control characters), also in front of a following element *)
Theorem c09_parse_print : forall v, wf v -> parse (print v) = Some v.
Proof. exact parse_print. Qed.

Theorem c09_parse_print_prefix : forall v, wf v -> forall rest, delim rest -> forall f, (need v <= f)%nat ->
  pval f (print v ++ rest) = Some (v, rest).
Proof. exact pval_print. Qed.

Theorem c09_integers_are_numbers : forall z, (Z.abs z < 10 ^ 80)%Z -> wf (JNum (z_lit z)).
Proof. exact wf_int. Qed.

(* every literal the parser accepts is a number that the printer/parser pair preserves; well-formedness is decidable *)
Theorem c09_parsed_literals_are_numbers : forall s l r, pnum s = Some (l, r) -> num_ok l.
Proof. exact pnum_sound. Qed.

Theorem c09_wf_decidable : forall v, wfb v = true -> wf v.
Proof. exact wfb_sound. Qed.

(* the functions this property's model is an abstraction of still have the control / locking / shared-state skeleton the
   model was written against (Skeletons.v, by hand; Extracted.v, regenerated from /repo) *)
Theorem c09_code_skeletons :
  JRGen.Extracted.effects_handleReader = JR.Skeletons.handleReader /\
  JRGen.Extracted.effects_handle = JR.Skeletons.handle.
Proof. repeat split; reflexivity. Qed.

Print Assumptions c09_code_skeletons.
Print Assumptions c09_source_facts.
Print Assumptions c09_single.
Print Assumptions c09_batch.
Print Assumptions c09_response_shape.
Print Assumptions c09_id_echo.
Print Assumptions c09_notification.
Print Assumptions c09_malformed.
Print Assumptions c09_empty.
Print Assumptions c09_unknown_method.
Print Assumptions c09_wrong_arity.
Print Assumptions c09_at_most_one_invocation.
Print Assumptions c09_reply_is_json_text.
Print Assumptions c09_parse_print.
Print Assumptions c09_parse_print_prefix.
Print Assumptions c09_integers_are_numbers.
Print Assumptions c09_parsed_literals_are_numbers.
Print Assumptions c09_wf_decidable.
