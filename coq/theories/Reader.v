(* Model of httpio: waitReadCloser (Read/Close over an HTTP request body) and the uuid rendezvous
   between the upload handler and the param decoder. No proofs here (Reader_Proofs.v).
   The model never inspects bytes, so it is polymorphic in the byte type. *)
From Coq Require Import List NArith Bool Arith.
Import ListNotations.

Inductive rerr := NoErr | EOF | ErrClosed.

(* which repairs are in the code: once = close(w.wait) under sync.Once (832f153);
   keep_err = the first read error is remembered and returned again (2b21db9) *)
Record variant := { once : bool; keep_err : bool }.
Definition repaired : variant := {| once := true; keep_err := true |}.

Section R.
  Context {byte : Type}.

  (* --- the wrapped body: yields its bytes in chunks chosen by the environment, then sticky EOF;
         after Close every Read fails with a non-EOF error. This is net/http's request-body contract
         (modelled, not verified). net/http itself closes the body once the upload handler has returned. *)
  Record wrc := {
    rest : list byte;         (* bytes not yet returned *)
    wait_closed : bool;       (* close(w.wait) has happened: the upload request may complete *)
    body_closed : bool;       (* the inner body was closed (by the handler's Close or by net/http) *)
    crashed : bool;           (* a second close(w.wait): Go panics *)
    sticky : option rerr      (* w.err: first error returned by the inner Read *)
  }.

  Definition wrc_init (payload : list byte) : wrc :=
    {| rest := payload; wait_closed := false; body_closed := false; crashed := false; sticky := None |}.

  (* one operation; for Read the environment's choices ride on the event:
     n = len(p), k = bytes returned, early = EOF delivered together with the last bytes
     (after the body is closed: early = the body is http.NoBody-like and keeps saying EOF) *)
  Inductive op := Read (n k : nat) (early : bool) | Close | SrvClose.

  Inductive obs := ORead (data : list byte) (e : rerr) | OClose | OSrv | OPanic.

  Definition set_wait (w : wrc) (cr : bool) : wrc :=
    {| rest := rest w; wait_closed := true; body_closed := body_closed w; crashed := cr; sticky := sticky w |}.

  (* close(w.wait), guarded by sync.Once iff once=true *)
  Definition signal (o : bool) (w : wrc) : wrc :=
    if wait_closed w then (if o then w else set_wait w true) else set_wait w (crashed w).

  (* is the environment's choice (k, early) admissible for inner.Read on a buffer of n bytes? *)
  Definition read_choice_ok (w : wrc) (n k : nat) (early : bool) : bool :=
    if body_closed w then Nat.eqb k 0 && (negb early || match rest w with [] => true | _ => false end)
    else match rest w with
         | [] => Nat.eqb k 0
         | _ :: _ => Nat.leb k n && Nat.leb k (length (rest w))
                     && (Nat.eqb n 0 || Nat.ltb 0 k)                 (* progress unless len(p)=0 *)
                     && (negb early || Nat.eqb k (length (rest w)))  (* EOF only with the last bytes *)
         end.

  Definition inner_read (w : wrc) (k : nat) (early : bool) : list byte * rerr * list byte :=
    if body_closed w then ([], if early then EOF else ErrClosed, rest w)
    else (firstn k (rest w),
          match rest w with [] => EOF | _ => if early then EOF else NoErr end,
          skipn k (rest w)).

  Definition step (v : variant) (w : wrc) (o : op) : option (wrc * obs) :=
    if crashed w then None else
    match o with
    | Read n k early =>
        match (if keep_err v then sticky w else None) with
        | Some e => if Nat.eqb k 0 then Some (w, ORead [] e) else None
        | None =>
            if negb (read_choice_ok w n k early) then None else
            let '(data, e, rest') := inner_read w k early in
            match e with
            | NoErr => Some ({| rest := rest'; wait_closed := wait_closed w; body_closed := body_closed w;
                                crashed := crashed w; sticky := sticky w |}, ORead data NoErr)
            | _ =>
                let w1 := {| rest := rest'; wait_closed := wait_closed w; body_closed := body_closed w;
                             crashed := crashed w;
                             sticky := match sticky w with None => Some e | s => s end |} in
                let w' := signal (once v) w1 in
                Some (w', if crashed w' then OPanic else ORead data e)
            end
        end
    | Close =>
        let w1 := signal (once v) w in
        if crashed w1 then Some (w1, OPanic)
        else Some ({| rest := rest w1; wait_closed := true; body_closed := true; crashed := false; sticky := sticky w1 |}, OClose)
    | SrvClose =>
        if wait_closed w
        then Some ({| rest := rest w; wait_closed := true; body_closed := true; crashed := crashed w; sticky := sticky w |}, OSrv)
        else None
    end.

  Fixpoint run (v : variant) (w : wrc) (ops : list op) : option (wrc * list obs) :=
    match ops with
    | [] => Some (w, [])
    | o :: ops' =>
        match step v w o with
        | None => None
        | Some (w', ob) =>
            match run v w' ops' with
            | None => None
            | Some (w'', obs') => Some (w'', ob :: obs')
            end
        end
    end.

  Definition obs_data (o : obs) : list byte := match o with ORead d _ => d | _ => [] end.
  Definition received (l : list obs) : list byte := flat_map obs_data l.
  Definition is_eof (o : obs) : bool := match o with ORead _ EOF => true | _ => false end.
  Definition saw_eof (l : list obs) : bool := existsb is_eof l.
  Definition has_panic (l : list obs) : bool := existsb (fun o => match o with OPanic => true | _ => false end) l.
  Definition read_is_empty_eof (o : obs) : Prop :=
    match o with ORead d e => d = [] /\ e = EOF | _ => True end.

  (* --- rendezvous: readers map uuid -> unbuffered channel; the upload handler sends its waitReadCloser,
         the param decoder receives it; whoever arrives first creates the entry. *)
  Inductive party := Upload (u : N) (payload : list byte) | Decode (u : N) (who : N).

  Record rv := {
    up_waiting : list (N * list byte);    (* uploads blocked in `ch <- wr` *)
    dec_waiting : list (N * N);           (* decoders blocked in `<-ch` : (uuid, handler id) *)
    matched : list (N * list byte)        (* handler id -> payload its reader yields *)
  }.
  Definition rv_init : rv := {| up_waiting := []; dec_waiting := []; matched := [] |}.

  Fixpoint take_first {A} (f : A -> bool) (l : list A) : option (A * list A) :=
    match l with
    | [] => None
    | x :: l' => if f x then Some (x, l') else
                   match take_first f l' with None => None | Some (y, r) => Some (y, x :: r) end
    end.

  Definition arrive (s : rv) (p : party) : rv :=
    match p with
    | Upload u pl =>
        match take_first (fun d => N.eqb (fst d) u) (dec_waiting s) with
        | Some ((_, who), rest') => {| up_waiting := up_waiting s; dec_waiting := rest'; matched := (who, pl) :: matched s |}
        | None => {| up_waiting := up_waiting s ++ [(u, pl)]; dec_waiting := dec_waiting s; matched := matched s |}
        end
    | Decode u who =>
        match take_first (fun d => N.eqb (fst d) u) (up_waiting s) with
        | Some ((_, pl), rest') => {| up_waiting := rest'; dec_waiting := dec_waiting s; matched := (who, pl) :: matched s |}
        | None => {| up_waiting := up_waiting s; dec_waiting := dec_waiting s ++ [(u, who)]; matched := matched s |}
        end
    end.

  Definition arrive_all (ps : list party) : rv := fold_left arrive ps rv_init.
End R.

Arguments wrc : clear implicits.
Arguments obs : clear implicits.
Arguments party : clear implicits.
Arguments rv : clear implicits.
