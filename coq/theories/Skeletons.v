(* The code the state-machine and protocol models were written against, as control / synchronisation / shared-state
   skeletons (see tools/gotocoq effectSkeleton): conditions of if / for / switch, select communications, go / defer /
   return, channel sends, statement calls by callee (delete and close with arguments), stores to fields and tables.
   This file is written by hand (it is the model author's reading of the code); gen/Extracted.v holds the same lists
   regenerated from /repo on every run, and each Props_Cxx.v proves the two equal for the functions its model covers.
   A change to one of these functions that adds, removes or reorders a branch, a lock operation, a send, a goroutine or
   a table update breaks that proof, whether or not any test input notices. *)
From Coq Require Import List String.
Import ListNotations.
Open Scope string_scope.

Definition handleResponse : list string :=
  ["call c.inflightLk.Lock"; "call c.inflightLk.Unlock"; "if !ok"; "return";
   "if req.retCh != nil && frame.Result != nil"; "if err := json.Unmarshal(frame.Result, &chid); err != nil";
   "return"; "call c.chanHandlersLk.Lock"; "store c.chanHandlers[...]"; "call c.chanHandlersLk.Unlock";
   "go c.handleCtxAsync"; "send req.ready"; "call c.inflightLk.Lock"; "if still && cur.ready == req.ready";
   "delete(c.inflight, frame.ID)"; "call c.inflightLk.Unlock"].

Definition closeInFlight : list string :=
  ["call c.inflightLk.Lock"; "range c.inflight"; "send req.ready"; "set c.inflight"; "call c.inflightLk.Unlock";
   "call c.handlingLk.Lock"; "range c.handling"; "call cancel"; "set c.handling"; "call c.handlingLk.Unlock"].

Definition closeChans : list string :=
  ["call c.chanHandlersLk.Lock"; "defer c.chanHandlersLk.Unlock"; "range c.chanHandlers"; "call hnd.lk.Lock";
   "delete(c.chanHandlers, chid)"; "call c.chanHandlersLk.Unlock"; "call hnd.cb"; "call hnd.lk.Unlock";
   "call c.chanHandlersLk.Lock"].

Definition handleCall : list string :=
  ["if c.handler == nil"; "return"; "call cb"; "if !keepCtx"; "call cancel"; "if frame.ID != nil";
   "call c.handlingLk.Lock"; "store c.handling[...]"; "call c.handlingLk.Unlock"; "call c.handlingLk.Lock";
   "defer c.handlingLk.Unlock"; "if !keepctx"; "call cancel"; "delete(c.handling, frame.ID)"; "go c.handler.handle"].

Definition cancelCtx : list string :=
  ["if req.ID != nil"; "if err := json.Unmarshal(req.Params, &params); err != nil"; "return"; "if len(params) < 1";
   "return"; "if err := json.Unmarshal(params[0].data, &id); err != nil"; "return"; "if err != nil"; "return";
   "call c.handlingLk.Lock"; "defer c.handlingLk.Unlock"; "if ok"; "call cf"].

Definition handleCtxAsync : list string :=
  ["if err != nil"; "return";
   "if err := c.sendRequest(request{Jsonrpc: ""2.0"", Method: wsCancel, Params: rp}); err != nil"].

Definition handleChanMessage : list string :=
  ["if err := json.Unmarshal(frame.Params, &params); err != nil"; "return"; "if len(params) < 2"; "return";
   "if err := json.Unmarshal(params[0].data, &chid); err != nil"; "return"; "call c.chanHandlersLk.Lock"; "if !ok";
   "call c.chanHandlersLk.Unlock"; "return"; "call hnd.lk.Lock"; "defer hnd.lk.Unlock";
   "call c.chanHandlersLk.Unlock"; "call hnd.cb"].

Definition handleChanClose : list string :=
  ["if err := json.Unmarshal(frame.Params, &params); err != nil"; "return"; "if len(params) < 1"; "return";
   "if err := json.Unmarshal(params[0].data, &chid); err != nil"; "return"; "call c.chanHandlersLk.Lock"; "if !ok";
   "call c.chanHandlersLk.Unlock"; "return"; "call hnd.lk.Lock"; "defer hnd.lk.Unlock";
   "delete(c.chanHandlers, chid)"; "call c.chanHandlersLk.Unlock"; "call hnd.cb"].

Definition handleOutChans : list string :=
  ["for "; "switch chosen"; "case 0"; "case 1"; "if !ok"; "return"; "call c.nextWriter";
   "if err := json.NewEncoder(w).Encode(resp); err != nil"; "return"; "continue"; "if !ok"; "return"; "continue";
   "if !ok"; "if n > 0"; "store cases[...]"; "store caseToID[...]"; "if err != nil"; "continue";
   "if err := c.sendRequest(request{Jsonrpc: ""2.0"", ID: nil, Method: chClose, Params: rp}); err != nil";
   "continue"; "if err != nil"; "continue";
   "if err := c.sendRequest(request{Jsonrpc: ""2.0"", ID: nil, Method: chValue, Params: rp}); err != nil"; "return"].

Definition handleChanOut : list string :=
  ["call c.spawnOutChanHandlerOnce.Do"; "go c.handleOutChans"; "select"; "comm c.registerCh <-";
   "comm <-c.exiting"; "send c.registerCh"; "return"; "return"].

Definition readFrame : list string :=
  ["if err != nil"; "send c.readError"; "return"; "send c.frameExecQueue";
   "if len(c.frameExecQueue) > 2 * cap(c.frameExecQueue) / 3"; "go c.nextMessage"].

Definition handleFrame : list string :=
  ["switch frame.Method"; "case """""; "case wsCancel"; "case chValue"; "case chClose"; "case default";
   "call c.handleResponse"; "call c.cancelCtx"; "call c.handleChanMessage"; "call c.handleChanClose";
   "call c.handleCall"].

Definition sendRequest : list string :=
  ["call c.writeLk.Lock"; "defer c.writeLk.Unlock"; "if debugTrace"; "if err := c.conn.WriteJSON(req); err != nil";
   "return"; "return"].

Definition tryReconnect : list string :=
  ["if c.connFactory == nil"; "return"; "call c.errLk.Lock"; "if c.incomingErr == nil"; "set c.incomingErr";
   "call c.errLk.Unlock"; "call c.closeInFlight"; "call c.closeChans"; "set c.incoming"; "go func";
   "call c.stopPings"; "for conn == nil"; "call time.Sleep"; "if ctx.Err() != nil"; "return";
   "if conn, err = c.connFactory(); err != nil"; "select"; "comm <-ctx.Done()"; "comm default"; "return";
   "call c.writeLk.Lock"; "set c.conn"; "call c.errLk.Lock"; "set c.incomingErr"; "call c.errLk.Unlock";
   "set c.stopPings"; "call c.writeLk.Unlock"; "go c.nextMessage"; "return"].

Definition handleWsConn : list string :=
  ["defer cancel"; "set c.incoming"; "set c.readError"; "set c.frameExecQueue"; "set c.inflight"; "set c.handling";
   "set c.chanHandlers"; "set c.pongs"; "set c.registerCh"; "defer close"; "defer vhook"; "defer c.closeInFlight";
   "defer c.closeChans"; "set c.stopPings"; "defer c.stopPings"; "if c.timeout != 0"; "defer timeoutTimer.Stop";
   "go c.frameExecutor"; "go c.nextMessage"; "for "; "if timeoutTimer != nil"; "if !timeoutTimer.Stop()"; "select";
   "comm <-timeoutTimer.C"; "comm default"; "call timeoutTimer.Reset"; "select"; "comm r, ok := <-c.incoming";
   "comm rerr := <-c.readError"; "comm <-ctx.Done()"; "comm req := <-c.requests"; "comm <-c.pongs";
   "comm <-timeoutCh"; "comm <-c.stop"; "call c.errLk.Lock"; "call c.errLk.Unlock"; "if ok"; "go c.readFrame";
   "break"; "if err == nil"; "return"; "if !c.tryReconnect(ctx)"; "return"; "if !c.tryReconnect(ctx)"; "return";
   "return"; "call c.writeLk.Lock"; "if req.req.ID != nil"; "call c.errLk.Lock"; "call c.errLk.Unlock";
   "if hasErr"; "send req.ready"; "call c.writeLk.Unlock"; "break"; "call c.inflightLk.Lock";
   "store c.inflight[...]"; "call c.inflightLk.Unlock"; "call c.writeLk.Unlock"; "if serr != nil";
   "if req.req.ID == nil"; "if serr != nil"; "set resp.Error"; "send req.ready"; "call c.resetReadDeadline";
   "if c.pingInterval == 0"; "continue"; "call c.writeLk.Lock"; "if err := c.conn.Close(); err != nil";
   "call c.writeLk.Unlock"; "if c.connFactory == nil"; "return"; "continue"; "call c.writeLk.Lock";
   "if err := c.conn.WriteMessage(websocket.CloseMessage, cmsg); err != nil";
   "if err := c.conn.Close(); err != nil"; "call c.writeLk.Unlock"; "return";
   "if c.pingInterval > 0 && time.Since(start) > c.pingInterval * 2"; "if debugTrace"].

Definition setupPings : list string :=
  ["if c.pingInterval == 0"; "return"; "call c.conn.SetPongHandler"; "select"; "comm c.pongs <-"; "comm default";
   "send c.pongs"; "return"; "call c.conn.SetPingHandler"; "select"; "comm c.pongs <-"; "comm default";
   "send c.pongs"; "if err == websocket.ErrCloseSent"; "return";
   "if e, ok := <*ast.TypeAssertExpr>; ok && e.Temporary()"; "return"; "return"; "go func"; "for "; "select";
   "comm <-time.After(c.pingInterval)"; "comm <-stop"; "call c.writeLk.Lock";
   "if err := c.conn.WriteMessage(websocket.PingMessage, []byte{}); err != nil"; "call c.writeLk.Unlock"; "return";
   "return"; "call o.Do"; "close(stop)"].

Definition nextMessage : list string :=
  ["call c.resetReadDeadline"; "if err != nil"; "call c.errLk.Lock"; "set c.incomingErr"; "call c.errLk.Unlock";
   "close(c.incoming)"; "return"; "if msgType != websocket.BinaryMessage && msgType != websocket.TextMessage";
   "call c.errLk.Lock"; "set c.incomingErr"; "call c.errLk.Unlock"; "close(c.incoming)"; "return"; "send c.incoming"].

Definition nextWriter : list string :=
  ["call c.writeLk.Lock"; "defer c.writeLk.Unlock"; "if err != nil"; "return"; "call cb";
   "if err := wcl.Close(); err != nil"; "return"].

Definition makeOutChan : list string :=
  ["go func"; "for "; "if front != nil"; "switch chosen"; "case 0"; "case 1"; "case 2"; "call ch.Close"; "return";
   "if ok"; "call buf.PushBack"; "if buf.Len() > 1"; "if buf.Len() > 10"; "call buf.Remove";
   "if incoming == nil && buf.Len() == 0"; "call ch.Close"; "return"; "return"; "if !ok"; "close(incoming)";
   "return"; "if err := json.Unmarshal(result, val.Interface()); err != nil"; "return"; "if ctx.Err() != nil";
   "return"; "select"; "comm incoming <-"; "comm <-ctx.Done()"; "send incoming"; "return"; "return"].

Definition setupRequestChan : list string :=
  ["set c.doRequest"; "select"; "comm requests <-"; "comm <-c.exiting"; "send requests"; "return"; "if ctx != nil";
   "for "; "select"; "comm resp = <-cr.ready"; "comm <-ctxDone"; "break"; "if err != nil"; "return"; "select";
   "comm requests <-"; "comm <-c.exiting"; "send requests"; "return"; "return"].

Definition handleReader : list string :=
  ["call cb"; "if err != nil"; "call rpcError"; "return"; "if reqSize > s.maxRequestSize"; "call rpcError";
   "return"; "if reqSize == 0"; "call rpcError"; "return";
   "if bufferedRequest.Bytes()[0] == '[' && bufferedRequest.Bytes()[reqSize - 1] == ']'";
   "if err := json.Unmarshal(bufferedRequest.Bytes(), &reqs); err != nil"; "call rpcError"; "return";
   "if len(reqs) == 0"; "call rpcError"; "return"; "range reqs"; "call cb";
   "if req.ID, err = normalizeID(req.ID); err != nil"; "set req.ID"; "call rpcError"; "call s.handle";
   "if elem.Len() == 0"; "continue"; "if !first";
   "if err := json.Unmarshal(bufferedRequest.Bytes(), &req); err != nil"; "call rpcError"; "return";
   "if req.ID, err = normalizeID(req.ID); err != nil"; "set req.ID"; "call rpcError"; "return"; "call s.handle"].

Definition handle : list string :=
  ["defer span.End"; "if !ok"; "if ok"; "if !ok"; "call rpcError"; "call done"; "return"; "defer done";
   "if chOut == nil && outCh"; "call rpcError"; "return"; "store callParams[...]"; "if handler.hasCtx == 1";
   "store callParams[...]"; "if handler.hasRawParams"; "store callParams[...]"; "if len(req.Params) > 0";
   "if err != nil"; "call rpcError"; "return"; "if len(ps) != handler.nParams"; "call rpcError"; "call done";
   "return"; "for i < handler.nParams"; "if !found";
   "if err := json.NewDecoder(bytes.NewReader(ps[i].data)).Decode(rp.Interface()); err != nil"; "call rpcError";
   "return"; "if err != nil"; "call rpcError"; "return"; "if !pv.IsValid()"; "store callParams[...]";
   "if err != nil"; "call rpcError"; "if s.tracer != nil"; "call s.tracer"; "return"; "if req.ID == nil"; "return";
   "if s.tracer != nil"; "call s.tracer"; "if handler.errOut != -1"; "if err != nil"; "set resp.Error";
   "if handler.valOut != -1"; "if resp.Error == nil"; "if res != nil && kind == reflect.Chan"; "if err == nil";
   "return"; "set resp.Error"; "set resp.Result"; "if resp.Error != nil && nonZero"; "call withLazyWriter";
   "if err := json.NewEncoder(w).Encode(resp); err != nil"; "return"].

Definition doCall : list string :=
  ["defer func"; "if i := recover(); i != nil"; "return"].

Definition auth_ServeHTTP : list string :=
  ["if token == """""; "if token != """""; "if token != """""; "if !strings.HasPrefix(token, ""Bearer "")";
   "call w.WriteHeader"; "return"; "if err != nil"; "call w.WriteHeader"; "return"; "call h.Next"].

Definition resetReadDeadline : list string :=
  ["if c.timeout > 0"; "if err := c.conn.SetReadDeadline(time.Now().Add(c.timeout)); err != nil"].
