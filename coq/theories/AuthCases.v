(* Correspondence side of C19: compares what the implementation did (recorded by `jrpcdrive auth`)
   with what the model Auth.v says. Data arrives in cases files written by bin/check. *)
From Coq Require Import List String Bool NArith Arith.
Import ListNotations.
From JR Require Import Auth.
Open Scope string_scope.

Fixpoint list_eqb {A} (eqb : A -> A -> bool) (a b : list A) : bool :=
  match a, b with
  | [], [] => true
  | x :: a', y :: b' => eqb x y && list_eqb eqb a' b'
  | _, _ => false
  end.

Record proxy_case := {
  pc_attached : option (list string); pc_dflt : list string; pc_required : string;
  pc_shape : shape; pc_impl_val : nat; pc_impl_err : bool;
  (* observed *)
  pc_invoked : nat; pc_err_nil : bool; pc_val : nat }.

Definition result_obs_ok (r : result nat) (err_nil : bool) (val : nat) : bool :=
  match r with
  | RErr e => Bool.eqb (negb e) err_nil && Nat.eqb val 0
  | RValErr v e => Bool.eqb (negb e) err_nil && Nat.eqb val v
  end.

Definition impl_result (c : proxy_case) : result nat :=
  match pc_shape c with ShErr => RErr (pc_impl_err c) | ShValErr => RValErr (pc_impl_val c) (pc_impl_err c) end.

Definition proxy_ok (c : proxy_case) : bool :=
  match proxy_call string String.eqb nat 0 (pc_attached c) (pc_dflt c) (pc_required c) (pc_shape c) (impl_result c) with
  | Ran r => Nat.eqb (pc_invoked c) 1 && result_obs_ok r (pc_err_nil c) (pc_val c)
  | Denied r => Nat.eqb (pc_invoked c) 0 && result_obs_ok r (pc_err_nil c) (pc_val c)
  end.

Record http_case := {
  hc_hdr : string; hc_query : string; hc_verify : list (string * option (list string));
  (* observed *)
  hc_status : nat; hc_next : nat; hc_attached : option (list string); hc_verify_calls : list string }.

Fixpoint lookup (t : list (string * option (list string))) (k : string) : option (list string) :=
  match t with
  | [] => None
  | (k', v) :: t' => if String.eqb k k' then v else lookup t' k
  end.

(* the harness observes the attached set through HasPerm probes over this universe *)
Definition probe_universe : list string := ["read"; "write"; "admin"; "sign"; ""].
Definition project (ps : list string) : list string :=
  filter (fun p => existsb (String.eqb p) ps) probe_universe.

Definition opt_eqb {A} (eqb : A -> A -> bool) (a b : option A) : bool :=
  match a, b with None, None => true | Some x, Some y => eqb x y | _, _ => false end.

Definition http_ok (c : http_case) : bool :=
  match auth_http string (hc_hdr c) (hc_query c) (lookup (hc_verify c)) with
  | H401 calls => Nat.eqb (hc_status c) 401 && Nat.eqb (hc_next c) 0 && list_eqb String.eqb calls (hc_verify_calls c)
                  && opt_eqb (list_eqb String.eqb) None (hc_attached c)
  | HNext att calls => Nat.eqb (hc_status c) 200 && Nat.eqb (hc_next c) 1 && list_eqb String.eqb calls (hc_verify_calls c)
                  && opt_eqb (list_eqb String.eqb) (option_map project att) (hc_attached c)
  end.

Inductive build_case := BC (valid tags : list string) (observed : nat). (* 0 ok, 1 panic missing, 2 panic unknown *)
Definition build_ok (c : build_case) : bool :=
  match c with BC valid tags obs =>
    match proxy_build string String.eqb (fun s => String.eqb s "") valid tags with
    | BuildOk => Nat.eqb obs 0 | BuildPanicMissing _ => Nat.eqb obs 1 | BuildPanicUnknown _ => Nat.eqb obs 2 end end.

Fixpoint mism_from {A} (ok : A -> bool) (i : N) (l : list A) : list N :=
  match l with
  | [] => []
  | c :: l' => if ok c then mism_from ok (N.succ i) l' else i :: mism_from ok (N.succ i) l'
  end.
Definition mismatches {A} (ok : A -> bool) (l : list A) : list N := mism_from ok 0%N l.
