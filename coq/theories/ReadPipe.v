(* The read side of one wsConn as a token-passing pipeline (websocket.go nextMessage -> c.incoming -> handleWsConn ->
   go readFrame -> c.frameExecQueue -> frameExecutor): at any time at most one frame is between the socket and the executor
   queue, because the next nextMessage goroutine is only started by readFrame after it has enqueued the frame it read.
   Frames are numbered in the order they come off the wire. No proofs here. *)
From Coq Require Import List Arith Bool.
Import ListNotations.

Inductive tok :=
| TNext                 (* a nextMessage goroutine is blocked in (or on its way to) conn.NextReader *)
| TIncoming (f : nat)   (* nextMessage has sent frame f's reader into c.incoming *)
| TRead (f : nat)       (* the loop has started readFrame for frame f *)
| TClosed               (* nextMessage failed: incomingErr set, c.incoming closed, not yet seen by the loop *)
| TReported             (* the loop has seen the failure (closed incoming / readError): reconnect or exit follows *)
| TNone.                (* nobody holds the token: no reader, no frame, no error on its way *)

Record rp := {
  tk : tok;
  nextf : nat;          (* frames read off the wire so far *)
  queue : list nat;     (* frameExecQueue *)
  executed : list nat;  (* frames the executor has taken, oldest first *)
  lost : list nat       (* frames whose body could not be read (the connection failed under readFrame) *)
}.
Definition rp0 : rp := {| tk := TNext; nextf := 0; queue := []; executed := []; lost := [] |}.

Inductive rev_ :=
| RMsg                  (* reader.msg *)
| RErr                  (* reader.err *)
| LIncoming (ok : bool) (* loop.incoming *)
| FEnq                  (* frame.enq: readFrame enqueues, then starts the next nextMessage *)
| FErr                  (* frame.err: readFrame reports the read error on c.readError *)
| LReadErr              (* loop.readerr *)
| FBlank                (* readFrame read a frame with nothing but white space in it *)
| XTake                 (* exec.take *)
| Rearm.                (* redial.swap: the redial goroutine starts nextMessage on the new connection *)

Definition set_tk (s : rp) (t : tok) : rp :=
  {| tk := t; nextf := nextf s; queue := queue s; executed := executed s; lost := lost s |}.

(* drop_blank: the variant in which readFrame returns on a blank frame before enqueueing it and before re-arming the
   reader (seeded change C10-d); in the code a blank frame is a frame like any other *)
Definition rstep (drop_blank : bool) (s : rp) (e : rev_) : option rp :=
  match e, tk s with
  | RMsg, TNext => Some {| tk := TIncoming (nextf s); nextf := S (nextf s); queue := queue s; executed := executed s; lost := lost s |}
  | RErr, TNext => Some (set_tk s TClosed)
  | LIncoming true, TIncoming f => Some (set_tk s (TRead f))
  | LIncoming false, TClosed => Some (set_tk s TReported)
  | FEnq, TRead f => Some {| tk := TNext; nextf := nextf s; queue := queue s ++ [f]; executed := executed s; lost := lost s |}
  | FBlank, TRead f =>
      if drop_blank then Some {| tk := TNone; nextf := nextf s; queue := queue s; executed := executed s; lost := f :: lost s |}
      else Some {| tk := TNext; nextf := nextf s; queue := queue s ++ [f]; executed := executed s; lost := lost s |}
  | FErr, TRead f => Some {| tk := TClosed; nextf := nextf s; queue := queue s; executed := executed s; lost := f :: lost s |}
  | LReadErr, TClosed => Some (set_tk s TReported)
  | XTake, _ =>
      match queue s with
      | f :: q => Some {| tk := tk s; nextf := nextf s; queue := q; executed := executed s ++ [f]; lost := lost s |}
      | [] => None
      end
  | Rearm, TReported => Some (set_tk s TNext)
  | _, _ => None
  end.

Fixpoint rrun (db : bool) (s : rp) (es : list rev_) : option rp :=
  match es with
  | [] => Some s
  | e :: t => match rstep db s e with Some s' => rrun db s' t | None => None end
  end.

Fixpoint rrun_diag (s : rp) (es : list rev_) (i : nat) : option nat :=
  match es with
  | [] => None
  | e :: t => match rstep false s e with Some s' => rrun_diag s' t (S i) | None => Some i end
  end.

Definition in_pipe (s : rp) : list nat := match tk s with TIncoming f | TRead f => [f] | _ => [] end.
(* every frame read off the wire, in wire order *)
Definition accounted (s : rp) : list nat := executed s ++ queue s ++ in_pipe s.
