(* Responder side of one wsConn: the handling table and the handler contexts (websocket.go handleCall / done /
   cancelCtx / closeInFlight's cancellation half / handleWsConn's deferred cancel; client.go's cancel request).
   Events are the library's observation points plus what the harness' handlers observe. No proofs here. *)
From Coq Require Import List NArith Bool.
Import ListNotations.
Open Scope N_scope.

Inductive cause := CallerCancelled | Completed | ConnEnded.

Record rst := {
  handling : list N;                 (* ids with a registered cancel function *)
  cancelled : list (N * cause);      (* handler contexts cancelled individually, with why *)
  cancel_req : list N;               (* ids whose caller cancelled (the cancel request was made on the client) *)
  known : list N;                    (* ids of calls dispatched on this connection *)
  ended : bool                       (* the connection context is cancelled (handleWsConn returned) *)
}.
Definition rinit : rst := {| handling := []; cancelled := []; cancel_req := []; known := []; ended := false |}.

Inductive rev :=
| CallerCancel (id : N)              (* client: call.ctxdone / ctxasync.cancel for call id *)
| SRegister (id : N)                 (* call.register: cancel function stored under id *)
| SDone (id : N) (keep : bool)       (* call.done *)
| SCancelRecv (id : N) (found : bool)(* cancel.recv *)
| SCifCancelled                      (* closeInFlight: every registered context cancelled, table cleared *)
| SExit                              (* loop.exit: the deferred cancel of the connection context follows *)
| SCtxCancelled                      (* the context the connection was served under is cancelled from outside *)
| HCtxDone (id : N)                  (* a handler observed its context cancelled (id-bearing call) *)
| HCtxDoneNote                       (* same, for a notification's handler (no id: only the connection can cancel it) *)
| HEndLive (id : N).                 (* a handler returned and its context was still live *)

Fixpoint memn (x : N) (l : list N) : bool := match l with [] => false | y :: r => (y =? x) || memn x r end.
Fixpoint remn (x : N) (l : list N) : list N := match l with [] => [] | y :: r => if y =? x then remn x r else y :: remn x r end.
Definition is_cancelled (s : rst) (id : N) : bool := ended s || existsb (fun p => fst p =? id) (cancelled s).

Definition nil_bn (l : list N) : bool := match l with [] => true | _ => false end.

Definition rstep (s : rst) (e : rev) : option rst :=
  match e with
  | CallerCancel id =>
      Some {| handling := handling s; cancelled := cancelled s; cancel_req := id :: cancel_req s; known := known s; ended := ended s |}
  | SRegister id =>
      (* two calls in flight under one id would alias in the table: not a behaviour (C02: ids are distinct) *)
      if memn id (handling s) || memn id (known s) then None else
      Some {| handling := id :: handling s; cancelled := cancelled s; cancel_req := cancel_req s; known := id :: known s; ended := ended s |}
  | SDone id keep =>
      if keep then Some s else
      Some {| handling := remn id (handling s);
              cancelled := if memn id (known s) then (id, Completed) :: cancelled s else cancelled s;
              cancel_req := cancel_req s; known := known s; ended := ended s |}
  | SCancelRecv id found =>
      (* a cancel request arrives only for a call whose caller cancelled *)
      if negb (memn id (cancel_req s)) then None else
      if negb (Bool.eqb found (memn id (handling s))) then None else
      Some {| handling := handling s;
              cancelled := if found then (id, CallerCancelled) :: cancelled s else cancelled s;
              cancel_req := cancel_req s; known := known s; ended := ended s |}
  | SCifCancelled =>
      Some {| handling := []; cancelled := map (fun i => (i, ConnEnded)) (handling s) ++ cancelled s;
              cancel_req := cancel_req s; known := known s; ended := ended s |}
  | SExit =>
      (* the deferred closeInFlight has run before: the table is empty *)
      if nil_bn (handling s) then
        Some {| handling := []; cancelled := cancelled s; cancel_req := cancel_req s; known := known s; ended := true |}
      else None
  | SCtxCancelled =>
      Some {| handling := handling s; cancelled := cancelled s; cancel_req := cancel_req s; known := known s; ended := true |}
  | HCtxDone id => if memn id (known s) && is_cancelled s id then Some s else None
  | HCtxDoneNote => if ended s then Some s else None
  | HEndLive id => if memn id (known s) && negb (is_cancelled s id) then Some s else None
  end.

Fixpoint rrun (s : rst) (es : list rev) : option rst :=
  match es with [] => Some s | e :: r => match rstep s e with Some s' => rrun s' r | None => None end end.

Fixpoint rrun_diag (s : rst) (es : list rev) (i : N) : option N :=
  match es with [] => None | e :: r => match rstep s e with Some s' => rrun_diag s' r (i + 1) | None => Some i end end.
