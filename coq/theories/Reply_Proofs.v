(* Replies of the request-path model as byte strings: what Handle.reply_bytes writes is a JSON text that reads back
   (with the model's parser, i.e. Go's grammar) as exactly the reply value — for every reply, of any size. *)
From Coq Require Import List NArith ZArith Bool Lia.
Import ListNotations.
From JR Require Import Json Json_Proofs Handle.

Definition wf_body (b : rbody) : Prop :=
  match b with
  | RResult v => wf v
  | RError code _ extra => (Z.abs code < 10 ^ 80)%Z /\ Forall (fun kv => wf (snd kv)) extra
  end.
Definition wf_resp (r : response) : Prop := wf (rs_id r) /\ wf_body (rs_body r).
Definition wf_reply (rp : reply) : Prop :=
  match rp with RNone => True | RSingle r => wf_resp r | RBatch rs => Forall wf_resp rs end.

Lemma wf_pr_response r f : wf_resp r -> wf (pr_response r f).
Proof.
  intros [Hid Hb]. unfold pr_response. destruct (rs_body r) as [v|code m extra]; cbn [wf_body] in Hb.
  - apply wf_obj. constructor; [exact Hid|]. constructor; [apply wf_str|]. constructor; [exact Hb|constructor].
  - destruct Hb as [Hc He]. apply wf_obj. constructor; [|constructor; [exact Hid|constructor; [apply wf_str|constructor]]].
    cbn [snd]. apply wf_obj. constructor; [cbn [snd]; apply wf_int; exact Hc|]. constructor; [cbn [snd]; apply wf_str|]. exact He.
Qed.

Theorem reply_round_trip rp v : wf_reply rp -> reply_json rp = Some v -> parse (reply_bytes rp) = Some v.
Proof.
  intros Hw Hj. unfold reply_bytes. rewrite Hj. apply parse_print.
  destruct rp as [|r|rs]; cbn [reply_json] in Hj; [discriminate| |]; injection Hj as <-.
  - apply wf_pr_response. exact Hw.
  - constructor. cbn [wf_reply] in Hw. induction Hw as [|r rs Hr _ IH]; constructor; [apply wf_pr_response; exact Hr|exact IH].
Qed.

