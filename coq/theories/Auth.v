(* Model of package auth: HasPerm, PermissionedProxy, Handler.ServeHTTP.
   No proofs in this file (they are in Auth_Proofs.v). *)
From Coq Require Import List String Bool Ascii.
Import ListNotations.
Open Scope string_scope.

Section Perm.
  (* Any permission universe with a boolean equality. In Go: type Permission string, compared with ==. *)
  Variable perm : Type.
  Variable perm_eqb : perm -> perm -> bool.

  (* auth.HasPerm: callerPerms = attached if the context carries a []Permission
     (even an empty one), else defaultPerms; linear scan with ==. *)
  Definition effective (attached : option (list perm)) (dflt : list perm) : list perm :=
    match attached with Some l => l | None => dflt end.

  Definition has_perm (attached : option (list perm)) (dflt : list perm) (p : perm) : bool :=
    existsb (fun c => perm_eqb c p) (effective attached dflt).

  (* PermissionedProxy: one generated function per struct field. *)
  Inductive shape := ShErr | ShValErr.

  (* what the wrapped implementation would return if invoked (abstract value type V) *)
  Variable V : Type.
  Variable zeroV : V.

  Inductive result :=
  | RErr (err : bool)                 (* shape error:       err=true => non-nil error *)
  | RValErr (v : V) (err : bool).     (* shape (value,error) *)

  Inductive proxy_out :=
  | Ran (r : result)                  (* implementation invoked, its results passed through *)
  | Denied (r : result).              (* implementation NOT invoked; r is what the caller gets *)

  Definition denied_result (sh : shape) : result :=
    match sh with ShErr => RErr true | ShValErr => RValErr zeroV true end.

  Definition proxy_call (attached : option (list perm)) (dflt : list perm)
             (required : perm) (sh : shape) (impl : result) : proxy_out :=
    if has_perm attached dflt required then Ran impl else Denied (denied_result sh).

  (* construction: every field needs a non-empty perm tag which is in validPerms; Go panics otherwise *)
  Inductive build_out := BuildOk | BuildPanicMissing (field : nat) | BuildPanicUnknown (field : nat).

  Variable is_empty_tag : perm -> bool.   (* requiredPerm == "" *)

  Fixpoint proxy_build_from (i : nat) (valid : list perm) (tags : list perm) : build_out :=
    match tags with
    | [] => BuildOk
    | t :: rest =>
        if is_empty_tag t then BuildPanicMissing i
        else if existsb (fun v => perm_eqb t v) valid then proxy_build_from (S i) valid rest
        else BuildPanicUnknown i
    end.
  Definition proxy_build := proxy_build_from 0.

  (* auth.Handler.ServeHTTP *)
  Definition bearer : string := "Bearer ".

  Fixpoint has_prefix (p s : string) : bool :=
    match p, s with
    | EmptyString, _ => true
    | String a p', String b s' => Ascii.eqb a b && has_prefix p' s'
    | String _ _, EmptyString => false
    end.
  Fixpoint drop (n : nat) (s : string) : string :=
    match n, s with
    | O, _ => s
    | S n', String _ s' => drop n' s'
    | S _, EmptyString => EmptyString
    end.
  Definition is_empty (s : string) : bool := match s with EmptyString => true | _ => false end.

  Inductive http_out :=
  | H401 (verify_calls : list string)                                (* next handler NOT run *)
  | HNext (attached : option (list perm)) (verify_calls : list string). (* next handler run once *)

  (* hdr = r.Header.Get("Authorization") ("" when absent); query = r.FormValue("token") ("" when absent) *)
  Definition token_of (hdr query : string) : string :=
    if is_empty hdr then (if is_empty query then EmptyString else bearer ++ query) else hdr.

  Definition auth_decide (token : string) (verify : string -> option (list perm)) : http_out :=
    if is_empty token then HNext None []
    else if has_prefix bearer token then
      let t := drop (String.length bearer) token in
      match verify t with
      | Some ps => HNext (Some ps) [t]
      | None => H401 [t]
      end
    else H401 [].

  Definition auth_http (hdr query : string) (verify : string -> option (list perm)) : http_out :=
    auth_decide (token_of hdr query) verify.
End Perm.

Arguments Ran {V}. Arguments Denied {V}.
Arguments RErr {V}. Arguments RValErr {V}.
Arguments H401 {perm}. Arguments HNext {perm}.
