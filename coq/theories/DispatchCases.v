(* Correspondence side of C12's exhaustive dispatch universe (harness family `dispatch`). *)
From Coq Require Import List NArith ZArith Bool String Uint63.
Import ListNotations.
From JR Require Import Json Handle Bytes AuthCases HttpCases.
From JRGen Require Extracted.
Open Scope N_scope.

(* handler types of harness/cmd/jrpcdrive/dispatch.go; each method reports "<ns>/<type>/<Method>" *)
Definition dmeth (ns : bytes) (t : N) (m : string) : hspec :=
  {| h_name := q m; h_params := []; h_raw := false; h_out := OVal;
     h_fun := fun _ => Ret (JStr ((ns ++ 47 :: (if t =? 1 then 49 else 50) :: 47 :: q m)%list)) |}.

(* reflect enumerates methods in sorted order: Bar, Foo / Foo, FooBar *)
Definition dtype (ns : bytes) (t : N) : list hspec :=
  if t =? 1 then [dmeth ns 1 "Bar"; dmeth ns 1 "Foo"] else [dmeth ns 2 "Foo"; dmeth ns 2 "FooBar"].

Record dcase := { dc_fmt : formatter; dc_regs : list (list int * N); dc_aliases : list (list int * list int);
                  dc_name : list int; dc_ran : list int; dc_code : Z }.

Definition dconfig (c : dcase) : config :=
  let c1 := fold_left (fun cfg r => register (dc_fmt c) (unpack (fst r)) (dtype (unpack (fst r)) (snd r)) cfg)
                      (dc_regs c) {| max_size := 1000000; methods := []; aliases := [] |} in
  fold_left (fun cfg a => alias (unpack (fst a)) (unpack (snd a)) cfg) (dc_aliases c) c1.

Definition dcase_ok (c : dcase) : bool :=
  let r := {| r_id := Some (JNum [49]); r_method := unpack (dc_name c); r_params := None |} in
  match handle (dconfig c) false r with
  | (Some {| rs_body := RResult (JStr tag) |}, [_]) => bytes_eqb tag (unpack (dc_ran c)) && Z.eqb (dc_code c) 0
  | (Some {| rs_body := RError code _ _ |}, []) => Z.eqb code (dc_code c) && match unpack (dc_ran c) with [] => true | _ => false end
  | _ => false
  end.
