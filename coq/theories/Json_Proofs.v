(* Round trip of the byte-level JSON layer: parse (print v) = Some v for every well-formed value, and the prefix form
   pval fuel (print v ++ rest) = Some (v, rest) used when a value is followed by more input (batch elements, frames). *)
From Coq Require Import List NArith ZArith Bool Arith Lia.
Import ListNotations.
From JR Require Import Json.
Open Scope N_scope.

(* ---------- literal matches on a symbolic byte *)
Ltac byte_cases c :=
  destruct c as [|?p]; [try reflexivity; try congruence|];
  repeat (match goal with p : positive |- _ => destruct p as [p|p|] end; try reflexivity); try congruence.

(* ---------- strings *)
Lemma hexval_hexdigit n : n < 16 -> hexval (hexdigit n) = Some n.
Proof.
  intros H. unfold hexdigit, hexval, is_digit. destruct (N.ltb_spec n 10) as [Hl|Hl].
  - assert (E : (48 <=? 48 + n) && (48 + n <=? 57) = true) by (apply andb_true_intro; split; apply N.leb_le; lia).
    rewrite E. f_equal. lia.
  - assert (E : (48 <=? 87 + n) && (87 + n <=? 57) = false) by (apply andb_false_intro2; apply N.leb_gt; lia).
    rewrite E.
    assert (E2 : (97 <=? 87 + n) && (87 + n <=? 102) = true) by (apply andb_true_intro; split; apply N.leb_le; lia).
    rewrite E2. f_equal. lia.
Qed.

Lemma pstr_plain f c r acc : c <> 34 -> c <> 92 -> (c <? 32) = false -> pstr (S f) (c :: r) acc = pstr f r (c :: acc).
Proof.
  intros H1 H2 H3. cbn [pstr].
  destruct c as [|p]; [discriminate|].
  repeat (match goal with p : positive |- _ => destruct p as [p|p|] end; try (rewrite ?H3; reflexivity)); try congruence; try discriminate.
Qed.

Lemma rev'_eq {A} (l : list A) : rev' l = rev l.
Proof. unfold rev'. rewrite rev_append_rev, app_nil_r. reflexivity. Qed.

Lemma hex4_control c r : c < 32 -> hex4 (48 :: 48 :: hexdigit (c / 16) :: hexdigit (c mod 16) :: r) = Some (c, r).
Proof.
  intros H. unfold hex4.
  assert (H1 : c / 16 < 16) by (apply N.div_lt_upper_bound; lia).
  assert (H2 : c mod 16 < 16) by (apply N.mod_lt; lia).
  rewrite (hexval_hexdigit _ H1), (hexval_hexdigit _ H2).
  change (hexval 48) with (Some 0). cbv beta iota. f_equal. f_equal.
  pose proof (N.div_mod c 16 ltac:(lia)). lia.
Qed.

(* the printer's escapes are read back to the bytes they stand for; any byte value, any content *)
Lemma pstr_print : forall (s acc rest : bytes) f,
  (List.length (pr_str_body s) < f)%nat ->
  pstr f (pr_str_body s ++ 34 :: rest) acc = Some (rev acc ++ s, rest).
Proof.
  induction s as [|c s IH]; intros acc rest f Hf.
  - destruct f as [|f]; [simpl in Hf; lia|]. simpl. rewrite rev'_eq, app_nil_r. reflexivity.
  - cbn [pr_str_body] in Hf. rewrite app_length in Hf.
    destruct f as [|f]; [lia|].
    assert (Hs : (List.length (pr_str_body s) < f)%nat).
    { match type of Hf with (List.length ?x + _ < _)%nat =>
        assert (1 <= List.length x)%nat by (destruct (c =? 34); [simpl; lia|]; destruct (c =? 92); [simpl; lia|]; destruct (c <? 32); simpl; lia);
        set (k := List.length x) in * end.
      clearbody k. unfold bytes, byte in *. lia. }
    assert (G : pstr f (pr_str_body s ++ 34 :: rest) (c :: acc) = Some (rev acc ++ c :: s, rest)).
    { rewrite IH by exact Hs. simpl. rewrite <- app_assoc. reflexivity. }
    cbn [pr_str_body].
    destruct (N.eqb_spec c 34) as [->|N34]; [exact G|].
    destruct (N.eqb_spec c 92) as [->|N92]; [exact G|].
    destruct (N.ltb_spec c 32) as [Hl|Hl].
    + rewrite <- G. cbn [app pstr]. rewrite (hex4_control c _ Hl).
      assert (E1 : (55296 <=? c) && (c <? 56320) = false) by (apply andb_false_intro1; apply N.leb_gt; lia).
      assert (E2 : (56320 <=? c) && (c <? 57344) = false) by (apply andb_false_intro1; apply N.leb_gt; lia).
      rewrite E1, E2. unfold utf8. assert (E3 : (c <? 128) = true) by (apply N.ltb_lt; lia). rewrite E3. reflexivity.
    + rewrite <- G. cbn [app]. apply pstr_plain; [assumption|assumption|apply N.ltb_ge; exact Hl].
Qed.

(* ---------- well-formed values *)
(* what may follow a value in what the printer writes: nothing, a comma, a closing bracket or brace *)
Definition delim (rest : bytes) : Prop :=
  match rest with
  | [] => True
  | c :: _ => c = 44 \/ c = 93 \/ c = 125
  end.

(* the literal is a JSON number: read back as itself in front of any delimiter *)
Definition num_ok (lit : bytes) : Prop := forall rest, delim rest -> pnum (lit ++ rest) = Some (lit, rest).

Inductive wf : json -> Prop :=
| wf_null : wf JNull
| wf_bool b : wf (JBool b)
| wf_num lit : num_ok lit -> wf (JNum lit)
| wf_str s : wf (JStr s)
| wf_arr l : Forall wf l -> wf (JArr l)
| wf_obj l : Forall (fun kv => wf (snd kv)) l -> wf (JObj l).

Fixpoint json_ind' (P : json -> Prop)
  (Hn : P JNull) (Hb : forall b, P (JBool b)) (Hnum : forall l, P (JNum l)) (Hs : forall s, P (JStr s))
  (Ha : forall l, Forall P l -> P (JArr l)) (Ho : forall l, Forall (fun kv => P (snd kv)) l -> P (JObj l))
  (v : json) : P v :=
  match v with
  | JNull => Hn
  | JBool b => Hb b
  | JNum l => Hnum l
  | JStr s => Hs s
  | JArr l => Ha l ((fix go (l : list json) : Forall P l :=
                       match l with [] => Forall_nil _ | x :: r => Forall_cons _ (json_ind' P Hn Hb Hnum Hs Ha Ho x) (go r) end) l)
  | JObj l => Ho l ((fix go (l : list (bytes * json)) : Forall (fun kv => P (snd kv)) l :=
                       match l with [] => Forall_nil _ | kv :: r => Forall_cons _ (json_ind' P Hn Hb Hnum Hs Ha Ho (snd kv)) (go r) end) l)
  end.

(* ---------- the printer, unfolded *)
Fixpoint join (l : list bytes) : bytes :=
  match l with
  | [] => []
  | [x] => x
  | x :: r => x ++ 44 :: join r
  end.
Definition pr_member (kv : bytes * json) : bytes := pr_str (fst kv) ++ 58 :: print (snd kv).

Lemma print_arr l : print (JArr l) = 91 :: join (map print l) ++ [93].
Proof.
  cbn [print]. f_equal. f_equal. induction l as [|x [|y r] IH]; [reflexivity|reflexivity|].
  cbn [map join]. cbn [map join] in IH. rewrite <- IH. reflexivity.
Qed.

Lemma print_obj l : print (JObj l) = 123 :: join (map pr_member l) ++ [125].
Proof.
  cbn [print]. f_equal. f_equal. induction l as [|[k x] [|[k' y] r] IH]; [reflexivity|reflexivity|].
  cbn [map join]. cbn [map join] in IH. rewrite <- IH. unfold pr_member. cbn [fst snd]. rewrite <- app_assoc. reflexivity.
Qed.

(* fuel a value needs *)
Fixpoint need (v : json) : nat :=
  match v with
  | JArr l => S (fold_right (fun x a => (S (need x) + a)%nat) O l)
  | JObj l => S (fold_right (fun kv a => (S (need (snd kv)) + a)%nat) O l)
  | _ => 1%nat
  end.
Definition need_list (l : list json) : nat := fold_right (fun x a => (S (need x) + a)%nat) O l.
Definition need_members (l : list (bytes * json)) : nat := fold_right (fun kv a => (S (need (snd kv)) + a)%nat) O l.
Lemma need_arr l : need (JArr l) = S (need_list l).
Proof. reflexivity. Qed.
Lemma need_obj l : need (JObj l) = S (need_members l).
Proof. reflexivity. Qed.

(* ---------- first byte of a printed value *)
Definition head_ok (c : byte) : Prop := is_ws c = false /\ c <> 93 /\ c <> 125.

Lemma pnum_head s l r : pnum s = Some (l, r) -> exists c t, l = c :: t /\ (is_digit c = true \/ c = 45).
Proof.
  unfold pnum. destruct s as [|c0 s0]; [discriminate|].
  assert (G : forall (sign s1 : bytes), (sign = [] \/ sign = [45]) ->
            (forall c1 r1, s1 = c1 :: r1 -> sign = [] -> is_digit c1 = true -> True) ->
            match s1 with
            | [] => None
            | c :: r1 =>
                if negb (is_digit c) then None else
                let '(intp, s2) := if c =? 48 then ([48], r1) else take_digits s1 in
                let fracr := match s2 with
                             | 46 :: r2 => let '(d, r3) := take_digits r2 in match d with [] => None | _ => Some (46 :: d, r3) end
                             | _ => Some ([], s2) end in
                match fracr with
                | None => None
                | Some (frac, s3) =>
                    let expr := match s3 with
                                | e :: r4 => if (e =? 101) || (e =? 69) then
                                               let '(sg, r5) := match r4 with 43 :: r => ([43], r) | 45 :: r => ([45], r) | _ => ([], r4) end in
                                               let '(d, r6) := take_digits r5 in
                                               match d with [] => None | _ => Some (e :: sg ++ d, r6) end
                                             else Some ([], s3)
                                | [] => Some ([], s3) end in
                    match expr with None => None | Some (ex, s4) => Some (sign ++ intp ++ frac ++ ex, s4) end
                end
            end = Some (l, r) -> exists c t, l = c :: t /\ (is_digit c = true \/ c = 45)).
  { intros sign s1 Hs _ H. destruct s1 as [|c r1]; [discriminate|].
    destruct (is_digit c) eqn:Hd; [|discriminate]. cbn [negb] in H.
    assert (Hint : exists t, (let '(intp, _) := (if c =? 48 then ([48], r1) else take_digits (c :: r1)) in intp) = c :: t).
    { destruct (N.eqb_spec c 48) as [->|Hn]; [exists []; reflexivity|]. cbn [take_digits]. rewrite Hd.
      destruct (take_digits r1) as [d r']. exists d. reflexivity. }
    destruct (if c =? 48 then ([48], r1) else take_digits (c :: r1)) as [intp s2]. destruct Hint as [t ->].
    match type of H with (match ?fr with _ => _ end = _) => destruct fr as [[frac s3]|]; [|discriminate] end.
    match type of H with (match ?ee with _ => _ end = _) => destruct ee as [[exl s4]|]; [|discriminate] end.
    injection H as <- _. destruct Hs as [->| ->].
    - exists c, (t ++ frac ++ exl). split; [reflexivity|left; exact Hd].
    - exists 45, (c :: t ++ frac ++ exl). split; [reflexivity|right; reflexivity]. }
  intros H. revert H.
  destruct c0 as [|p]; [apply (G [] (0 :: s0)); auto|].
  repeat (match goal with p : positive |- _ => destruct p as [p|p|] end;
          try (apply (G [] (_ :: s0)); auto; fail)).
  apply (G [45] s0); auto.
Qed.

Lemma digit_head_ok c : is_digit c = true \/ c = 45 -> head_ok c.
Proof.
  intros [H| ->]; [|repeat split; discriminate].
  unfold is_digit in H. apply andb_prop in H. destruct H as [H1 H2]. apply N.leb_le in H1, H2.
  repeat split; try lia. unfold is_ws.
  repeat (apply orb_false_intro); apply N.eqb_neq; lia.
Qed.

Lemma print_head v : wf v -> exists c t, print v = c :: t /\ head_ok c.
Proof.
  intros H. destruct H as [|b|lit Hn|s|l _|l _].
  - exists 110, [117; 108; 108]. repeat split; discriminate.
  - destruct b; [exists 116, [114; 117; 101]|exists 102, [97; 108; 115; 101]]; repeat split; discriminate.
  - pose proof (Hn [] I) as Hp. rewrite app_nil_r in Hp. destruct (pnum_head _ _ _ Hp) as (c & t & -> & Hc).
    exists c, t. split; [reflexivity|apply digit_head_ok; exact Hc].
  - exists 34, (pr_str_body s ++ [34]). repeat split; discriminate.
  - rewrite print_arr. eexists 91, _. repeat split; discriminate.
  - rewrite print_obj. eexists 123, _. repeat split; discriminate.
Qed.

(* ---------- one step of each parser function on the shapes the printer produces *)
Lemma skip_ws_head c t : is_ws c = false -> skip_ws (c :: t) = c :: t.
Proof. intros H. cbn [skip_ws]. rewrite H. reflexivity. Qed.

Lemma pval_arr_step f c t : head_ok c -> pval (S f) (91 :: c :: t) = parr f (c :: t) [].
Proof.
  intros (Hw & H93 & _). cbn [pval]. change (skip_ws (91 :: c :: t)) with (91 :: c :: t). cbv beta iota.
  rewrite (skip_ws_head c t Hw). byte_cases c.
Qed.

Lemma pval_obj_step f t : pval (S f) (123 :: 34 :: t) = pobj f (34 :: t) [].
Proof. reflexivity. Qed.

Lemma pval_num_step f c t : (is_digit c = true \/ c = 45) ->
  pval (S f) (c :: t) = match pnum (c :: t) with Some (lit, r') => Some (JNum lit, r') | None => None end.
Proof.
  intros H.
  assert (E : c = 45 \/ c = 48 \/ c = 49 \/ c = 50 \/ c = 51 \/ c = 52 \/ c = 53 \/ c = 54 \/ c = 55 \/ c = 56 \/ c = 57).
  { destruct H as [H| ->]; [|left; reflexivity]. unfold is_digit in H. apply andb_prop in H. destruct H as [H1 H2].
    apply N.leb_le in H1, H2. lia. }
  repeat (destruct E as [->|E]; [reflexivity|]). subst c. reflexivity.
Qed.

Lemma parr_step f s acc :
  parr (S f) s acc = match pval f s with
                     | None => None
                     | Some (v, r) => match skip_ws r with
                                      | 44 :: r' => parr f r' (v :: acc)
                                      | 93 :: r' => Some (JArr (rev' (v :: acc)), r')
                                      | _ => None end
                     end.
Proof. reflexivity. Qed.

Lemma pobj_step f t acc :
  pobj (S f) (34 :: t) acc =
    match pstr (S (List.length t)) t [] with
    | None => None
    | Some (k, r1) =>
        match skip_ws r1 with
        | 58 :: r2 => match pval f r2 with
                      | None => None
                      | Some (v, r3) => match skip_ws r3 with
                                        | 44 :: r' => pobj f r' ((k, v) :: acc)
                                        | 125 :: r' => Some (JObj (rev' ((k, v) :: acc)), r')
                                        | _ => None end
                      end
        | _ => None
        end
    end.
Proof. reflexivity. Qed.

(* ---------- the round trip *)
Definition RT (v : json) : Prop :=
  wf v -> forall rest, delim rest -> forall f, (need v <= f)%nat -> pval f (print v ++ rest) = Some (v, rest).

Lemma delim_44 r : delim (44 :: r). Proof. left; reflexivity. Qed.
Lemma delim_93 r : delim (93 :: r). Proof. right; left; reflexivity. Qed.
Lemma delim_125 r : delim (125 :: r). Proof. right; right; reflexivity. Qed.

Lemma join_map2 {A} (g : A -> bytes) x y l : join (map g (x :: y :: l)) = g x ++ 44 :: join (map g (y :: l)).
Proof. reflexivity. Qed.
Lemma join_map1 {A} (g : A -> bytes) x : join (map g [x]) = g x.
Proof. reflexivity. Qed.

Lemma parr_join : forall (l : list json), Forall RT l -> Forall wf l -> l <> [] ->
  forall acc rest f, (need_list l <= f)%nat ->
  parr f (join (map print l) ++ 93 :: rest) acc = Some (JArr (rev acc ++ l), rest).
Proof.
  induction l as [|x l IH]; intros HR Hw Hne acc rest f Hf; [congruence|].
  inversion HR as [|? ? HRx HRl]; subst. inversion Hw as [|? ? Hwx Hwl]; subst.
  cbn [need_list fold_right] in Hf. fold (need_list l) in Hf.
  destruct f as [|f]; [lia|]. rewrite parr_step.
  destruct l as [|y l'].
  - rewrite join_map1. pose proof (HRx Hwx (93 :: rest) (delim_93 rest) f) as E; unfold bytes, byte in *; rewrite E by lia; clear E.
    change (skip_ws (93 :: rest)) with (93 :: rest). cbv beta iota.
    rewrite rev'_eq. reflexivity.
  - rewrite join_map2. rewrite <- app_assoc. cbn [app].
    pose proof (HRx Hwx (44 :: join (map print (y :: l')) ++ 93 :: rest) (delim_44 _) f) as E; unfold bytes, byte in *; rewrite E by lia; clear E.
    change (skip_ws (44 :: ?r)) with (44 :: r). cbv beta iota.
    pose proof (IH HRl Hwl ltac:(discriminate) (x :: acc) rest f) as E; unfold bytes, byte in *; rewrite E by lia; clear E.
    cbn [rev]. rewrite <- app_assoc. reflexivity.
Qed.

Lemma pobj_join : forall (l : list (bytes * json)), Forall (fun kv => RT (snd kv)) l -> Forall (fun kv => wf (snd kv)) l -> l <> [] ->
  forall acc rest f, (need_members l <= f)%nat ->
  pobj f (join (map pr_member l) ++ 125 :: rest) acc = Some (JObj (rev acc ++ l), rest).
Proof.
  induction l as [|[k x] l IH]; intros HR Hw Hne acc rest f Hf; [congruence|].
  inversion HR as [|? ? HRx HRl]; subst. inversion Hw as [|? ? Hwx Hwl]; subst. cbn [snd] in HRx, Hwx.
  cbn [need_members fold_right snd] in Hf. fold (need_members l) in Hf.
  destruct f as [|f]; [lia|].
  assert (Hkey : forall tail, pstr (S (List.length (pr_str_body k ++ 34 :: tail))) (pr_str_body k ++ 34 :: tail) [] = Some (k, tail)).
  { intros tail. rewrite pstr_print; [reflexivity|]. rewrite app_length. lia. }
  destruct l as [|[k' y] l'].
  - rewrite join_map1. unfold pr_member. cbn [fst snd]. unfold pr_str. cbn [app]. rewrite <- !app_assoc. cbn [app].
    rewrite pobj_step, Hkey. change (skip_ws (58 :: ?r)) with (58 :: r). cbv beta iota.
    pose proof (HRx Hwx (125 :: rest) (delim_125 rest) f) as E; unfold bytes, byte in *; rewrite E by lia; clear E.
    change (skip_ws (125 :: rest)) with (125 :: rest). cbv beta iota. rewrite rev'_eq. reflexivity.
  - rewrite join_map2. unfold pr_member at 1. cbn [fst snd]. unfold pr_str at 1. cbn [app]. rewrite <- !app_assoc. cbn [app].
    rewrite pobj_step, Hkey. change (skip_ws (58 :: ?r)) with (58 :: r). cbv beta iota.
    pose proof (HRx Hwx (44 :: join (map pr_member ((k', y) :: l')) ++ 125 :: rest) (delim_44 _) f) as E; unfold bytes, byte in *; rewrite E by lia; clear E.
    change (skip_ws (44 :: ?r)) with (44 :: r). cbv beta iota.
    pose proof (IH HRl Hwl ltac:(discriminate) ((k, x) :: acc) rest f) as E; unfold bytes, byte in *; rewrite E by lia; clear E.
    cbn [rev]. rewrite <- app_assoc. reflexivity.
Qed.

Theorem pval_print : forall v, RT v.
Proof.
  induction v as [|b|lit|s|l IH|l IH] using json_ind'; intros Hw rest Hd f Hf.
  - destruct f as [|f]; [simpl in Hf; lia|]. reflexivity.
  - destruct f as [|f]; [simpl in Hf; lia|]. destruct b; reflexivity.
  - destruct f as [|f]; [simpl in Hf; lia|]. inversion Hw as [| |? Hn| | |]; subst. cbn [print].
    pose proof (Hn [] I) as Hp. rewrite app_nil_r in Hp. destruct (pnum_head _ _ _ Hp) as (c & t & -> & Hc).
    cbn [app]. rewrite (pval_num_step f c (t ++ rest) Hc). change (c :: t ++ rest) with ((c :: t) ++ rest).
    pose proof (Hn rest Hd) as E; unfold bytes, byte in *; rewrite E; reflexivity.
  - destruct f as [|f]; [simpl in Hf; lia|]. cbn [print]. unfold pr_str. cbn [app]. rewrite <- app_assoc. cbn [app].
    cbn [pval]. change (skip_ws (34 :: ?r)) with (34 :: r). cbv beta iota.
    rewrite pstr_print; [reflexivity|]. rewrite app_length. lia.
  - rewrite need_arr in Hf. destruct f as [|f]; [lia|]. inversion Hw as [| | | |? Hwl|]; subst.
    rewrite print_arr. destruct l as [|x l].
    + reflexivity.
    + cbn [app]. rewrite <- app_assoc. cbn [app].
      destruct (print_head x (Forall_inv Hwl)) as (c & t & Hx & Hc).
      assert (Hj : exists t', join (map print (x :: l)) ++ 93 :: rest = c :: t').
      { destruct l; [rewrite join_map1|rewrite join_map2]; rewrite Hx; [|rewrite <- app_assoc]; cbn [app]; eexists; reflexivity. }
      destruct Hj as [t' Hj]. unfold bytes, byte in *. rewrite Hj. pose proof (pval_arr_step f c t' Hc) as E1; unfold bytes, byte in E1; rewrite E1; clear E1. rewrite <- Hj.
      pose proof (parr_join (x :: l) IH Hwl ltac:(discriminate) [] rest f) as E; unfold bytes, byte in *; rewrite E by lia; clear E. reflexivity.
  - rewrite need_obj in Hf. destruct f as [|f]; [lia|]. inversion Hw as [| | | | |? Hwl]; subst.
    rewrite print_obj. destruct l as [|[k x] l].
    + reflexivity.
    + cbn [app]. rewrite <- app_assoc. cbn [app].
      assert (Hj : exists t', join (map pr_member ((k, x) :: l)) ++ 125 :: rest = 34 :: t').
      { destruct l; [rewrite join_map1|rewrite join_map2]; unfold pr_member at 1, pr_str at 1; cbn [fst app]; eexists; reflexivity. }
      destruct Hj as [t' Hj]. unfold bytes, byte in *. rewrite Hj. pose proof (pval_obj_step f t') as E1; unfold bytes, byte in E1; rewrite E1; clear E1. rewrite <- Hj.
      pose proof (pobj_join ((k, x) :: l) IH Hwl ltac:(discriminate) [] rest f) as E; unfold bytes, byte in *; rewrite E by lia; clear E. reflexivity.
Qed.

Lemma join_length_ge {A} (g : A -> bytes) (m : A -> nat) (l : list A) :
  Forall (fun x => (m x <= List.length (g x))%nat) l ->
  (fold_right (fun x a => (m x + a)%nat) O l <= List.length (join (map g l)))%nat.
Proof.
  induction l as [|x [|y r] IH]; intros H; [simpl; lia| |].
  - rewrite join_map1. inversion H; subst. simpl. lia.
  - rewrite join_map2. inversion H as [|? ? Hx Hr]; subst. specialize (IH Hr).
    rewrite app_length. cbn [List.length]. cbn [fold_right] in *. lia.
Qed.

Lemma need_le v : wf v -> (need v <= List.length (print v))%nat.
Proof.
  induction v as [|b|lit|s|l IH|l IH] using json_ind'; intros Hw.
  - simpl; lia.
  - destruct b; simpl; lia.
  - inversion Hw as [| |? Hn| | |]; subst. pose proof (Hn [] I) as Hp. rewrite app_nil_r in Hp.
    destruct (pnum_head _ _ _ Hp) as (c & t & -> & _). simpl. lia.
  - simpl. lia.
  - inversion Hw as [| | | |? Hwl|]; subst. rewrite print_arr, need_arr. cbn [List.length]. rewrite app_length. cbn [List.length].
    assert (G : (fold_right (fun x a => (need x + a)%nat) O l + List.length l <= List.length (join (map print l)) + 1)%nat).
    { clear Hw. induction l as [|x [|y r] IHl]; [simpl; lia| |].
      - rewrite join_map1. inversion IH; inversion Hwl; subst. simpl. specialize (H1 H5). lia.
      - rewrite join_map2. inversion IH as [|? ? Hx Hr]; inversion Hwl as [|? ? Hwx Hwr]; subst.
        specialize (IHl Hr Hwr). specialize (Hx Hwx). rewrite app_length. cbn [List.length fold_right] in *. lia. }
    assert (E : need_list l = (fold_right (fun x a => (need x + a)%nat) O l + List.length l)%nat).
    { unfold need_list. clear. induction l as [|x r IHr]; [reflexivity|]. cbn [fold_right List.length]. rewrite IHr. lia. }
    lia.
  - inversion Hw as [| | | | |? Hwl]; subst. rewrite print_obj, need_obj. cbn [List.length]. rewrite app_length. cbn [List.length].
    assert (G : (fold_right (fun kv a => (need (snd kv) + a)%nat) O l + List.length l <= List.length (join (map pr_member l)) + 1)%nat).
    { clear Hw. induction l as [|[k x] [|[k' y] r] IHl]; [simpl; lia| |].
      - rewrite join_map1. inversion IH; inversion Hwl; subst. cbn [snd] in *. unfold pr_member. cbn [fst snd].
        rewrite app_length. cbn [List.length]. specialize (H1 H5). simpl. lia.
      - rewrite join_map2. inversion IH as [|? ? Hx Hr]; inversion Hwl as [|? ? Hwx Hwr]; subst. cbn [snd] in *.
        specialize (IHl Hr Hwr). specialize (Hx Hwx). unfold pr_member at 1. cbn [fst snd].
        rewrite !app_length. cbn [List.length fold_right snd] in *. rewrite ?app_length. cbn [List.length]. lia. }
    assert (E : need_members l = (fold_right (fun kv a => (need (snd kv) + a)%nat) O l + List.length l)%nat).
    { unfold need_members. clear. induction l as [|x r IHr]; [reflexivity|]. cbn [fold_right List.length]. rewrite IHr. lia. }
    lia.
Qed.

(* parse after print is the identity on well-formed values (any size, any nesting depth) *)
Theorem parse_print v : wf v -> parse (print v) = Some v.
Proof.
  intros Hw. unfold parse.
  pose proof (pval_print v Hw [] I (S (List.length (print v))) ltac:(pose proof (need_le v Hw); lia)) as E.
  rewrite app_nil_r in E. unfold bytes, byte in *. rewrite E. reflexivity.
Qed.

(* ---------- integer text round trip: the code survives the wire *)
Definition alld (l : bytes) : Prop := Forall (fun c => is_digit c = true) l.

Lemma take_digits_all l : alld l -> take_digits l = (l, []).
Proof. induction 1 as [|c l Hc _ IH]; simpl; [reflexivity|]. rewrite Hc, IH. reflexivity. Qed.

Lemma digit_is_digit n : (n < 10)%N -> is_digit (48 + n) = true.
Proof. intros H. unfold is_digit. apply andb_true_intro; split; apply N.leb_le; lia. Qed.

Lemma pos_digits_all f : forall n acc, alld acc -> alld (pos_digits f n acc).
Proof.
  induction f as [|f IH]; intros n acc Ha; simpl; [exact Ha|].
  destruct (N.ltb_spec n 10) as [Hl|Hl].
  - constructor; [apply digit_is_digit; exact Hl|exact Ha].
  - apply IH. constructor; [|exact Ha]. apply digit_is_digit. apply N.mod_lt. discriminate.
Qed.

Lemma pos_digits_nonempty f n acc : f <> O -> pos_digits f n acc <> [].
Proof.
  revert n acc. induction f as [|f IH]; intros n acc Hf; [congruence|]. simpl.
  destruct (n <? 10)%N; [discriminate|]. destruct f as [|f']; [simpl; discriminate|]. apply IH. discriminate.
Qed.

Lemma digits_val_shift l : forall a, digits_val l a = (a * 10 ^ Z.of_nat (List.length l) + digits_val l 0)%Z.
Proof.
  induction l as [|c l IH]; intros a; [simpl; lia|].
  cbn [digits_val List.length]. rewrite IH. rewrite (IH (0 * 10 + _)%Z).
  rewrite Nat2Z.inj_succ, Z.pow_succ_r by lia. lia.
Qed.

Lemma pos_digits_val f : forall n acc, (Z.of_N n < 10 ^ Z.of_nat f)%Z ->
  digits_val (pos_digits f n acc) 0 = (Z.of_N n * 10 ^ Z.of_nat (List.length acc) + digits_val acc 0)%Z.
Proof.
  induction f as [|f IH]; intros n acc Hn.
  - simpl in Hn. assert (n = 0%N) by lia. subst n. simpl. lia.
  - cbn [pos_digits]. destruct (N.ltb_spec n 10) as [Hl|Hl].
    + cbn [digits_val]. rewrite digits_val_shift.
      assert (E : (48 + n - 48)%N = n) by lia. rewrite E. lia.
    + rewrite IH.
      * cbn [digits_val List.length]. rewrite (digits_val_shift acc).
        assert (E0 : forall x : N, (48 + x - 48)%N = x) by (intros x; lia). rewrite E0.
        rewrite Nat2Z.inj_succ, Z.pow_succ_r by lia.
        rewrite N2Z.inj_mod. rewrite N2Z.inj_div. change (Z.of_N 10) with 10%Z.
        pose proof (Z.div_mod (Z.of_N n) 10 ltac:(lia)) as E. nia.
      * rewrite Nat2Z.inj_succ, Z.pow_succ_r in Hn by lia. rewrite N2Z.inj_div. change (Z.of_N 10) with 10%Z.
        apply Z.div_lt_upper_bound; lia.
Qed.

Lemma int_literal_cons c l : c <> 45%N ->
  int_literal (c :: l) = match take_digits (c :: l) with
                         | ((_ :: _) as d, []) => Some (digits_val d 0)
                         | _ => None end.
Proof.
  intros H. unfold int_literal. destruct c as [|q]; [reflexivity|].
  repeat (destruct q as [q|q|]; try reflexivity). congruence.
Qed.

Lemma digit_not_minus c : is_digit c = true -> c <> 45%N.
Proof. intros H ->. discriminate. Qed.

Lemma int_literal_pos p : (Z.pos p < 10 ^ 80)%Z ->
  int_literal (pos_digits 80 (Npos p) []) = Some (Z.pos p) /\
  int_literal (45 :: pos_digits 80 (Npos p) []) = Some (Z.neg p).
Proof.
  intros Hp.
  assert (Hd : alld (pos_digits 80 (Npos p) [])) by (apply pos_digits_all; constructor).
  assert (Hne : pos_digits 80 (Npos p) [] <> []) by (apply pos_digits_nonempty; discriminate).
  assert (Hv : digits_val (pos_digits 80 (Npos p) []) 0 = Z.pos p).
  { rewrite pos_digits_val; [cbn [List.length digits_val]; lia|]. exact Hp. }
  remember (pos_digits 80 (N.pos p) []) as L eqn:EL. clear EL.
  destruct L as [|c l]; [congruence|]. split.
  - rewrite int_literal_cons; [|apply digit_not_minus; inversion Hd; assumption].
    rewrite take_digits_all by exact Hd. cbv beta iota. apply f_equal. exact Hv.
  - unfold int_literal. rewrite take_digits_all by exact Hd. cbv beta iota. apply f_equal. change (Z.neg p) with (- Z.pos p)%Z. apply f_equal. exact Hv.
Qed.

Lemma int_literal_z_lit z : (Z.abs z < 10 ^ 80)%Z -> int_literal (z_lit z) = Some z.
Proof.
  intros H. destruct z as [|p|p]; [reflexivity| |].
  - change (z_lit (Z.pos p)) with (pos_digits 80 (N.pos p) []). apply int_literal_pos. lia.
  - change (z_lit (Z.neg p)) with (45%N :: pos_digits 80 (N.pos p) []). apply int_literal_pos. lia.
Qed.


(* ---------- integer literals are numbers: everything the model prints with z_lit is well-formed *)

Lemma take_digits_app l rest : alld l -> delim rest -> take_digits (l ++ rest) = (l, rest).
Proof.
  intros Hl Hd. induction Hl as [|c l Hc _ IH].
  - destruct rest as [|c t]; [reflexivity|]. destruct Hd as [-> | [-> | ->]]; reflexivity.
  - cbn [app take_digits]. rewrite Hc, IH. reflexivity.
Qed.

Lemma digit_cases c : is_digit c = true ->
  c = 48 \/ c = 49 \/ c = 50 \/ c = 51 \/ c = 52 \/ c = 53 \/ c = 54 \/ c = 55 \/ c = 56 \/ c = 57.
Proof. unfold is_digit. intros H. apply andb_prop in H. destruct H as [H1 H2]. apply N.leb_le in H1, H2. lia. Qed.

Lemma pnum_digits c l rest : alld (c :: l) -> (c = 48 -> l = []) -> delim rest ->
  pnum ((c :: l) ++ rest) = Some (c :: l, rest) /\ pnum ((45 :: c :: l) ++ rest) = Some (45 :: c :: l, rest).
Proof.
  intros Ha Hz Hd. inversion Ha as [|? ? Hc Hl]; subst.
  pose proof (take_digits_app l rest Hl Hd) as Ht.
  assert (Hr : rest = [] \/ exists t, rest = 44 :: t \/ rest = 93 :: t \/ rest = 125 :: t).
  { destruct rest as [|c' t]; [left; reflexivity|]. right. exists t. destruct Hd as [-> | [-> | ->]]; auto. }
  destruct (digit_cases c Hc) as [E|E].
  - subst c. rewrite (Hz eq_refl) in *. destruct Hr as [-> | [t [-> | [-> | ->]]]]; split; reflexivity.
  - repeat (destruct E as [->|E]);
      try subst c;
      (destruct Hr as [-> | [t [-> | [-> | ->]]]]; split; cbn [app] in *; unfold pnum; unfold bytes, byte in *; cbn [take_digits negb is_digit N.leb N.eqb Pos.eqb N.compare Pos.compare Pos.compare_cont andb];
       rewrite ?Ht; rewrite ?app_nil_r in *; try rewrite Ht; cbv beta iota; cbn [app N.eqb Pos.eqb orb]; cbv beta iota; cbn [app]; rewrite ?app_nil_r; reflexivity).
Qed.

Lemma pos_digits_head_nz f : forall n acc, (0 < n) -> (Z.of_N n < 10 ^ Z.of_nat f)%Z ->
  exists c t, pos_digits f n acc = c :: t /\ c <> 48.
Proof.
  induction f as [|f IH]; intros n acc Hp Hn.
  - simpl in Hn. lia.
  - cbn [pos_digits]. destruct (N.ltb_spec n 10) as [Hl|Hl].
    + exists (48 + n), acc. split; [reflexivity|lia].
    + apply IH.
      * apply N.div_str_pos. lia.
      * rewrite Nat2Z.inj_succ, Z.pow_succ_r in Hn by lia. rewrite N2Z.inj_div. change (Z.of_N 10) with 10%Z.
        apply Z.div_lt_upper_bound; lia.
Qed.

Lemma num_ok_z_lit z : (Z.abs z < 10 ^ 80)%Z -> num_ok (z_lit z).
Proof.
  intros Hz rest Hd. destruct z as [|p|p].
  - change (z_lit 0) with [48]. apply (pnum_digits 48 [] rest); [repeat constructor|reflexivity|exact Hd].
  - change (z_lit (Z.pos p)) with (pos_digits 80 (N.pos p) []).
    assert (Ha : alld (pos_digits 80 (N.pos p) [])) by (apply pos_digits_all; constructor).
    destruct (pos_digits_head_nz 80 (N.pos p) [] ltac:(lia) ltac:(simpl; lia)) as (c & t & E & Hc).
    rewrite E in *. apply (pnum_digits c t rest Ha); [congruence|exact Hd].
  - change (z_lit (Z.neg p)) with (45 :: pos_digits 80 (N.pos p) []).
    assert (Ha : alld (pos_digits 80 (N.pos p) [])) by (apply pos_digits_all; constructor).
    destruct (pos_digits_head_nz 80 (N.pos p) [] ltac:(lia) ltac:(simpl; lia)) as (c & t & E & Hc).
    rewrite E in *. apply (pnum_digits c t rest Ha); [congruence|exact Hd].
Qed.

Lemma wf_int z : (Z.abs z < 10 ^ 80)%Z -> wf (JNum (z_lit z)).
Proof. intros H. constructor. apply num_ok_z_lit. exact H. Qed.

(* the parser only ever produces well-formed strings / structure for what the printer wrote: a printed value is never
   read back as a different value *)
Corollary print_injective v w : wf v -> wf w -> print v = print w -> v = w.
Proof. intros Hv Hw E. pose proof (parse_print v Hv) as A. rewrite E, (parse_print w Hw) in A. congruence. Qed.

(* ---------- every literal the parser accepts is a number in the sense of num_ok: parsed values are well-formed *)
(* rewriting modulo the byte / bytes aliases *)
Ltac rw H := let E := fresh "E" in pose proof H as E; unfold bytes, byte in E |- *; rewrite E; clear E.

Lemma m45 {A} (c : N) (x y : A) : match c with 45 => x | _ => y end = if c =? 45 then x else y.
Proof. byte_cases c. Qed.
Lemma m46 {A} (c : N) (x y : A) : match c with 46 => x | _ => y end = if c =? 46 then x else y.
Proof. byte_cases c. Qed.
Lemma m4345 {A} (c : N) (x y z : A) :
  match c with 43 => x | 45 => y | _ => z end = if c =? 43 then x else if c =? 45 then y else z.
Proof. byte_cases c. Qed.

Definition nondigit_head (r : bytes) : Prop := match r with [] => True | c :: _ => is_digit c = false end.

Lemma take_digits_spec : forall s d r, take_digits s = (d, r) -> s = d ++ r /\ alld d /\ nondigit_head r.
Proof.
  induction s as [|c s IH]; intros d r H; cbn [take_digits] in H.
  - injection H as <- <-. repeat split; constructor.
  - destruct (is_digit c) eqn:Hc.
    + destruct (take_digits s) as [d' r'] eqn:E. injection H as <- <-. destruct (IH d' r' eq_refl) as (-> & Ha & Hn).
      repeat split; [constructor; assumption|exact Hn].
    + injection H as <- <-. repeat split; [constructor|exact Hc].
Qed.

Lemma take_digits_app' d rest : alld d -> nondigit_head rest -> take_digits (d ++ rest) = (d, rest).
Proof.
  intros Hd Hn. induction Hd as [|c d Hc _ IH].
  - destruct rest as [|c t]; [reflexivity|]. cbn [app take_digits]. cbn [nondigit_head] in Hn. rewrite Hn. reflexivity.
  - cbn [app take_digits]. rewrite Hc, IH. reflexivity.
Qed.

Definition int_ok (intp : bytes) : Prop := intp = [48] \/ exists c d, intp = c :: d /\ is_digit c = true /\ c <> 48 /\ alld d.
Definition frac_ok (frac : bytes) : Prop := frac = [] \/ exists c d, frac = 46 :: c :: d /\ alld (c :: d).
Definition exp_ok (ex : bytes) : Prop :=
  ex = [] \/ exists e sg c d, ex = e :: sg ++ c :: d /\ (e = 101 \/ e = 69) /\ (sg = [] \/ sg = [43] \/ sg = [45]) /\ alld (c :: d).

(* the fraction and exponent steps of pnum, as functions of what follows *)
Definition frac_step (s2 : bytes) : option (bytes * bytes) :=
  match s2 with
  | 46 :: r2 => let '(d, r3) := take_digits r2 in match d with [] => None | _ => Some (46 :: d, r3) end
  | _ => Some ([], s2)
  end.
Definition exp_step (s3 : bytes) : option (bytes * bytes) :=
  match s3 with
  | e :: r4 =>
      if (e =? 101) || (e =? 69) then
        let '(sg, r5) := match r4 with 43 :: r => ([43], r) | 45 :: r => ([45], r) | _ => ([], r4) end in
        let '(d, r6) := take_digits r5 in
        match d with [] => None | _ => Some (e :: sg ++ d, r6) end
      else Some ([], s3)
  | [] => Some ([], s3)
  end.

Lemma pnum_unfold s :
  pnum s =
  let '(sign, s1) := match s with 45 :: r => ([45], r) | _ => ([], s) end in
  match s1 with
  | [] => None
  | c :: r1 =>
      if negb (is_digit c) then None else
      let '(intp, s2) := if c =? 48 then ([48], r1) else take_digits s1 in
      match frac_step s2 with
      | None => None
      | Some (frac, s3) =>
          match exp_step s3 with
          | None => None
          | Some (ex, s4) => Some (sign ++ intp ++ frac ++ ex, s4)
          end
      end
  end.
Proof. reflexivity. Qed.

Lemma frac_step_shape s2 frac s3 : frac_step s2 = Some (frac, s3) ->
  s2 = frac ++ s3 /\ frac_ok frac /\ (frac = [] -> match s2 with 46 :: _ => False | _ => True end) /\ (frac <> [] -> nondigit_head s3).
Proof.
  unfold frac_step. destruct s2 as [|c2 r2]; [intros H; injection H as <- <-; repeat split; try (left; reflexivity); congruence|].
  rewrite m46. destruct (N.eqb_spec c2 46) as [->|Hn].
  - destruct (take_digits r2) as [d r3] eqn:E. destruct d as [|c d]; [discriminate|]. intros H; injection H as <- <-.
    destruct (take_digits_spec _ _ _ E) as (-> & Ha & Hnd). repeat split; [right; exists c, d; auto|discriminate|intros _; exact Hnd].
  - intros H; injection H as <- <-. repeat split; [left; reflexivity| |congruence].
    intros _. destruct c2 as [|p]; [exact I|]. revert Hn. clear. intros Hn.
    repeat (match goal with p : positive |- _ => destruct p as [p|p|] end; try exact I). congruence.
Qed.

Lemma exp_step_shape s3 ex s4 : exp_step s3 = Some (ex, s4) ->
  s3 = ex ++ s4 /\ exp_ok ex /\
  (ex = [] -> match s3 with e :: _ => (e =? 101) || (e =? 69) = false | [] => True end) /\ (ex <> [] -> nondigit_head s4).
Proof.
  unfold exp_step. destruct s3 as [|e r4]; [intros H; injection H as <- <-; repeat split; try (left; reflexivity); congruence|].
  destruct ((e =? 101) || (e =? 69)) eqn:He.
  - assert (Hsg : exists sg r5, (match r4 with 43 :: r => ([43], r) | 45 :: r => ([45], r) | _ => ([], r4) end) = (sg, r5) /\
                   r4 = sg ++ r5 /\ (sg = [] \/ sg = [43] \/ sg = [45])).
    { destruct r4 as [|c4 r]; [exists [], []; auto|]. rewrite m4345.
      destruct (N.eqb_spec c4 43) as [->|N43]; [exists [43], r; auto|].
      destruct (N.eqb_spec c4 45) as [->|N45]; [exists [45], r; auto|]. exists [], (c4 :: r); auto. }
    destruct Hsg as (sg & r5 & -> & -> & Hsg).
    destruct (take_digits r5) as [d r6] eqn:E. destruct d as [|c d]; [discriminate|]. intros H; injection H as <- <-.
    destruct (take_digits_spec _ _ _ E) as (-> & Ha & Hnd).
    repeat split; [cbn [app]; rewrite <- app_assoc; reflexivity| |discriminate|intros _; exact Hnd].
    right. exists e, sg, c, d. repeat split; auto. apply orb_prop in He. destruct He as [He|He]; apply N.eqb_eq in He; auto.
  - intros H; injection H as <- <-. split; [reflexivity|]. split; [left; reflexivity|]. split; [intros _; reflexivity|intros X; congruence].
Qed.

Definition tail_ok (t : bytes) : Prop :=
  match t with [] => True | c :: _ => is_digit c = false /\ c <> 46 /\ (c =? 101) || (c =? 69) = false end.
Lemma delim_tail_ok rest : delim rest -> tail_ok rest.
Proof. destruct rest as [|c t]; [exact (fun _ => I)|]. intros [-> | [-> | ->]]; repeat split; discriminate. Qed.
Lemma tail_ok_nondigit t : tail_ok t -> nondigit_head t.
Proof. destruct t; [exact (fun _ => I)|]. intros (H & _); exact H. Qed.

Lemma frac_step_of frac tail : frac_ok frac ->
  (frac = [] -> match tail with 46 :: _ => False | _ => True end) -> (frac <> [] -> nondigit_head tail) ->
  frac_step (frac ++ tail) = Some (frac, tail).
Proof.
  intros [->|(c & d & -> & Ha)] H1 H2.
  - cbn [app]. unfold frac_step. destruct tail as [|c t]; [reflexivity|]. rewrite m46.
    destruct (N.eqb_spec c 46) as [->|Hn]; [destruct (H1 eq_refl)|reflexivity].
  - cbn [app]. unfold frac_step. change (c :: d ++ tail) with ((c :: d) ++ tail).
    rw (take_digits_app' (c :: d) tail Ha (H2 ltac:(discriminate))). reflexivity.
Qed.

Lemma digit_not_sign c : is_digit c = true -> (c =? 43) = false /\ (c =? 45) = false.
Proof.
  unfold is_digit. intros H. apply andb_prop in H. destruct H as [H1 H2]. apply N.leb_le in H1, H2.
  split; apply N.eqb_neq; lia.
Qed.

Lemma exp_step_of ex tail : exp_ok ex ->
  (ex = [] -> match tail with e :: _ => (e =? 101) || (e =? 69) = false | [] => True end) -> (ex <> [] -> nondigit_head tail) ->
  exp_step (ex ++ tail) = Some (ex, tail).
Proof.
  intros [->|(e & sg & c & d & -> & He & Hsg & Ha)] H1 H2.
  - cbn [app]. unfold exp_step. destruct tail as [|e t]; [reflexivity|]. rewrite (H1 eq_refl). reflexivity.
  - assert (Hee : (e =? 101) || (e =? 69) = true) by (destruct He as [-> | ->]; reflexivity).
    cbn [app]. unfold exp_step. rewrite Hee. rewrite <- app_assoc.
    inversion Ha as [|? ? Hc Hd]; subst. destruct (digit_not_sign c Hc) as [N43 N45].
    assert (Hsign : (match sg ++ (c :: d) ++ tail with 43 :: r => ([43], r) | 45 :: r => ([45], r) | _ => ([], sg ++ (c :: d) ++ tail) end)
                    = (sg, (c :: d) ++ tail)).
    { destruct Hsg as [-> | [-> | ->]]; [|reflexivity|reflexivity]. cbn [app]. rewrite m4345, N43, N45. reflexivity. }
    unfold bytes, byte in *. rewrite Hsign.
    rw (take_digits_app' (c :: d) tail Ha (H2 ltac:(discriminate))). reflexivity.
Qed.

Lemma head_tail_ok_cases frac ex rest : frac_ok frac -> exp_ok ex -> tail_ok rest ->
  nondigit_head (frac ++ ex ++ rest) /\
  (frac = [] -> match ex ++ rest with 46 :: _ => False | _ => True end) /\
  (frac <> [] -> nondigit_head (ex ++ rest)) /\
  (ex = [] -> match rest with e :: _ => (e =? 101) || (e =? 69) = false | [] => True end) /\
  (ex <> [] -> nondigit_head rest).
Proof.
  intros Hf He Hr.
  assert (Hex : nondigit_head (ex ++ rest) /\ match ex ++ rest with 46 :: _ => False | _ => True end).
  { destruct He as [->|(e & sg & c & d & -> & [-> | ->] & _)]; cbn [app].
    - destruct rest as [|c t]; [split; exact I|]. destruct Hr as (H1 & H2 & _). split; [exact H1|].
      destruct c as [|p]; [exact I|]. revert H2; clear; intros H2.
      repeat (match goal with p : positive |- _ => destruct p as [p|p|] end; try exact I). congruence.
    - split; [reflexivity|exact I].
    - split; [reflexivity|exact I]. }
  destruct Hex as [Hex1 Hex2].
  repeat split.
  - destruct Hf as [->|(c & d & -> & _)]; [exact Hex1|reflexivity].
  - intros _. exact Hex2.
  - intros _. exact Hex1.
  - intros _. destruct rest as [|e t]; [exact I|]. destruct Hr as (_ & _ & H3). exact H3.
  - intros _. apply tail_ok_nondigit. exact Hr.
Qed.

Theorem pnum_sound s l r : pnum s = Some (l, r) -> num_ok l.
Proof.
  intros H. rewrite pnum_unfold in H.
  (* the sign *)
  assert (Hsign : exists sign s1, (match s with 45 :: r => ([45], r) | _ => ([], s) end) = (sign, s1) /\
                  (sign = [] \/ sign = [45]) /\ (sign = [] -> match s1 with c :: _ => c <> 45 | [] => True end)).
  { destruct s as [|c0 s0]; [exists [], []; repeat split; auto|]. rewrite m45.
    destruct (N.eqb_spec c0 45) as [->|Hn]; [exists [45], s0; repeat split; auto; discriminate|exists [], (c0 :: s0); repeat split; auto]. }
  destruct Hsign as (sign & s1 & Es & Hsg & Hns). unfold bytes, byte in *. rewrite Es in H.
  destruct s1 as [|c r1]; [discriminate|]. destruct (is_digit c) eqn:Hc; [|discriminate]. cbn [negb] in H.
  (* the integer part *)
  assert (Hint : exists intp s2, (if c =? 48 then ([48], r1) else take_digits (c :: r1)) = (intp, s2) /\ int_ok intp /\
                 (c = 48 \/ nondigit_head s2) /\ exists t, intp = c :: t).
  { destruct (N.eqb_spec c 48) as [->|Hn].
    - exists [48], r1. repeat split; [left; reflexivity|left; reflexivity|exists []; reflexivity].
    - destruct (take_digits (c :: r1)) as [intp s2] eqn:E. destruct (take_digits_spec _ _ _ E) as (E1 & Ha & Hnd).
      cbn [take_digits] in E. rewrite Hc in E. destruct (take_digits r1) as [d r'] eqn:E2. injection E as <- <-.
      exists (c :: d), r'. repeat split; [|right; exact Hnd|exists d; reflexivity].
      right. exists c, d. inversion Ha; subst. repeat split; assumption. }
  destruct Hint as (intp & s2 & Ei & Hint & Hs2 & (t & ->)). rewrite Ei in H.
  destruct (frac_step s2) as [[frac s3]|] eqn:Ef; [|discriminate].
  destruct (exp_step s3) as [[ex s4]|] eqn:Ee; [|discriminate]. injection H as <- <-.
  destruct (frac_step_shape _ _ _ Ef) as (_ & Hfrac & _ & _).
  destruct (exp_step_shape _ _ _ Ee) as (_ & Hex & _ & _).
  (* replay on the literal followed by a delimiter *)
  intros rest Hd. pose proof (delim_tail_ok rest Hd) as Hr.
  destruct (head_tail_ok_cases frac ex rest Hfrac Hex Hr) as (G1 & G2 & G3 & G4 & G5).
  rewrite pnum_unfold.
  assert (Es' : (match (sign ++ c :: t ++ frac ++ ex) ++ rest with 45 :: r => ([45], r) | _ => ([], (sign ++ c :: t ++ frac ++ ex) ++ rest) end)
                = (sign, c :: t ++ frac ++ ex ++ rest)).
  { destruct Hsg as [-> | ->].
    - cbn [app]. rewrite m45. assert (E45 : (c =? 45) = false) by (apply N.eqb_neq; apply (Hns eq_refl)). rewrite E45.
      rewrite <- !app_assoc. reflexivity.
    - cbn [app]. rewrite <- !app_assoc. reflexivity. }
  unfold bytes, byte in *. cbn [app] in *. rewrite Es'. rewrite Hc. cbn [negb].
  assert (Ei' : (if c =? 48 then ([48], t ++ frac ++ ex ++ rest) else take_digits (c :: t ++ frac ++ ex ++ rest)) = (c :: t, frac ++ ex ++ rest)).
  { destruct Hint as [E48|(c' & d & E & Hc' & Hn48 & Had)].
    - injection E48 as -> ->. reflexivity.
    - injection E as <- <-. assert (E48 : (c =? 48) = false) by (apply N.eqb_neq; exact Hn48). rewrite E48.
      change (c :: t ++ frac ++ ex ++ rest) with ((c :: t) ++ frac ++ ex ++ rest).
      apply take_digits_app'; [constructor; assumption|exact G1]. }
  rewrite Ei'. rw (frac_step_of frac (ex ++ rest) Hfrac G2 G3). rw (exp_step_of ex rest Hex G4 G5).
  cbn [app]. rewrite <- ?app_assoc. cbn [app]. rewrite <- ?app_assoc. reflexivity.
Qed.

(* a decidable test for well-formedness: number literals are exactly what pnum reads in full *)
Fixpoint wfb (v : json) : bool :=
  match v with
  | JNum lit => match pnum lit with Some (l, []) => bytes_eqb l lit | _ => false end
  | JArr l => forallb wfb l
  | JObj l => forallb (fun kv => wfb (snd kv)) l
  | _ => true
  end.

Lemma bytes_eqb_true a : forall b, bytes_eqb a b = true -> a = b.
Proof.
  induction a as [|x a IH]; intros [|y b] H; simpl in H; try discriminate; [reflexivity|].
  apply andb_prop in H. destruct H as [H1 H2]. apply N.eqb_eq in H1. subst. f_equal. apply IH. exact H2.
Qed.

Theorem wfb_sound : forall v, wfb v = true -> wf v.
Proof.
  induction v as [|b|lit|s|l IH|l IH] using json_ind'; intros H; try constructor.
  - cbn [wfb] in H. destruct (pnum lit) as [[l r]|] eqn:E; [|discriminate]. destruct r; [|discriminate].
    apply bytes_eqb_true in H. subst l. eapply pnum_sound. exact E.
  - cbn [wfb] in H. rewrite forallb_forall in H. rewrite Forall_forall in *. intros x Hx. apply IH; [exact Hx|apply H; exact Hx].
  - cbn [wfb] in H. rewrite forallb_forall in H. rewrite Forall_forall in *. intros x Hx. apply IH; [exact Hx|apply H; exact Hx].
Qed.
