(* C06 — Cancellation reaches exactly the cancelled call's handler, and nothing else.
   Model: Resp.v (handling table and handler contexts of one connection). Statements only; proofs in Resp_Proofs.v. *)
From Coq Require Import List NArith Bool String.
Import ListNotations.
From JR Require Import Resp Resp_Proofs.
From JRGen Require Extracted.
From JR Require Skeletons.
Open Scope N_scope.

Theorem c06_source_facts :
  Extracted.handleCall_ctx_derivation = "context.WithCancel(ctx)"%string /\
  Extracted.wsCancel = "xrpc.cancel"%string /\ Extracted.guard_cancel_norm = true.
Proof. repeat split; reflexivity. Qed.

(* nothing but these five events ever cancels the context of call id: its own cancel request while it is being
   handled, its own completion (not a kept subscription), and the three ways a connection ends *)
Theorem c06_only_causes : forall s e s' id,
  rstep s e = Some s' -> is_cancelled s id = false -> is_cancelled s' id = true ->
  e = SCancelRecv id true \/ e = SDone id false \/ e = SCifCancelled \/ e = SExit \/ e = SCtxCancelled.
Proof. exact cancel_causes. Qed.

(* a cancel request is accepted only for a call whose caller cancelled, and touches no other call *)
Theorem c06_needs_caller : forall s id found s', rstep s (SCancelRecv id found) = Some s' -> memn id (cancel_req s) = true.
Proof. exact cancel_needs_caller. Qed.

Theorem c06_no_crosstalk : forall s a found s' b,
  rstep s (SCancelRecv a found) = Some s' -> b <> a -> is_cancelled s' b = is_cancelled s b.
Proof. exact cancel_no_crosstalk. Qed.

(* delivery: a cancel request that finds the call in the table cancels that call's context; kept subscriptions
   stay in the table after their call returned (SDone _ true changes nothing), so the same holds for them *)
Theorem c06_delivery : forall s id s',
  rstep s (SCancelRecv id true) = Some s' -> memn id (handling s) = true /\ is_cancelled s' id = true.
Proof. exact cancel_delivery. Qed.

Theorem c06_subscription_kept : forall s id s', rstep s (SDone id true) = Some s' -> s' = s.
Proof. intros s id s' H. simpl in H. congruence. Qed.

(* what handlers observe is exactly the model's cancellation state *)
Theorem c06_observed_cancel_is_real : forall s id s', rstep s (HCtxDone id) = Some s' -> is_cancelled s id = true.
Proof. exact observed_cancel_is_real. Qed.

(* ids never alias in the handling table (two calls under one id are not a behaviour) *)
Theorem c06_no_aliasing : forall s id s',
  rstep s (SRegister id) = Some s' -> memn id (handling s) = false /\ memn id (known s) = false.
Proof. exact register_fresh. Qed.

(* the functions this property's model is an abstraction of still have the control / locking / shared-state skeleton the
   model was written against (Skeletons.v, by hand; Extracted.v, regenerated from /repo) *)
Theorem c06_code_skeletons :
  JRGen.Extracted.effects_handleCall = JR.Skeletons.handleCall /\
  JRGen.Extracted.effects_cancelCtx = JR.Skeletons.cancelCtx /\
  JRGen.Extracted.effects_handleCtxAsync = JR.Skeletons.handleCtxAsync /\
  JRGen.Extracted.effects_setupRequestChan = JR.Skeletons.setupRequestChan.
Proof. repeat split; reflexivity. Qed.

Print Assumptions c06_code_skeletons.
Print Assumptions c06_source_facts.
Print Assumptions c06_only_causes.
Print Assumptions c06_needs_caller.
Print Assumptions c06_no_crosstalk.
Print Assumptions c06_delivery.
Print Assumptions c06_subscription_kept.
Print Assumptions c06_observed_cancel_is_real.
Print Assumptions c06_no_aliasing.
